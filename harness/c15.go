package main

// C15 — git-bug never disturbs the host repository and writes only valid git data.
//
// A host repository is set up with stock git (branches, tags, notes, stash, a custom ref, remotes and
// remote-tracking branches, packed or loose refs, attached or detached HEAD, a dirty work tree, a populated
// index, hooks, foreign configuration with or without multi-valued keys / comments). A generated session
// of git-bug actions is run on it, each action either through the library or through the git-bug binary
// built from the tree under test ($VERIF_GITBUG). Stock git is used to look at the repository before and
// after: every ref, HEAD, the index bytes, the work tree, the local configuration (keys, values, comment
// lines), every other file of the git directory; then git fsck --strict, a mirror clone over the transport
// with transfer.fsckObjects + gc + fsck, a push into a bare repository with receive.fsckObjects, and every
// tree and commit object that appeared in the object store during the session (entries as stored; author and
// committer lines; the "extra" tree of every commit made of several operations). coq/K_C15.v compares with the
// frame model (Frame.v).
//
// The library actions of a session either open the repository anew each time (like the binary) or share one opened
// repository (input "keep": a long-lived process, like the web and terminal interfaces). Between git-bug's actions the
// host's user may run stock git (pack-refs, gc, fetch): the repository is looked at just before and just after such a
// command, and what git-bug must leave alone is compared over every stretch between two of them. After every action
// git for-each-ref is asked which references it finds broken.
//
// Some hosts are clones (symbolic references below refs/: refs/remotes/origin/HEAD, an alias branch), some hold regular
// files only; every host is in the middle of some work: staged but uncommitted changes, an amended commit only the reflog
// knows, a dangling object, possibly a stash with two entries. A few sessions create or pull MANY entities ("bulk": more
// than a hundred references) so that anything triggered by size is reached. Observed besides: whether git for-each-ref
// completes after every action, the lines that appeared in packed-refs, the objects of the object store that disappeared,
// what the host's user sees of his own work (stash entries as patches, the staged change as a patch, the reflogs walked)
// at both ends of every stretch, and whether git commit of what was staged works on a copy of the repository.

import (
	"bytes"
	"crypto/sha256"
	"encoding/json"
	"fmt"
	"io/fs"
	"os"
	"os/exec"
	"path/filepath"
	"reflect"
	"regexp"
	"sort"
	"strings"
	"time"

	"github.com/99designs/keyring"
	"github.com/MichaelMure/git-bug/bridge/core"
	"github.com/MichaelMure/git-bug/entities/bug"
	"github.com/MichaelMure/git-bug/entities/identity"
	"github.com/MichaelMure/git-bug/entity"
	"github.com/MichaelMure/git-bug/repository"
)

type c15Action struct {
	K      string `json:"k"`             // kind, see c15Session.do
	Via    string `json:"via,omitempty"` // "cli" | "lib"; "" = not git-bug: the second user ("peer") or the host's user running stock git ("pack-refs", "gc", "git-fetch")
	E      int    `json:"e,omitempty"`   // ordinal choosing the entity / identity
	N      int    `json:"n,omitempty"`   // number of attachments, labels, keys
	S      string `json:"s,omitempty"`   // text argument (bridge name, hostile id)
	Remote string `json:"remote,omitempty"`
	Cwd    string `json:"cwd,omitempty"` // run the binary from this sub-directory of the work tree
	Short  bool   `json:"short,omitempty"`
	F      []int  `json:"f,omitempty"` // "multi": number of attached files of each staged operation
}

type c15Host struct {
	Cfg          []string `json:"cfg"`             // multi-url multi-branch comments valueless (benign foreign configuration is always there)
	Clone        bool     `json:"clone,omitempty"` // like a clone: refs/remotes/origin/HEAD is a symbolic reference; a symbolic branch refs/heads/alias
	Plain        bool     `json:"plain,omitempty"` // the committed files are regular files only (no symbolic link)
	Packed       bool     `json:"packed,omitempty"`
	Detached     bool     `json:"detached,omitempty"`
	Stash        bool     `json:"stash,omitempty"`
	Notes        bool     `json:"notes,omitempty"`
	SecondRemote bool     `json:"second_remote,omitempty"`
	Linked       bool     `json:"linked,omitempty"` // a linked work tree (git worktree add); actions with cwd "@wt" run from there
	// what the host's configuration says about the person: "" (user.name = Host User), "user-angle" (user.name = "Jane Doe
	// <jane@acme.com>", the common mistake), "user-email-angle" (user.email = "<jane@acme.com>"), "author-set" (author.* and
	// committer.* set), "author-half" (only author.name), "author-angle" (author.name / committer.email with angle brackets)
	Ident string `json:"ident,omitempty"`
}

type c15Input struct {
	Host    c15Host     `json:"host"`
	Actions []c15Action `json:"actions"`
	// the library actions of the session share ONE opened repository, like the web interface, the terminal interface or any
	// program built on the library (a long-lived process); otherwise every action opens the repository anew, like the binary
	Keep bool `json:"keep,omitempty"`
}

type c15Driver struct{}

func init() { register("C15", c15Driver{}) }

// ------------------------------------------------------------------ generator

func c15GenSession(r *Rand, i int, maxActions int) c15Input {
	var in c15Input
	// host configuration: half of the sessions have nothing go-git is known to lose
	switch i % 6 {
	case 0, 1, 2:
	case 3:
		in.Host.Cfg = []string{"multi-url"}
	case 4:
		in.Host.Cfg = []string{"multi-branch"}
	case 5:
		for _, f := range []string{"multi-url", "multi-branch", "comments", "valueless"} {
			if r.Chance(1, 2) {
				in.Host.Cfg = append(in.Host.Cfg, f)
			}
		}
		if len(in.Host.Cfg) == 0 {
			in.Host.Cfg = []string{[]string{"comments", "valueless"}[r.Intn(2)]}
		}
	}
	in.Host.Packed = r.Chance(1, 2)
	in.Host.Detached = r.Chance(1, 4)
	in.Host.Stash = r.Chance(1, 3)
	in.Host.Notes = r.Chance(1, 2)
	in.Host.SecondRemote = r.Chance(1, 3)
	in.Host.Linked = r.Chance(1, 4)
	switch x := r.Intn(24); {
	case x < 4:
		in.Host.Ident = "user-angle"
	case x < 6:
		in.Host.Ident = "user-email-angle"
	case x < 9:
		in.Host.Ident = "author-set"
	case x < 11:
		in.Host.Ident = "author-half"
	case x < 13:
		in.Host.Ident = "author-angle"
	}
	mode := []string{"cli", "lib", "mixed"}[r.Intn(3)]
	via := func() string {
		switch mode {
		case "cli":
			return "cli"
		case "lib":
			return "lib"
		}
		if r.Bool() {
			return "cli"
		}
		return "lib"
	}
	cwd := func() string {
		if in.Host.Linked && r.Chance(1, 2) {
			return "@wt"
		}
		if r.Chance(1, 4) {
			return "d"
		}
		return ""
	}
	remote := func() string {
		if in.Host.SecondRemote && r.Chance(1, 3) {
			return "backup"
		}
		return "origin"
	}
	// several operations staged on one bug and committed together (what the web and terminal interfaces and the
	// bridges do through the library): the files of all of them are referenced by one "extra" tree
	multi := func(a *c15Action, create bool) {
		a.K, a.Via, a.S = "multi", "lib", ""
		if create {
			a.S = "new"
		}
		for k := r.Range(2, 4); k > 0; k-- {
			a.F = append(a.F, []int{0, 1, 1, 1, 2, 3}[r.Intn(6)])
		}
	}
	// a long-lived process: the library actions share one opened repository
	in.Keep = mode != "cli" && r.Chance(1, 2)
	// the host's user looks after the repository with stock git
	maint := func() c15Action {
		kinds := []string{"pack-refs", "pack-refs", "gc", "gc", "git-fetch", "git-fetch"}
		if in.Keep {
			// go-git does not look for new packs once it has listed them: after a git gc a long-lived process mostly fails
			// to read ("object not found") and little else is exercised, so collect less often there
			kinds = []string{"pack-refs", "pack-refs", "pack-refs", "gc", "git-fetch", "git-fetch"}
		}
		a := c15Action{K: kinds[r.Intn(6)], N: r.Intn(6)}
		if a.K == "git-fetch" {
			a.Remote = remote()
		}
		return a
	}
	in.Actions = append(in.Actions, c15Action{K: "user-new", Via: via(), Cwd: cwd()})
	for k := r.Range(0, 2); k > 0; k-- {
		a := c15Action{K: "bug-new", Via: via(), Cwd: cwd()}
		if a.Via == "lib" && r.Chance(1, 2) {
			a.N = r.Range(1, 12)
		} else if a.Via == "lib" && r.Chance(1, 2) {
			a.E = r.Intn(1000)
			multi(&a, true)
		}
		in.Actions = append(in.Actions, a)
	}
	n := r.Range(3, maxActions)
	wiped := false
	for len(in.Actions) < n {
		a := c15Action{Via: via(), E: r.Intn(1000), Cwd: cwd()}
		switch x := r.Intn(45); {
		case x < 6:
			a.K = "bug-new"
			if a.Via == "lib" && r.Chance(1, 2) {
				a.N = r.Range(1, 12)
			}
		case x < 11:
			a.K = "comment"
			if a.Via == "lib" && r.Chance(1, 2) {
				a.N = r.Range(1, 3)
			}
		case x < 13:
			a.K = "comment-edit"
		case x < 15:
			a.K = "title"
		case x < 17:
			a.K = "status"
		case x < 20:
			a.K = "label"
			a.N = r.Range(1, 3)
		case x < 21:
			a.K, a.Via = "metadata", "lib"
		case x < 22:
			a.K, a.Via = "select", "cli"
		case x < 24:
			a.K, a.Via = []string{"ls", "show", "user-ls", "bridge-ls", "label-ls"}[r.Intn(5)], "cli"
		case x < 27:
			a.K, a.Remote = "push", remote()
		case x < 30:
			a.K, a.Remote = "pull", remote()
		case x < 33:
			a.K, a.Via, a.Remote = "peer", "", remote()
			a.N = r.Range(1, 3)
		case x < 34:
			a.K = "rm"
		case x < 35:
			if r.Chance(1, 3) {
				a.K, a.Via = "identity-rm", "lib"
			} else {
				a.K = "bug-new"
			}
		case x < 37:
			a.K, a.Via, a.S = "bridge-conf", "lib", []string{"default", "gh", "my.tracker", "Work-1"}[r.Intn(4)]
			a.N = r.Range(1, 4)
		case x < 38:
			a.K, a.S = "bridge-rm", []string{"default", "gh", "my.tracker", "Work-1"}[r.Intn(4)]
		case x < 39:
			if r.Bool() {
				a.K = "user-new"
			} else {
				a.K = "user-adopt"
			}
		case x < 42:
			a = maint()
		default:
			multi(&a, r.Chance(1, 4))
		}
		a.Short = a.Via == "cli" && r.Chance(1, 3)
		in.Actions = append(in.Actions, a)
		if !wiped && len(in.Actions) > 4 && r.Chance(1, 40) {
			in.Actions = append(in.Actions, c15Action{K: "wipe", Via: via()})
			wiped = true
		}
	}
	if !wiped && r.Chance(1, 4) {
		// rounds of synchronisation with stock git's maintenance in between: what was fetched or pushed before is packed,
		// collected or fetched again by the host's user, the second user goes on, git-bug synchronises again
		rem := remote()
		in.Actions = append(in.Actions, c15Action{K: []string{"pull", "push"}[r.Intn(2)], Via: via(), Remote: rem, Cwd: cwd()})
		for k := 1 + r.Intn(3)/2; k > 0; k-- {
			m := maint()
			if m.K == "git-fetch" {
				m.Remote = rem
			}
			in.Actions = append(in.Actions, m, c15Action{K: "peer", Remote: rem, E: r.Intn(1000), N: r.Range(1, 3)},
				c15Action{K: "pull", Via: via(), Remote: rem, Cwd: cwd()})
		}
	}
	if !wiped && r.Chance(1, 8) {
		// the session ends with git-bug being removed from the repository
		in.Actions = append(in.Actions, c15Action{K: "wipe", Via: via(), Cwd: cwd()})
	}
	if r.Chance(1, 10) {
		// an id that was never checked (library call): must not reach anything outside the namespace
		pos := r.Range(1, len(in.Actions))
		h := c15Action{K: "rm-hostile", Via: "lib", S: []string{"../heads/feature/x", "../tags/v1", "../../refs/heads/main", "../remotes/origin/main", "../custom/thing"}[r.Intn(5)]}
		in.Actions = append(in.Actions[:pos], append([]c15Action{h}, in.Actions[pos:]...)...)
	}
	// (drawn last, so that the sessions generated before these existed stay what they were)
	// the kind of repository: a clone (symbolic references below refs/), regular files only
	in.Host.Clone = r.Chance(1, 2)
	in.Host.Plain = r.Chance(1, 2)
	if i%25 == 11 {
		// (one session in twenty-five, evenly spread: these are the biggest cases, no two of them in one shard)
		// MANY entities at once (an import, a big pull): whatever is triggered by the number of references or objects is
		// reached; the rest of the session goes on in a repository of that size
		pos := r.Range(1, len(in.Actions))
		var b c15Action
		if r.Chance(1, 3) {
			b = c15Action{K: "peer", Remote: "origin", S: "new", E: r.Intn(1000), N: r.Range(51, 60)} // the next pull brings them all (two references each)
			if !c15HasAfter(in.Actions, pos, "pull") {
				in.Actions = append(in.Actions, c15Action{K: "pull", Via: via(), Remote: "origin"})
			}
		} else {
			b = c15Action{K: "bulk", Via: "lib", N: r.Range(96, 116)}
		}
		in.Actions = append(in.Actions[:pos], append([]c15Action{b}, in.Actions[pos:]...)...)
		if r.Chance(1, 2) {
			// ... and something is removed afterwards
			in.Actions = append(in.Actions, c15Action{K: "rm", Via: via(), E: r.Intn(1000)})
		}
	}
	return in
}

func c15HasAfter(as []c15Action, pos int, k string) bool {
	for _, a := range as[pos:] {
		if a.K == k && a.Remote != "backup" {
			return true
		}
	}
	return false
}

func (c15Driver) Gen(r *Rand, tier string) []json.RawMessage {
	n, maxA := 100, 16 // 100 random sessions + 8 targeted maintenance sessions + 4 sessions with many entities: as many cases as before those were added
	if tier == "thorough" {
		n, maxA = 1800, 30
	}
	var res []json.RawMessage
	// the smallest sessions first: one stored key on every kind of host configuration
	tg := c15Targeted()
	big, tg := tg[len(tg)-4:], tg[:len(tg)-4] // the sessions with many entities: the biggest cases, spread over the first two shards (the smallest cases)
	for _, cfg := range [][]string{nil, {"multi-url"}, {"multi-branch"}, {"comments"}, {"valueless"}, {"multi-url", "multi-branch", "comments"}} {
		for _, via := range []string{"cli", "lib"} {
			res = append(res, mustJSON(c15Input{Host: c15Host{Cfg: cfg, Packed: via == "cli", Notes: true}, Actions: []c15Action{{K: "user-new", Via: via}}}))
			switch len(res) {
			case 1, 3, 8, 10:
				res = append(res, big[0])
				big = big[1:]
			}
		}
	}
	res = append(res, tg...)
	for i := 0; i < n; i++ {
		res = append(res, mustJSON(c15GenSession(r.Fork(), i, maxA)))
	}
	return res
}

// c15Targeted: fixed sessions aimed at three places where a frame or validity defect can hide from random sessions
func c15Targeted() []json.RawMessage {
	var res []json.RawMessage
	// (1) everything git-bug has is removed again (git bug wipe / RemoveAll) on a host whose remotes have ordinary
	// branches and whose repository has custom references named like the namespaces (bugs-triage, identities-old,
	// refs/bugs-archive/..): only git-bug's own references may disappear
	for _, via := range []string{"cli", "lib"} {
		lib := via == "lib"
		acts := []c15Action{{K: "user-new", Via: via}, {K: "bug-new", Via: via}, {K: "push", Via: via, Remote: "origin"},
			{K: "peer", Remote: "origin", N: 2}, {K: "pull", Via: via, Remote: "origin"}}
		if lib {
			acts = append(acts, c15Action{K: "push", Via: via, Remote: "backup"})
		}
		acts = append(acts, c15Action{K: "wipe", Via: via})
		res = append(res, mustJSON(c15Input{Host: c15Host{SecondRemote: lib, Packed: !lib, Notes: true, Clone: lib, Plain: !lib, Stash: !lib}, Actions: acts}))
		// removal of one entity at a time, then the rest
		res = append(res, mustJSON(c15Input{Host: c15Host{SecondRemote: !lib, Packed: lib, Clone: !lib, Plain: lib, Stash: lib}, Actions: []c15Action{{K: "user-new", Via: via},
			{K: "bug-new", Via: via}, {K: "bug-new", Via: via}, {K: "push", Via: via, Remote: "origin"}, {K: "rm", Via: via, E: 1},
			{K: "wipe", Via: via}}}))
	}
	// (2) several operations with attachments in one commit: distinct files, files shared between operations, an
	// operation without files in between, a bug created and commented before its first commit
	for _, fs := range [][][]int{{{1, 1}, {2, 0, 1}, {1, 1, 1, 1}}, {{2, 1, 3}, {0, 1, 1}, {3, 3}}} {
		acts := []c15Action{{K: "user-new", Via: "lib"}, {K: "bug-new", Via: "lib", N: 2}}
		for i, f := range fs {
			a := c15Action{K: "multi", Via: "lib", E: 3 + 5*i + len(res), F: f}
			if i == 0 {
				a.S = "new"
			}
			acts = append(acts, a)
		}
		acts = append(acts, c15Action{K: "comment", Via: "lib", E: 1, N: 2}, c15Action{K: "push", Via: "lib", Remote: "origin"})
		res = append(res, mustJSON(c15Input{Host: c15Host{Stash: true}, Actions: acts}))
	}
	// (3) what the host's configuration says about the person must not make the commits malformed
	for i, id := range []string{"user-angle", "user-angle", "user-email-angle", "author-set", "author-half", "author-angle"} {
		via := []string{"cli", "lib"}[i%2]
		res = append(res, mustJSON(c15Input{Host: c15Host{Ident: id, Notes: i%2 == 0}, Actions: []c15Action{{K: "user-new", Via: via},
			{K: "bug-new", Via: via}, {K: "comment", Via: via}, {K: "peer", Remote: "origin", N: 1}, {K: "pull", Via: via, Remote: "origin"},
			{K: "push", Via: via, Remote: "origin"}}}))
	}
	// (4) a long-lived process (one opened repository for the whole session, like the web and terminal interfaces) and
	// stock git's maintenance between two synchronisations: the references git-bug wrote are packed (git pack-refs, git gc),
	// collected, fetched again or pruned by the host's user; the second user goes on; git-bug synchronises again
	for i, ms := range [][2]c15Action{
		{{K: "pack-refs"}, {K: "gc"}},
		{{K: "pack-refs", N: 1}, {K: "pack-refs"}},
		{{K: "git-fetch", N: 1, Remote: "origin"}, {K: "pack-refs"}},
		{{K: "git-fetch", N: 2, Remote: "origin"}, {K: "pack-refs"}},
		{{K: "git-fetch", N: 0, Remote: "origin"}, {K: "gc", N: 1}},
		{{K: "gc"}, {K: "pack-refs"}},
		{{K: "gc", N: 2}, {K: "gc"}},
		{{K: "pack-refs", N: 1}, {K: "gc", N: 1}}} {
		via, keep := "lib", true
		if i >= 6 {
			via, keep = "cli", false // the same through the binary: every command is a process of its own
		}
		acts := []c15Action{{K: "user-new", Via: via}, {K: "bug-new", Via: via}, {K: "push", Via: via, Remote: "origin"},
			{K: "peer", Remote: "origin", N: 2}}
		if i%2 == 0 {
			acts = append(acts, c15Action{K: "pull", Via: via, Remote: "origin"})
		}
		acts = append(acts, ms[0], c15Action{K: "peer", Remote: "origin", N: 2}, c15Action{K: "pull", Via: via, Remote: "origin"},
			c15Action{K: "comment", Via: via}, c15Action{K: "push", Via: via, Remote: "origin"},
			ms[1], c15Action{K: "peer", Remote: "origin", N: 1, E: 2}, c15Action{K: "pull", Via: via, Remote: "origin"})
		res = append(res, mustJSON(c15Input{Keep: keep, Host: c15Host{Packed: i%2 == 1, Notes: i%3 == 0, Linked: i == 4, Clone: i%4 == 1, Plain: i%4 == 2}, Actions: acts}))
	}
	// (5) MANY entities (an import, a big pull): more than a hundred references come into being in one library session, in
	// a repository that is a clone (symbolic references refs/remotes/origin/HEAD, refs/heads/alias) and whose user is in
	// the middle of some work (staged changes, an amended commit, two stash entries, a dangling object); then the binary
	// and the library go on in that repository, something is removed, the host's user packs, the second user goes on.
	// Whatever git-bug does by itself once the repository is big (packing, pruning, compacting) is reached here.
	res = append(res, mustJSON(c15Input{Host: c15Host{Clone: true, Plain: true, Stash: true}, Actions: []c15Action{{K: "user-new", Via: "lib"},
		{K: "bulk", Via: "lib", N: 108}, {K: "bug-new", Via: "cli"}, {K: "comment", Via: "lib", E: 7, N: 1}, {K: "rm", Via: "lib", E: 3},
		{K: "ls", Via: "cli"}, {K: "title", Via: "cli", E: 50, Short: true}}}))
	res = append(res, mustJSON(c15Input{Keep: true, Host: c15Host{Clone: true, Notes: true, Stash: true}, Actions: []c15Action{{K: "user-new", Via: "lib"},
		{K: "bug-new", Via: "lib", N: 2}, {K: "push", Via: "lib", Remote: "origin"}, {K: "peer", Remote: "origin", S: "new", N: 56},
		{K: "pull", Via: "lib", Remote: "origin"}, {K: "comment", Via: "lib", E: 5}, {K: "pack-refs"}, {K: "peer", Remote: "origin", N: 3, E: 1},
		{K: "pull", Via: "lib", Remote: "origin"}, {K: "rm", Via: "lib", E: 11}}}))
	res = append(res, mustJSON(c15Input{Host: c15Host{Clone: true, Plain: true, Packed: true, Detached: true}, Actions: []c15Action{{K: "user-new", Via: "cli"},
		{K: "bulk", Via: "lib", N: 101}, {K: "bug-new", Via: "cli"}, {K: "rm", Via: "cli", E: 40, Short: true}, {K: "peer", Remote: "origin", S: "new", N: 4},
		{K: "pull", Via: "cli", Remote: "origin"}, {K: "wipe", Via: "cli"}}}))
	res = append(res, mustJSON(c15Input{Keep: true, Host: c15Host{Plain: true, Stash: true, Linked: true, SecondRemote: true}, Actions: []c15Action{{K: "user-new", Via: "lib"},
		{K: "bulk", Via: "lib", N: 30}, {K: "push", Via: "lib", Remote: "backup"}, {K: "rm", Via: "lib", E: 2}, {K: "gc", N: 1}, {K: "bug-new", Via: "cli", Cwd: "@wt"},
		{K: "wipe", Via: "lib"}}}))
	return res
}

// ------------------------------------------------------------------ running stock git and the binary

type c15Session struct {
	in      c15Input
	root    string // scratch directory
	host    string // work tree of the host repository
	gitdir  string
	home    string
	gb      string // the git-bug binary
	env     []string
	peer    repository.TestedRepo
	peerN   int
	peerIDs map[string]*identity.Identity
	counter int
	coq     []string // model actions
	log     []map[string]interface{}
	tags    map[string]bool
	wrote   bool
	cwd     string // of the action being run

	kept                  repository.TestedRepo // the repository opened once for the whole session (input "keep")
	breaks                [][2]c15Snap          // around every command of the host's user (stock git): the repository just before and just after it
	nHostUser             int                   // number of commands of the host's user
	maintBad              []string              // commands of the host's user that stock git refused to complete
	broken                map[string]string     // references stock git reports as broken -> when it was first seen
	refNotice             map[string]bool       // every other warning or error line of git for-each-ref
	unreadable            []int                 // numbers of the actions after which git for-each-ref did not complete
	unreadMsg             string                // what it said the first time
	lastObjs              map[string]bool       // the object files as they were after the previous action (to name the action that loses objects)
	stretch               c15Snap               // the repository at the start of the current stretch (the session's start, or just after the last command of the host's user)
	packedAdded, lostObjs []string              // over all stretches: lines that appeared in packed-refs, objects that disappeared
	probeRes              []c15Probe            // over all stretches: the views of the host's own work at both ends
	lostAt                string                // the first action of git-bug after which objects of the object store were gone

	harvested  map[string]bool // objects already read by written()
	seenTrees  []c15Tree
	seenIdents [][2]string
	harvestErr error
	objsBefore map[string]string // the trees and commits the host had before the session
	extras     []c15Extra        // per commit of several staged operations: their files, the "extra" tree that was stored
}

// c15Extra: one commit made of several operations
type c15Extra struct {
	Ops    [][]string // the files (blob ids) of each operation, as given to the library
	Commit string
	Tree   string // id of the tree stored as "extra" ("" = none)
}

func (s *c15Session) git(dir string, args ...string) (string, error) {
	cmd := exec.Command("git", args...)
	cmd.Dir = dir
	cmd.Env = s.env
	var out bytes.Buffer
	cmd.Stdout = &out
	cmd.Stderr = &out
	err := cmd.Run()
	return out.String(), err
}

func (s *c15Session) mustGit(dir string, args ...string) string {
	out, err := s.git(dir, args...)
	if err != nil {
		panic(fmt.Sprintf("harness: git %v in %s: %v\n%s", args, dir, err, out))
	}
	return out
}

// dirOf: where an action is run from: the work tree, one of its sub-directories, or the linked work tree
func (s *c15Session) dirOf(cwd string) string {
	if cwd == "@wt" {
		if s.in.Host.Linked {
			return filepath.Join(s.root, "wt")
		}
		return s.host
	}
	return filepath.Join(s.host, cwd)
}

func (s *c15Session) cli(cwd string, args ...string) (string, string, error) {
	cmd := exec.Command(s.gb, args...)
	cmd.Dir = s.dirOf(cwd)
	cmd.Env = s.env
	var out, errb bytes.Buffer
	cmd.Stdout = &out
	cmd.Stderr = &errb
	cmd.Stdin = strings.NewReader("")
	done := make(chan error, 1)
	if err := cmd.Start(); err != nil {
		return "", "", err
	}
	go func() { done <- cmd.Wait() }()
	select {
	case err := <-done:
		return out.String(), errb.String(), err
	case <-time.After(90 * time.Second):
		_ = cmd.Process.Kill()
		<-done
		return out.String(), errb.String(), fmt.Errorf("timeout")
	}
}

func c15Write(path, content string, mode os.FileMode) {
	if err := os.MkdirAll(filepath.Dir(path), 0o755); err != nil {
		panic(err)
	}
	if err := os.WriteFile(path, []byte(content), mode); err != nil {
		panic(err)
	}
}

const c15BenignConfig = `[alias]
	st = status
	lg = "log --graph --pretty=format:\"%h %s\" ; echo"
	sp = "  leading and trailing  "
	bs = a\\b\tc
[credential]
	helper = store
	helper = cache --timeout=30
[credential "https://example.org"]
	username = joe
[http]
	extraHeader = A: b
	extraHeader = C: d
[include]
	path = ~/nonexistent.inc
[Foo "Bar.Baz"]
	CamelKey = Value
	empty =
[core]
	autocrlf = input
[submodule "lib/x"]
	url = https://example.org/x.git
	active = true
[pack]
	window = 5
[gc]
	auto = 0
[user]
	signingKey = ABCDEF
[remote "origin"]
	fetch = +refs/tags/*:refs/tags/*
	push = refs/heads/main
	push = refs/heads/feature/x
	tagOpt = --no-tags
`

func (s *c15Session) setupHost() {
	var err error
	s.root, err = os.MkdirTemp("", "verif-c15-")
	if err != nil {
		panic(err)
	}
	s.host = filepath.Join(s.root, "host")
	s.gitdir = filepath.Join(s.host, ".git")
	s.home = filepath.Join(s.root, "home")
	_ = os.MkdirAll(s.home, 0o755)
	_ = os.MkdirAll(s.host, 0o755)
	s.env = []string{"HOME=" + s.home, "PATH=" + os.Getenv("PATH"), "GIT_CONFIG_NOSYSTEM=1", "LC_ALL=C", "TZ=UTC",
		"GIT_AUTHOR_NAME=Host User", "GIT_AUTHOR_EMAIL=host@example.org", "GIT_COMMITTER_NAME=Host User", "GIT_COMMITTER_EMAIL=host@example.org",
		"GIT_AUTHOR_DATE=2020-01-01T00:00:00Z", "GIT_COMMITTER_DATE=2020-01-01T00:00:00Z", "GIT_TERMINAL_PROMPT=0", "EDITOR=true", "GIT_EDITOR=true",
		// every process linking 99designs/keyring would otherwise auto-launch a dbus-daemon and leave it behind
		"DBUS_SESSION_BUS_ADDRESS=unix:path=/nonexistent"}
	os.Setenv("HOME", s.home)
	os.Setenv("DBUS_SESSION_BUS_ADDRESS", "unix:path=/nonexistent")
	os.Unsetenv("XDG_CONFIG_HOME")
	h := s.host
	s.mustGit(h, "init", "-q", "-b", "main", ".")
	s.mustGit(h, "config", "user.name", "Host User")
	s.mustGit(h, "config", "user.email", "host@example.org")
	switch s.in.Host.Ident {
	case "user-angle":
		// the common mistake: the address typed into the name; stock git copes (it strips '<' and '>')
		s.mustGit(h, "config", "user.name", "Jane Doe <jane@acme.com>")
		s.mustGit(h, "config", "user.email", "jane@acme.com")
	case "user-email-angle":
		s.mustGit(h, "config", "user.name", "Jane Doe")
		s.mustGit(h, "config", "user.email", "<jane@acme.com>")
	case "author-set":
		s.mustGit(h, "config", "author.name", "Bug Author")
		s.mustGit(h, "config", "author.email", "author@example.org")
		s.mustGit(h, "config", "committer.name", "Bug Committer")
		s.mustGit(h, "config", "committer.email", "committer@example.org")
	case "author-half":
		s.mustGit(h, "config", "author.name", "Only Author")
	case "author-angle":
		s.mustGit(h, "config", "author.name", "Jane Doe <jane@acme.com>")
		s.mustGit(h, "config", "author.email", "jane@acme.com")
		s.mustGit(h, "config", "committer.name", "Jane Doe")
		s.mustGit(h, "config", "committer.email", "<jane@acme.com>")
	}
	c15Write(filepath.Join(h, "a.txt"), "alpha\n", 0o644)
	c15Write(filepath.Join(h, "d", "b.txt"), "beta\n", 0o644)
	c15Write(filepath.Join(h, "d", "sp ace.txt"), "space\n", 0o644)
	c15Write(filepath.Join(h, "exe.sh"), "#!/bin/sh\nexit 0\n", 0o755)
	c15Write(filepath.Join(h, "gone.txt"), "to be deleted\n", 0o644)
	c15Write(filepath.Join(h, ".gitignore"), "*.tmp\n", 0o644)
	if !s.in.Host.Plain {
		_ = os.Symlink("a.txt", filepath.Join(h, "link"))
	}
	s.mustGit(h, "add", ".")
	s.mustGit(h, "commit", "-q", "-m", "one")
	s.mustGit(h, "branch", "feature/x")
	s.mustGit(h, "tag", "v1")
	s.mustGit(h, "tag", "-a", "v2", "-m", "annotated")
	c15Write(filepath.Join(h, "a.txt"), "alpha\nsecnd\n", 0o644)
	c15Write(filepath.Join(h, "old.txt"), "only in the commit that was amended\n", 0o644)
	s.mustGit(h, "add", "old.txt")
	s.mustGit(h, "commit", "-q", "-am", "two")
	// ... amended: the first version of the commit, its tree and the two blobs are known to the reflog only
	// (git reset --hard HEAD@{1} must stay possible)
	c15Write(filepath.Join(h, "a.txt"), "alpha\nsecond\n", 0o644)
	s.mustGit(h, "rm", "-q", "-f", "old.txt")
	s.mustGit(h, "commit", "-q", "--amend", "-am", "two")
	// an object nothing refers to (git hash-object -w: a blob written by some tool, an interrupted git add)
	c15Write(filepath.Join(s.root, "dangling.txt"), "an object nothing refers to\n", 0o644)
	s.mustGit(h, "hash-object", "-w", filepath.Join(s.root, "dangling.txt"))
	s.mustGit(h, "update-ref", "refs/custom/thing", "HEAD")
	// the host's own references whose names merely begin like git-bug's namespaces
	s.mustGit(h, "update-ref", "refs/bugs-archive/thing", "HEAD")
	s.mustGit(h, "update-ref", "refs/identities-old/thing", "HEAD~1")
	if s.in.Host.Notes {
		s.mustGit(h, "notes", "add", "-m", "a note", "HEAD")
	}
	// remotes, created and filled by stock git
	rem := filepath.Join(s.root, "remote.git")
	s.mustGit(s.root, "init", "-q", "--bare", "-b", "main", rem)
	s.mustGit(h, "remote", "add", "origin", rem)
	// ... among them ordinary branches whose names begin like the namespaces: refs/remotes/origin/bugs-triage is the host's
	s.mustGit(h, "push", "-q", "origin", "main", "feature/x", "v1", "main:bugs-triage", "feature/x:bugsnag-upgrade", "main:identities-old")
	s.mustGit(h, "fetch", "-q", "origin")
	s.mustGit(h, "branch", "-q", "-u", "origin/main", "main")
	if s.in.Host.Clone {
		// what git clone leaves behind: the symbolic reference refs/remotes/origin/HEAD; and a branch that is an alias of another
		s.mustGit(h, "remote", "set-head", "origin", "main")
		s.mustGit(h, "symbolic-ref", "refs/heads/alias", "refs/heads/feature/x")
	}
	// somebody else tagged, on the remote, a commit the host already has: a fetch that follows tags would create
	// refs/tags/remote-only in the host
	s.mustGit(rem, "tag", "remote-only", "refs/heads/main")
	if s.in.Host.SecondRemote {
		rem2 := filepath.Join(s.root, "backup.git")
		s.mustGit(s.root, "init", "-q", "--bare", "-b", "main", rem2)
		s.mustGit(h, "remote", "add", "backup", rem2)
		s.mustGit(h, "push", "-q", "backup", "main", "main:bugs-triage", "main:identities.bak")
		s.mustGit(h, "fetch", "-q", "backup")
	}
	if s.in.Host.Stash {
		// two entries: the older one is known to the reflog of refs/stash only
		c15Write(filepath.Join(h, "a.txt"), "alpha\nsecond\nstashed first\n", 0o644)
		c15Write(filepath.Join(h, "d", "b.txt"), "beta, stashed first\n", 0o644)
		s.mustGit(h, "stash", "-q")
		c15Write(filepath.Join(h, "a.txt"), "alpha\nsecond\nstashed\n", 0o644)
		s.mustGit(h, "stash", "-q")
	}
	if s.in.Host.Linked {
		s.mustGit(h, "worktree", "add", "-q", filepath.Join(s.root, "wt"), "-b", "linked")
		c15Write(filepath.Join(s.root, "wt", "a.txt"), "alpha\nsecond\ndirty in the linked work tree\n", 0o644)
		c15Write(filepath.Join(s.root, "wt", "w.txt"), "staged in the linked work tree\n", 0o644)
		s.mustGit(filepath.Join(s.root, "wt"), "add", "w.txt")
	}
	// hooks and other files of the git directory
	c15Write(filepath.Join(s.gitdir, "hooks", "pre-commit"), "#!/bin/sh\nexit 1\n", 0o755)
	c15Write(filepath.Join(s.gitdir, "info", "exclude"), "# host excludes\n*.bak\n", 0o644)
	c15Write(filepath.Join(s.gitdir, "description"), "host repository\n", 0o644)
	// foreign configuration
	cfg := c15BenignConfig
	for _, f := range s.in.Host.Cfg {
		switch f {
		case "multi-url":
			cfg += "[url \"ssh://git@example.org/\"]\n\tinsteadOf = https://example.org/\n\tinsteadOf = http://example.org/\n\tpushInsteadOf = https://push.example.org/\n"
		case "multi-branch":
			cfg += "[branch \"feature/x\"]\n\tremote = origin\n\tmerge = refs/heads/feature/x\n\tmerge = refs/heads/main\n\trebase = true\n"
		case "comments":
			cfg = "# host comment at the top\n" + cfg + "; a semicolon comment\n[color]\n\t# indented comment\n\tui = auto\n"
		case "valueless":
			cfg += "[feature \"Flags\"]\n\tenabled\n\tother = 1\n"
		}
	}
	f, err := os.OpenFile(filepath.Join(s.gitdir, "config"), os.O_APPEND|os.O_WRONLY, 0o644)
	if err != nil {
		panic(err)
	}
	_, _ = f.WriteString(cfg)
	_ = f.Close()
	s.mustGit(h, "config", "--local", "--list") // the configuration must be acceptable to git
	// dirty work tree and populated index
	c15Write(filepath.Join(h, "a.txt"), "alpha\nsecond\ndirty\n", 0o644)
	c15Write(filepath.Join(h, "d", "b.txt"), "beta staged\n", 0o644)
	s.mustGit(h, "add", "d/b.txt")
	c15Write(filepath.Join(h, "d", "b.txt"), "beta staged then modified\n", 0o644)
	c15Write(filepath.Join(h, "s.txt"), "staged new\n", 0o644)
	s.mustGit(h, "add", "s.txt")
	c15Write(filepath.Join(h, "u.txt"), "untracked\n", 0o644)
	c15Write(filepath.Join(h, "ignored.tmp"), "ignored\n", 0o644)
	_ = os.Remove(filepath.Join(h, "gone.txt"))
	if s.in.Host.Detached {
		s.mustGit(h, "checkout", "-q", "--detach")
	}
	if s.in.Host.Packed {
		s.mustGit(h, "pack-refs", "--all")
	}
	s.objsBefore = s.objects()
}

// objects: every tree and commit object of the host's object store (loose or packed, reachable or not)
func (s *c15Session) objects() map[string]string {
	out := s.mustGit(s.host, "cat-file", "--batch-all-objects", "--batch-check=%(objectname) %(objecttype)", "--unordered")
	m := map[string]string{}
	for _, l := range strings.Split(out, "\n") {
		if f := strings.Fields(l); len(f) == 2 && (f[1] == "tree" || f[1] == "commit") {
			m[f[0]] = f[1]
		}
	}
	return m
}

func (s *c15Session) cleanup() {
	s.dropKept()
	if s.peer != nil {
		_ = s.peer.Close()
	}
	if s.root != "" {
		_ = os.RemoveAll(s.root)
	}
}

// ------------------------------------------------------------------ snapshots

type c15Snap struct {
	Refs  [][2]string // name, object
	Head  string
	Index string
	Wt    [][2]string // path, digest of (mode, content)
	Cfg   [][2]string // key, value ("\x00" = key without value)
	Aux   []string    // comment lines
	Files [][2]string // path below the git directory, digest
	// what the host's user sees of his own work through stock git: the stash entries as patches, the staged change as a
	// patch, the reflogs walked: name, digest of the output ("failed: ..." when the command does not complete)
	Probes [][2]string
	Packed []string // the lines of packed-refs
	Objs   []string // every object of the object store (loose or packed, of any type, reachable or not)
}

func c15Digest(b []byte) string { return fmt.Sprintf("%x", sha256.Sum256(b)) }

// shown: the part of a photograph that goes to the model comparison (references, HEAD, index, work tree, configuration, files)
func (sn c15Snap) shown() c15Snap {
	sn.Probes, sn.Packed, sn.Objs = nil, nil, nil
	return sn
}

// c15Probe: one view of the host's own work, at the start and at the end of a stretch
type c15Probe struct {
	Name          string
	Before, After string
}

// endStretch: a stretch in which only git-bug acted ends with the repository as photographed in end: the lines that
// appeared in packed-refs, the objects that disappeared from the object store, the views of the host's own work at both ends
func (s *c15Session) endStretch(end c15Snap) {
	start := s.stretch
	had := map[string]bool{}
	for _, l := range start.Packed {
		had[l] = true
	}
	for _, l := range end.Packed {
		if !had[l] {
			s.packedAdded = append(s.packedAdded, l)
		}
	}
	still := map[string]bool{}
	for _, id := range end.Objs {
		still[id] = true
	}
	for _, id := range start.Objs {
		if !still[id] {
			s.lostObjs = append(s.lostObjs, id)
		}
	}
	am := map[string]string{}
	for _, p := range end.Probes {
		am[p[0]] = p[1]
	}
	for _, p := range start.Probes {
		a, ok := am[p[0]]
		if !ok {
			a = "failed: not there any more"
		}
		s.probeRes = append(s.probeRes, c15Probe{p[0], p[1], a})
		delete(am, p[0])
	}
	for _, p := range end.Probes {
		if a, ok := am[p[0]]; ok {
			s.probeRes = append(s.probeRes, c15Probe{p[0], "failed: was not there", a})
		}
	}
}

func c15FileDigest(p string, info fs.FileInfo) string {
	if info.Mode()&os.ModeSymlink != 0 {
		t, _ := os.Readlink(p)
		return c15Digest([]byte("symlink:" + t))
	}
	b, err := os.ReadFile(p)
	if err != nil {
		return "unreadable:" + err.Error()
	}
	return c15Digest(append([]byte(fmt.Sprintf("%o:", info.Mode().Perm()&0o111)), b...))
}

var c15BrokenRe = regexp.MustCompile(`^(?:warning|error): (?:ignoring )?(broken ref|dangling symref|ref with broken name) (\S+)`)

// refs: what git for-each-ref lists (a symbolic reference: its object and its target); the references it warns about (an
// empty or malformed file below refs/ is a "broken ref" that git skips) are remembered with the moment they were first
// seen; so is every time the command does not complete at all (exit status: stock git cannot read the references)
func (s *c15Session) refs() [][2]string {
	out, err := s.git(s.host, "for-each-ref", "--format=%(refname) %(objectname) %(symref)")
	if err != nil {
		if len(s.unreadable) == 0 || s.unreadable[len(s.unreadable)-1] != s.counter {
			s.unreadable = append(s.unreadable, s.counter)
		}
		if s.unreadMsg == "" {
			s.unreadMsg = fmt.Sprintf("after action %d: git for-each-ref: %v: %s", s.counter, err, c15Tail(strings.TrimSpace(out)))
		}
	}
	var res [][2]string
	for _, l := range strings.Split(strings.TrimSpace(out), "\n") {
		if m := c15BrokenRe.FindStringSubmatch(l); m != nil {
			if s.broken == nil {
				s.broken = map[string]string{}
			}
			if _, seen := s.broken[m[2]]; !seen {
				s.broken[m[2]] = fmt.Sprintf("%s, first reported after action %d", m[1], s.counter)
			}
			continue
		}
		if strings.HasPrefix(l, "warning:") || strings.HasPrefix(l, "error:") || strings.HasPrefix(l, "fatal:") {
			if s.refNotice == nil {
				s.refNotice = map[string]bool{}
			}
			s.refNotice[l] = true
			continue
		}
		if f := strings.Fields(l); len(f) == 2 {
			res = append(res, [2]string{f[0], f[1]})
		} else if len(f) == 3 {
			res = append(res, [2]string{f[0], f[1] + " -> " + f[2]})
		}
	}
	sort.Slice(res, func(i, j int) bool { return res[i][0] < res[j][0] })
	return res
}

func (s *c15Session) config() ([][2]string, []string) {
	out := s.mustGit(s.host, "config", "--local", "--list", "-z")
	var cfg [][2]string
	for _, e := range strings.Split(out, "\x00") {
		if e == "" {
			continue
		}
		if i := strings.IndexByte(e, '\n'); i >= 0 {
			cfg = append(cfg, [2]string{e[:i], e[i+1:]})
		} else {
			cfg = append(cfg, [2]string{e, "\x00"})
		}
	}
	sort.SliceStable(cfg, func(i, j int) bool {
		if cfg[i][0] != cfg[j][0] {
			return cfg[i][0] < cfg[j][0]
		}
		return cfg[i][1] < cfg[j][1]
	})
	raw, _ := os.ReadFile(filepath.Join(s.gitdir, "config"))
	var aux []string
	for _, l := range strings.Split(string(raw), "\n") {
		t := strings.TrimSpace(l)
		if strings.HasPrefix(t, "#") || strings.HasPrefix(t, ";") {
			aux = append(aux, t)
		}
	}
	sort.Strings(aux)
	return cfg, aux
}

func (s *c15Session) snapshot() c15Snap {
	var sn c15Snap
	sn.Refs = s.refs()
	b, _ := os.ReadFile(filepath.Join(s.gitdir, "HEAD"))
	sn.Head = strings.TrimSpace(string(b))
	b, err := os.ReadFile(filepath.Join(s.gitdir, "index"))
	if err != nil {
		sn.Index = "absent"
	} else {
		sn.Index = c15Digest(b)
	}
	sn.Cfg, sn.Aux = s.config()
	_ = filepath.Walk(s.host, func(p string, info fs.FileInfo, err error) error {
		if err != nil {
			return nil
		}
		rel, _ := filepath.Rel(s.host, p)
		if rel == ".git" {
			return filepath.SkipDir
		}
		if info.IsDir() {
			if rel != "." {
				sn.Wt = append(sn.Wt, [2]string{rel + "/", "dir"})
			}
			return nil
		}
		sn.Wt = append(sn.Wt, [2]string{rel, c15FileDigest(p, info)})
		return nil
	})
	if s.in.Host.Linked {
		wt := filepath.Join(s.root, "wt")
		_ = filepath.Walk(wt, func(p string, info fs.FileInfo, err error) error {
			if err != nil || info.IsDir() {
				return nil
			}
			rel, _ := filepath.Rel(wt, p)
			sn.Wt = append(sn.Wt, [2]string{"@wt/" + rel, c15FileDigest(p, info)})
			return nil
		})
	}
	_ = filepath.Walk(s.gitdir, func(p string, info fs.FileInfo, err error) error {
		if err != nil {
			return nil
		}
		rel, _ := filepath.Rel(s.gitdir, p)
		if info.IsDir() {
			if rel == "objects" || rel == "refs" {
				return filepath.SkipDir
			}
			return nil
		}
		if rel == "packed-refs" || rel == "config" || rel == "HEAD" || rel == "index" {
			return nil
		}
		sn.Files = append(sn.Files, [2]string{rel, c15FileDigest(p, info)})
		return nil
	})
	sort.Slice(sn.Wt, func(i, j int) bool { return sn.Wt[i][0] < sn.Wt[j][0] })
	sort.Slice(sn.Files, func(i, j int) bool { return sn.Files[i][0] < sn.Files[j][0] })
	sn.Probes = s.probes()
	if b, err := os.ReadFile(filepath.Join(s.gitdir, "packed-refs")); err == nil {
		for _, l := range strings.Split(string(b), "\n") {
			if l != "" {
				sn.Packed = append(sn.Packed, l)
			}
		}
	}
	for id := range s.allObjects() {
		sn.Objs = append(sn.Objs, id)
	}
	sort.Strings(sn.Objs)
	return sn
}

// allObjects: every object of the host's object store, of any type
func (s *c15Session) allObjects() map[string]bool {
	// as long as there is no pack (before the first git gc or big fetch) these are the loose object files: no process needed
	if loose := s.looseObjects(); len(loose) > 0 {
		packs := false
		for k := range loose {
			if strings.HasPrefix(k, "pack/") {
				packs = true
				break
			}
		}
		if !packs {
			return loose
		}
	}
	out := s.mustGit(s.host, "cat-file", "--batch-all-objects", "--batch-check=%(objectname)", "--unordered")
	m := map[string]bool{}
	for _, l := range strings.Fields(out) {
		m[l] = true
	}
	return m
}

var c15ReflogNsRe = regexp.MustCompile(`^\S+ \S+ refs/(bugs|identities|remotes/[^@]+/(bugs|identities))/`)

// probes: the work of the host's user as stock git shows it to him; every one of these commands only reads
func (s *c15Session) probes() [][2]string {
	var res [][2]string
	probe := func(name, dir string, keep func(string) bool, args ...string) string {
		out, err := s.git(dir, args...)
		if err != nil {
			res = append(res, [2]string{name, "failed: " + c15Tail(strings.TrimSpace(out))})
			return ""
		}
		if keep != nil {
			var ls []string
			for _, l := range strings.Split(out, "\n") {
				if keep(l) {
					ls = append(ls, l)
				}
			}
			out = strings.Join(ls, "\n")
		}
		res = append(res, [2]string{name, c15Digest([]byte(out))})
		return out
	}
	// the stash: the list, and every entry as a patch (needs the commits, trees and blobs of the entry)
	// (on a host that has one; whether refs/stash exists is part of the references everywhere)
	// (the list of the entries is part of the reflogs walked below: refs/stash@{0}, refs/stash@{1})
	if s.in.Host.Stash {
		for i := 0; i < 2; i++ {
			probe(fmt.Sprintf("stash show -p stash@{%d}", i), s.host, nil, "stash", "show", "-p", "--binary", fmt.Sprintf("stash@{%d}", i))
		}
	}
	// what is staged, as a patch against HEAD (needs the blobs only the index holds)
	probe("diff --cached", s.host, nil, "diff", "--cached", "--binary", "--no-ext-diff")
	if s.in.Host.Linked {
		probe("diff --cached (linked work tree)", filepath.Join(s.root, "wt"), nil, "diff", "--cached", "--binary", "--no-ext-diff")
	}
	// the reflogs of the host's own references, walked: commit, tree, entry (an entry whose commit is gone is skipped by
	// git log -g: the walk comes out different); git-bug's references have no business there
	probe("log -g --all", s.host, func(l string) bool { return !c15ReflogNsRe.MatchString(l) }, "log", "-g", "--all", "--format=%H %T %gD %gs")
	return res
}

// commitOnCopy: on a copy of the whole repository, git commit of what is staged; the tree it commits ("" = refused)
func (s *c15Session) commitOnCopy(tag string) (tree string, note string) {
	cp := filepath.Join(s.root, "copy-"+tag)
	if out, err := exec.Command("cp", "-a", s.host, cp).CombinedOutput(); err != nil {
		panic("harness: cp -a: " + err.Error() + ": " + string(out))
	}
	defer os.RemoveAll(cp)
	if out, err := s.git(cp, "commit", "-q", "--no-verify", "-m", "the staged work"); err != nil {
		return "", c15Tail(strings.TrimSpace(out))
	}
	out, err := s.git(cp, "rev-parse", "HEAD^{tree}")
	if err != nil {
		return "", c15Tail(strings.TrimSpace(out))
	}
	return strings.TrimSpace(out), ""
}

var c15NsRe = regexp.MustCompile(`^refs/(bugs|identities)/.+|^refs/remotes/.+/(bugs|identities)/.+`)

func c15InNs(ref string) bool { return c15NsRe.MatchString(ref) }

// foreign part of the cheap observables, as one string (taken after every action to find the first disturbing one)
func (s *c15Session) light() map[string]string {
	m := map[string]string{}
	var sb strings.Builder
	for _, r := range s.refs() {
		if !c15InNs(r[0]) {
			sb.WriteString(r[0] + " " + r[1] + "\n")
		}
	}
	m["refs"] = sb.String()
	b, _ := os.ReadFile(filepath.Join(s.gitdir, "HEAD"))
	m["head"] = string(b)
	b, _ = os.ReadFile(filepath.Join(s.gitdir, "index"))
	m["index"] = c15Digest(b)
	cfg, aux := s.config()
	sb.Reset()
	for _, kv := range cfg {
		if !strings.HasPrefix(kv[0], "git-bug.") {
			sb.WriteString(kv[0] + "=" + kv[1] + "\n")
		}
	}
	m["config"] = sb.String()
	m["comments"] = strings.Join(aux, "\n")
	return m
}

// looseObjects: the loose object files and the pack files of the object store, read from the directory (no process: this is
// done after every action, to name the one after which objects are gone; the verdict uses git cat-file, per stretch)
func (s *c15Session) looseObjects() map[string]bool {
	m := map[string]bool{}
	root := filepath.Join(s.gitdir, "objects")
	ds, _ := os.ReadDir(root)
	for _, d := range ds {
		if !d.IsDir() || (len(d.Name()) != 2 && d.Name() != "pack") {
			continue
		}
		fs, _ := os.ReadDir(filepath.Join(root, d.Name()))
		for _, f := range fs {
			if d.Name() == "pack" {
				if strings.HasSuffix(f.Name(), ".pack") {
					m["pack/"+f.Name()] = true
				}
			} else if !strings.HasPrefix(f.Name(), "tmp_") {
				m[d.Name()+f.Name()] = true
			}
		}
	}
	return m
}

// lostObjects: the object files that were there after the previous action and are gone now
func (s *c15Session) lostObjects() []string {
	cur := s.looseObjects()
	var lost []string
	for id := range s.lastObjs {
		if !cur[id] {
			lost = append(lost, id)
		}
	}
	sort.Strings(lost)
	s.lastObjs = cur
	return lost
}

// ------------------------------------------------------------------ library side

// c15Kept: the repository of a long-lived process; the actions' Close does nothing, the session closes it at the end
type c15Kept struct{ repository.TestedRepo }

func (c15Kept) Close() error { return nil }

func (s *c15Session) open() repository.TestedRepo {
	if s.in.Keep && s.kept != nil {
		return c15Kept{s.kept}
	}
	r, err := repository.OpenGoGitRepo(s.dirOf(s.cwd), "git-bug", []repository.ClockLoader{bug.ClockLoader})
	if err != nil {
		panic("harness: cannot open the host repository through go-git: " + err.Error())
	}
	kr := krRepo{TestedRepo: r, kr: keyring.NewArrayKeyring(nil)}
	if s.in.Keep {
		s.kept = kr
		s.tags["process:long-lived"] = true
		return c15Kept{kr}
	}
	return kr
}

// dropKept: the long-lived process ends (end of the session, or git-bug is removed from the repository)
func (s *c15Session) dropKept() {
	if s.kept != nil {
		_ = s.kept.Close()
		s.kept = nil
	}
}

// hostUser: a command of the host's user, run with stock git; not an action of git-bug: the repository is looked at just
// before and just after it, and what git-bug must leave alone is compared between such commands only. That stock git can
// complete the command is itself part of the property (a repository git-bug wrote into can be packed, collected, fetched).
func (s *c15Session) hostUser(ev map[string]interface{}, args ...string) {
	for _, a := range args {
		if a == "gc" {
			// a collection may delete what a removed entity consisted of: read it now
			if _, _, err := s.written(); err != nil && s.harvestErr == nil {
				s.harvestErr = err
			}
		}
	}
	pre := s.snapshot()
	s.endStretch(pre)
	out, err := s.git(s.host, args...)
	ev["git"] = strings.Join(args, " ")
	if err != nil {
		ev["err"] = c15Tail(err.Error() + ": " + strings.TrimSpace(out))
		s.maintBad = append(s.maintBad, fmt.Sprintf("action %d: git %s: %s", s.counter, strings.Join(args, " "), c15Tail(strings.TrimSpace(out))))
	}
	// a command that changed nothing stock git shows (pack-refs; a second gc or fetch) does not split the session
	post := s.snapshot()
	if !reflect.DeepEqual(pre.shown(), post.shown()) {
		s.breaks = append(s.breaks, [2]c15Snap{pre, post})
	}
	s.stretch = post
	s.nHostUser++
	for _, a := range args {
		if a == "gc" || a == "fetch" || a == "pack-refs" {
			s.tags["host-user:"+a] = true
		}
	}
}

func (s *c15Session) idsUnder(prefix string) []string {
	var res []string
	for _, r := range s.refs() {
		if strings.HasPrefix(r[0], prefix) {
			res = append(res, strings.TrimPrefix(r[0], prefix))
		}
	}
	return res
}

func (s *c15Session) remotes() []string {
	out, _ := s.git(s.host, "remote")
	return strings.Fields(out)
}

func coqStrs(xs []string) string {
	ys := make([]string, len(xs))
	for i, x := range xs {
		ys[i] = coqRunes(x)
	}
	return coqList(ys)
}

// entities of a repository as model terms: [(Bugs, id); (Identities, id)]
func c15Ents(refs [][2]string) string {
	var xs []string
	for _, r := range refs {
		if strings.HasPrefix(r[0], "refs/bugs/") {
			xs = append(xs, "(Bugs, "+coqRunes(strings.TrimPrefix(r[0], "refs/bugs/"))+")")
		} else if strings.HasPrefix(r[0], "refs/identities/") {
			xs = append(xs, "(Identities, "+coqRunes(strings.TrimPrefix(r[0], "refs/identities/"))+")")
		}
	}
	return coqList(xs)
}

var c15TrackRe = regexp.MustCompile(`^refs/remotes/.+/(bugs|identities)/([^/]+)$`)

// every entity the repository knows, locally or as a remote-tracking reference (what a wipe may remove)
func c15EntsAll(refs [][2]string) string {
	seen := map[string]bool{}
	var xs []string
	add := func(ns, id string) {
		t := "(" + ns + ", " + coqRunes(id) + ")"
		if !seen[t] {
			seen[t] = true
			xs = append(xs, t)
		}
	}
	for _, r := range refs {
		if strings.HasPrefix(r[0], "refs/bugs/") {
			add("Bugs", strings.TrimPrefix(r[0], "refs/bugs/"))
		} else if strings.HasPrefix(r[0], "refs/identities/") {
			add("Identities", strings.TrimPrefix(r[0], "refs/identities/"))
		} else if m := c15TrackRe.FindStringSubmatch(r[0]); m != nil {
			add(map[string]string{"bugs": "Bugs", "identities": "Identities"}[m[1]], m[2])
		}
	}
	return coqList(xs)
}

func (s *c15Session) remoteRefs(remote string) [][2]string {
	url, err := s.git(s.host, "remote", "get-url", remote)
	if err != nil {
		return nil
	}
	out, err := s.git(strings.TrimSpace(url), "for-each-ref", "--format=%(refname) %(objectname)")
	if err != nil {
		return nil
	}
	var res [][2]string
	for _, l := range strings.Split(strings.TrimSpace(out), "\n") {
		if f := strings.Fields(l); len(f) == 2 {
			res = append(res, [2]string{f[0], f[1]})
		}
	}
	return res
}

const c15CliStorage = "AStorage [[%s]; [%s]; [%s]; [%s]] [[%s]]"

func (s *c15Session) cliStorage() string {
	return fmt.Sprintf(c15CliStorage, coqRunes("cache"), coqRunes("indexes"), coqRunes("clocks"), coqRunes("lock"), coqRunes("lock"))
}

func c15Pack(nfiles int, create bool) string {
	c := 0
	if create {
		c = 1
	}
	return fmt.Sprintf("mkpack 4 1 %d %d 0 0 0 0", c, nfiles)
}

func (s *c15Session) pick(ids []string, e int) string {
	if len(ids) == 0 {
		return ""
	}
	return ids[((e%len(ids))+len(ids))%len(ids)]
}

func (s *c15Session) arg(id string, short bool) string {
	if short && len(id) > 8 {
		return id[:8]
	}
	return id
}

var c15HexRe = regexp.MustCompile(`[0-9a-f]{7,64}`)

// do runs one action and appends the model actions that describe what it may write.
func (s *c15Session) do(a c15Action) {
	s.counter++
	s.cwd = a.Cwd
	ev := map[string]interface{}{"k": a.K, "via": a.Via}
	if a.Cwd != "" {
		ev["cwd"] = a.Cwd
		s.tags["cwd:"+a.Cwd] = true
	}
	defer func() { s.log = append(s.log, ev) }()
	if len(s.unreadable) > 0 {
		// stock git cannot list the references any more (neither can go-git): the damage is recorded, the session ends here
		ev["err"] = "not run: stock git cannot read the references of the repository any more"
		return
	}
	fail := func(err error, stderr string) {
		if err != nil {
			msg := err.Error()
			if stderr != "" {
				msg += ": " + strings.TrimSpace(stderr)
			}
			if len(msg) > 300 {
				msg = msg[:300]
			}
			ev["err"] = msg
			// go-git lists the packs once per opened repository: after the host's user ran `git gc`, a long-lived
			// git-bug process no longer finds the objects that were repacked (recorded finding F15-stale-packs)
			if s.kept != nil && s.tags["host-user:gc"] && (strings.Contains(msg, "packfile not found") || strings.Contains(msg, "object not found")) {
				s.tags["stale-packs-after-external-gc"] = true
			}
		} else {
			s.wrote = true
		}
	}
	s.tags["act:"+a.K+"/"+a.Via] = true
	switch a.K {
	case "rm", "identity-rm", "rm-hostile", "wipe":
		// what the entity that is going to be removed consists of is read now (as before a git gc of the host's user)
		if _, _, err := s.written(); err != nil && s.harvestErr == nil {
			s.harvestErr = err
		}
	}
	bugs := s.idsUnder("refs/bugs/")
	idents := s.idsUnder("refs/identities/")
	unix := int64(1600000000 + s.counter)
	if a.Via == "cli" {
		s.coq = append(s.coq, s.cliStorage())
	}
	// library: the current user, if any
	withUser := func(f func(repo repository.TestedRepo, author *identity.Identity) error) {
		repo := s.open()
		defer repo.Close()
		author, err := identity.GetUserIdentity(repo)
		if err != nil {
			// GetUserIdentity clears a dangling key
			s.coq = append(s.coq, "AClearUser")
			fail(err, "")
			return
		}
		fail(f(repo, author), "")
	}
	editBug := func(id string, nfiles int, f func(repo repository.TestedRepo, b *bug.Bug, author *identity.Identity, files []repository.Hash) error) {
		s.coq = append(s.coq, fmt.Sprintf("ACommit Bugs %s [%s]", coqRunes(id), c15Pack(nfiles, false)))
		withUser(func(repo repository.TestedRepo, author *identity.Identity) error {
			b, err := bug.Read(repo, entity.Id(id))
			if err != nil {
				return err
			}
			var files []repository.Hash
			for i := 0; i < nfiles; i++ {
				h, err := repo.StoreData([]byte(fmt.Sprintf("attachment %d of action %d\n", i, s.counter)))
				if err != nil {
					return err
				}
				files = append(files, h)
			}
			if err := f(repo, b, author, files); err != nil {
				return err
			}
			return b.Commit(repo)
		})
	}
	switch a.K {
	case "user-new":
		name, email := fmt.Sprintf("User %d", s.counter), fmt.Sprintf("u%d@example.org", s.counter)
		if a.Via == "cli" {
			out, errs, err := s.cli(a.Cwd, "user", "new", "-n", name, "-e", email, "--non-interactive")
			id := c15HexRe.FindString(out)
			ev["id"] = id
			s.coq = append(s.coq, fmt.Sprintf("ANewIdentity %s 0", coqRunes(id)), "ASetUser")
			fail(err, errs)
		} else {
			repo := s.open()
			i, err := identity.NewIdentity(repo, name, email)
			if err == nil {
				err = i.Commit(repo)
			}
			if err == nil {
				ev["id"] = string(i.Id())
				s.coq = append(s.coq, fmt.Sprintf("ANewIdentity %s 0", coqRunes(string(i.Id()))))
				if set, _ := identity.IsUserIdentitySet(repo); !set {
					s.coq = append(s.coq, "ASetUser")
					err = identity.SetUserIdentity(repo, i)
				}
			}
			fail(err, "")
			repo.Close()
		}
	case "user-adopt":
		id := s.pick(idents, a.E)
		if id == "" {
			ev["err"] = "no identity"
			return
		}
		s.coq = append(s.coq, "ASetUser")
		if a.Via == "cli" {
			_, errs, err := s.cli(a.Cwd, "user", "adopt", s.arg(id, a.Short))
			fail(err, errs)
		} else {
			repo := s.open()
			i, err := identity.ReadLocal(repo, entity.Id(id))
			if err == nil {
				err = identity.SetUserIdentity(repo, i)
			}
			fail(err, "")
			repo.Close()
		}
	case "bug-new":
		if a.Via == "cli" {
			out, errs, err := s.cli(a.Cwd, "bug", "new", "-t", fmt.Sprintf("title %d", s.counter), "-m", fmt.Sprintf("message %d\nsecond line", s.counter), "--non-interactive")
			id := ""
			if p := c15HexRe.FindString(out); p != "" {
				for _, x := range s.idsUnder("refs/bugs/") {
					if strings.HasPrefix(x, p) {
						id = x
					}
				}
			}
			ev["id"] = id
			s.coq = append(s.coq, fmt.Sprintf("ACommit Bugs %s [%s]", coqRunes(id), c15Pack(0, true)))
			fail(err, errs)
		} else {
			withUser(func(repo repository.TestedRepo, author *identity.Identity) error {
				var files []repository.Hash
				for i := 0; i < a.N; i++ {
					h, err := repo.StoreData([]byte(fmt.Sprintf("attachment %d of action %d\n", i, s.counter)))
					if err != nil {
						return err
					}
					files = append(files, h)
				}
				b, _, err := bug.Create(author, unix, fmt.Sprintf("title %d", s.counter), fmt.Sprintf("message %d", s.counter), files, nil)
				if err != nil {
					return err
				}
				if err := b.Commit(repo); err != nil {
					// the clocks were already advanced
					s.coq = append(s.coq, fmt.Sprintf("AStorage [[%s]] []", coqRunes("clocks")))
					return err
				}
				ev["id"] = string(b.Id())
				s.coq = append(s.coq, fmt.Sprintf("ACommit Bugs %s [%s]", coqRunes(string(b.Id())), c15Pack(a.N, true)))
				return nil
			})
		}
	case "bulk":
		// many bugs created by one library session (an import): one opened repository, closed at the end
		n := 0
		withUser(func(repo repository.TestedRepo, author *identity.Identity) error {
			for i := 0; i < a.N; i++ {
				b, _, err := bug.Create(author, unix, fmt.Sprintf("title %d.%d", s.counter, i), fmt.Sprintf("message %d.%d", s.counter, i), nil, nil)
				if err != nil {
					return err
				}
				if err := b.Commit(repo); err != nil {
					s.coq = append(s.coq, fmt.Sprintf("AStorage [[%s]] []", coqRunes("clocks")))
					return err
				}
				n++
				s.coq = append(s.coq, fmt.Sprintf("ACommit Bugs %s [%s]", coqRunes(string(b.Id())), c15Pack(0, true)))
			}
			return nil
		})
		ev["created"] = n
		if n >= 100 {
			s.tags["bulk:created>=100"] = true
		} else if n >= 50 {
			s.tags["bulk:created>=50"] = true
		}
	case "comment", "title", "status", "label", "comment-edit", "metadata":
		id := s.pick(bugs, a.E)
		if id == "" {
			ev["err"] = "no bug"
			return
		}
		ev["id"] = id
		if a.Via == "cli" {
			s.coq = append(s.coq, fmt.Sprintf("ACommit Bugs %s [%s]", coqRunes(id), c15Pack(0, false)))
			var args []string
			switch a.K {
			case "comment":
				args = []string{"bug", "comment", "new", s.arg(id, a.Short), "-m", fmt.Sprintf("comment %d", s.counter), "--non-interactive"}
			case "title":
				args = []string{"bug", "title", "edit", s.arg(id, a.Short), "-t", fmt.Sprintf("new title %d", s.counter), "--non-interactive"}
			case "status":
				args = []string{"bug", "status", []string{"close", "open"}[a.E%2], s.arg(id, a.Short)}
			case "label":
				args = []string{"bug", "label", []string{"new", "rm"}[a.E%2], s.arg(id, a.Short)}
				for i := 0; i < a.N; i++ {
					args = append(args, fmt.Sprintf("label%d", (a.E+i)%4))
				}
			case "comment-edit":
				// the combined id of the first comment, computed through the library (read only)
				repo := s.open()
				cid := ""
				if b, err := bug.Read(repo, entity.Id(id)); err == nil {
					if cs := b.Compile().Comments; len(cs) > 0 {
						cid = cs[0].CombinedId().String()
					}
				}
				repo.Close()
				args = []string{"bug", "comment", "edit", cid, "-m", fmt.Sprintf("edited %d", s.counter), "--non-interactive"}
			}
			_, errs, err := s.cli(a.Cwd, args...)
			fail(err, errs)
			return
		}
		editBug(id, a.N*b2i(a.K == "comment"), func(repo repository.TestedRepo, b *bug.Bug, author *identity.Identity, files []repository.Hash) error {
			var err error
			switch a.K {
			case "comment":
				_, _, err = bug.AddComment(b, author, unix, fmt.Sprintf("comment %d", s.counter), files, nil)
			case "title":
				_, err = bug.SetTitle(b, author, unix, fmt.Sprintf("new title %d", s.counter), nil)
			case "status":
				if a.E%2 == 0 {
					_, err = bug.Close(b, author, unix, nil)
				} else {
					_, err = bug.Open(b, author, unix, nil)
				}
			case "label":
				var ls []string
				for i := 0; i < a.N; i++ {
					ls = append(ls, fmt.Sprintf("label%d", (a.E+i)%4))
				}
				if a.E%2 == 0 {
					_, err = bug.ForceChangeLabels(b, author, unix, ls, nil, nil)
				} else {
					_, err = bug.ForceChangeLabels(b, author, unix, nil, ls, nil)
				}
			case "comment-edit":
				_, _, err = bug.EditCreateComment(b, author, unix, fmt.Sprintf("edited %d", s.counter), nil, nil)
			case "metadata":
				_, err = bug.SetMetadata(b, author, unix, b.FirstOp().Id(), map[string]string{"k": fmt.Sprint(s.counter)})
			}
			return err
		})
	case "multi":
		// several operations staged on one bug and committed together (library only: the command line commits every
		// operation on its own); the files of all the operations go into the one "extra" tree of that commit
		create := a.S == "new"
		id := ""
		if !create {
			if id = s.pick(bugs, a.E); id == "" {
				ev["err"] = "no bug"
				return
			}
		}
		var ops [][]string
		distinct := map[string]bool{}
		stage := func(repo repository.TestedRepo, author *identity.Identity) (*bug.Bug, error) {
			var b *bug.Bug
			var err error
			if !create {
				if b, err = bug.Read(repo, entity.Id(id)); err != nil {
					return nil, err
				}
			}
			prevFirst := ""
			for i, nf := range a.F {
				var files []repository.Hash
				var hs []string
				first := ""
				for j := 0; j < nf; j++ {
					content := fmt.Sprintf("attachment %d of operation %d of action %d\n", j, i, s.counter)
					if j == 0 && prevFirst != "" && (a.E>>uint(i))&1 == 1 {
						content = prevFirst // a file an earlier operation of the same commit already brought
						s.tags["multi:shared-file"] = true
					}
					if j == 2 && a.E%3 == 0 {
						content = first // the same file twice in one operation
						s.tags["multi:repeated-file"] = true
					}
					if j == 0 {
						first = content
					}
					h, err := repo.StoreData([]byte(content))
					if err != nil {
						return nil, err
					}
					files = append(files, h)
					hs = append(hs, string(h))
					distinct[string(h)] = true
				}
				if nf > 0 {
					prevFirst = first
				}
				msg := fmt.Sprintf("operation %d of action %d", i, s.counter)
				switch {
				case create && i == 0:
					b, _, err = bug.Create(author, unix, "title of "+msg, msg, files, nil)
				case nf == 0 && i%2 == 1:
					_, err = bug.SetTitle(b, author, unix, "title by "+msg, nil)
				case (a.E+i)%3 == 1:
					_, _, err = bug.EditCreateComment(b, author, unix, "edited by "+msg, files, nil)
				default:
					_, _, err = bug.AddComment(b, author, unix, "comment, "+msg, files, nil)
				}
				if err != nil {
					return nil, err
				}
				ops = append(ops, hs)
			}
			return b, nil
		}
		if !create {
			ev["id"] = id
		}
		withUser(func(repo repository.TestedRepo, author *identity.Identity) error {
			b, err := stage(repo, author)
			if err != nil {
				return err
			}
			if !create {
				s.coq = append(s.coq, fmt.Sprintf("ACommit Bugs %s [%s]", coqRunes(id), c15Pack(len(distinct), false)))
			}
			if err := b.Commit(repo); err != nil {
				if create {
					s.coq = append(s.coq, fmt.Sprintf("AStorage [[%s]] []", coqRunes("clocks")))
				}
				return err
			}
			if create {
				id = string(b.Id())
				ev["id"] = id
				s.coq = append(s.coq, fmt.Sprintf("ACommit Bugs %s [%s]", coqRunes(id), c15Pack(len(distinct), true)))
			}
			x := c15Extra{Ops: ops}
			if out, err := s.git(s.host, "rev-parse", "-q", "--verify", "refs/bugs/"+id+"^{commit}"); err == nil {
				x.Commit = strings.TrimSpace(out)
				if out, err := s.git(s.host, "rev-parse", "-q", "--verify", x.Commit+":extra"); err == nil {
					x.Tree = strings.TrimSpace(out)
				}
			}
			s.extras = append(s.extras, x)
			s.tags[fmt.Sprintf("multi:ops=%d", len(ops))] = true
			s.tags[fmt.Sprintf("multi:files=%d", len(distinct))] = true
			ev["files"] = ops
			return nil
		})
	case "select":
		id := s.pick(bugs, a.E)
		s.coq = append(s.coq, fmt.Sprintf("AStorage [[%s]] [[%s]]", coqRunes("select"), coqRunes("select")))
		var errs string
		var err error
		if id == "" || a.E%3 == 0 {
			_, errs, err = s.cli(a.Cwd, "bug", "deselect")
		} else {
			_, errs, err = s.cli(a.Cwd, "bug", "select", s.arg(id, a.Short))
		}
		fail(err, errs)
	case "ls", "show", "user-ls", "bridge-ls", "label-ls":
		args := map[string][]string{"ls": {"bug"}, "user-ls": {"user"}, "bridge-ls": {"bridge"}, "label-ls": {"label"}, "show": {"bug", "show", s.arg(s.pick(bugs, a.E), a.Short)}}[a.K]
		_, errs, err := s.cli(a.Cwd, args...)
		fail(err, errs)
	case "push":
		s.coq = append(s.coq, fmt.Sprintf("APush %s %s", coqRunes(a.Remote), c15Ents(s.refs())))
		if a.Via == "cli" {
			_, errs, err := s.cli(a.Cwd, "push", a.Remote)
			fail(err, errs)
		} else {
			repo := s.open()
			_, err := identity.Push(repo, a.Remote)
			if err == nil {
				_, err = bug.Push(repo, a.Remote)
			}
			fail(err, "")
			repo.Close()
		}
	case "pull":
		s.coq = append(s.coq, fmt.Sprintf("APull %s %s [%s]", coqRunes(a.Remote), c15Ents(s.remoteRefs(a.Remote)), c15Pack(0, false)))
		if a.Via == "cli" {
			_, errs, err := s.cli(a.Cwd, "pull", a.Remote)
			fail(err, errs)
		} else {
			repo := s.open()
			err := identity.Pull(repo, a.Remote)
			if err == nil {
				author, uerr := identity.GetUserIdentity(repo)
				if uerr != nil {
					s.coq = append(s.coq, "AClearUser")
					err = uerr
				} else {
					resolvers := entity.Resolvers{&identity.Identity{}: identity.NewSimpleResolver(repo)}
					err = bug.Pull(repo, resolvers, a.Remote, author)
				}
			}
			fail(err, "")
			repo.Close()
		}
	case "peer":
		s.peerWork(a)
	case "rm":
		id := s.pick(bugs, a.E)
		if id == "" {
			ev["err"] = "no bug"
			return
		}
		ev["id"] = id
		s.coq = append(s.coq, fmt.Sprintf("ARemove Bugs %s %s", coqRunes(id), coqStrs(s.remotes())))
		if a.Via == "cli" {
			_, errs, err := s.cli(a.Cwd, "bug", "rm", s.arg(id, a.Short))
			fail(err, errs)
		} else {
			repo := s.open()
			fail(bug.Remove(repo, entity.Id(id)), "")
			repo.Close()
		}
	case "identity-rm":
		id := s.pick(idents, a.E)
		if id == "" {
			ev["err"] = "no identity"
			return
		}
		ev["id"] = id
		s.coq = append(s.coq, fmt.Sprintf("ARemove Identities %s %s", coqRunes(id), coqStrs(s.remotes())))
		repo := s.open()
		fail(identity.Remove(repo, entity.Id(id)), "")
		repo.Close()
	case "rm-hostile":
		// a library call with an id nobody validated
		s.coq = append(s.coq, fmt.Sprintf("ARemove Bugs %s %s", coqRunes(a.S), coqStrs(s.remotes())))
		s.tags["hostile-id"] = true
		repo := s.open()
		err := bug.Remove(repo, entity.Id(a.S))
		if err == nil {
			ev["accepted"] = true
		}
		fail(err, "")
		repo.Close()
	case "bridge-conf":
		// what Bridge.storeConfig does with a validated configuration (the bridges' own Configure needs the network)
		keys := []string{"target", "project", "base-url", "default-login"}[:a.N]
		var kvs []string
		for _, k := range keys {
			kvs = append(kvs, "("+coqRunes(k)+", 0%N)")
		}
		s.coq = append(s.coq, fmt.Sprintf("ABridgeConf %s %s", coqRunes(a.S), coqList(kvs)))
		repo := s.open()
		var err error
		for i, k := range keys {
			if e := repo.LocalConfig().StoreString(fmt.Sprintf("git-bug.bridge.%s.%s", a.S, k), fmt.Sprintf("value %d %d", s.counter, i)); e != nil {
				err = e
			}
		}
		fail(err, "")
		repo.Close()
	case "bridge-rm":
		s.coq = append(s.coq, fmt.Sprintf("ABridgeRm %s", coqRunes(a.S)))
		if a.Via == "cli" {
			_, errs, err := s.cli(a.Cwd, "bridge", "rm", a.S)
			fail(err, errs)
		} else {
			repo := s.open()
			fail(core.RemoveBridge(repo, a.S), "")
			repo.Close()
		}
	case "wipe":
		s.coq = append(s.coq, fmt.Sprintf("AWipe %s %s", c15EntsAll(s.refs()), coqStrs(s.remotes())))
		if a.Via == "cli" {
			_, errs, err := s.cli(a.Cwd, "wipe")
			fail(err, errs)
		} else {
			repo := s.open()
			var first error
			for _, e := range []error{bug.RemoveAll(repo), identity.RemoveAll(repo), identity.ClearUserIdentity(repo), repo.LocalConfig().RemoveAll("git-bug")} {
				if e != nil && first == nil {
					first = e
				}
			}
			st := repo.LocalStorage()
			repo.Close()
			s.dropKept()
			if e := st.RemoveAll("."); e != nil && first == nil {
				first = e
			}
			fail(first, "")
		}
	case "pack-refs":
		// the host's user packs the references with stock git; nothing git-bug does
		if a.N%2 == 1 {
			s.hostUser(ev, "pack-refs", "--all", "--no-prune") // packed, and the loose files stay
		} else {
			s.hostUser(ev, "pack-refs", "--all")
		}
	case "gc":
		// ... or collects garbage (which packs the references and the objects, and expires the reflogs)
		switch a.N % 3 {
		case 0:
			s.hostUser(ev, "gc", "-q")
		case 1:
			s.hostUser(ev, "gc", "-q", "--prune=now")
		default:
			s.hostUser(ev, "-c", "gc.auto=1", "-c", "gc.autoDetach=false", "gc", "-q", "--auto") // what git runs by itself after a commit or a fetch
		}
	case "git-fetch":
		// ... or fetches: the branches and tags, git-bug's references by hand, or with --prune (which deletes the
		// remote-tracking references below refs/remotes/<remote>/ that match no branch of the remote, git-bug's among them)
		rem := a.Remote
		if rem == "" || (rem == "backup" && !s.in.Host.SecondRemote) {
			rem = "origin"
		}
		switch a.N % 3 {
		case 0:
			s.hostUser(ev, "fetch", "-q", rem)
		case 1:
			s.hostUser(ev, "fetch", "-q", rem, "+refs/bugs/*:refs/remotes/"+rem+"/bugs/*", "+refs/identities/*:refs/remotes/"+rem+"/identities/*")
		default:
			s.hostUser(ev, "fetch", "-q", "--prune", rem)
		}
	default:
		ev["err"] = "unknown action"
	}
}

func b2i(b bool) int {
	if b {
		return 1
	}
	return 0
}

// peerWork: another user of the same remote creates or edits bugs and pushes them (not an action on the host).
func (s *c15Session) peerWork(a c15Action) {
	url, err := s.git(s.host, "remote", "get-url", a.Remote)
	if err != nil {
		return
	}
	url = strings.TrimSpace(url)
	if s.peerIDs == nil {
		s.peerIDs = map[string]*identity.Identity{}
	}
	if s.peer == nil {
		p, err := newTestRepo(filepath.Join(s.root, "peer"), false)
		if err != nil {
			panic(err)
		}
		s.peer = p
	}
	name := "peer-" + a.Remote
	if _, ok := s.peerIDs[a.Remote]; !ok {
		if err := s.peer.AddRemote(name, url); err != nil {
			panic(err)
		}
		id, err := identity.NewIdentity(s.peer, "Peer "+a.Remote, "peer@example.org")
		if err == nil {
			err = id.Commit(s.peer)
		}
		if err != nil {
			panic(err)
		}
		s.peerIDs[a.Remote] = id
	}
	author := s.peerIDs[a.Remote]
	// take what is on the remote, then add to it
	_ = identity.Pull(s.peer, name)
	resolvers := entity.Resolvers{&identity.Identity{}: identity.NewSimpleResolver(s.peer)}
	_ = bug.Pull(s.peer, resolvers, name, author)
	ids, _ := bug.ListLocalIds(s.peer)
	sort.Slice(ids, func(i, j int) bool { return ids[i] < ids[j] })
	for k := 0; k < a.N; k++ {
		s.peerN++
		unix := int64(1700000000 + s.peerN)
		if len(ids) > 0 && (a.E+k)%2 == 0 && a.S != "new" {
			b, err := bug.Read(s.peer, ids[(a.E+k)%len(ids)])
			if err != nil {
				continue
			}
			var files []repository.Hash
			if k%2 == 1 {
				h, _ := s.peer.StoreData([]byte(fmt.Sprintf("peer attachment %d\n", s.peerN)))
				files = append(files, h)
			}
			_, _, _ = bug.AddComment(b, author, unix, fmt.Sprintf("peer comment %d", s.peerN), files, nil)
			_ = b.Commit(s.peer)
		} else {
			b, _, err := bug.Create(author, unix, fmt.Sprintf("peer bug %d", s.peerN), "from the peer", nil, nil)
			if err == nil {
				_ = b.Commit(s.peer)
			}
		}
	}
	_, _ = identity.Push(s.peer, name)
	_, _ = bug.Push(s.peer, name)
}

// ------------------------------------------------------------------ validity of what was written

type c15Tree struct {
	ID      string
	Entries []c15Entry
}
type c15Entry struct {
	Mode string
	Name string
	Hash string
}

// written reads, with stock git, every tree and every commit object that appeared in the host's object store during
// the session (written by git-bug or fetched by it; reachable or not, so that what a removed or wiped entity consisted
// of is looked at too): the entries of the trees as stored, the author and committer lines of the commits.
//
// It is called at the end of the session and before every git gc of the host's user (which may delete the objects of a
// removed entity); what earlier calls read is kept.
func (s *c15Session) written() (trees []c15Tree, idents [][2]string, err error) {
	var ids []string
	if s.harvested == nil {
		s.harvested = map[string]bool{}
	}
	for id := range s.objects() {
		if _, had := s.objsBefore[id]; !had && !s.harvested[id] {
			ids = append(ids, id)
			s.harvested[id] = true
		}
	}
	defer func() {
		if err == nil {
			s.seenTrees = append(s.seenTrees, trees...)
			trees = s.seenTrees
			merged := map[[2]string]bool{}
			for _, id := range append(s.seenIdents, idents...) {
				merged[id] = true
			}
			idents = nil
			for id := range merged {
				idents = append(idents, id)
			}
			sort.Slice(idents, func(i, j int) bool {
				if idents[i][0] != idents[j][0] {
					return idents[i][0] < idents[j][0]
				}
				return idents[i][1] < idents[j][1]
			})
			s.seenIdents = idents
			sort.Slice(trees, func(i, j int) bool { return trees[i].ID < trees[j].ID })
		}
	}()
	if len(ids) == 0 {
		return nil, nil, nil
	}
	sort.Strings(ids)
	cmd := exec.Command("git", "cat-file", "--batch")
	cmd.Dir = s.host
	cmd.Env = s.env
	cmd.Stdin = strings.NewReader(strings.Join(ids, "\n") + "\n")
	raw, err := cmd.Output()
	if err != nil {
		return nil, nil, fmt.Errorf("cat-file: %v", err)
	}
	seen := map[[2]string]bool{}
	for len(raw) > 0 {
		nl := bytes.IndexByte(raw, '\n')
		if nl < 0 {
			break
		}
		hdr := strings.Fields(string(raw[:nl]))
		if len(hdr) != 3 {
			return nil, nil, fmt.Errorf("cat-file header %q", raw[:nl])
		}
		var size int
		fmt.Sscan(hdr[2], &size)
		if len(raw) < nl+1+size+1 {
			return nil, nil, fmt.Errorf("cat-file: short object %s", hdr[0])
		}
		body := raw[nl+1 : nl+1+size]
		raw = raw[nl+1+size+1:]
		switch hdr[1] {
		case "commit":
			var id [2]string
			for _, l := range strings.Split(string(body), "\n") {
				if l == "" {
					break
				}
				if strings.HasPrefix(l, "author ") && id[0] == "" {
					id[0] = strings.TrimPrefix(l, "author ")
				}
				if strings.HasPrefix(l, "committer ") && id[1] == "" {
					id[1] = strings.TrimPrefix(l, "committer ")
				}
			}
			if !seen[id] {
				seen[id] = true
				idents = append(idents, id)
			}
		case "tree":
			t := c15Tree{ID: hdr[0]}
			for len(body) > 0 {
				sp := bytes.IndexByte(body, ' ')
				nul := bytes.IndexByte(body, 0)
				if sp < 0 || nul < sp || len(body) < nul+21 {
					return nil, nil, fmt.Errorf("malformed tree %s", hdr[0])
				}
				t.Entries = append(t.Entries, c15Entry{Mode: string(body[:sp]), Name: string(body[sp+1 : nul]), Hash: fmt.Sprintf("%x", body[nul+1:nul+21])})
				body = body[nul+21:]
			}
			trees = append(trees, t)
		}
	}
	sort.Slice(idents, func(i, j int) bool {
		if idents[i][0] != idents[j][0] {
			return idents[i][0] < idents[j][0]
		}
		return idents[i][1] < idents[j][1]
	})
	return trees, idents, nil
}

// the shape git fsck demands of an author / committer line (for the tags and the notes; the verdict is computed in Coq)
var c15IdentRe = regexp.MustCompile(`^[^<>\n]* <[^<>\n]*> (0|[1-9][0-9]*) [+-][0-9]{4}$`)

func (s *c15Session) validity(after c15Snap) (fsck, clone, push bool, notes map[string]string) {
	notes = map[string]string{}
	// --cache: what the index names counts as needed (a blob that is staged and not committed yet); reflogs count by
	// default ("invalid reflog entry" when a commit only the reflog knows is gone)
	out, err := s.git(s.host, "fsck", "--strict", "--full", "--cache", "--no-dangling")
	fsck = err == nil
	if !fsck || strings.Contains(out, "error") || strings.Contains(out, "warning") {
		notes["fsck"] = c15Tail(out)
		if strings.Contains(out, "error") {
			fsck = false
		}
	}
	if s.in.Host.Linked {
		// the index of the linked work tree is looked at from there
		if out, err := s.git(filepath.Join(s.root, "wt"), "fsck", "--strict", "--full", "--cache", "--no-dangling"); err != nil || strings.Contains(out, "error") {
			fsck = false
			notes["fsck (linked work tree)"] = c15Tail(out)
		}
	}
	var want []string
	for _, r := range after.Refs {
		if strings.HasPrefix(r[0], "refs/bugs/") || strings.HasPrefix(r[0], "refs/identities/") {
			want = append(want, r[0]+" "+r[1])
		}
	}
	cl := filepath.Join(s.root, "clone.git")
	clone = true
	if out, err := s.git(s.root, "clone", "-q", "--mirror", "-c", "transfer.fsckObjects=true", "-c", "fetch.fsck.skipList=/dev/null", "file://"+s.host, cl); err != nil {
		clone = false
		notes["clone"] = c15Tail(out)
		return
	}
	if out, err := s.git(cl, "gc", "-q", "--prune=now"); err != nil {
		clone = false
		notes["gc"] = c15Tail(out)
	}
	if out, err := s.git(cl, "fsck", "--strict", "--no-dangling"); err != nil || strings.Contains(out, "error") {
		clone = false
		notes["clone-fsck"] = c15Tail(out)
	}
	got, _ := s.git(cl, "for-each-ref", "--format=%(refname) %(objectname)", "refs/bugs", "refs/identities")
	gl := strings.Split(strings.TrimSpace(got), "\n")
	if strings.TrimSpace(got) == "" {
		gl = nil
	}
	sort.Strings(gl)
	sort.Strings(want)
	if strings.Join(gl, "\n") != strings.Join(want, "\n") {
		clone = false
		notes["clone-refs"] = fmt.Sprintf("cloned %d git-bug references, the host has %d", len(gl), len(want))
	}
	push = true
	if len(want) > 0 {
		pd := filepath.Join(s.root, "pushed.git")
		s.mustGit(s.root, "init", "-q", "--bare", pd)
		s.mustGit(pd, "config", "receive.fsckObjects", "true")
		if out, err := s.git(cl, "push", "-q", pd, "refs/bugs/*:refs/bugs/*", "refs/identities/*:refs/identities/*"); err != nil {
			push = false
			notes["push"] = c15Tail(out)
		}
	}
	return
}

func c15Tail(s string) string {
	if len(s) > 600 {
		return s[:300] + " ... " + s[len(s)-300:]
	}
	return s
}

// ------------------------------------------------------------------ one case

func c15Multiset(xs [][2]string, keep func(string) bool) map[string]int {
	m := map[string]int{}
	for _, x := range xs {
		if keep(x[0]) {
			m[x[0]+"\x01"+x[1]]++
		}
	}
	return m
}

// classify the foreign configuration changes (for tags; the verdict itself is computed in Coq)
func c15CfgDiff(before, after c15Snap) (kinds map[string]bool, detail []string) {
	kinds = map[string]bool{}
	foreign := func(k string) bool { return !strings.HasPrefix(k, "git-bug.") }
	b, a := c15Multiset(before.Cfg, foreign), c15Multiset(after.Cfg, foreign)
	vals := func(m map[string]int, key string) []string {
		var vs []string
		for kv, n := range m {
			p := strings.SplitN(kv, "\x01", 2)
			if p[0] == key {
				for i := 0; i < n; i++ {
					vs = append(vs, p[1])
				}
			}
		}
		sort.Strings(vs)
		return vs
	}
	keys := map[string]bool{}
	for kv := range b {
		keys[strings.SplitN(kv, "\x01", 2)[0]] = true
	}
	for kv := range a {
		keys[strings.SplitN(kv, "\x01", 2)[0]] = true
	}
	for k := range keys {
		vb, va := vals(b, k), vals(a, k)
		if strings.Join(vb, "\x02") == strings.Join(va, "\x02") {
			continue
		}
		detail = append(detail, fmt.Sprintf("%s: %q -> %q", k, vb, va))
		sub := len(va) >= 1 && len(va) < len(vb)
		if sub {
			rest := append([]string(nil), vb...)
			for _, v := range va {
				found := false
				for i, r := range rest {
					if r == v {
						rest = append(rest[:i], rest[i+1:]...)
						found = true
						break
					}
				}
				if !found {
					sub = false
				}
			}
		}
		switch {
		case sub && len(vb) >= 2 && strings.HasPrefix(k, "url."):
			kinds["cfgloss:url-multi"] = true
		case sub && len(vb) >= 2 && strings.HasPrefix(k, "branch."):
			kinds["cfgloss:branch-multi"] = true
		case len(vb) == 1 && len(va) == 1 && vb[0] == "\x00" && va[0] == "":
			kinds["cfgloss:valueless"] = true
		default:
			kinds["foreign:config-other"] = true
		}
	}
	if strings.Join(before.Aux, "\n") != strings.Join(after.Aux, "\n") {
		lost := true
		set := map[string]int{}
		for _, x := range before.Aux {
			set[x]++
		}
		for _, x := range after.Aux {
			if set[x] == 0 {
				lost = false
			}
			set[x]--
		}
		if lost {
			kinds["cfgloss:comment"] = true
		} else {
			kinds["foreign:config-other"] = true
		}
		detail = append(detail, fmt.Sprintf("comment lines: %d -> %d", len(before.Aux), len(after.Aux)))
	}
	sort.Strings(detail)
	return
}

func c15Pairs(xs [][2]string, rk ranker) string {
	ys := make([]string, len(xs))
	for i, x := range xs {
		ys[i] = fmt.Sprintf("(%s, %d%%N)", coqRunes(x[0]), rk.m[x[1]])
	}
	return coqList(ys)
}

func c15SnapTerm(sn c15Snap, rk ranker) string {
	aux := make([]string, len(sn.Aux))
	for i, a := range sn.Aux {
		aux[i] = fmt.Sprintf("%d%%N", rk.m[a])
	}
	sort.Strings(aux)
	return fmt.Sprintf("(mksnap %s %s %d%%N %s %s %s %s)", c15Pairs(sn.Refs, rk), coqRunes(sn.Head), rk.m[sn.Index], c15Pairs(sn.Wt, rk),
		c15Pairs(sn.Cfg, rk), coqList(aux), c15Pairs(sn.Files, rk))
}

func (c15Driver) Run(raw json.RawMessage) Case {
	var in c15Input
	if err := json.Unmarshal(raw, &in); err != nil || len(in.Actions) == 0 {
		return Case{Skip: "bad input"}
	}
	s := &c15Session{in: in, tags: map[string]bool{}, gb: os.Getenv("VERIF_GITBUG")}
	if s.gb == "" {
		panic("VERIF_GITBUG is not set: the C15 check needs the git-bug binary built from the tree under test (propcfg needs_gitbug)")
	}
	if _, err := os.Stat(s.gb); err != nil {
		panic("git-bug binary not found: " + err.Error())
	}
	defer s.cleanup()
	s.setupHost()
	before := s.snapshot()
	s.stretch = before
	prev := s.light()
	s.lastObjs = s.looseObjects()
	firstDisturb := ""
	for i, a := range in.Actions {
		s.do(a)
		cur := s.light()
		lost := s.lostObjects()
		if a.Via == "" && a.K != "peer" {
			// a command of the host's user: what it changed is not git-bug's doing
			prev = cur
			continue
		}
		if len(lost) > 0 {
			s.log[len(s.log)-1]["objects_gone"] = len(lost)
			if s.lostAt == "" {
				s.lostAt = fmt.Sprintf("%d:%s/%s", i, a.K, a.Via)
			}
		}
		var comps []string
		for _, k := range []string{"refs", "head", "index", "config", "comments"} {
			if cur[k] != prev[k] {
				comps = append(comps, k)
			}
		}
		if len(comps) > 0 {
			s.log[len(s.log)-1]["disturbed"] = comps
			if firstDisturb == "" {
				firstDisturb = fmt.Sprintf("%d:%s/%s", i, a.K, a.Via)
				s.tags["disturbed-by:"+a.K+"/"+a.Via] = true
			}
		}
		prev = cur
	}
	s.dropKept() // the long-lived process ends
	after := s.snapshot()
	if lost := s.lostObjects(); len(lost) > 0 && s.lostAt == "" {
		s.lostAt = "when the long-lived process closed the repository"
	}
	// what git-bug must leave alone is compared over every stretch of the session between two commands of the host's user
	segs := [][2]c15Snap{}
	from := before
	for _, b := range s.breaks {
		segs = append(segs, [2]c15Snap{from, b[0]})
		from = b[1]
	}
	segs = append(segs, [2]c15Snap{from, after})
	trees, idents, terr := s.written()
	if terr == nil {
		terr = s.harvestErr
	}
	fsck, clone, push, notes := s.validity(after)
	if terr != nil {
		notes["trees"] = terr.Error()
		fsck = false
	}
	// git commit of what is staged (the index is compared byte by byte elsewhere), on a copy of the repository as it is now
	commitOK := true
	if tree, note := s.commitOnCopy("end"); tree == "" {
		commitOK = false
		notes["git-commit-of-the-staged-changes-on-a-copy"] = note
	}
	// per stretch: the lines that appeared in packed-refs, the objects that disappeared from the object store, the views
	// of the host's own work at both ends
	s.endStretch(after)
	packedAdded, lostObjs, probes := s.packedAdded, s.lostObjs, s.probeRes
	sort.Strings(packedAdded)
	sort.Strings(lostObjs)
	treeByID := map[string]c15Tree{}
	for _, t := range trees {
		treeByID[t.ID] = t
	}

	// ---- tags
	tags := s.tags
	for _, f := range in.Host.Cfg {
		tags["host:"+f] = true
	}
	if len(in.Host.Cfg) == 0 {
		tags["host:plain-config"] = true
	}
	if in.Host.Packed {
		tags["host:packed-refs"] = true
	}
	if in.Host.Detached {
		tags["host:detached-head"] = true
	}
	var cfgDetail []string
	for _, sg := range segs {
		kinds, detail := c15CfgDiff(sg[0], sg[1])
		for k := range kinds {
			tags[k] = true
		}
		cfgDetail = append(cfgDetail, detail...)
	}
	frefs := func(sn c15Snap) string {
		var sb strings.Builder
		for _, r := range sn.Refs {
			if !c15InNs(r[0]) {
				sb.WriteString(r[0] + " " + r[1] + "\n")
			}
		}
		return sb.String()
	}
	ffiles := func(sn c15Snap) string {
		var sb strings.Builder
		for _, r := range sn.Files {
			if !strings.HasPrefix(r[0], "git-bug/") {
				sb.WriteString(r[0] + " " + r[1] + "\n")
			}
		}
		return sb.String()
	}
	pairs := func(xs [][2]string) string {
		var sb strings.Builder
		for _, r := range xs {
			sb.WriteString(r[0] + " " + r[1] + "\n")
		}
		return sb.String()
	}
	var refDetail []string
	for _, sg := range segs {
		before, after := sg[0], sg[1]
		if frefs(before) == frefs(after) {
			continue
		}
		tags["foreign:refs"] = true
		bm := map[string]string{}
		for _, r := range before.Refs {
			bm[r[0]] = r[1]
		}
		for _, r := range after.Refs {
			if !c15InNs(r[0]) && bm[r[0]] != r[1] {
				refDetail = append(refDetail, "changed or created: "+r[0])
			}
			delete(bm, r[0])
		}
		for n := range bm {
			if !c15InNs(n) {
				refDetail = append(refDetail, "deleted: "+n)
			}
		}
	}
	sort.Strings(refDetail)
	for _, sg := range segs {
		before, after := sg[0], sg[1]
		if before.Head != after.Head {
			tags["foreign:head"] = true
		}
		if before.Index != after.Index {
			tags["foreign:index"] = true
		}
		if pairs(before.Wt) != pairs(after.Wt) {
			tags["foreign:worktree"] = true
		}
		if ffiles(before) != ffiles(after) {
			tags["foreign:gitdir-files"] = true
		}
	}
	// references stock git reports as broken at any moment of the session; commands of the host's user that stock git refused
	var brokenNames []string
	for n := range s.broken {
		brokenNames = append(brokenNames, n)
	}
	sort.Strings(brokenNames)
	if len(brokenNames) > 0 {
		tags["refs:bad"] = true
		var ds []string
		for _, n := range brokenNames {
			ds = append(ds, n+" ("+s.broken[n]+")")
		}
		notes["broken-references"] = strings.Join(ds, "; ")
	}
	if len(s.refNotice) > 0 {
		var ls []string
		for l := range s.refNotice {
			ls = append(ls, l)
		}
		sort.Strings(ls)
		notes["for-each-ref"] = c15Tail(strings.Join(ls, "\n"))
	}
	if len(s.unreadable) > 0 {
		tags["for-each-ref:bad"] = true
		notes["stock-git-cannot-list-the-references"] = s.unreadMsg
	}
	if len(packedAdded) > 0 {
		tags["packed-refs-written:bad"] = true
		notes["lines-added-to-packed-refs"] = c15Tail(strings.Join(packedAdded, "\n"))
	}
	if len(lostObjs) > 0 {
		tags["objects-gone:bad"] = true
		notes["objects-gone-from-the-object-store"] = fmt.Sprintf("%d, first after action %s: %s", len(lostObjs), s.lostAt, c15Tail(strings.Join(lostObjs, " ")))
	}
	if !commitOK {
		tags["commit-on-copy:bad"] = true
	}
	for _, p := range probes {
		if p.Before != p.After || strings.HasPrefix(p.After, "failed") {
			tags["host-work:bad"] = true
			notes["git "+p.Name] = "at the start of the stretch: " + p.Before + "; at its end: " + p.After
		}
	}
	if in.Host.Clone {
		tags["host:clone-symrefs"] = true
	}
	if in.Host.Plain {
		tags["host:regular-files-only"] = true
	}
	if in.Host.Stash {
		tags["host:stash"] = true
	}
	if len(after.Refs) > 100 {
		tags["refs-after>100"] = true
	}
	if len(s.maintBad) > 0 {
		tags["host-user:bad"] = true
		notes["stock-git-command-refused"] = c15Tail(strings.Join(s.maintBad, "\n"))
	}
	if s.nHostUser > 0 {
		tags[fmt.Sprintf("n:host-user-commands=%d", s.nHostUser)] = true
		tags[fmt.Sprintf("n:stretches=%d", len(segs))] = true
	}
	if !fsck {
		tags["fsck:bad"] = true
	}
	if !clone {
		tags["clone:bad"] = true
	}
	if !push {
		tags["push:bad"] = true
	}
	oddMode := false
	for _, t := range trees {
		for _, e := range t.Entries {
			if e.Mode != "40000" && e.Mode != "100644" {
				oddMode = true
			}
		}
	}
	if oddMode {
		tags["tree:odd-mode"] = true
	}
	for _, t := range trees {
		names := map[string]bool{}
		for _, e := range t.Entries {
			if names[e.Name] {
				tags["tree:bad"] = true
				notes["tree-duplicate-name"] = fmt.Sprintf("tree %s has two entries named %q", t.ID, e.Name)
			}
			names[e.Name] = true
		}
	}
	var badIdents []string
	for _, id := range idents {
		for _, l := range id {
			if !c15IdentRe.MatchString(l) {
				badIdents = append(badIdents, l)
			}
		}
	}
	if len(badIdents) > 0 {
		tags["ident:bad"] = true
		if len(badIdents) > 4 {
			badIdents = badIdents[:4]
		}
		notes["malformed-author-or-committer-lines"] = strings.Join(badIdents, " | ")
	}
	if in.Host.Ident != "" {
		tags["host:ident="+in.Host.Ident] = true
	}
	if len(s.extras) > 0 {
		tags["multi:commits"] = true
	}
	loss, other := false, false
	for t := range tags {
		if strings.HasPrefix(t, "cfgloss:") {
			loss = true
		}
		if strings.HasPrefix(t, "foreign:") || strings.HasSuffix(t, ":bad") || t == "tree:odd-mode" {
			other = true
		}
	}
	switch {
	case loss && !other:
		// the only foreign change: go-git rewrote .git/config and lost values of multi-valued url.*/branch.* keys,
		// the "no value" form of a key, or comment lines
		tags["verdict:config-rewrite-loss-only"] = true
	case !loss && !other:
		tags["verdict:intact"] = true
	default:
		tags["verdict:disturbed"] = true
	}
	tags[fmt.Sprintf("n:actions=%d", len(in.Actions))] = true
	tags[fmt.Sprintf("n:trees=%d", len(trees))] = true

	// ---- Coq term
	var ds []string
	allSnaps := []c15Snap{before, after}
	for _, b := range s.breaks {
		allSnaps = append(allSnaps, b[0], b[1])
	}
	for _, sn := range allSnaps {
		for _, x := range sn.Refs {
			ds = append(ds, x[1])
		}
		for _, x := range sn.Wt {
			ds = append(ds, x[1])
		}
		for _, x := range sn.Cfg {
			ds = append(ds, x[1])
		}
		for _, x := range sn.Files {
			ds = append(ds, x[1])
		}
		ds = append(ds, sn.Index)
		ds = append(ds, sn.Aux...)
	}
	for _, t := range trees {
		for _, e := range t.Entries {
			ds = append(ds, e.Hash)
		}
	}
	for _, p := range probes {
		ds = append(ds, p.Before, p.After)
	}
	ds = append(ds, lostObjs...)
	for _, x := range s.extras {
		for _, op := range x.Ops {
			ds = append(ds, op...)
		}
	}
	rk := rankOf(ds)
	var tts []string
	for _, t := range trees {
		es := make([]string, len(t.Entries))
		for i, e := range t.Entries {
			es[i] = fmt.Sprintf("mkentry %s %s %d%%N", coqBool(e.Mode == "40000"), coqRunes(e.Name), rk.m[e.Hash])
		}
		tts = append(tts, coqList(es))
	}
	entriesTerm := func(t c15Tree) string {
		es := make([]string, len(t.Entries))
		for i, e := range t.Entries {
			es[i] = fmt.Sprintf("mkentry %s %s %d%%N", coqBool(e.Mode == "40000"), coqRunes(e.Name), rk.m[e.Hash])
		}
		return coqList(es)
	}
	// commits of several operations: the files of each operation, the "extra" tree as stored
	var xts []string
	for _, x := range s.extras {
		ops := make([]string, len(x.Ops))
		for i, op := range x.Ops {
			hs := make([]string, len(op))
			for j, h := range op {
				hs[j] = fmt.Sprintf("%d%%N", rk.m[h])
			}
			ops[i] = coqList(hs)
		}
		stored := "[]"
		if x.Tree != "" {
			if t, ok := treeByID[x.Tree]; ok {
				stored = entriesTerm(t)
			} else {
				// gone before it could be read (only an object store that loses objects does that)
				notes["extra-tree-gone"] = "the extra tree " + x.Tree + " of commit " + x.Commit + " is not in the object store any more"
				tags["objects-gone:bad"] = true
			}
		}
		xts = append(xts, "("+coqList(ops)+", "+stored+")")
	}
	// author and committer lines of the commits; what the configurations that were in force say about the person
	var its []string
	for _, id := range idents {
		its = append(its, "("+coqRunes(id[0])+", "+coqRunes(id[1])+")")
	}
	identCfg := func(cfg [][2]string) string {
		var xs []string
		for _, kv := range cfg {
			switch kv[0] {
			case "user.name", "user.email", "author.name", "author.email", "committer.name", "committer.email":
				v := kv[1]
				if v == "\x00" {
					v = ""
				}
				xs = append(xs, "("+coqRunes(kv[0])+", "+coqRunes(v)+")")
			}
		}
		return coqList(xs)
	}
	// the peer's repository is made by newTestRepo (world.go): user.name and user.email only
	peerCfg := identCfg([][2]string{{"user.name", "testuser"}, {"user.email", "testuser@example.com"}})
	var bts []string
	for _, b := range s.breaks {
		bts = append(bts, "("+c15SnapTerm(b[0], rk)+", "+c15SnapTerm(b[1], rk)+")")
	}
	var uts, pts, lts []string
	for _, n := range s.unreadable {
		uts = append(uts, fmt.Sprintf("%d%%N", n))
	}
	for _, p := range probes {
		ok := !strings.HasPrefix(p.Before, "failed") && !strings.HasPrefix(p.After, "failed")
		pts = append(pts, fmt.Sprintf("(%s, %s, %d%%N, %d%%N)", coqRunes(p.Name), coqBool(ok), rk.m[p.Before], rk.m[p.After]))
	}
	for _, id := range lostObjs {
		lts = append(lts, fmt.Sprintf("%d%%N", rk.m[id]))
	}
	term := fmt.Sprintf("mkcase %s %s %s %s %s %s %s %s %s %s %s %s %s %s %s %s %s %s %s", c15SnapTerm(before, rk), c15SnapTerm(after, rk), coqList(s.coq), coqList(tts),
		coqBool(fsck), coqBool(clone), coqBool(push), coqList(xts), coqList(its), identCfg(before.Cfg), peerCfg,
		coqList(bts), coqStrs(brokenNames), coqBool(len(s.maintBad) == 0),
		coqList(uts), coqStrs(packedAdded), coqList(pts), coqList(lts), coqBool(commitOK))

	var tl []string
	for t := range tags {
		tl = append(tl, t)
	}
	sort.Strings(tl)
	obs := map[string]interface{}{"actions": s.log, "first_disturbing_action": firstDisturb, "foreign_config_changes": cfgDetail,
		"foreign_ref_changes": refDetail, "fsck": fsck, "clone_gc_fsck": clone, "push_with_receive_fsck": push, "notes": notes,
		"refs_after": len(after.Refs), "trees": len(trees), "author_committer_lines": len(idents), "multi_operation_commits": len(s.extras),
		"long_lived_process": in.Keep, "host_user_commands": s.nHostUser, "stretches_compared": len(segs), "broken_references": brokenNames, "stock_git_commands_refused": len(s.maintBad),
		"for_each_ref_failed_after_actions": s.unreadable, "lines_added_to_packed_refs": len(packedAdded), "objects_gone": len(lostObjs), "first_action_losing_objects": s.lostAt,
		"views_of_the_hosts_work_compared": len(probes), "commit_of_the_staged_changes_on_a_copy": commitOK}
	return Case{Coq: term, Obs: obs, Tags: tl, NonTrivial: s.wrote, Key: string(raw)}
}
