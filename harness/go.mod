module verifharness

go 1.22.5

require (
	github.com/99designs/keyring v1.2.2
	github.com/MichaelMure/git-bug v0.0.0
	github.com/ProtonMail/go-crypto v1.0.0
	github.com/go-git/go-billy/v5 v5.5.0
	github.com/go-git/go-git/v5 v5.12.0
	github.com/gorilla/mux v1.8.1
)

require (
	dario.cat/mergo v1.0.0 // indirect
	github.com/99designs/gqlgen v0.17.49 // indirect
	github.com/RoaringBitmap/roaring v1.9.4 // indirect
	github.com/agnivade/levenshtein v1.1.1 // indirect
	github.com/bits-and-blooms/bitset v1.13.0 // indirect
	github.com/blevesearch/bleve v1.0.14 // indirect
	github.com/blevesearch/go-porterstemmer v1.0.3 // indirect
	github.com/blevesearch/mmap-go v1.0.4 // indirect
	github.com/blevesearch/segment v0.9.1 // indirect
	github.com/blevesearch/snowballstem v0.9.0 // indirect
	github.com/blevesearch/zap/v11 v11.0.14 // indirect
	github.com/blevesearch/zap/v12 v12.0.14 // indirect
	github.com/blevesearch/zap/v13 v13.0.6 // indirect
	github.com/blevesearch/zap/v14 v14.0.5 // indirect
	github.com/blevesearch/zap/v15 v15.0.3 // indirect
	github.com/cheekybits/genny v1.0.0 // indirect
	github.com/cloudflare/circl v1.3.9 // indirect
	github.com/couchbase/vellum v1.0.2 // indirect
	github.com/cyphar/filepath-securejoin v0.3.0 // indirect
	github.com/davecgh/go-spew v1.1.1 // indirect
	github.com/dustin/go-humanize v1.0.1 // indirect
	github.com/dvsekhvalnov/jose2go v1.7.0 // indirect
	github.com/emirpasic/gods v1.18.1 // indirect
	github.com/fatih/color v1.17.0 // indirect
	github.com/go-git/gcfg v1.5.1-0.20230307220236-3a3c6141e376 // indirect
	github.com/godbus/dbus v0.0.0-20190726142602-4481cbc300e2 // indirect
	github.com/golang/groupcache v0.0.0-20210331224755-41bb18bfe9da // indirect
	github.com/golang/protobuf v1.5.4 // indirect
	github.com/golang/snappy v0.0.4 // indirect
	github.com/google/go-querystring v1.1.0 // indirect
	github.com/google/uuid v1.6.0 // indirect
	github.com/gorilla/websocket v1.5.3 // indirect
	github.com/gsterjov/go-libsecret v0.0.0-20161001094733-a6f4afe4910c // indirect
	github.com/hashicorp/go-cleanhttp v0.5.2 // indirect
	github.com/hashicorp/go-retryablehttp v0.7.7 // indirect
	github.com/hashicorp/golang-lru/v2 v2.0.7 // indirect
	github.com/jbenet/go-context v0.0.0-20150711004518-d14ea06fba99 // indirect
	github.com/kevinburke/ssh_config v1.2.0 // indirect
	github.com/mattn/go-colorable v0.1.13 // indirect
	github.com/mattn/go-isatty v0.0.20 // indirect
	github.com/mitchellh/mapstructure v1.5.0 // indirect
	github.com/mtibben/percent v0.2.1 // indirect
	github.com/pjbgf/sha1cd v0.3.0 // indirect
	github.com/pkg/errors v0.9.1 // indirect
	github.com/pmezard/go-difflib v1.0.0 // indirect
	github.com/sergi/go-diff v1.3.2-0.20230802210424-5b0b94c5c0d3 // indirect
	github.com/skeema/knownhosts v1.3.0 // indirect
	github.com/sosodev/duration v1.3.1 // indirect
	github.com/steveyen/gtreap v0.1.0 // indirect
	github.com/stretchr/testify v1.9.0 // indirect
	github.com/vektah/gqlparser/v2 v2.5.16 // indirect
	github.com/willf/bitset v1.1.11 // indirect
	github.com/xanzy/go-gitlab v0.107.0 // indirect
	github.com/xanzy/ssh-agent v0.3.3 // indirect
	go.etcd.io/bbolt v1.3.10 // indirect
	golang.org/x/crypto v0.26.0 // indirect
	golang.org/x/net v0.27.0 // indirect
	golang.org/x/oauth2 v0.22.0 // indirect
	golang.org/x/sync v0.8.0 // indirect
	golang.org/x/sys v0.23.0 // indirect
	golang.org/x/term v0.23.0 // indirect
	golang.org/x/text v0.17.0 // indirect
	golang.org/x/time v0.5.0 // indirect
	google.golang.org/protobuf v1.34.2 // indirect
	gopkg.in/warnings.v0 v0.1.2 // indirect
	gopkg.in/yaml.v3 v3.0.1 // indirect
)

replace github.com/MichaelMure/git-bug => /repo

replace github.com/praetorian-inc/gokart v0.5.1 => github.com/selesy/gokart v0.5.2-rc1

replace github.com/willf/bitset v1.1.11 => github.com/bits-and-blooms/bitset v1.1.11
