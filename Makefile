# /verif — setup: full Coq build (.vo, never -vos) and harness build against /repo
export GOFLAGS=-mod=mod
export GOPROXY=off
export GOSUMDB=off
export GOTOOLCHAIN=local
export DBUS_SESSION_BUS_ADDRESS=unix:path=/nonexistent

.PHONY: setup coq harness clean
setup: coq harness

coq:
	cd coq && coq_makefile -f _CoqProject -o Makefile >/dev/null && timeout 1500 $(MAKE) -j16

harness:
	python3 -c "import vlib,sys; ok,out,_=vlib.build_harness(); print(out[-2000:]); sys.exit(0 if ok else 1)"

clean:
	rm -rf .work; cd coq && rm -f *.vo *.vok *.vos *.glob .*.aux Makefile Makefile.conf .Makefile.d
