#!/usr/bin/env python3
"""Regenerates /verif/MANIFEST.json from props.py (claimed checks) and tools/not_applicable.json."""
import json, os, sys
sys.path.insert(0, os.path.join(os.path.dirname(__file__), ".."))
import props

ROOT = os.path.join(os.path.dirname(os.path.abspath(__file__)), "..")
hooks = json.load(open(os.path.join(ROOT, "tools", "hooks.json")))
na = json.load(open(os.path.join(ROOT, "tools", "not_applicable.json")))
claims = json.load(open(os.path.join(ROOT, "tools", "claims.json")))
checks = []
for pid in sorted(props.PROPS):
    cfg = dict(props.PROPS[pid])
    cfg.update(claims.get(pid, {}))
    checks.append({
        "property_id": pid,
        "quick_cmd": "./check %s --tier quick" % pid,
        "thorough_cmd": "./check %s --tier thorough" % pid,
        "evidence_file": "evidence/%s.json" % pid,
        "replay_cmd_template": "./check %s --replay {path}" % pid,
        "engine": "rocq-model+correspondence",
        "level_claimed": {"category": "proof", "text": cfg.get("claim", "Theorems over a Gallina model of the code, tied to /repo by a differential correspondence run (" + cfg["corr"] + ") and a boolean property checker evaluated on the implementation's observations."),
                          "design_ref": "DESIGN.md section 3, " + pid},
        "level_note": cfg.get("note", "Trusted: Coq kernel + vm_compute; the hand-written model; the Go harness and python driver. " + "; ".join(cfg.get("assumptions", []))),
        "technique": cfg.get("technique", "Rocq (Coq 8.16) proof over a hand-written Gallina model + differential correspondence check against the Go implementation"),
    })
m = {
    "version": 1,
    "setup_cmd": "make -C /verif setup",
    "hooks": hooks,
    "engines": [{"name": "rocq-model+correspondence", "path": "/verif/check", "serves_properties": sorted(props.PROPS),
                 "kind_free_text": "hand-written Gallina models with unbounded theorems (Coq 8.16.1, full .vo build, Print Assumptions under every property theorem) tied to /repo by a differential correspondence check: a Go harness built against /repo's working tree (tag verif) runs the implementation in child processes; coqc evaluates model and property checker on the observations with vm_compute"}],
    "checks": checks,
    "not_applicable": [x for x in na if x["property_id"] not in props.PROPS],
    "notes": "see DESIGN.md; known_findings.json lists repaired defects (fixed:) and recorded findings",
}
json.dump(m, open(os.path.join(ROOT, "MANIFEST.json"), "w"), indent=1)
print("MANIFEST.json:", len(checks), "checks,", len(m["not_applicable"]), "not applicable")
