#!/usr/bin/env python3
"""Runs the checks against every seeded defect under /verif/seeded/<id>/ (patch.diff + meta.json):
applies the patch to /repo, runs ./check <property> (quick), reverts. Prints one line per defect and
writes seeded/RESULTS.json. /repo must be clean before; it is restored after each patch."""
import json, os, subprocess, sys, time
ROOT = os.path.dirname(os.path.dirname(os.path.abspath(__file__)))
REPO = os.environ.get("SEEDED_REPO", "/repo")  # a scratch worktree of /repo can be used instead of /repo itself

def sh(cmd, cwd=None):
    p = subprocess.run(cmd, cwd=cwd, shell=isinstance(cmd, str), stdout=subprocess.PIPE, stderr=subprocess.STDOUT, text=True, env=dict(os.environ, VERIF_REPO=REPO))
    return p.returncode, p.stdout

def main():
    only = sys.argv[1:]
    rc, out = sh(["git", "-C", REPO, "status", "--porcelain"])
    if out.strip():
        print("refusing: /repo is not clean:\n" + out); return 2
    results = {}
    rp = os.path.join(ROOT, "seeded", "RESULTS.json")
    if os.path.exists(rp):
        results = json.load(open(rp))
    for d in sorted(os.listdir(os.path.join(ROOT, "seeded"))):
        p = os.path.join(ROOT, "seeded", d)
        if not os.path.isfile(os.path.join(p, "patch.diff")):
            continue
        if only and d not in only and not any(d.startswith(o) for o in only):
            continue
        meta = json.load(open(os.path.join(p, "meta.json")))
        if meta.get("retired"):
            # a later repair of the tree made this change harmless (its own demonstration passes with it applied)
            results[d] = {"title": meta.get("title"), "property": meta["property"], "checks": {}, "caught": False, "retired": meta["retired"]}
            print("%-28s RETIRED %s" % (d, meta["retired"][:90]))
            continue
        props = meta.get("checks") or [meta["property"]]
        rc, out = sh(["git", "-C", REPO, "apply", os.path.join(p, "patch.diff")])
        if rc != 0:
            print("%-28s patch does not apply: %s" % (d, out.strip()[:200])); continue
        try:
            res = {}
            for prop in props:
                t0 = time.time()
                rc, out = sh(["./check", prop, "--tier", "quick"], cwd=ROOT)
                viol = [l for l in out.splitlines() if l.startswith("VIOLATION")]
                res[prop] = {"exit": rc, "violations": len(viol), "first": viol[0] if viol else "", "wall_s": round(time.time() - t0, 1),
                             "summary": (out.strip().splitlines() or [""])[-1][:200]}
            results[d] = {"title": meta.get("title"), "property": meta["property"], "checks": res,
                          "caught": any(v["exit"] == 1 and v["violations"] > 0 for v in res.values())}
            print("%-28s %s  %s" % (d, "CAUGHT" if results[d]["caught"] else "MISSED", {k: (v["exit"], v["violations"]) for k, v in res.items()}))
        finally:
            sh(["git", "-C", REPO, "checkout", "--", "."])
            sh(["git", "-C", REPO, "clean", "-fdq"])
    json.dump(results, open(rp, "w"), indent=1, sort_keys=True)
    return 0

if __name__ == "__main__":
    sys.exit(main())
