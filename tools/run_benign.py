#!/usr/bin/env python3
"""Runs checks against the behaviour-preserving refactorings under /verif/benign/<id>/ (patch.diff + meta.json with
`checks`): applies the patch to /repo, runs ./check <property> (quick) for each listed property, reverts. A check that
exits non-zero on such a patch is a false alarm of the machinery. Writes benign/RESULTS.json."""
import json, os, subprocess, sys, time
ROOT = os.path.dirname(os.path.dirname(os.path.abspath(__file__)))
REPO = os.environ.get("BENIGN_REPO", "/repo")  # a scratch worktree of /repo can be used instead of /repo itself

def sh(cmd, cwd=None):
    p = subprocess.run(cmd, cwd=cwd, stdout=subprocess.PIPE, stderr=subprocess.STDOUT, text=True, env=dict(os.environ, VERIF_REPO=REPO))
    return p.returncode, p.stdout

def main():
    only = sys.argv[1:]
    rc, out = sh(["git", "-C", REPO, "status", "--porcelain"])
    if out.strip():
        print("refusing: /repo is not clean:\n" + out); return 2
    rp = os.path.join(ROOT, "benign", "RESULTS.json")
    results = json.load(open(rp)) if os.path.exists(rp) else {}
    for d in sorted(os.listdir(os.path.join(ROOT, "benign")), key=lambda s: (len(s), s)):
        p = os.path.join(ROOT, "benign", d)
        if not os.path.isfile(os.path.join(p, "patch.diff")) or (only and d not in only):
            continue
        meta = json.load(open(os.path.join(p, "meta.json")))
        rc, out = sh(["git", "-C", REPO, "apply", os.path.join(p, "patch.diff")])
        if rc != 0:
            print("%-6s patch does not apply: %s" % (d, out.strip()[:200])); continue
        try:
            res = {}
            for prop in meta["checks"]:
                t0 = time.time()
                rc, out = sh(["./check", prop, "--tier", "quick"], cwd=ROOT)
                viol = [l for l in out.splitlines() if l.startswith("VIOLATION")]
                res[prop] = {"exit": rc, "violations": len(viol), "first": viol[0] if viol else "", "wall_s": round(time.time() - t0, 1)}
            results[d] = {"title": meta.get("title"), "checks": res, "false_alarm": any(v["exit"] != 0 for v in res.values())}
            print("%-6s %s  %s" % (d, "FALSE-ALARM" if results[d]["false_alarm"] else "quiet", {k: (v["exit"], v["violations"]) for k, v in res.items()}))
        finally:
            sh(["git", "-C", REPO, "checkout", "--", "."])
            sh(["git", "-C", REPO, "clean", "-fdq"])
    json.dump(results, open(rp, "w"), indent=1, sort_keys=True)
    return 0

if __name__ == "__main__":
    sys.exit(main())
