#!/usr/bin/env python3
"""Assembles /verif/DESIGN.md from design/*.md, the findings files, the seeded results and coq/P_*.v."""
import glob, json, os, re, sys
ROOT = os.path.dirname(os.path.dirname(os.path.abspath(__file__)))
sys.path.insert(0, ROOT)
import props

def rd(p):
    return open(os.path.join(ROOT, p)).read()

out = [rd("design/00-head.md").rstrip(), "", "-" * 99, "", "## 3. The properties", ""]
claimed = sorted(props.PROPS)
for i in range(1, 21):
    pid = "C%02d" % i
    p = os.path.join(ROOT, "design", pid + ".md")
    if os.path.exists(p):
        txt = open(p).read().rstrip()
        txt = re.sub(r"^# ", "### ", txt, count=1)
        out += [txt, ""]
    else:
        out += ["### %s — (no check yet)" % pid, "", "Not claimed in this round; see MANIFEST.json not_applicable.", ""]

na = json.load(open(os.path.join(ROOT, "tools", "not_applicable.json")))
na = [x for x in na if x["property_id"] not in props.PROPS]
out += ["-" * 99, "", "## 4. Not applicable / not claimed", ""]
if na:
    for x in na:
        out.append("* %s — %s" % (x["property_id"], x["reason"]))
else:
    out.append("None: every property is claimed. Four live largely in the runtime (C06 file-system atomicity, C15 what go-git writes, "
               "C18 goroutine schedules and the Go memory model, C19 operating-system processes): for each the *logic* is an executable "
               "model with unbounded theorems tied to the code by correspondence, the runtime remainder is named in its section and in "
               "`level_note`, and the claim is labelled partial.")
out.append("")

# ---- defect ledger
fs = []
for p in [os.path.join(ROOT, "known_findings.json")] + sorted(glob.glob(os.path.join(ROOT, "findings", "*.json"))):
    fs += json.load(open(p))["findings"]
out += ["-" * 99, "", "## 5. Defects established by the checks on the pinned tree", "",
        "Every row was first exhibited by its check with a concrete witness (kept in `corpus/`), on the tree as it was at that "
        "moment. *fixed* rows are one unguarded `fix:` commit each in /repo (the check passes on the repaired tree, prints no "
        "KNOWN-FINDING line for them and would report the violation again if it returned). *known* rows are genuine defects "
        "without a small safe repair; the check prints `KNOWN-FINDING:` for cases matching their narrow signature and still "
        "reports any other violation.", "",
        "| property | id | state | commit | what |", "|---|---|---|---|---|"]
for f in sorted(fs, key=lambda f: (f["property"], f["state"], f["id"])):
    out.append("| %s | %s | %s | %s | %s |" % (f["property"], f["id"], f["state"], f.get("commit") or "—", f["what"].replace("|", "/")))
out.append("")
out.append("%d repaired defects, %d recorded findings." % (sum(1 for f in fs if f["state"] == "fixed"), sum(1 for f in fs if f["state"] == "known")))
out.append("")

# ---- seeded
out += ["-" * 99, "", "## 6. Seeded breaking changes: which checks catch which", "",
        "Written by fresh sub-agents that were given only the text of one property and a scratch worktree of /repo (nothing from "
        "/verif), each confirmed independently (`tools/confirm_seed.sh`: builds, existing tests of the touched packages pass, the "
        "demonstration fails with the change and passes without), then run with `tools/run_seeded.py` (apply to /repo, quick check, "
        "revert). `seeded/<id>/` holds patch.diff, the demonstration and meta.json; `seeded/RESULTS.json` the outcome.", ""]
rp = os.path.join(ROOT, "seeded", "RESULTS.json")
res = json.load(open(rp)) if os.path.exists(rp) else {}
out += ["| seed | change | needs | result |", "|---|---|---|---|"]
for d in sorted(glob.glob(os.path.join(ROOT, "seeded", "*", "meta.json"))):
    sid = os.path.basename(os.path.dirname(d))
    m = json.load(open(d))
    r = res.get(sid)
    if m.get("retired"):
        rs = "retired: " + m["retired"]
    elif r:
        rs = ("**caught** by " if r["caught"] else "MISSED by ") + ", ".join("%s (%d VIOLATION lines)" % (k, v["violations"]) for k, v in r["checks"].items())
    else:
        rs = "not run yet"
    note = m.get("integrator_note")
    if note:
        rs += " — " + note
    out.append("| %s | %s | %s | %s |" % (sid, m.get("title", "").replace("|", "/")[:220], (m.get("needs") or "").replace("|", "/")[:200], rs))
out.append("")

# ---- benign
bp = os.path.join(ROOT, "benign", "RESULTS.json")
if os.path.exists(bp):
    br = json.load(open(bp))
    out += ["### Behaviour-preserving refactorings: which checks stay quiet", "",
            "Ten refactorings a maintainer would make routinely (extracted helpers, renamed locals and temporary files, restructured "
            "loops and switches, reworded informational messages), written by a sub-agent that saw only a worktree of /repo and "
            "confirmed that the existing tests pass; `benign/<id>/` holds patch.diff and meta.json with the checks run, "
            "`tools/run_benign.py` applies each to /repo, runs those quick checks and reverts. A non-zero exit here is a false alarm.", "",
            "| id | refactoring | checks run | result |", "|---|---|---|---|"]
    for b in sorted(br, key=lambda s: (len(s), s)):
        r = br[b]
        out.append("| %s | %s | %s | %s |" % (b, (r.get("title") or "").replace("|", "/")[:200], ", ".join(r["checks"]),
                                            "FALSE ALARM: " + ", ".join(k for k, v in r["checks"].items() if v["exit"] != 0) if r["false_alarm"] else "quiet"))
    out.append("")

# ---- theorem inventory
out += ["-" * 99, "", "## 7. Theorem inventory (generated from coq/P_*.v)", ""]
for pf in sorted(glob.glob(os.path.join(ROOT, "coq", "P_C*.v"))):
    src = open(pf).read()
    names = re.findall(r"^\s*(Theorem|Corollary|Example)\s+(\w+)", src, re.M)
    out.append("* `%s`: %s" % (os.path.basename(pf), ", ".join(("%s" % n) + (" (Example)" if k == "Example" else "") for k, n in names)))
out.append("")
tail = os.path.join(ROOT, "design", "99-tail.md")
if os.path.exists(tail):
    out.append(open(tail).read().rstrip())
    out.append("")
open(os.path.join(ROOT, "DESIGN.md"), "w").write("\n".join(out))
print("DESIGN.md: %d lines" % len(out))
