#!/usr/bin/env python3
"""Which code of /repo do the correspondence runs of a property actually execute?

    tools/coverage.py Cxx [--tier quick] [--seed N] [--all-files]

Builds the harness (and the CLI when the property drives it) with `go build -cover` over the git-bug packages, runs
gen + run of every part of the property with GOCOVERDIR set (worker processes inherit it), merges the counters and
prints, for the files the property is anchored in (properties.jsonl: anchors.files), statement coverage per function
and the functions never entered. A generator blind spot shows up here as a function of an anchor file with 0%.
This is a development aid: it is not part of any check and writes nothing but .work/cover/Cxx/.
"""
import glob, json, os, re, shutil, subprocess, sys
sys.path.insert(0, os.path.dirname(os.path.dirname(os.path.abspath(__file__))))
import vlib, props

MOD = "github.com/MichaelMure/git-bug"


def main():
    args = sys.argv[1:]
    pid = args[0]
    tier = "quick"
    seed = "1"
    allfiles = "--all-files" in args
    if "--tier" in args:
        tier = args[args.index("--tier") + 1]
    if "--seed" in args:
        seed = args[args.index("--seed") + 1]
    cfg = props.PROPS[pid]
    anchors = []
    for l in open(os.path.join(vlib.ROOT, "properties.jsonl")):
        p = json.loads(l)
        if p["id"] == pid:
            anchors = p["anchors"]["files"]
    cdir = os.path.join(vlib.WORK, "cover", pid)
    shutil.rmtree(cdir, ignore_errors=True)
    os.makedirs(os.path.join(cdir, "data"))
    # harness with coverage
    bdir = os.path.join(cdir, "build")
    os.makedirs(bdir)
    for f in glob.glob(os.path.join(vlib.ROOT, "harness", "*.go")) + [os.path.join(vlib.ROOT, "harness", "go.mod")]:
        shutil.copy(f, bdir)
    shutil.copy(os.path.join(vlib.REPO, "go.sum"), os.path.join(bdir, "go.sum"))
    gm = os.path.join(bdir, "go.mod")
    txt = open(gm).read().replace(MOD + " => /repo", MOD + " => " + vlib.REPO)
    open(gm, "w").write(txt)
    binp = os.path.join(cdir, "harness")
    # the main package has to be instrumented too, or no counter file is written at exit
    rc, out = vlib.sh(["go", "build", "-cover", "-coverpkg=verifharness," + MOD + "/...", "-tags", "verif", "-o", binp, "."], cwd=bdir, env=vlib.GOENV)
    if rc != 0:
        print(out)
        sys.exit(2)
    env = dict(os.environ, **vlib.GOENV)
    env.update(GOCOVERDIR=os.path.join(cdir, "data"), VERIF_ROOT=vlib.ROOT, VERIF_REPO=vlib.REPO, VERIF_WORK=cdir)
    if cfg.get("needs_gitbug"):
        gb = os.path.join(cdir, "git-bug")
        rc, out = vlib.sh(["go", "build", "-cover", "-coverpkg=" + MOD + "," + MOD + "/...", "-tags", "verif", "-o", gb, "."], cwd=vlib.REPO, env=vlib.GOENV)
        if rc != 0:
            print(out)
            sys.exit(2)
        env["VERIF_GITBUG"] = gb
    parts = cfg.get("parts") or [{"driver": cfg.get("driver", pid)}]
    for part in parts:
        drv = part["driver"]
        gen = os.path.join(cdir, "gen_%s.jsonl" % drv)
        inputs = os.path.join(cdir, "inputs_%s.jsonl" % drv)
        subprocess.run([binp, "gen", drv, "-seed", seed, "-tier", tier, "-out", gen], env=env, check=True)
        with open(inputs, "w") as f:
            for c in sorted(glob.glob(os.path.join(vlib.ROOT, "corpus", drv, "*.json"))):
                f.write(json.dumps(json.load(open(c))) + "\n")
            f.write(open(gen).read())
        subprocess.run([binp, "run", drv, "-inputs", inputs, "-out", os.path.join(cdir, "cases_%s.jsonl" % drv),
                        "-case-timeout", cfg.get("case_timeout", "120s")], env=env)
    prof = os.path.join(cdir, "profile.txt")
    subprocess.run(["go", "tool", "covdata", "textfmt", "-i=" + os.path.join(cdir, "data"), "-o", prof], env=env, cwd=bdir, check=True)
    fn = subprocess.run(["go", "tool", "cover", "-func=" + prof], env=env, cwd=bdir, capture_output=True, text=True).stdout
    rows = []
    for l in fn.splitlines():
        m = re.match(r"(\S+?):(\d+):\s+(\S+)\s+([\d.]+)%", l)
        if not m:
            continue
        path = m.group(1).replace(MOD + "/", "")
        rows.append((path, int(m.group(2)), m.group(3), float(m.group(4))))
    sel = [r for r in rows if allfiles or r[0] in anchors]
    byfile = {}
    for r in sel:
        byfile.setdefault(r[0], []).append(r)
    print("property %s, tier %s, seed %s: coverage of the anchor files by the correspondence runs" % (pid, tier, seed))
    for f in sorted(byfile):
        fr = byfile[f]
        zero = [r for r in fr if r[3] == 0.0]
        print("  %-46s functions %3d, never entered %3d" % (f, len(fr), len(zero)))
        for r in fr:
            if r[3] < 100.0:
                print("      %-40s %5.1f%%  (line %d)" % (r[2], r[3], r[1]))
    missing = [a for a in anchors if a not in byfile]
    if missing:
        print("  anchor files without any instrumented function in the run:", ", ".join(missing))


if __name__ == "__main__":
    main()
