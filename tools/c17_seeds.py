#!/usr/bin/env python3
"""Self-test of the C17 check: seeds one realistic defect at a time into a SCRATCH copy of git-bug and runs ./check C17 on it.
Every seed must end in exit 1 (VIOLATION; 'no-cleanup' only breaks the correspondence: no-failing-input-found).

  git -C /repo worktree add --detach /tmp/c17-seed        # scratch tree (apply fixes/C17-*.patch first if not yet in /repo)
  python3 tools/c17_seeds.py /tmp/c17-seed [seed names]
  git -C /repo worktree remove --force /tmp/c17-seed
"""
import sys,subprocess,os,shutil
T=sys.argv[1]
ROOT=os.path.dirname(os.path.dirname(os.path.abspath(__file__)))
MUT=T+'/api/graphql/resolvers/mutation.go'; UP=T+'/api/http/git_file_upload_handler.go'
BASE={MUT:open(MUT).read(),UP:open(UP).read()}
def reset():
    for p,c in BASE.items(): open(p,'w').write(c)
def sub(path,old,new,count=1):
    s=open(path).read(); assert old in s, old; open(path,'w').write(s.replace(old,new,count))
def func_body(name):
    s=open(MUT).read(); i=s.index('func (r mutationResolver) %s('%name); j=s.index('\nfunc ',i+1) if '\nfunc ' in s[i+1:] else len(s); return s,i,j
def in_func(name,old,new):
    s,i,j=func_body(name); seg=s[i:j]; assert old in seg,(name,old); open(MUT,'w').write(s[:i]+seg.replace(old,new,1)+s[j:])
seeds={}
def s1():  # CloseBug mutates (as the repository's own user) before looking at the request's user
    in_func('CloseBug',"""	author, err := auth.UserFromCtx(ctx, repo)
	if err != nil {
		return nil, err
	}

	op, err := b.CloseRaw(author, time.Now().Unix(), nil)
	if err != nil {
		return nil, err
	}

	err = b.Commit()
	if err != nil {
		return nil, err
	}
""","""	owner, err := repo.GetUserIdentity()
	if err != nil {
		return nil, err
	}

	op, err := b.CloseRaw(owner, time.Now().Unix(), nil)
	if err != nil {
		return nil, err
	}

	err = b.Commit()
	if err != nil {
		return nil, err
	}

	_, err = auth.UserFromCtx(ctx, repo)
	if err != nil {
		return nil, err
	}
""")
seeds['mutate-before-gate']=(s1,{})
def s1b():  # AddComment stages the comment (no commit) before the gate: only the cache's memory changes
    in_func('AddComment',"""	author, err := auth.UserFromCtx(ctx, repo)
	if err != nil {
		return nil, err
	}

	_, op, err := b.AddCommentRaw(author,""","""	owner, _ := repo.GetUserIdentity()
	_, _, _ = b.AddCommentRaw(owner, time.Now().Unix(), "staged", nil, nil)
	author, err := auth.UserFromCtx(ctx, repo)
	if err != nil {
		return nil, err
	}

	_, op, err := b.AddCommentRaw(author,""")
seeds['stage-before-gate']=(s1b,{})
def s2():  # OpenBug without the gate, and the harness treats openBug as a mutation it has never seen
    in_func('OpenBug',"""	author, err := auth.UserFromCtx(ctx, repo)
	if err != nil {
		return nil, err
	}
""","""	author, err := auth.UserFromCtx(ctx, repo)
	if err != nil {
		author, err = repo.GetUserIdentity()
		if err != nil {
			return nil, err
		}
	}
""")
seeds['new-mutation-no-gate']=(s2,{'VERIF_C17_FORGET':'openBug'})
def s2b():
    s2()
seeds['known-mutation-no-gate']=(s2b,{})
def s3():  # upload stores the blob before checking the user
    s=open(UP).read()
    a=s.index("	_, err = auth.UserFromCtx(r.Context(), repo)"); b=s.index("	// 100MB (github limit)")
    gate=s[a:b]; s=s[:a]+s[b:]
    k=s.index("	type response struct")
    s=s[:k]+gate+s[k:]
    open(UP,'w').write(s)
seeds['upload-store-before-gate']=(s3,{})
def s4():  # AddComment records the comment under the repository's own user
    in_func('AddComment',"""	_, op, err := b.AddCommentRaw(author,""","""	author, err = repo.GetUserIdentity()
	if err != nil {
		return nil, err
	}

	_, op, err := b.AddCommentRaw(author,""")
seeds['other-identity']=(s4,{})
def s5():  # SetTitle returns the bug as it was before the change
    in_func('SetTitle',"""	op, err := b.SetTitleRaw(""","""	before := *b.Snapshot()
	before.Operations = append([]dag.Operation(nil), before.Operations...)
	op, err := b.SetTitleRaw(""")
    in_func('SetTitle',"""		Bug:              models.NewLoadedBug(b.Snapshot()),""","""		Bug:              models.NewLoadedBug(&before),""")
    sub(MUT,'"github.com/MichaelMure/git-bug/entities/bug"\n','"github.com/MichaelMure/git-bug/entities/bug"\n\t"github.com/MichaelMure/git-bug/entity/dag"\n')
seeds['stale-bug']=(s5,{})
def s6():  # SetTitle forgets the cleanup (records the raw text)
    in_func('SetTitle',"text.CleanupOneLine(input.Title)","input.Title")
seeds['no-cleanup']=(s6,{})
def s7():  # editComment forgets to commit: change only in memory
    in_func('EditComment',"""	err = b.Commit()
	if err != nil {
		return nil, err
	}
""","")
seeds['no-commit']=(s7,{})
which=sys.argv[2:] or list(seeds)
for name in which:
    reset(); f,env=seeds[name]; f()
    e=dict(os.environ,VERIF_REPO=T,DBUS_SESSION_BUS_ADDRESS='unix:path=/nonexistent',GOFLAGS='-mod=mod',GOPROXY='off',GOSUMDB='off',GOTOOLCHAIN='local',**env)
    p=subprocess.run(['./check','C17'],cwd=ROOT,env=e,capture_output=True,text=True)
    lines=(p.stdout+p.stderr).strip().splitlines()
    print('=====',name,'exit',p.returncode); print('\n'.join(lines[-6:]))
reset()
