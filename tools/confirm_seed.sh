#!/bin/bash
# confirm_seed.sh <worktree> <seed out dir> <package dir for the demo> [extra test packages...]
# Confirms a seeded defect independently: with the patch: builds, demo FAILS, existing tests of the touched/likely
# packages pass; without the patch: demo PASSES. Leaves the worktree clean.
set -u
export GOFLAGS=-mod=mod GOPROXY=off GOSUMDB=off GOTOOLCHAIN=local DBUS_SESSION_BUS_ADDRESS=unix:path=/nonexistent
WT=$1; OUT=$2; PKG=$3; shift 3
cd "$WT" || exit 2
git checkout -q -- . ; git clean -fdq -e _out
DEMO=$(ls "$OUT"/*_test.go | head -1)
TESTS=$(grep -o 'func Test[A-Za-z0-9_]*' "$DEMO" | sed 's/func //' | paste -sd'|')
run_demo() { cp "$DEMO" "$PKG/zz_seed_demo_test.go"; go test -vet=off -count=1 -run "^($TESTS)\$" "./$PKG/" > /tmp/confirm_demo.log 2>&1; rc=$?; rm -f "$PKG/zz_seed_demo_test.go"; return $rc; }
run_demo; base=$?
git apply "$OUT/patch.diff" || { echo "RESULT patch-does-not-apply"; exit 1; }
go build ./... > /tmp/confirm_build.log 2>&1; build=$?
run_demo; with=$?
pk="./$PKG/... $*"
go test -vet=off -count=1 $pk 2>&1 | grep -E "^(FAIL|ok|---)" | grep -v "TestBugComment" > /tmp/confirm_suite.log
suite_fail=$(grep -c "^--- FAIL\|^FAIL" /tmp/confirm_suite.log)
# the three date-dependent tests make commands/bug FAIL as a package: tolerate a package FAIL line only for commands/bug
suite_fail=$(grep "^--- FAIL\|^FAIL" /tmp/confirm_suite.log | grep -v "commands/bug" | grep -vc "^FAIL$")
git checkout -q -- . ; git clean -fdq -e _out
echo "RESULT demo_without_patch=$base(expect 0) build=$build(expect 0) demo_with_patch=$with(expect !=0) existing_tests_failing=$suite_fail(expect 0)"
if [ $base -eq 0 ] && [ $build -eq 0 ] && [ $with -ne 0 ] && [ $suite_fail -eq 0 ]; then echo CONFIRMED; else echo NOT-CONFIRMED; tail -5 /tmp/confirm_demo.log; cat /tmp/confirm_suite.log | tail -5; fi
