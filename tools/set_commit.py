#!/usr/bin/env python3
"""set_commit.py <findings file> <finding id> <commit>: replaces PENDING by the commit hash."""
import json, sys
p, fid, h = sys.argv[1:4]
d = json.load(open(p))
for f in d["findings"]:
    if f["id"] == fid:
        f["commit"] = h
        if "line" in f:
            f["line"] = f["line"].replace("PENDING", h)
json.dump(d, open(p, "w"), indent=1)
