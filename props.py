"""Per-property configuration of /verif/check."""

COMMON_TRUSTED = [
    "Coq 8.16.1 kernel and vm_compute (no native_compute)",
    "Coq standard library (List, Arith, NArith, ZArith, Sorting, Lia); no axioms: every property theorem prints 'Closed under the global context'",
    "hand-written Gallina model (not generated from the Go source); tied to /repo by the differential correspondence run of this check",
    "the Go harness (generator, canonicaliser, Coq term printer) and the python driver /verif/check",
    "no extraction: models are evaluated inside coqc on generated cases_*.v",
]

WORLD_RULE = ("sessions of 2-3 real go-git repositories sharing a bare remote: exhaustive fork shapes (common prefix 0..2, local suffix 0..3, remote suffix 0..3, "
              "three exchange orders; quick runs a third of them chosen by the seed) plus random sessions of 5..25 (thorough 40) actions over {new bug, edit (1-3 packs of 1-3 ops, "
              "6 operation kinds, 1-3 authors), push, pull, remove, close/reopen, delete clock files + reopen with the clock loader}, 3 in 4 ending with a synchronisation round; non-trivial = at least one merge reported updated or a merge commit; "
              "distinct = distinct action list")
WORLD_TRUSTED = ["modelled, not verified: go-git fetch/push (modelled as fast-forward-only ref copies, all-or-nothing push), sha-256 (ids compared through order-preserving ranks)",
                 "the harness reads the commit graph back through repository.RepoData using the documented tree-entry format, independently of dag.read"]

PROPS = {
    "C01": dict(
        kmod="K_C01", driver="C01", shard=40, explain=True, case_timeout="300s",
        corr="Sync.sstep (over World.step) = bug.{Create,Read,Commit,Push,Fetch,MergeAll,Remove} on go-git repositories",
        rule=WORLD_RULE, trusted=COMMON_TRUSTED + WORLD_TRUSTED,
        assumptions=["fewer than 10^6 clock increments in a session (C01_reachable_valid's premise; see finding F-clock)",
                     "pack ids determine pack content (sha-256)"],
    ),
    "C02": dict(
        parts=[dict(driver="C02", kmod="K_C02", shard=40, explain=True), dict(driver="C09", kmod="K_C09", shard=100, explain=True)],
        case_timeout="300s",
        corr="Sync.sstep (over World.step) = bug.{Create,Read,Commit,Push,Fetch,MergeAll,Remove} on go-git repositories",
        rule=WORLD_RULE, trusted=COMMON_TRUSTED + WORLD_TRUSTED,
        assumptions=["the identity side is the C09 driver (version chains on two replicas, identity.MergeAll) judged by K_C09"],
    ),
    "C03": dict(
        parts=[dict(driver="C03d", kmod="K_C03", shard=400, explain=True), dict(driver="C03w", kmod="K_C03w", shard=40, explain=True)],
        case_timeout="300s",
        corr="Read.read = bug.Read (crafted DAGs, go-git and in-memory backends); Sync.sstep = session actions",
        rule="part 1: random commit DAGs of 1..9 commits (chains, forks, merges, unreachable commits, equal edit times) written through repository.RepoData in the documented format, "
             "two thirds with one perturbation out of {equal/smaller clock, jump of exactly 10^6 / 10^6+1, jump on a merge, second root, missing create clock, merge with operations, "
             "zero edit clock, create clock on a child, duplicated parent}, go-git or in-memory backend, each read 3 times; part 2: " + WORLD_RULE +
             "; non-trivial = more than one commit / a merge happened",
        trusted=COMMON_TRUSTED + WORLD_TRUSTED,
        assumptions=["two commits with identical content are one git object: such generated inputs are skipped"],
    ),
    "C05": dict(
        parts=[dict(driver="C05w", kmod="K_C05w", shard=40, explain=True), dict(driver="C05cli", kmod="K_C05cli", shard=50, explain=True),
               dict(driver="C05f", kmod="K_C05f", shard=100, explain=True),
               dict(driver="C05p", kmod="K_C05p", shard=300)],
        needs_gitbug=True,
        case_timeout="300s",
        corr="Sync.sstep (over World.step, incl. AResetClock) = session actions incl. close/reopen with and without clock files",
        rule=WORLD_RULE, trusted=COMMON_TRUSTED + WORLD_TRUSTED,
        assumptions=["fewer than 10^6 increments per session; no remote serves a root commit with a forged huge clock (finding F-clock)"],
    ),
    "C20": dict(
        parts=[dict(driver="C20", kmod="K_C20", shard=1500), dict(driver="C20g", kmod="K_C20g", shard=10, explain=True)],
        corr="Page.paginate = connections.{Label,Comment,Operation,TimelineItem,Identity,LazyBug,LazyIdentity}Con",
        rule="exhaustive over list length n<=4 (quick) / n<=6 (thorough) x after/before in {nil, every offset 0..n, foreign, malformed} x first/last in {nil,-1..n+1}, "
             "rotating over the 7 generated connection functions (thorough: all 7 on every input), plus random inputs with n in 5..12; "
             "non-trivial = n>0 and at least one of first/last/after/before given; distinct = distinct input tuple; GraphQL part: repositories with 3-9 identities, 2-7 bugs, "
             "1-8 comments and labels; each of the 8 paginated fields (allIdentities, allBugs, validLabels, comments, operations, timeline, actors, participants) is walked forwards and "
             "backwards with page size 1-4 through the real HTTP handler, one request per page",
        exhaustive=True,
        trusted=COMMON_TRUSTED + ["modelled, not verified: edge makers and connection makers of the resolvers (re-stated in the harness), base64 cursor codec (used as a black box by the harness)"],
        assumptions=["cursors are compared as strings; an offset cursor >= n designates no element",
                     "contradictory windows (before <= after) follow the Relay rule implemented by the template (before is searched only after 'after')"],
    ),
}


# per-property configuration fragments written as JSON (propcfg/Cxx.json), same keys as above;
# "trusted" is appended to COMMON_TRUSTED
import glob as _glob, json as _json, os as _os
for _f in sorted(_glob.glob(_os.path.join(_os.path.dirname(_os.path.abspath(__file__)), "propcfg", "*.json"))):
    _c = _json.load(open(_f))
    _c["trusted"] = COMMON_TRUSTED + _c.get("trusted", [])
    PROPS[_c.pop("property")] = _c


def case_signature(prop, c):
    """Coarse signature used to avoid printing the same violation many times."""
    tags = c.get("tags") or []
    return prop + ":" + ",".join(sorted(t for t in tags if not t.startswith("n:")))[:200] + (":crash" if c.get("crashed") else "")


def match_finding(prop, c, findings):
    """Returns the id of the known finding this failing case is an instance of, or None.
    A finding matches only through its narrow signature: all of its 'tags_all' are among the case's
    tags, at least one of 'tags_any' (when given) is, and none of 'tags_none' is."""
    tags = set(c.get("tags") or [])
    for f in findings:
        sig = f.get("signature") or {}
        need = set(sig.get("tags_all") or [])
        if not need:
            continue
        anyof = set(sig.get("tags_any") or [])
        if anyof and not (anyof & tags):
            continue
        if need <= tags and not (set(sig.get("tags_none") or []) & tags):
            if sig.get("crashed") is not None and bool(c.get("crashed")) != sig["crashed"]:
                continue
            return f["id"]
    return None
