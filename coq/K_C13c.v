(* C13, population part — a real cache.RepoCache on a go-git repository: ResolvePrefix / ResolveExcerptPrefix on bugs and
   identities, ResolveComment, commands/select.Resolve, for every prefix length of every id and combined id plus foreign
   prefixes. Ids are the REAL id strings (code points); answers are given as positions in the population. *)
From Coq Require Import List Arith NArith Bool Lia.
Import ListNotations.
From GB Require Export K_C13.

Inductive seldesc := SelNone | SelBug (i : nat) | SelRaw (l : nid).
Inductive api := ABug | ABugExcerpt | AIdent | AIdentExcerpt | AComment | ASelect (sel : seldesc) (nrest : nat).
Inductive base := BBug (i : nat) | BIdent (i : nat) | BCom (b j : nat) | BRaw (l : nid).
(* applied to the k-symbol prefix of the base string *)
Inductive tweak := TNone | TUpper | TMut (c : N) (* last symbol replaced by c *) | TSnoc (c : N) (* c appended *).

Inductive obs :=
| OFound (i : nat)                 (* the entity at position i *)
| OFoundC (b cb cj : nat)          (* bug b returned together with the combined id of comment cj of bug cb *)
| OMultiple (l : list nat)         (* entity.ErrMultipleMatch with these ids *)
| ONotFound                        (* entity.ErrNotFound *)
| ONoComment                       (* ResolveComment's plain "comment doesn't exist" *)
| ONoValidId                       (* select.ErrNoValidId *)
| OSelFound (i nrest : nat)        (* select.Resolve: entity i, number of remaining arguments *)
| OUnknown                         (* an id that is not in the population *)
| OOther
| OLocked (o : obs).               (* answered o, but the object handed out is an evicted instance: its first use blocks for ever *)

(* the prefixes firstn k (base), k = from, from+1, ..., with the observations run-length encoded; r_cap is the bound on the
   number of loaded entities (SetCacheSize) under which the questions were asked, 1000 being the default (a binary number:
   a unary 1000 in every run doubles the time coqc needs to read the cases). Every object a
   successful answer hands out is USED once (a read that takes its lock) under a watchdog *)
Record run := mkrun { r_api : api; r_base : base; r_tweak : tweak; r_cap : N; r_from : nat; r_obs : list (obs * nat) }.

Record case := mkccase {
  c_bugs : list (nid * list (nid * nid));   (* bug id; per comment of the snapshot: operation id, observed CombinedId *)
  c_idents : list nid;
  c_runs : list run
}.

Definition bug_ids (c : case) : list nid := map fst (c_bugs c).
Definition bug_recs (c : case) : list (bugrec N) := map (fun b => (fst b, map fst (snd b))) (c_bugs c).

Definition base_str (c : case) (b : base) : nid :=
  match b with
  | BBug i => nth i (bug_ids c) []
  | BIdent i => nth i (c_idents c) []
  | BCom b j => snd (nth j (snd (nth b (c_bugs c) ([], []))) ([], []))
  | BRaw l => l
  end.
Definition upper (x : N) : N := if (N.leb 97 x && N.leb x 122)%bool then (x - 32)%N else x.
Definition apply_tweak (t : tweak) (x : nid) : nid :=
  match t with
  | TNone => x
  | TUpper => map upper x
  | TMut ch => match x with [] => [] | _ => removelast x ++ [ch] end
  | TSnoc ch => x ++ [ch]
  end.
Definition prefix_at (c : case) (r : run) (k : nat) : nid := apply_tweak (r_tweak r) (firstn k (base_str c (r_base r))).

Fixpoint expand (from : nat) (l : list (obs * nat)) : list (nat * obs) :=
  match l with [] => [] | (o, n) :: t => map (fun k => (k, o)) (seq from n) ++ expand (from + n) t end.

(* position of an id in a population (length of the list if absent) *)
Fixpoint index_of (x : nid) (l : list nid) : nat :=
  match l with [] => 0 | y :: t => if ideqb x y then 0 else S (index_of x t) end.
Definition memn (x : nat) (l : list nat) := existsb (Nat.eqb x) l.
Definition set_eqb (a b : list nat) : bool := forallb (fun x => memn x b) a && forallb (fun x => memn x a) b.

(* the model never predicts OLocked: CommentLive.resolve_live / comment_handle_live, for every bound and cache content *)
Definition obs_eqb (a b : obs) : bool :=
  match a, b with
  | OFound i, OFound j => Nat.eqb i j
  | OFoundC b1 c1 j1, OFoundC b2 c2 j2 => Nat.eqb b1 b2 && Nat.eqb c1 c2 && Nat.eqb j1 j2
  | OMultiple l1, OMultiple l2 => set_eqb l1 l2
  | ONotFound, ONotFound | ONoComment, ONoComment | ONoValidId, ONoValidId => true
  | OSelFound i n, OSelFound j m => Nat.eqb i j && Nat.eqb n m
  | _, _ => false
  end.

(* ---- the model's answer, in the shape of an observation ---- *)
Definition of_rres (pop : list nid) (r : rres N) : obs :=
  match r with
  | RFound _ i => OFound (index_of i pop)
  | RMultiple _ l => OMultiple (map (fun i => index_of i pop) l)
  | RNotFound _ => ONotFound
  end.
(* position of the comment of bug b whose (model) combined id is cid *)
Fixpoint com_index (bid cid : nid) (ops : list nid) : nat :=
  match ops with [] => 0 | s :: t => if ideqb (combine_ids N bid s) cid then 0 else S (com_index bid cid t) end.
Definition sel_id (c : case) (s : seldesc) : option nid :=
  match s with SelNone => None | SelBug i => Some (nth i (bug_ids c) []) | SelRaw l => Some l end.

Definition predict (c : case) (a : api) (pfx : nid) : obs :=
  match a with
  | ABug | ABugExcerpt => of_rres (bug_ids c) (resolve_prefix N N.eqb (bug_ids c) pfx)
  | AIdent | AIdentExcerpt => of_rres (c_idents c) (resolve_prefix N N.eqb (c_idents c) pfx)
  | AComment =>
      match resolve_comment N N.eqb (bug_recs c) pfx with
      | CFound _ b cid => let i := index_of b (bug_ids c) in
                          OFoundC i i (com_index b cid (snd (nth i (bug_recs c) ([], []))))
      | CMultiple _ l => OMultiple (map (fun i => index_of i (bug_ids c)) l)
      | CNone _ => ONoComment
      end
  | ASelect sel nrest =>
      match select_resolve N N.eqb (bug_ids c) (sel_id c sel) (pfx :: repeat [] nrest) with
      | SFound _ i rest => OSelFound (index_of i (bug_ids c)) (length rest)
      | SMultiple _ l => OMultiple (map (fun i => index_of i (bug_ids c)) l)
      | SNoValidId _ => ONoValidId
      end
  end.

(* every comment's CombinedId is the interleaving of its bug's id and its operation's id *)
Definition cids_agree (c : case) : bool :=
  forallb (fun b => forallb (fun oc => ideqb (combine_ids N (fst b) (fst oc)) (snd oc)) (snd b)) (c_bugs c).

Definition run_agrees (c : case) (r : run) : bool :=
  forallb (fun ko => obs_eqb (predict c (r_api r) (prefix_at c r (fst ko))) (snd ko)) (expand (r_from r) (r_obs r)).
Definition agrees (c : case) : bool := cids_agree c && forallb (run_agrees c) (c_runs c).
Definition mismatches (cs : list case) : list nat := index_filter agrees 0 cs.

(* ---- the property, evaluated on the implementation's answers (specification level: plain scans, no candidate filter) ---- *)
Fixpoint positions (f : nid -> bool) (i : nat) (l : list nid) : list nat :=
  match l with [] => [] | x :: t => if f x then i :: positions f (S i) t else positions f (S i) t end.
(* (bug position, comment position) of every comment whose OBSERVED combined id starts with pfx *)
Fixpoint com_positions (pfx : nid) (b : nat) (bugs : list (nid * list (nid * nid))) : list (nat * nat) :=
  match bugs with
  | [] => []
  | x :: t => map (fun j => (b, j)) (positions (pfxb pfx) 0 (map snd (snd x))) ++ com_positions pfx (S b) t
  end.
Definition pairn_eqb (a b : nat * nat) := Nat.eqb (fst a) (fst b) && Nat.eqb (snd a) (snd b).

Definition entity_ok (ids : list nid) (pfx : nid) (o : obs) : bool :=
  match positions (pfxb pfx) 0 ids with
  | [] => match o with ONotFound => true | _ => false end
  | [i] => match o with OFound j => Nat.eqb i j | _ => false end
  | m => match o with OMultiple l => set_eqb l m | _ => false end
  end.
Definition comment_ok (c : case) (pfx : nid) (o : obs) : bool :=
  match com_positions pfx 0 (c_bugs c) with
  | [] => match o with OFoundC _ _ _ => false | _ => true end          (* never to another *)
  | [(b, j)] => match o with OFoundC b' cb cj => Nat.eqb b b' && Nat.eqb b cb && Nat.eqb j cj | _ => false end
  | m => match o with OFoundC b' cb cj => Nat.eqb b' cb && existsb (pairn_eqb (cb, cj)) m | _ => true end
  end.
Definition select_ok (c : case) (sel : seldesc) (nrest : nat) (pfx : nid) (o : obs) : bool :=
  match positions (pfxb pfx) 0 (bug_ids c) with
  | [] => match o with          (* no entity is addressed: only the stored selection may be answered *)
          | OSelFound i _ => match sel with SelBug j => Nat.eqb i j | _ => false end
          | OMultiple _ | OFound _ | OFoundC _ _ _ => false
          | _ => true
          end
  | [i] => match o with OSelFound j _ => Nat.eqb i j | _ => false end
  | m => match o with OMultiple l => set_eqb l m | _ => false end
  end.
Definition answer_ok (c : case) (a : api) (pfx : nid) (o : obs) : bool :=
  match a with
  | ABug | ABugExcerpt => entity_ok (bug_ids c) pfx o
  | AIdent | AIdentExcerpt => entity_ok (c_idents c) pfx o
  | AComment => comment_ok c pfx o
  | ASelect sel nrest => select_ok c sel nrest pfx o
  end.
(* number of entities / comments the prefix addresses *)
Definition n_targets (c : case) (a : api) (pfx : nid) : nat :=
  match a with
  | ABug | ABugExcerpt | ASelect _ _ => length (positions (pfxb pfx) 0 (bug_ids c))
  | AIdent | AIdentExcerpt => length (positions (pfxb pfx) 0 (c_idents c))
  | AComment => length (com_positions pfx 0 (c_bugs c))
  end.
Fixpoint strip (o : obs) : obs := match o with OLocked o' => strip o' | _ => o end.
Definition is_locked (o : obs) : bool := match o with OLocked _ => true | _ => false end.
(* "returns that entity" / "resolves to that comment and its bug": when the prefix identifies a single target, an object
   that can never be used is not that entity. Elsewhere (no target, several) only the answer itself is judged *)
Definition obs_ok (c : case) (a : api) (pfx : nid) (o : obs) : bool :=
  if is_locked o then (if Nat.eqb (n_targets c a pfx) 1 then false else answer_ok c a pfx (strip o))
  else answer_ok c a pfx o.
Definition run_ok (c : case) (r : run) : bool :=
  forallb (fun ko => obs_ok c (r_api r) (prefix_at c r (fst ko)) (snd ko)) (expand (r_from r) (r_obs r)).
Definition C13_ok (c : case) : bool := forallb (run_ok c) (c_runs c).
Definition failing (cs : list case) : list nat := index_filter C13_ok 0 cs.

(* --replay: (run position, bound on loaded entities, prefix length, model's answer, implementation's answer, property verdict) where they differ
   or the property is false *)
Definition explain_run (c : case) (ri : nat * run) :=
  let r := snd ri in
  flat_map (fun ko =>
    let pfx := prefix_at c r (fst ko) in
    let m := predict c (r_api r) pfx in
    let ok := obs_ok c (r_api r) pfx (snd ko) in
    if obs_eqb m (snd ko) && ok then [] else [(fst ri, r_cap r, fst ko, m, snd ko, ok)]) (expand (r_from r) (r_obs r)).
Definition explain (c : case) :=
  (cids_agree c, firstn 6 (flat_map (explain_run c) (combine (seq 0 (length (c_runs c))) (c_runs c)))).
