(* C20 — GraphQL part: page walks through the served API against the model's walk. *)
From Coq Require Import List Arith Lia Bool ZArith.
Import ListNotations.
From GB Require Export Page.

Record walkobs := mkwalk { w_n : nat; w_k : nat; w_total : nat;
  w_fpages : list (list nat); w_fmore : list bool; w_ftotals : list nat;
  w_bpages : list (list nat); w_bmore : list bool; w_btotals : list nat }.
Record case := mkcase20g { k_walks : list walkobs }.

Fixpoint nl_eqb (a b : list nat) : bool :=
  match a, b with [], [] => true | x :: a', y :: b' => Nat.eqb x y && nl_eqb a' b' | _, _ => false end.
Fixpoint nll_eqb (a b : list (list nat)) : bool :=
  match a, b with [], [] => true | x :: a', y :: b' => nl_eqb x y && nll_eqb a' b' | _, _ => false end.
Fixpoint bl_eqb (a b : list bool) : bool :=
  match a, b with [], [] => true | x :: a', y :: b' => Bool.eqb x y && bl_eqb a' b' | _, _ => false end.

(* the model's client: follow end (start) cursors while hasNext (hasPrevious) *)
Fixpoint model_fwd (fuel n k : nat) (after : option nat) : list (list nat * bool) :=
  match fuel with 0 => [] | S f =>
    match paginate n {| i_after := option_map Off after; i_before := None; i_first := Some (Z.of_nat k); i_last := None |} with
    | Ok p => (p_items p, p_hasnext p) ::
              (if p_hasnext p then match rev (p_items p) with e :: _ => model_fwd f n k (Some e) | [] => [] end else [])
    | _ => []
    end end.
Fixpoint model_bwd (fuel n k : nat) (before : option nat) : list (list nat * bool) :=
  match fuel with 0 => [] | S f =>
    match paginate n {| i_after := None; i_before := option_map Off before; i_first := None; i_last := Some (Z.of_nat k) |} with
    | Ok p => (p_items p, p_hasprev p) ::
              (if p_hasprev p then match p_items p with e :: _ => model_bwd f n k (Some e) | [] => [] end else [])
    | _ => []
    end end.

Definition walk_agrees (w : walkobs) : bool :=
  let mf := model_fwd (S (w_n w)) (w_n w) (w_k w) None in
  let mb := model_bwd (S (w_n w)) (w_n w) (w_k w) None in
  nll_eqb (map fst mf) (w_fpages w) && bl_eqb (map snd mf) (w_fmore w) &&
  nll_eqb (map fst mb) (w_bpages w) && bl_eqb (map snd mb) (w_bmore w).
Definition agrees (c : case) : bool := forallb walk_agrees (k_walks c).

(* the property: every element exactly once, in list order; truthful flags; total count *)
Fixpoint more_ok (l : list bool) : bool :=
  match l with [] => false | [b] => negb b | b :: t => b && more_ok t end.
Definition walk_ok (w : walkobs) : bool :=
  nl_eqb (concat (w_fpages w)) (seq 0 (w_n w)) && more_ok (w_fmore w) &&
  nl_eqb (concat (rev (w_bpages w))) (seq 0 (w_n w)) && more_ok (w_bmore w) &&
  Nat.eqb (w_total w) (w_n w) && forallb (Nat.eqb (w_n w)) (w_ftotals w) && forallb (Nat.eqb (w_n w)) (w_btotals w) &&
  forallb (fun p => Nat.leb (length p) (w_k w)) (w_fpages w ++ w_bpages w).
Definition C20g_ok (c : case) : bool := forallb walk_ok (k_walks c).

Fixpoint index_filter {A} (f : A -> bool) (i : nat) (l : list A) : list nat :=
  match l with [] => [] | x :: t => if f x then index_filter f (S i) t else i :: index_filter f (S i) t end.
Definition mismatches (cs : list case) : list nat := index_filter agrees 0 cs.
Definition failing (cs : list case) : list nat := index_filter C20g_ok 0 cs.
Definition explain (c : case) := map (fun w => (model_fwd (S (w_n w)) (w_n w) (w_k w) None, model_bwd (S (w_n w)) (w_n w) (w_k w) None)) (k_walks c).
