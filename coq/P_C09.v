(* C09 — identity histories are append-only and merged fast-forward only. Property theorems only. *)
From Coq Require Import List Arith NArith Bool.
Import ListNotations.
From GB Require Import IdMerge IdValid.
Local Open Scope N_scope.

Theorem C09_updated loc suf : suf <> [] -> merge_identity loc (loc ++ suf) = MUpdated (loc ++ suf).
Proof. exact (IdMerge.C09_updated loc suf). Qed.
Print Assumptions C09_updated.

Theorem C09_nothing rem suf : merge_identity (rem ++ suf) rem = MNothing.
Proof. exact (IdMerge.C09_nothing rem suf). Qed.
Print Assumptions C09_nothing.

Theorem C09_invalid_iff loc rem : merge_identity loc rem = MInvalid <-> (~ prefix loc rem /\ ~ prefix rem loc).
Proof. exact (IdMerge.C09_invalid_iff loc rem). Qed.
Print Assumptions C09_invalid_iff.

Theorem C09_validate_rejects_bad_version pre v post : version_ok v = false -> validate_identity (pre ++ v :: post) = false.
Proof. exact (reject_bad_version pre v post). Qed.
Print Assumptions C09_validate_rejects_bad_version.

Theorem C09_validate_rejects_dropped_clock v1 v2 k x rest :
  tlookup k (v_times v1) = Some x -> tlookup k (v_times v2) = None -> validate_identity (v1 :: v2 :: rest) = false.
Proof. exact (reject_dropped_clock v1 v2 k x rest). Qed.
Print Assumptions C09_validate_rejects_dropped_clock.
