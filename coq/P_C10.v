(* C10 — a bug's state is exactly the documented interpretation of its operations. Property theorems only. *)
From Coq Require Import List Arith NArith Bool Sorting.Sorted.
Import ListNotations.
From GB Require Import Snap Labels SnapProps.
Local Open Scope N_scope.

(* labels: duplicate free, sorted, and exactly (L ∪ added) ∖ removed — the swap-remove loop is a set difference *)
Theorem C10_labels L A R : NoDup L ->
  let res := apply_labels L A R in
  NoDup res /\ Sorted N.le res /\ forall x, In x res <-> (In x L \/ In x A) /\ ~ In x R.
Proof. exact (Labels.C10_labels L A R). Qed.
Print Assumptions C10_labels.

(* the state maintained operation by operation equals a compilation from scratch *)
Theorem C10_incremental ops more : ops <> [] -> compile (ops ++ more) = fold_left apply more (compile ops).
Proof. exact (compile_app_fold ops more). Qed.
Print Assumptions C10_incremental.

(* an edit of an unknown target changes nothing *)
Theorem C10_unknown_target s i au t msg files :
  existsb (fun c => id_eqb (c_id c) t) (s_comments s) = false ->
  let s' := apply s (OEditComment i au t msg files) in
  s_comments s' = s_comments s /\ s_timeline s' = s_timeline s /\ s_title s' = s_title s /\ s_status s' = s_status s /\
  s_labels s' = s_labels s /\ s_actors s' = s_actors s /\ s_parts s' = s_parts s /\ s_ops s' = s_ops s ++ [i].
Proof. exact (edit_unknown_target s i au t msg files). Qed.
Print Assumptions C10_unknown_target.

(* metadata attached later never overrides an existing key *)
Theorem C10_metadata_immutable ops s x k v :
  extra_lookup x k (s_extra s) = Some v -> extra_lookup x k (s_extra (fold_left apply ops s)) = Some v.
Proof. exact (fold_keeps_extra ops s x k v). Qed.
Print Assumptions C10_metadata_immutable.

(* title and status are those of the last title / status change, or of creation (a later create operation
   with another id changes nothing) *)
Theorem C10_title_status i au title msg files rest : (forall o, In o rest -> not_recreate i o) ->
  let s := compile (OCreate i au title msg files :: rest) in
  s_title s = fold_left title_step rest title /\ s_status s = fold_left status_step rest 1.
Proof. exact (compile_title_status i au title msg files rest). Qed.
Print Assumptions C10_title_status.
