(* C10 — a bug's state is exactly the documented interpretation of its operations. Property theorems only.
   The central one is C10_compile_spec: Snap.compile = the specification of SnapSpec.v on every valid sequence. *)
From Coq Require Import List Arith NArith Bool Sorting.Sorted.
Import ListNotations.
From GB Require Import Snap Labels SnapProps SnapSpec SnapSpecProofs SnapTrunc.
Local Open Scope N_scope.

(* labels: duplicate free, sorted, and exactly (L ∪ added) ∖ removed — the swap-remove loop is a set difference *)
Theorem C10_labels L A R : NoDup L ->
  let res := apply_labels L A R in
  NoDup res /\ Sorted N.le res /\ forall x, In x res <-> (In x L \/ In x A) /\ ~ In x R.
Proof. exact (Labels.C10_labels L A R). Qed.
Print Assumptions C10_labels.

(* the state maintained operation by operation equals a compilation from scratch *)
Theorem C10_incremental ops more : ops <> [] -> compile (ops ++ more) = fold_left apply more (compile ops).
Proof. exact (compile_app_fold ops more). Qed.
Print Assumptions C10_incremental.

(* an edit of an unknown target changes nothing *)
Theorem C10_unknown_target s i au t msg files :
  existsb (fun c => id_eqb (c_id c) t) (s_comments s) = false ->
  let s' := apply s (OEditComment i au t msg files) in
  s_comments s' = s_comments s /\ s_timeline s' = s_timeline s /\ s_title s' = s_title s /\ s_status s' = s_status s /\
  s_labels s' = s_labels s /\ s_actors s' = s_actors s /\ s_parts s' = s_parts s /\ s_ops s' = s_ops s ++ [i].
Proof. exact (edit_unknown_target s i au t msg files). Qed.
Print Assumptions C10_unknown_target.

(* metadata attached later never overrides an existing key *)
Theorem C10_metadata_immutable ops s x k v :
  extra_lookup x k (s_extra s) = Some v -> extra_lookup x k (s_extra (fold_left apply ops s)) = Some v.
Proof. exact (fold_keeps_extra ops s x k v). Qed.
Print Assumptions C10_metadata_immutable.

(* title and status are those of the last title / status change, or of creation (a later create operation
   with another id changes nothing) *)
Theorem C10_title_status i au title msg files rest : (forall o, In o rest -> not_recreate i o) ->
  let s := compile (OCreate i au title msg files :: rest) in
  s_title s = fold_left title_step rest title /\ s_status s = fold_left status_step rest 1.
Proof. exact (compile_title_status i au title msg files rest). Qed.
Print Assumptions C10_title_status.

(* ---- the compiled state IS the documented interpretation, for every valid operation sequence ----
   [valid_ids] (SnapSpec.v): full operation ids pairwise distinct — nothing about their first 14 characters, which two
   operations of a bug may share (an edit finds its comment by the full id).  The right-hand sides are the
   independent specification of SnapSpec.v, the one the C10 checker compares the implementation with. *)
Theorem C10_compile_spec ops o1 rest : ops = o1 :: rest -> is_create o1 = true -> valid_ids ops = true ->
  let s := compile ops in let first := op_id o1 in
  s_title s = spec_title first ops /\ s_status s = spec_status ops /\ s_labels s = spec_labels ops /\
  s_comments s = spec_comments first ops /\ (s_actors s, s_parts s) = spec_actors_parts first ops /\
  map titem_view (s_timeline s) = spec_timeline first ops /\ s_ops s = map op_id ops /\
  map (fun e => kv_sort (snd e)) (s_extra s) = spec_meta ops.
Proof. exact (compile_spec_create ops o1 rest). Qed.
Print Assumptions C10_compile_spec.

(* the first operation need not even be a create *)
Theorem C10_compile_spec_any_first ops o1 rest : ops = o1 :: rest -> valid_ids ops = true ->
  let s := compile ops in let first := op_id o1 in
  s_title s = spec_title first ops /\ s_status s = spec_status ops /\ s_labels s = spec_labels ops /\
  s_comments s = spec_comments first ops /\ (s_actors s, s_parts s) = spec_actors_parts first ops /\
  map titem_view (s_timeline s) = spec_timeline first ops /\ s_ops s = map op_id ops /\
  map (fun e => kv_sort (snd e)) (s_extra s) = spec_meta ops.
Proof. exact (compile_spec ops o1 rest). Qed.
Print Assumptions C10_compile_spec_any_first.

(* component by component, each under the weakest hypothesis it needs *)
Theorem C10_status_labels_ops_spec ops :
  s_status (compile ops) = spec_status ops /\ s_labels (compile ops) = spec_labels ops /\ s_ops (compile ops) = map op_id ops.
Proof. exact (compile_status_labels_ops_spec ops). Qed.
Print Assumptions C10_status_labels_ops_spec.

Theorem C10_title_spec o1 rest : s_title (compile (o1 :: rest)) = spec_title (op_id o1) (o1 :: rest).
Proof. exact (compile_title_spec o1 rest). Qed.
Print Assumptions C10_title_spec.

(* comments and actors / participants: edits resolve to the comment whose full id they name *)
Theorem C10_comments_spec o1 rest : valid_ids (o1 :: rest) = true ->
  s_comments (compile (o1 :: rest)) = spec_comments (op_id o1) (o1 :: rest).
Proof. exact (compile_comments_spec o1 rest). Qed.
Print Assumptions C10_comments_spec.

Theorem C10_actors_participants_spec o1 rest : valid_ids (o1 :: rest) = true ->
  (s_actors (compile (o1 :: rest)), s_parts (compile (o1 :: rest))) = spec_actors_parts (op_id o1) (o1 :: rest).
Proof. exact (compile_actors_parts_spec o1 rest). Qed.
Print Assumptions C10_actors_participants_spec.

(* timeline: only needs that no later create operation carries the first id *)
Theorem C10_timeline_spec o1 rest : (forall o, In o rest -> not_recreate (op_id o1) o) ->
  map titem_view (s_timeline (compile (o1 :: rest))) = spec_timeline (op_id o1) (o1 :: rest).
Proof. exact (compile_timeline_spec o1 rest). Qed.
Print Assumptions C10_timeline_spec.

(* metadata: only needs pairwise distinct full ids *)
Theorem C10_metadata_spec ops : NoDup (map snd (op_ids ops)) ->
  map (fun e => kv_sort (snd e)) (s_extra (compile ops)) = spec_meta ops.
Proof. exact (compile_meta_spec ops). Qed.
Print Assumptions C10_metadata_spec.

(* validity is decidable and what it says; it excludes a second create with the first id *)
Theorem C10_valid_ids_meaning ops : valid_ids ops = true <-> NoDup (map snd (op_ids ops)).
Proof. exact (valid_ids_validP ops). Qed.
Print Assumptions C10_valid_ids_meaning.

(* the lookup through combined ids (14 characters of the operation id, first match wins) that git-bug used before the
   repair does NOT compute the interpretation on every valid bug: there is a valid sequence (two add-comment operations
   sharing 14 characters, an edit naming the second) on which it differs from the specification, and on which the
   lookup by full id agrees with it *)
Theorem C10_truncated_lookup_refuted :
  exists ops o1 rest, ops = o1 :: rest /\ is_create o1 = true /\ NoDup (map snd (op_ids ops)) /\
    s_comments (compile14 ops) <> spec_comments (op_id o1) ops /\
    s_comments (compile ops) = spec_comments (op_id o1) ops.
Proof. exact truncated_lookup_refuted. Qed.
Print Assumptions C10_truncated_lookup_refuted.

Theorem C10_valid_no_recreate o1 rest : NoDup (map snd (op_ids (o1 :: rest))) -> forall o, In o rest -> not_recreate (op_id o1) o.
Proof. exact (valid_ids_no_recreate o1 rest). Qed.
Print Assumptions C10_valid_no_recreate.

(* a valid sequence with an edit, an edit of a 14-character-colliding unknown target, a label change and metadata;
   and what the theorem then says about it *)
Example C10_valid_example : valid_ids ex_ops = true.
Proof. exact ex_ops_valid. Qed.
Example C10_valid_example_state :
  let s := compile ex_ops in
  s_title s = 6 /\ s_labels s = [3] /\ map c_msg (s_comments s) = [7; 9] /\ map c_edits (s_comments s) = [0; 1]%nat /\
  s_actors s = [1; 2; 3] /\ s_parts s = [1; 2] /\
  map titem_view (s_timeline s) = [(true, 1); (true, 2); (false, 4); (false, 7)] /\
  map (fun e => kv_sort (snd e)) (s_extra s) = [[]; [(1, 4)]; []; []; []; []; []].
Proof. vm_compute. repeat split. Qed.

(* shared first 14 characters and "incoherent" targets no longer matter (SnapSpecProofs.v); a repeated full id does *)
Example C10_head_collision_harmless :
  valid_ids ex_head_collision = true /\ heads_distinct ex_head_collision = false /\
  map c_msg (s_comments (compile ex_head_collision)) = [1; 1; 9] /\
  map c_edits (s_comments (compile ex_head_collision)) = [0; 0; 1]%nat /\
  s_comments (compile ex_head_collision) = spec_comments (1, 1) ex_head_collision /\
  valid_ids ex_head_collision_other = true /\
  map c_msg (s_comments (compile ex_head_collision_other)) = [1; 9] /\
  s_actors (compile ex_head_collision_other) = [1; 2].
Proof. exact head_collision_harmless. Qed.
(* the same two sequences under the old lookup: the first comment is rewritten / the edit is dropped *)
Example C10_truncated_lookup_drops_edit :
  map c_msg (s_comments (compile14 ex14_other)) = [1; 2] /\ s_actors (compile14 ex14_other) = [1] /\
  map c_msg (spec_comments (1, 1) ex14_other) = [1; 9] /\ fst (spec_actors_parts (1, 1) ex14_other) = [1; 2] /\
  map c_msg (s_comments (compile ex14_other)) = [1; 9] /\ s_actors (compile ex14_other) = [1; 2].
Proof. exact truncated_lookup_drops_edit. Qed.
