(* C20 — API pagination visits every element exactly once, in order.
   Property theorems only; proofs live in Page.v / Walk.v / PageMore.v. *)
From Coq Require Import List Arith Lia Bool ZArith.
Import ListNotations.
From GB Require Import Page Walk.

Theorem C20_forward_page n k o : 0 < k -> o <= n ->
  fwd n k (match o with 0 => None | S o' => Some o' end) =
  Ok {| p_items := seq o (Nat.min k (n - o)); p_hasnext := Nat.ltb k (n - o);
        p_hasprev := negb (Nat.eqb o 0); p_total := n |}.
Proof. exact (fwd_page n k o). Qed.
Print Assumptions C20_forward_page.

Theorem C20_forward_walk n k : 0 < k -> walk (S n) n k None = Some (seq 0 n).
Proof. exact (Walk.C20_forward_walk n k). Qed.
Print Assumptions C20_forward_walk.
