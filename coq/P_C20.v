(* C20 — API pagination visits every element exactly once, in order.
   Property theorems only; proofs live in Page.v / Walk.v / PageMore.v. *)
From Coq Require Import List Arith Lia Bool ZArith.
Import ListNotations.
From GB Require Import Page Walk PageBack PageWindow.

Theorem C20_forward_page n k o : 0 < k -> o <= n ->
  fwd n k (match o with 0 => None | S o' => Some o' end) =
  Ok {| p_items := seq o (Nat.min k (n - o)); p_hasnext := Nat.ltb k (n - o);
        p_hasprev := negb (Nat.eqb o 0); p_total := n |}.
Proof. exact (fwd_page n k o). Qed.
Print Assumptions C20_forward_page.

Theorem C20_forward_walk n k : 0 < k -> walk (S n) n k None = Some (seq 0 n).
Proof. exact (Walk.C20_forward_walk n k). Qed.
Print Assumptions C20_forward_walk.

(* backward paging, symmetric: a page last=k, before=cursor(b) returns the k elements before b *)
Theorem C20_backward_page n k b : 0 < k -> b <= n ->
  bwd n k (if Nat.ltb b n then Some b else None) =
  Ok {| p_items := seq (b - Nat.min k b) (Nat.min k b); p_hasnext := Nat.ltb b n; p_hasprev := Nat.ltb k b; p_total := n |}.
Proof. exact (bwd_page n k b). Qed.
Print Assumptions C20_backward_page.

(* following start cursors while hasPreviousPage visits every element exactly once, in list order *)
Theorem C20_backward_walk n k : 0 < k -> walk_back (S n) n k None = Some (seq 0 n).
Proof. exact (backward_walk n k). Qed.
Print Assumptions C20_backward_walk.

Theorem C20_negative_first_rejected n i f : i_first i = Some f -> (f < 0)%Z -> paginate n i = ErrFirst.
Proof. exact (bad_first n i f). Qed.
Print Assumptions C20_negative_first_rejected.

Theorem C20_foreign_cursors_ignored n f l :
  paginate n {| i_after := Some Foreign; i_before := Some Foreign; i_first := f; i_last := l |} =
  paginate n {| i_after := None; i_before := None; i_first := f; i_last := l |}.
Proof. exact (foreign_cursors_ignored n f l). Qed.
Print Assumptions C20_foreign_cursors_ignored.

Theorem C20_total n i p : paginate n i = Ok p -> p_total p = n.
Proof. exact (total_is_length n i p). Qed.
Print Assumptions C20_total.

(* whatever after / before / first / last are given: a page is a contiguous run of the list, and every element of it
   lies strictly after the `after` cursor and strictly before the `before` cursor - also when `before` is at or
   ahead of `after` (the window, and then the page, is empty) *)
Theorem C20_window n i p : paginate n i = Ok p ->
  (exists lo len, p_items p = seq lo len /\ lo + len <= n) /\
  (forall a x, i_after i = Some (Off a) -> a < n -> In x (p_items p) -> a < x) /\
  (forall b x, i_before i = Some (Off b) -> b < n -> In x (p_items p) -> x < b).
Proof. exact (page_window n i p). Qed.
Print Assumptions C20_window.

(* the pinned paginator dropped the `before` bound when it was at or ahead of `after` *)
Theorem C20_window_pinned_refuted : exists n i p b x,
  paginate_pinned n i = Ok p /\ i_before i = Some (Off b) /\ b < n /\ In x (p_items p) /\ b <= x.
Proof. exact pinned_window_refuted. Qed.
Print Assumptions C20_window_pinned_refuted.
