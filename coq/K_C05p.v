(* C05 — the persisted clock: traces of increments, witnesses and re-loads with injected storage faults. *)
From Coq Require Import List NArith Bool.
Import ListNotations.
From GB Require Export ClockWrap.
Local Open Scope N_scope.

Inductive pop := PInc | PWitness | PReload.
Record pstep := mkpstep { p_op : pop; p_arg : N; p_ok : bool; p_ret : N; p_mem : N; p_file : option N }.
Record case := mkcase5p { k_steps : list pstep }.

Definition on_eqb (a b : option N) := match a, b with Some x, Some y => N.eqb x y | None, None => true | _, _ => false end.

(* model: (mem, file); a successful operation leaves file = mem (write-through); a failed one may or may not have
   reached the file; re-loading takes the file's value *)
Fixpoint replay (mem : N) (file : option N) (l : list pstep) : bool :=
  match l with
  | [] => true
  | s :: t =>
      let mem' := match p_op s with
                  | PInc => incr mem
                  | PWitness => witness mem (p_arg s)
                  | PReload => match file with Some v => v | None => mem end
                  end in
      match p_op s with
      | PReload => Bool.eqb (p_ok s) (match file with Some _ => true | None => false end) && N.eqb (p_mem s) mem' && replay mem' (p_file s) t
      | PInc => (if p_ok s then N.eqb (p_ret s) mem' && on_eqb (p_file s) (Some mem') else true) && N.eqb (p_mem s) mem' && replay mem' (p_file s) t
      | PWitness => (if p_ok s then on_eqb (p_file s) (Some mem') else true) && N.eqb (p_mem s) mem' && replay mem' (p_file s) t
      end
  end.
Definition agrees (c : case) : bool := replay 1 (Some 1) (k_steps c).

(* property: values never decrease; what an operation acknowledged (a returned time, a witnessed value reported
   as stored) is still there after a restart *)
Fixpoint scan (prev ack : N) (l : list pstep) : bool :=
  match l with
  | [] => true
  | s :: t =>
      match p_op s with
      | PReload => p_ok s && N.leb ack (p_mem s) && scan (p_mem s) ack t
      | PInc => N.leb prev (p_mem s) && (if p_ok s then N.ltb prev (p_ret s) else true) &&
                scan (p_mem s) (if p_ok s then N.max ack (p_ret s) else ack) t
      | PWitness => N.leb prev (p_mem s) && (if p_ok s then N.leb (p_arg s) (p_mem s) else true) &&
                    scan (p_mem s) (if p_ok s then N.max ack (N.max prev (p_arg s)) else ack) t
      end
  end.
Definition C05p_ok (c : case) : bool := scan 1 1 (k_steps c).

Fixpoint index_filter {A} (f : A -> bool) (i : nat) (l : list A) : list nat :=
  match l with [] => [] | x :: t => if f x then index_filter f (S i) t else i :: index_filter f (S i) t end.
Definition mismatches (cs : list case) : list nat := index_filter agrees 0 cs.
Definition failing (cs : list case) : list nat := index_filter C05p_ok 0 cs.
