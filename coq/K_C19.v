(* C19 — schedules replayed on real git-bug processes: correspondence with Lock.v (trace inclusion: what the
   processes did is a behaviour of the model, set-of-states simulation because bursts and timed kills are
   non-deterministic) and the property evaluated on the implementation's observations alone. *)
From Coq Require Import List Arith Bool Lia.
Import ListNotations.
From GB Require Export Lock.

(* the lock file as read by the harness after each step; process numbers are the harness's spawn order *)
Inductive lk := LkNone | LkPid (id : nat) | LkTorn | LkOther.
(* class of the message on stderr *)
Inductive emsg := MNone | MLocked (id : nat) | MCorrupt | MOther
  | MRemove      (* "remove .../lock: no such file or directory": the stale lock was cleaned by somebody else in between *)
  | MHung.       (* burst member that neither serves nor exits: it passed the lock and is blocked behind the other holder *)
Inductive exitc := XOk | XErr | XSig.
Inductive how := HInt | HTerm | HKill | HFinOk | HFinErr
  | HGiveUp.     (* a web UI shutting down whose request in flight never ends: after 30 s it gives up and exits by itself *)

Inductive kstep :=
| KCmd (id : nat) (f : family) (pa : path) (x : exitc) (m : emsg)       (* a command run to completion; pa = the path it is built to take *)
| KHold (id : nat) (f : family) (rdy : bool) (x : exitc) (m : emsg)      (* a long-lived command started; rdy: it holds and serves; else how it exited *)
| KEnd (id : nat) (f : family) (h : how) (x : exitc)                     (* a running long-lived command is ended *)
| KKillAt (id : nat) (f : family) (pa : path) (x : exitc) (m : emsg)     (* started and SIGKILLed after a delay; x <> XSig: it had exited by itself *)
| KBurst (f : family) (ms : list (nat * bool * emsg))                    (* long-lived commands started simultaneously: id, ready, message *)
| KPlant (id : nat)                                                      (* an empty lock file, as left by a process of an older version killed between creating it and writing its pid *)
| KStall (id : nat)                                                      (* the harness puts a request in flight on the serving webui id and keeps it there *)
| KAsk (id : nat) (f : family) (h : how) (still : bool) (x : exitc)      (* SIGINT / SIGTERM to a webui with a request in flight; still: it lives on, shutting down, until the request ends (then KEnd) *)
| KStop (id : nat)                                                       (* the live holder id is suspended (SIGSTOP or SIGTSTP = ctrl-z; seen in state T): alive, cache open, goes on when continued *)
| KCont (id : nat)                                                       (* SIGCONT: it runs again *)
| KDie (id : nat)                                                        (* the live holder id is SIGKILLed and its parent (the harness) does NOT collect it: a zombie (state Z) — dead, holds nothing, still answers kill(pid, 0) *)
| KReap (id : nat).                                                      (* the parent collects the zombie id: now it is gone *)

(* after the step: the lock file, the live ready long-lived processes, the owners of the temporary files lock.<pid>
   in .git/git-bug, and whether anything else below .git differs from what it was when the step began (looked at
   only when a holder was alive then; false otherwise) *)
Record sobs := mkso { so_step : kstep; so_lock : lk; so_alive : list nat; so_tmps : list nat; so_changed : bool }.
(* l_others: the processes that ran under the second account (uid 65534), the rest under the harness's own (root when
   there is a second one): for an unprivileged opener kill(holder, 0) answers EPERM when the holder is somebody else's.
   The model's prediction does not depend on who owns what — liveness is existence (Lock.open_u_exists: the open under
   the [Exists] reading, for any assignment of owners, is Lock.open_atomic) — and neither does the property: [agrees]
   and [C19_ok] below read l_steps only, so a refusal that needs the right to signal the holder shows as a mismatch
   and as a property failure. [explain] says whether the opener and the holder of the first bad step differ in user. *)
Record case := mkLcase { l_others : list nat; l_steps : list sobs }.

(* ---- equality tests ---- *)
Definition lk_match (l : option lockc) (o : lk) : bool :=
  match l, o with
  | None, LkNone => true
  | Some (LPid p), LkPid q => Nat.eqb p q
  | Some LTorn, LkTorn => true
  | _, _ => false
  end.
Definition lk_eqb (a b : lk) : bool :=
  match a, b with LkNone, LkNone | LkTorn, LkTorn | LkOther, LkOther => true | LkPid p, LkPid q => Nat.eqb p q | _, _ => false end.
Definition emsg_eqb (a b : emsg) : bool :=
  match a, b with MNone, MNone | MCorrupt, MCorrupt | MOther, MOther | MRemove, MRemove | MHung, MHung => true
  | MLocked p, MLocked q => Nat.eqb p q | _, _ => false end.
Definition exitc_eqb (a b : exitc) : bool := match a, b with XOk, XOk | XErr, XErr | XSig, XSig => true | _, _ => false end.
Definition set_eqb (a b : list nat) : bool := forallb (fun x => mem x b) a && forallb (fun x => mem x a) b.
Definition nats_eqb (a b : list nat) : bool := (Nat.eqb (length a) (length b)) && forallb (fun p => Nat.eqb (fst p) (snd p)) (combine a b).
Definition lockc_eqb (a b : option lockc) : bool :=
  match a, b with None, None => true | Some LTorn, Some LTorn => true | Some (LPid p), Some (LPid q) => Nat.eqb p q | _, _ => false end.
Definition st_eqb (a b : st) : bool :=
  lockc_eqb (lockf a) (lockf b) && nats_eqb (dead a) (dead b) && nats_eqb (holders a) (holders b) &&
  nats_eqb (ready a) (ready b) && nats_eqb (created a) (created b) && nats_eqb (tmpf a) (tmpf b).
Fixpoint dedup (l : list st) : list st :=
  match l with [] => [] | x :: t => if existsb (st_eqb x) t then dedup t else x :: dedup t end.

Definition post_ok (la : lk) (al tm : list nat) (s : st) : bool :=
  lk_match (lockf s) la && set_eqb (holders s) al && set_eqb (tmpf s) tm.

(* ---- what the model predicts for each kind of step ---- *)
Definition cmd_result (pa : path) (o : out) : exitc * emsg :=
  match pa, o with
  | EarlyErr, _ => (XErr, MOther)
  | Success, Granted => (XOk, MNone)
  | _, Granted => (XErr, MOther)
  | _, Refused q => (XErr, MLocked q)
  | _, Corrupt => (XErr, MCorrupt)
  | _, _ => (XErr, MOther)
  end.
Definition res_eqb (a b : exitc * emsg) : bool := exitc_eqb (fst a) (fst b) && emsg_eqb (snd a) (snd b).

(* exit status of an orderly end: webui shuts down and returns (0); the interrupt cleaner ends with os.Exit(1) *)
Definition end_exit (f : family) (h : how) : exitc :=
  match h with
  | HKill => XSig
  | HInt | HTerm => match f with FWebui => XOk | _ => XErr end
  | HFinOk => XOk
  | HFinErr | HGiveUp => XErr
  end.

(* bursts: every interleaving of the members' read ; (remove) ; write (Lock.badvance) *)
Fixpoint upd {A} (l : list A) (i : nat) (x : A) : list A :=
  match l, i with [], _ => [] | _ :: t, 0 => x :: t | y :: t, S i => y :: upd t i x end.
Definition bm0 := mkbm 0 4 BGo.
Fixpoint inter (fuel : nat) (s : st) (ms : list bm) : list (st * list bm) :=
  match fuel with
  | 0 => [(s, ms)]
  | S fuel =>
      match filter (fun i => Nat.ltb (b_pc (nth i ms bm0)) 3) (seq 0 (length ms)) with
      | [] => [(s, ms)]
      | runnable => flat_map (fun i => let '(s', m') := badvance s (nth i ms bm0) in inter fuel s' (upd ms i m')) runnable
      end
  end.
Definition hung (m : emsg) : bool := match m with MHung => true | _ => false end.
Definition bm_match (m : bm) (o : nat * bool * emsg) : bool :=
  let '(id, rdy, msg) := o in
  Nat.eqb (b_id m) id &&
  match b_pc m, b_out m with
  | 3, _ => rdy || hung msg
  | _, BRefused q => negb rdy && emsg_eqb msg (MLocked q)
  | _, BRemoveErr => negb rdy && emsg_eqb msg MRemove
  | _, _ => false
  end.
Fixpoint bms_match (ms : list bm) (os : list (nat * bool * emsg)) : bool :=
  match ms, os with [], [] => true | m :: ms', o :: os' => bm_match m o && bms_match ms' os' | _, _ => false end.
(* the harness kills the members it found hung *)
Definition kill_hung (os : list (nat * bool * emsg)) (s : st) : st :=
  fold_left (fun s o => if hung (snd o) then fst (kill1 s (fst (fst o))) else s) os s.

(* successor states of one model state that are consistent with what was observed at this step *)
Definition succ (k : kstep) (s : st) : list st :=
  match k with
  | KCmd id f pa x m =>
      let '(s', o) := command fixed f pa s id in
      if res_eqb (cmd_result pa o) (x, m) then [s'] else []
  | KHold id f rdy x m =>
      match open_atomic s id with
      | (s1, Granted) => if rdy then [s1] else []
      | (s1, o) => if negb rdy && res_eqb (cmd_result Signalled o) (x, m) then [fst (kill1 s1 id)] else []
      end
  | KEnd id f h x =>
      if mem id (holders s) && exitc_eqb (end_exit f h) x
      then match h with HKill => [fst (kill1 s id)] | _ => [fst (step s (Fail id))] end
      else []
  | KKillAt id f pa x m =>
      match x with
      | XSig => (* killed: after 0..3 sub-steps of its open, or (short commands) after it had already closed *)
          map (crash s id) [0; 1; 2; 3] ++
          match pa with Signalled => [] | _ => [fst (command fixed f pa s id)] end
      | _ => (* it had exited by itself before the signal arrived *)
          match pa with
          | Signalled => match open_atomic s id with
                         | (_, Granted) => []
                         | (s1, o) => if res_eqb (cmd_result Signalled o) (x, m) then [fst (kill1 s1 id)] else []
                         end
          | _ => let '(s', o) := command fixed f pa s id in if res_eqb (cmd_result pa o) (x, m) then [s'] else []
          end
      end
  | KBurst f os =>
      let ms := map (fun o => mkbm (fst (fst o)) 0 BGo) os in
      map (fun r => kill_hung os (fst r)) (filter (fun r => bms_match (snd r) os) (inter (S (3 * length ms)) s ms))
  | KPlant id =>   (* what the pinned tree's open leaves when killed between its two steps *)
      match step s (TestPinned id) with
      | (s1, Granted) => [fst (kill1 (fst (step s1 (CreatePinned id))) id)]
      | _ => []
      end
  | KStall id => if mem id (holders s) then [s] else []
  | KAsk id f h still x =>   (* the shutdown waits for the request, then closes: until then nothing changes *)
      if mem id (holders s)
      then if still then match h with HInt | HTerm => [ask WaitThenClose s id] | _ => [] end
           else if exitc_eqb (end_exit f h) x then [finish WaitThenClose s id] else []
      else []
  (* liveness is kill(pid, 0): the protocol does not see who is stopped (Lock.open_x_kill0), so the state stays as it is;
     an unreaped process has left the holders and is not among the dead, so its lock refuses (Lock.zombie_blocks_refuted) *)
  | KStop id | KCont id => if mem id (holders s) then [s] else []
  | KDie id => if mem id (holders s) then [zombify s id] else []
  | KReap id => if mem id (dead s) then [] else [reap s id]
  end.

(* index of the first step after which no model state is consistent with the observations *)
Fixpoint sim (ss : list st) (steps : list sobs) (i : nat) : option nat :=
  match steps with
  | [] => None
  | o :: t =>
      let ss' := dedup (filter (post_ok (so_lock o) (so_alive o) (so_tmps o)) (flat_map (succ (so_step o)) ss)) in
      match ss' with [] => Some i | _ => sim ss' t (S i) end
  end.
Definition divergence (c : case) : option nat := sim [st0] (l_steps c) 0.
Definition agrees (c : case) : bool := match divergence c with None => true | Some _ => false end.

Fixpoint index_filter {A} (f : A -> bool) (i : nat) (l : list A) : list nat :=
  match l with [] => [] | x :: t => if f x then index_filter f (S i) t else i :: index_filter f (S i) t end.
Definition mismatches (cs : list case) : list nat := index_filter agrees 0 cs.

(* ---- the property on the implementation's observations, no model involved ----
   H: live long-lived processes that were granted the cache (as observed after the previous step);
   L: the lock file, T: the temporary lock files after the previous step. A lock naming a process outside H is the lock
   of a process that is gone (every process of a case is a child of the harness and has been reaped unless it is in H).
   A webui that was asked to stop while it serves a request is alive and at work on its cache until it exits: it stays in H. *)
Definition refused_by (h : nat) (x : exitc) (m : emsg) : bool := exitc_eqb x XErr && emsg_eqb m (MLocked h).
Definition opened (m : emsg) : bool := match m with MLocked _ | MCorrupt => false | _ => true end.

(* "refused ... and changes nothing": no new file next to the lock, nothing else below .git touched *)
Definition unchanged (T : list nat) (o : sobs) : bool := set_eqb (so_tmps o) T && negb (so_changed o).
Definition refused_clean (T : list nat) (o : sobs) (h : nat) (x : exitc) (m : emsg) : bool := refused_by h x m && unchanged T o.

(* Z: processes that have exited and that the harness, their parent, has deliberately not collected yet (zombies). A
   zombie is dead — it is not in H — but the code's liveness test, kill(pid, 0), still answers for it. The property
   says that the lock a dead holder left behind does not block; the documented assumption is that a dead process is
   reaped. So with the lock naming a zombie nothing is demanded beyond what holds either way: the open succeeds, or it
   is refused naming the zombie and changes nothing. Once the zombie is reaped (KReap) its lock is plainly stale. *)
Definition zrefused (Z : list nat) (L : lk) (T : list nat) (o : sobs) (x : exitc) (m : emsg) : bool :=
  match L with LkPid z => mem z Z && refused_clean T o z x m && lk_eqb (so_lock o) L | _ => false end.

Definition step_ok (H : list nat) (L : lk) (T Z : list nat) (o : sobs) : bool :=
  let la := so_lock o in let al := so_alive o in
  (* mutual exclusion *)
  Nat.leb (length al) 1 &&
  match H with
  | [h] =>
      (* one live holder — running or stopped, it makes no difference: it has the cache open *)
      match so_step o with
      | KEnd id _ hw _ =>
          if Nat.eqb id h
          then negb (mem id al) && match hw with HKill => true | _ => negb (lk_eqb la (LkPid id)) end   (* orderly end releases *)
          else false
      | KAsk id _ hw still _ =>
          if Nat.eqb id h
          then if still then mem h al && lk_eqb la (LkPid h)                (* alive, serving: its lock stays *)
               else negb (mem id al) && negb (lk_eqb la (LkPid id))         (* it ended at once: as above *)
          else false
      | KDie id => Nat.eqb id h && negb (mem id al)                         (* killed: no longer alive; its lock may stay *)
      | k =>
          (* anybody else: the holder keeps running, its lock stays (nothing changes, the lock of a live process is never removed) *)
          mem h al && lk_eqb la (LkPid h) &&
          match k with
          | KCmd _ _ EarlyErr _ _ => true
          | KCmd _ _ _ x m => refused_clean T o h x m
          | KHold _ _ rdy x m => negb rdy && refused_clean T o h x m
          | KKillAt _ _ EarlyErr _ _ => true
          | KKillAt _ _ _ x m => match x with XSig => true | _ => refused_clean T o h x m end
          | KBurst _ os => forallb (fun r => let '(_, rdy, m) := r in negb rdy && emsg_eqb m (MLocked h)) os && unchanged T o
          | KPlant _ => false
          | KStall id | KStop id | KCont id => Nat.eqb id h                 (* stopped, continued: alive all along, lock untouched *)
          | KReap _ => true
          | KEnd _ _ _ _ | KAsk _ _ _ _ _ | KDie _ => true
          end
      end
  | [] =>
      (* nobody holds: closed cleanly, or the last holder died leaving its lock behind *)
      match so_step o with
      | KCmd id _ EarlyErr _ _ => lk_eqb la L
      | KCmd id _ _ x m => zrefused Z L T o x m ||
                           opened m && negb (lk_eqb la (LkPid id))             (* the open succeeds; the command releases on success and on failure *)
      | KHold id _ rdy x m => negb rdy && zrefused Z L T o x m ||
                              rdy && lk_eqb la (LkPid id) && mem id al        (* the open succeeds *)
      | KEnd _ _ _ _ => false
      | KKillAt id _ pa x m => match x with XSig => true | _ => match pa with EarlyErr => true | _ =>
                                 zrefused Z L T o x m || opened m && negb (lk_eqb la (LkPid id)) end end
      | KBurst _ os => match L with
                       | LkPid z => mem z Z && lk_eqb la L && unchanged T o &&
                                    forallb (fun r => let '(_, rdy, m) := r in negb rdy && emsg_eqb m (MLocked z)) os
                       | _ => false end ||
                       existsb (fun r => snd (fst r)) os &&                   (* somebody gets it *)
                       Nat.leb (length (filter (fun r => snd (fst r) || hung (snd r)) os)) 1   (* and nobody else passes the lock *)
      | KPlant _ => true
      | KReap _ => lk_eqb la L
      | KStall _ | KAsk _ _ _ _ _ | KStop _ | KCont _ | KDie _ => false
      end
  | _ => true   (* already reported at the step that produced two holders *)
  end.

Definition zupd (Z : list nat) (k : kstep) : list nat :=
  match k with KDie id => id :: Z | KReap id => rm id Z | _ => Z end.
Fixpoint scan (H : list nat) (L : lk) (T Z : list nat) (steps : list sobs) : bool :=
  match steps with
  | [] => true
  | o :: t => step_ok H L T Z o && scan (so_alive o) (so_lock o) (so_tmps o) (zupd Z (so_step o)) t
  end.
Definition C19_ok (c : case) : bool := scan [] LkNone [] [] (l_steps c).
Definition failing (cs : list case) : list nat := index_filter C19_ok 0 cs.

(* --replay: first diverging step (model vs processes) and the first step at which the property is false *)
Fixpoint first_bad (H : list nat) (L : lk) (T Z : list nat) (steps : list sobs) (i : nat) : option nat :=
  match steps with
  | [] => None
  | o :: t => if step_ok H L T Z o then first_bad (so_alive o) (so_lock o) (so_tmps o) (zupd Z (so_step o)) t (S i) else Some i
  end.
Definition first_bad0 (c : case) := first_bad [] LkNone [] [] (l_steps c) 0.
(* who is stopped / unreaped after the first i steps *)
Fixpoint stopped_after (P : list nat) (steps : list sobs) (i : nat) : list nat :=
  match i, steps with
  | 0, _ | _, [] => P
  | S i, o :: t => stopped_after (match so_step o with KStop id => id :: P | KCont id | KDie id | KEnd id _ _ _ => rm id P | _ => P end) t i
  end.
Fixpoint zombies_after (Z : list nat) (steps : list sobs) (i : nat) : list nat :=
  match i, steps with
  | 0, _ | _, [] => Z
  | S i, o :: t => zombies_after (zupd Z (so_step o)) t i
  end.
(* the process(es) a step starts *)
Definition actors (k : kstep) : list nat :=
  match k with
  | KCmd id _ _ _ _ | KHold id _ _ _ _ | KKillAt id _ _ _ _ => [id]
  | KBurst _ os => map (fun o => fst (fst o)) os
  | _ => []
  end.
Definition owner (c : case) (id : nat) : nat := if mem id (l_others c) then 1 else 0.
(* at the first step where the property is false: (step, live holders before it, does an opener belong to another user than a holder) *)
Definition cross_at (c : case) : option (nat * list nat * bool) :=
  match first_bad0 c with
  | None => None
  | Some i =>
      let H := match i with 0 => [] | S j => so_alive (nth j (l_steps c) (mkso (KPlant 0) LkNone [] [] false)) end in
      let A := actors (so_step (nth i (l_steps c) (mkso (KPlant 0) LkNone [] [] false))) in
      Some (i, H, existsb (fun a => existsb (fun h => negb (Nat.eqb (owner c a) (owner c h))) H) A)
  end.
(* at the first step where the property is false: which of the live holders before it were stopped, who was a zombie *)
Definition susp_at (c : case) : option (list nat * list nat) :=
  match first_bad0 c with
  | None => None
  | Some i => Some (stopped_after [] (l_steps c) i, zombies_after [] (l_steps c) i)
  end.
Definition explain (c : case) := (divergence c, first_bad0 c, cross_at c, susp_at c).
