From Coq Require Import List Arith NArith Lia Bool.
Import ListNotations.
From GB Require Import Reach Sort Read Good.

Lemma forallb_ext_in' {A} (f g : A -> bool) l : (forall x, In x l -> f x = g x) -> forallb f l = forallb g l.
Proof. induction l as [|x t IH]; intros H; cbn; [reflexivity|]. rewrite (H x (or_introl eq_refl)), IH; [reflexivity|]. intros y Hy. apply H. now right. Qed.

Lemma parents_app_old s c i : i < length s -> parents (s ++ [c]) i = parents s i.
Proof. intros H. unfold parents. now rewrite nth_error_app1. Qed.
Lemma parents_app_new s c : parents (s ++ [c]) (length s) = c_parents c.
Proof. unfold parents. rewrite nth_error_app2, Nat.sub_diag; [reflexivity|lia]. Qed.

Lemma check_commit_app_old s c i : wf_store s -> i < length s -> check_commit (s ++ [c]) i = check_commit s i.
Proof. intros W H. unfold check_commit. rewrite nth_error_app1 by exact H.
  destruct (nth_error s i) as [ci|] eqn:E; [|reflexivity]. f_equal.
  apply forallb_ext_in'. intros q Hq.
  assert (q < i) by (apply W; unfold parents; now rewrite E).
  now rewrite nth_error_app1 by lia. Qed.

Lemma wf_snoc s c : wf_store s -> Forall (fun p => p < length s) (c_parents c) -> wf_store (s ++ [c]).
Proof. intros W F i p Hp. destruct (Nat.lt_ge_cases i (length s)) as [H|H].
  - rewrite parents_app_old in Hp by exact H. now apply W.
  - destruct (Nat.eq_dec i (length s)) as [->|Hne].
    + rewrite parents_app_new in Hp. rewrite Forall_forall in F. now apply F.
    + unfold parents in Hp. rewrite (proj2 (nth_error_None (s ++ [c]) i)) in Hp; [destruct Hp|rewrite app_length; cbn; lia]. Qed.

Definition upd (eid : nat -> nat) (k e : nat) : nat -> nat := fun i => if Nat.eqb i k then e else eid i.

(* appending a commit that is itself good (w.r.t. the extended store) keeps the store good *)
Theorem good_snoc s eid c e :
  good_store s eid ->
  Forall (fun p => p < length s) (c_parents c) ->
  check_commit (s ++ [c]) (length s) = true ->
  (c_parents c = [] -> e = length s) ->
  (forall p, In p (c_parents c) -> eid p = e) ->
  good_store (s ++ [c]) (upd eid (length s) e).
Proof. intros [W Gc] F C Hr Hp. split; [now apply wf_snoc|].
  intros i Hi. rewrite app_length in Hi. cbn in Hi. unfold good_commit, upd.
  destruct (Nat.eq_dec i (length s)) as [->|Hne].
  - rewrite Nat.eqb_refl, parents_app_new. repeat split; auto.
    intros p Hin. rewrite Forall_forall in F. specialize (F p Hin).
    destruct (Nat.eqb_spec p (length s)); [lia|]. now apply Hp.
  - assert (Hlt : i < length s) by lia. destruct (Gc i Hlt) as (Ci & Ri & Pi).
    destruct (Nat.eqb_spec i (length s)); [lia|].
    rewrite check_commit_app_old, parents_app_old by auto. repeat split; auto.
    intros p Hin. assert (p < i) by (now apply W).
    destruct (Nat.eqb_spec p (length s)); [lia|]. now apply Pi. Qed.
Print Assumptions good_snoc.
