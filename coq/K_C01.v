(* C01 — convergence: checker evaluated on the implementation's observations of a session. *)
From Coq Require Import List Arith NArith Lia Bool.
Import ListNotations.
From GB Require Export K_World.
Local Open Scope N_scope.

Definition case := K_World.case.
Definition mismatches := K_World.mismatches.
Definition explain := K_World.divergence.

Definition set_eqb := list_eqb Nat.eqb.

(* a new read (r, e, h, ops) is consistent with what the other replicas last read of e *)
Definition consistent (s : store) (x : rrec) (others : list rrec) : bool :=
  forallb (fun y =>
    if Nat.eqb (rr_e y) (rr_e x) && negb (Nat.eqb (rr_r y) (rr_r x)) && set_eqb (nonempty_set s (rr_h y)) (nonempty_set s (rr_h x))
    then match rr_ops x, rr_ops y with Some a, Some b => ops_eqb a b | _, _ => false end
    else true) others.

Fixpoint scan (s : store) (evs : list (event * obsv)) (recs : list rrec) : bool * list rrec :=
  match evs with
  | [] => (true, recs)
  | (ERead r e, o) :: t =>
      match alookup e (o_loc o), o_out o with
      | Some h, ORead ops =>
          let x := mkrec r e h ops in
          (* a bug git-bug wrote itself must be readable *)
          if match ops with Some _ => consistent s x recs | None => false end
          then scan s t (x :: rec_drop r e recs) else (false, recs)
      | _, _ => scan s t recs
      end
  | (ERemove r e, _) :: t => scan s t (rec_drop r e recs)
  | _ :: t => scan s t recs
  end.

Definition entities (recs : list rrec) : list nat := nodup Nat.eq_dec (map rr_e recs).

(* after the quiescence round every replica holds every entity, with the same head and operations *)
Definition quiesced_ok (n : nat) (recs : list rrec) : bool :=
  forallb (fun e =>
    match rec_find 0 e recs with
    | None => false
    | Some x0 =>
        forallb (fun r => match rec_find r e recs with
                          | Some x => Nat.eqb (rr_h x) (rr_h x0) && opt_eqb ops_eqb (rr_ops x) (rr_ops x0) &&
                                      match rr_ops x with Some _ => true | None => false end
                          | None => false end) (seq 0 n)
    end) (entities recs).

Definition C01_ok (c : case) : bool :=
  let '(ok, recs) := scan (c_store c) (c_evs c) [] in
  ok && (negb (c_quiesced c) || quiesced_ok (c_n c) recs).

Definition failing (cs : list case) : list nat := index_filter C01_ok 0 cs.
