(* C07 — hostile or corrupt remote data is rejected without crash or local damage. Property theorems only.
   (DAG-level refusals are the C03_refuses_* theorems; the merge-level "invalid leaves the world unchanged" is below.) *)
From Coq Require Import List NArith Bool.
Import ListNotations.
From GB Require Import Decimal Tree TreeRefuse Reach Sort Read World Sync.
Local Open Scope N_scope.

Theorem C07_refuses_missing_version expected l :
  (forall e, In e l -> strip_prefix s_version (fst e) = None) -> read_entries expected l = RErr.
Proof. exact (refuse_no_version expected l). Qed.
Print Assumptions C07_refuses_missing_version.

Theorem C07_refuses_bad_version expected l e t d :
  l = e :: t -> strip_prefix s_version (fst e) = Some d ->
  (parse_u64 d = None \/ (exists v, parse_u64 d = Some v /\ (4096 < v \/ v = 0 \/ v <> expected))) ->
  read_entries expected l = RErr.
Proof. exact (refuse_version expected l e t d). Qed.
Print Assumptions C07_refuses_bad_version.

Theorem C07_no_ops_entry expected l v ho e c : (forall x, In x l -> str_eqb (fst x) s_ops = false) ->
  read_entries expected l = ROk v ho e c -> ho = false.
Proof. exact (no_ops_entry expected l v ho e c). Qed.
Print Assumptions C07_no_ops_entry.

(* a merge reported invalid leaves the whole world (refs of every replica, clocks, store, remote) exactly as it was *)
Theorem C07_invalid_is_noop sw r e mid mau sw' ent :
  sstep sw (EMerge r e mid mau) = Some (sw', OMerge MInvalid ent) -> sw' = sw.
Proof. exact (Sync.merge_invalid_noop sw r e mid mau sw' ent). Qed.
Print Assumptions C07_invalid_is_noop.
