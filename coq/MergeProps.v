(* What a merge does to the operations of an entity, in every reachable world (C02). *)
From Coq Require Import List Arith NArith Lia Bool.
Import ListNotations.
From GB Require Import Reach Sort Read Good Snoc Ext Mono World Sync Append.
Local Open Scope N_scope.

Lemma is_anc_reach s a h : wf_store s -> is_anc s a h = true -> reach s h a.
Proof. intros W H. unfold is_anc in H. apply memb_In in H. now apply reachl_spec in H. Qed.

(* fast-forward: the fetched head extends the local one, nothing of the local history is lost and the result is the
   fetched history itself *)
Theorem ff_keeps_everything w h t oh ot : inv w -> is_anc (st w) h t = true ->
  read (st w) h = Some oh -> read (st w) t = Some ot -> sublist oh ot.
Proof. intros (G & _) A Rh Rt. pose proof (proj1 G) as W.
  eapply C02_monotone; [exact W|apply is_anc_reach; eauto|exact Rh|exact Rt]. Qed.

(* merge commit: the new head reaches both sides, is readable, and its operations contain those of both sides in their
   relative order *)
Theorem merge_contains_both w r h t id au w' oh ot : inv w -> budget w + 2 <= jump_limit ->
  step w (AMerge r h t id au) = Some w' ->
  read (st w) h = Some oh -> read (st w) t = Some ot ->
  exists on, read (st w') (length (st w)) = Some on /\ sublist oh on /\ sublist ot on.
Proof. intros I B S Rh Rt. pose proof (inv_step w _ w' I B S) as I'.
  destruct I as (G & Hh & Hb & Hc). pose proof (proj1 G) as W. cbn [step] in S.
  destruct (nth_error (reps w) r) as [rp|] eqn:Er; [|discriminate]. pose proof (nth_error_In _ _ Er) as Hrp.
  destruct (existsb (Nat.eqb h) (heads rp) && Nat.ltb t (length (st w)) && Nat.eqb (eidf w t) (eidf w h) && negb (Nat.eqb h t)) eqn:Eg; cbn in S; [|discriminate].
  rewrite !andb_true_iff in Eg. destruct Eg as (((Eh & Lt) & _) & _).
  apply existsb_eqb_In in Eh. apply Nat.ltb_lt in Lt. destruct (Hh rp h Hrp Eh) as [Lh _].
  inversion S; subst; clear S. cbn [st] in *.
  set (c := {| c_parents := [h; t]; c_pack := mkpack id au [] (N.max (clk rp) (edit_of (st w) t) + 1) 0 |}) in *.
  destruct I' as (G' & _). cbn [st eidf] in G'. pose proof (proj1 G') as W'.
  assert (V : valid (st w ++ [c]) (length (st w)) = true) by (eapply good_valid; [exact G'|rewrite app_length; cbn; lia]).
  unfold read at 1. rewrite V. eexists. split; [reflexivity|].
  assert (Rn : read (st w ++ [c]) (length (st w)) = Some (concat (map p_ops (isort (packs_of (st w ++ [c]) (reachl (st w ++ [c]) (length (st w)))))))).
  { unfold read. now rewrite V. }
  assert (Ph : reach (st w ++ [c]) (length (st w)) h).
  { eapply reach_step; [constructor|]. rewrite parents_app_new. cbn. now left. }
  assert (Pt : reach (st w ++ [c]) (length (st w)) t).
  { eapply reach_step; [constructor|]. rewrite parents_app_new. cbn. right. now left. }
  split.
  - eapply C02_monotone; [exact W'|exact Ph| |exact Rn]. rewrite read_app_old; assumption.
  - eapply C02_monotone; [exact W'|exact Pt| |exact Rn]. rewrite read_app_old; assumption. Qed.

(* a merge never changes what any other head reads as: only one ref moves, objects are only added *)
Theorem merge_leaves_others w a w' x : inv w -> step w a = Some w' -> (x < length (st w))%nat ->
  read (st w') x = read (st w) x.
Proof. intros (G & _) S Hx. pose proof (proj1 G) as W.
  destruct a; cbn [step] in S; destruct (nth_error (reps w) r) as [rp|]; try discriminate;
  repeat match type of S with context [if ?b then _ else _] => destruct b end; try discriminate;
  inversion S; subst; cbn [st]; try reflexivity; apply read_app_old; assumption. Qed.
