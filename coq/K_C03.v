(* C03 — crafted DAGs: correspondence (Read.read = bug.Read) and the property on the implementation's answer. *)
From Coq Require Import List Arith NArith Lia Bool.
Import ListNotations.
From GB Require Export K_World.
Local Open Scope N_scope.

Record case := mkdcase { d_store : store; d_head : nat; d_obs : option (list N); d_same : bool (* three reads agreed *) }.

Definition agrees (c : case) : bool := opt_eqb ops_eqb (read (d_store c) (d_head c)) (d_obs c).
Definition mismatches (cs : list case) : list nat := index_filter agrees 0 cs.
Definition explain (c : case) := (read (d_store c) (d_head c), valid (d_store c) (d_head c)).

(* position of the first / last operation of a pack in the observed order *)
Fixpoint pos (x : N) (l : list N) (i : nat) : option nat :=
  match l with [] => None | y :: t => if N.eqb x y then Some i else pos x t (S i) end.

Definition all_before (a b : list N) (ops : list N) : bool :=
  forallb (fun x => forallb (fun y => match pos x ops 0, pos y ops 0 with
                                      | Some i, Some j => Nat.ltb i j | _, _ => false end) b) a.

Definition ops_at (s : store) (i : nat) : list N := match pack_at s i with Some p => p_ops p | None => [] end.

(* causal: every operation of a strict ancestor precedes every operation of its descendant;
   operations of one commit keep their stored order *)
Definition causal (s : store) (h : nat) (ops : list N) : bool :=
  let r := reachl s h in
  forallb (fun b => forallb (fun a => Nat.eqb a b || all_before (ops_at s a) (ops_at s b) ops) (reachl s b)) r &&
  forallb (fun b => sublistb (ops_at s b) ops) r.

(* concurrent commits by (edit time, pack id): the observed order is the concatenation of the packs in key order *)
Definition key_ordered (s : store) (h : nat) (ops : list N) : bool :=
  ops_eqb ops (concat (map p_ops (isort (packs_of s (reachl s h))))).

Definition C03_ok (c : case) : bool :=
  d_same c &&
  match d_obs c with
  | Some ops => valid (d_store c) (d_head c) && causal (d_store c) (d_head c) ops && key_ordered (d_store c) (d_head c) ops
  | None => negb (valid (d_store c) (d_head c))
  end.

Definition failing (cs : list case) : list nat := index_filter C03_ok 0 cs.
