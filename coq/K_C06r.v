(* C06 — repeating the interrupted action completes it (same process: one storage call failed once). *)
From Coq Require Import List Bool.
Import ListNotations.
Record case := mkcase6r { k_runs : list (bool * bool * bool) (* retry succeeded, entity id stable, read back complete and valid *) }.
Definition agrees (c : case) : bool := true.
Definition C06r_ok (c : case) : bool := forallb (fun t => let '(a, b, d) := t in a && b && d) (k_runs c).
Fixpoint index_filter {A} (f : A -> bool) (i : nat) (l : list A) : list nat :=
  match l with [] => [] | x :: t => if f x then index_filter f (S i) t else i :: index_filter f (S i) t end.
Definition mismatches (cs : list case) : list nat := index_filter agrees 0 cs.
Definition failing (cs : list case) : list nat := index_filter C06r_ok 0 cs.
