(* C17 — without an authenticated user the API cannot change anything. Property theorems only. *)
From Coq Require Import List Arith NArith Lia Bool.
Import ListNotations.
From GB Require Import Auth.
Local Open Scope N_scope.

Theorem C17_gate St Arg Tgt Usr Idn Pay (resolve : St -> Arg -> result Tgt) (ident_of : St -> Usr -> result Idn)
  (effect : St -> Tgt -> Idn -> Arg -> St * result Pay) st a :
  fst (gated resolve ident_of effect st a None) = st /\ is_err (snd (gated resolve ident_of effect st a None)) = true.
Proof. exact (gate resolve ident_of effect st a). Qed.
Print Assumptions C17_gate.
