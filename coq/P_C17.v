(* C17 — without an authenticated user the API cannot change anything; with one, each mutation records
   exactly the requested change, authored by that user, and the returned bug reflects it.
   Property theorems only; definitions and proofs are in Auth.v.
   k : does CreateOperation.Apply keep the files (probed on the linked code); idt : text of an id;
   gr : unicode.IsGraphic. All theorems hold for every choice of these. *)
From Coq Require Import List Arith NArith Lia Bool.
Import ListNotations.
From GB Require Import Auth.
Local Open Scope N_scope.

(* ---- the gate ---- *)

(* any request handler of the shape  resolve target -> UserFromCtx -> effect, whatever the resolution, the
   identity lookup and the effect are (so: every present or future mutation that goes through the gate):
   without a user the state is untouched and the answer is an error *)
Theorem C17_gate St Arg Tgt Usr Idn Pay (resolve : St -> Arg -> result Tgt) (ident_of : St -> Usr -> result Idn)
  (effect : St -> Tgt -> Idn -> Arg -> St * result Pay) st a :
  fst (gated resolve ident_of effect st a None) = st /\ is_err (snd (gated resolve ident_of effect st a None)) = true.
Proof. exact (gate resolve ident_of effect st a). Qed.
Print Assumptions C17_gate.

(* every current mutation, every argument, every repository state *)
Theorem C17_gate_mutation k idt gr m st a :
  fst (mutation_step k idt gr m st a None) = st /\ is_err (snd (mutation_step k idt gr m st a None)) = true.
Proof. exact (mutation_gate k idt gr m st a). Qed.
Print Assumptions C17_gate_mutation.

(* the upload endpoint: nothing stored, and the status is not 200 *)
Theorem C17_gate_upload st a : fst (upload_step st a None) = st /\ upload_status st a None <> 200%nat.
Proof. exact (upload_gate st a). Qed.
Print Assumptions C17_gate_upload.

(* queries do not look at the user, and after a refused mutation they answer what they answered before *)
Theorem C17_queries_unaffected k idt gr m st a u u' :
  query_step k st u = query_step k st u' /\ snd (query_step k (fst (mutation_step k idt gr m st a None)) u) = answer k st.
Proof. exact (conj (proj2 (query_pure k st u u')) (query_after_refusal k idt gr m st a u)). Qed.
Print Assumptions C17_queries_unaffected.

(* ---- all or nothing: an error answer (bad target, unknown identity, invalid value, no user) leaves the state as it was ---- *)
Theorem C17_error_unchanged k idt gr m st a u :
  is_err (snd (mutation_step k idt gr m st a u)) = true -> fst (mutation_step k idt gr m st a u) = st.
Proof. exact (mutation_atomic k idt gr m st a u). Qed.
Print Assumptions C17_error_unchanged.

Theorem C17_upload_error_unchanged st a u : is_err (snd (upload_step st a u)) = true -> fst (upload_step st a u) = st.
Proof. exact (upload_atomic st a u). Qed.
Print Assumptions C17_upload_error_unchanged.

(* the same for any gated handler whose effect is itself all-or-nothing *)
Theorem C17_gate_atomic St Arg Tgt Usr Idn Pay (resolve : St -> Arg -> result Tgt) (ident_of : St -> Usr -> result Idn)
  (effect : St -> Tgt -> Idn -> Arg -> St * result Pay) :
  (forall st t i a, is_err (snd (effect st t i a)) = true -> fst (effect st t i a) = st) ->
  forall st a u, is_err (snd (gated resolve ident_of effect st a u)) = true -> fst (gated resolve ident_of effect st a u) = st.
Proof. exact (gated_atomic resolve ident_of effect). Qed.
Print Assumptions C17_gate_atomic.

(* ---- the effect of each current mutation when it succeeds: the user is a known identity, the target is the
        entity the prefix resolves to, exactly the listed operations are appended to it with the user as author
        (append_ops changes no other bug, identity or blob), the returned bug is the compiled new history and the
        returned operation ids are those of the new operations ---- *)

Theorem C17_effect_newBug k idt gr st a user st' p : mutation_step k idt gr MNewBug st a user = (st', Ok p) ->
  exists u, user = Some u /\ memN u (st_idents st) = true /\ a_wf a = true /\ a_repo_ok a = true /\
    empty gr (cleanup1 (a_title a)) = false /\
    a_files_ok a = true /\
    let new := [OCreate (fresh a 0) u (cleanup1 (a_title a)) (cleanup (a_msg a)) (a_files a)] in
    p_bug p = fresh a 0 /\
    st' = {| st_bugs := st_bugs st ++ [{| bg_id := fresh a 0; bg_ops := new |}]; st_idents := st_idents st; st_blobs := st_blobs st |} /\
    p_snap p = compile k new /\ p_ops p = map op_id new.
Proof. exact (effect_newBug k idt gr st a user st' p). Qed.
Print Assumptions C17_effect_newBug.

Theorem C17_effect_addComment k idt gr st a user st' p : mutation_step k idt gr MAddComment st a user = (st', Ok p) ->
  exists u, user = Some u /\ memN u (st_idents st) = true /\ resolve_m k idt MAddComment st a = Ok (TBug (p_bug p)) /\
    a_files_ok a = true /\
    let new := [OComment (fresh a 0) u (cleanup (a_msg a)) (a_files a)] in
    st' = append_ops st (p_bug p) new /\ p_snap p = compile k (ops_of st (p_bug p) ++ new) /\ p_ops p = map op_id new.
Proof. exact (effect_addComment k idt gr st a user st' p). Qed.
Print Assumptions C17_effect_addComment.

Theorem C17_effect_addCommentAndClose k idt gr st a user st' p : mutation_step k idt gr MAddCommentAndClose st a user = (st', Ok p) ->
  exists u, user = Some u /\ memN u (st_idents st) = true /\ resolve_m k idt MAddCommentAndClose st a = Ok (TBug (p_bug p)) /\
    a_files_ok a = true /\
    let new := [OComment (fresh a 0) u (cleanup (a_msg a)) (a_files a); OStatus (fresh a 1) u true] in
    st' = append_ops st (p_bug p) new /\ p_snap p = compile k (ops_of st (p_bug p) ++ new) /\ p_ops p = map op_id new.
Proof. exact (effect_addCommentAndClose k idt gr st a user st' p). Qed.
Print Assumptions C17_effect_addCommentAndClose.

Theorem C17_effect_addCommentAndReopen k idt gr st a user st' p : mutation_step k idt gr MAddCommentAndReopen st a user = (st', Ok p) ->
  exists u, user = Some u /\ memN u (st_idents st) = true /\ resolve_m k idt MAddCommentAndReopen st a = Ok (TBug (p_bug p)) /\
    a_files_ok a = true /\
    let new := [OComment (fresh a 0) u (cleanup (a_msg a)) (a_files a); OStatus (fresh a 1) u false] in
    st' = append_ops st (p_bug p) new /\ p_snap p = compile k (ops_of st (p_bug p) ++ new) /\ p_ops p = map op_id new.
Proof. exact (effect_addCommentAndReopen k idt gr st a user st' p). Qed.
Print Assumptions C17_effect_addCommentAndReopen.

Theorem C17_effect_editComment k idt gr st a user st' p : mutation_step k idt gr MEditComment st a user = (st', Ok p) ->
  exists u, user = Some u /\ memN u (st_idents st) = true /\ exists c, resolve_m k idt MEditComment st a = Ok (TComment (p_bug p) c) /\
    a_files_ok a = true /\
    let new := [OEdit (fresh a 0) u c (cleanup (a_msg a)) (a_files a)] in
    st' = append_ops st (p_bug p) new /\ p_snap p = compile k (ops_of st (p_bug p) ++ new) /\ p_ops p = map op_id new.
Proof. exact (effect_editComment k idt gr st a user st' p). Qed.
Print Assumptions C17_effect_editComment.

Theorem C17_effect_changeLabels k idt gr st a user st' p : mutation_step k idt gr MChangeLabels st a user = (st', Ok p) ->
  exists u, user = Some u /\ memN u (st_idents st) = true /\ resolve_m k idt MChangeLabels st a = Ok (TBug (p_bug p)) /\
    let cur := sn_labels (compile k (ops_of st (p_bug p))) in
    let added := dedup_keep (fun x => negb (memT x cur)) (map cleanup1 (a_added a)) [] in
    let removed := dedup_keep (fun x => memT x cur) (map cleanup1 (a_removed a)) [] in
    let new := [OLabels (fresh a 0) u added removed] in
    (added <> [] \/ removed <> []) /\ existsb (empty gr) added = false /\ existsb (empty gr) removed = false /\
    st' = append_ops st (p_bug p) new /\ p_snap p = compile k (ops_of st (p_bug p) ++ new) /\ p_ops p = map op_id new.
Proof. exact (effect_changeLabels k idt gr st a user st' p). Qed.
Print Assumptions C17_effect_changeLabels.

Theorem C17_effect_openBug k idt gr st a user st' p : mutation_step k idt gr MOpenBug st a user = (st', Ok p) ->
  exists u, user = Some u /\ memN u (st_idents st) = true /\ resolve_m k idt MOpenBug st a = Ok (TBug (p_bug p)) /\
    let new := [OStatus (fresh a 0) u false] in
    st' = append_ops st (p_bug p) new /\ p_snap p = compile k (ops_of st (p_bug p) ++ new) /\ p_ops p = map op_id new.
Proof. exact (effect_openBug k idt gr st a user st' p). Qed.
Print Assumptions C17_effect_openBug.

Theorem C17_effect_closeBug k idt gr st a user st' p : mutation_step k idt gr MCloseBug st a user = (st', Ok p) ->
  exists u, user = Some u /\ memN u (st_idents st) = true /\ resolve_m k idt MCloseBug st a = Ok (TBug (p_bug p)) /\
    let new := [OStatus (fresh a 0) u true] in
    st' = append_ops st (p_bug p) new /\ p_snap p = compile k (ops_of st (p_bug p) ++ new) /\ p_ops p = map op_id new.
Proof. exact (effect_closeBug k idt gr st a user st' p). Qed.
Print Assumptions C17_effect_closeBug.

Theorem C17_effect_setTitle k idt gr st a user st' p : mutation_step k idt gr MSetTitle st a user = (st', Ok p) ->
  exists u, user = Some u /\ memN u (st_idents st) = true /\ resolve_m k idt MSetTitle st a = Ok (TBug (p_bug p)) /\
    empty gr (cleanup1 (a_title a)) = false /\
    let new := [OTitle (fresh a 0) u (cleanup1 (a_title a)) (title_was (ops_of st (p_bug p)))] in
    st' = append_ops st (p_bug p) new /\ p_snap p = compile k (ops_of st (p_bug p) ++ new) /\ p_ops p = map op_id new.
Proof. exact (effect_setTitle k idt gr st a user st' p). Qed.
Print Assumptions C17_effect_setTitle.

(* what append_ops leaves alone: every other bug, the identities, the blobs, the set of bug ids *)
Theorem C17_only_target_changes st b new x : In x (st_bugs st) -> bg_id x <> b ->
  In x (st_bugs (append_ops st b new)) /\
  st_idents (append_ops st b new) = st_idents st /\ st_blobs (append_ops st b new) = st_blobs st /\
  map bg_id (st_bugs (append_ops st b new)) = map bg_id (st_bugs st).
Proof. exact (fun Hin Hne => conj (append_ops_other st b new x Hin Hne) (append_ops_frame st b new)). Qed.
Print Assumptions C17_only_target_changes.

(* the target is the one entity matching the prefix *)
Theorem C17_target_unique_bug k idt m st a b : m <> MNewBug -> m <> MEditComment -> resolve_m k idt m st a = Ok (TBug b) ->
  exists x, filter (fun y => is_prefix (a_prefix a) (idt (bg_id y))) (st_bugs st) = [x] /\ bg_id x = b.
Proof. exact (resolve_bug_unique k idt m st a b). Qed.
Print Assumptions C17_target_unique_bug.

Theorem C17_target_unique_comment k idt st a b c : resolve_m k idt MEditComment st a = Ok (TComment b c) ->
  filter (fun bc => is_prefix (a_prefix a) (combined idt (fst bc) (snd bc))) (flat_map (comments_of k) (st_bugs st)) = [(b, c)].
Proof. exact (resolve_comment_unique k idt st a b c). Qed.
Print Assumptions C17_target_unique_comment.

(* every requested operation carries the user as author, for every mutation *)
Theorem C17_authored k gr m st tgt u a b new : requested k gr m st tgt u a = Ok (b, new) -> all_authored u new = true.
Proof. exact (requested_authored k gr m st tgt u a b new). Qed.
Print Assumptions C17_authored.

(* a known user, a resolved target and a request that passes validation: the mutation is carried out *)
Theorem C17_accepted k idt gr m st a u tgt b new : memN u (st_idents st) = true -> resolve_m k idt m st a = Ok tgt ->
  requested k gr m st tgt u a = Ok (b, new) ->
  exists st' p, mutation_step k idt gr m st a (Some u) = (st', Ok p) /\ p_bug p = b /\ p_ops p = map op_id new.
Proof. exact (accepted k idt gr m st a u tgt b new). Qed.
Print Assumptions C17_accepted.

(* the validation that follows the cleanup never rejects on control characters: after cleanup a message or a title
   can only be refused for being empty *)
Theorem C17_cleanup_safe t : safe (cleanup t) = true /\ safe1 (cleanup1 t) = true.
Proof. exact (conj (safe_cleanup t) (safe1_cleanup1 t)). Qed.
Print Assumptions C17_cleanup_safe.

(* ---- non-vacuity: the hypotheses are satisfiable ---- *)
(* user 8 comments on the bug "abc" through the prefix "ab" and closes it: two operations, both by 8, message cleaned *)
Example C17_ex_addCommentAndClose :
  mutation_step false ex_idt ex_gr MAddCommentAndClose ex_st ex_args (Some 8) =
  (append_ops ex_st 1 [OComment 9 8 [111; 107] [5]; OStatus 10 8 true],
   Ok {| p_bug := 1; p_ops := [9; 10];
         p_snap := {| sn_closed := true; sn_title := [116]; sn_labels := [];
                      sn_comments := [{| cm_id := 1; cm_au := 7; cm_msg := [109]; cm_files := [] |}; {| cm_id := 9; cm_au := 8; cm_msg := [111; 107]; cm_files := [5] |}];
                      sn_nops := 3; sn_actors := [7; 8]; sn_parts := [7; 8] |} |}).
Proof. vm_compute. reflexivity. Qed.

(* the same request without a user, with an unknown identity, and with the ambiguous prefix "a" *)
Example C17_ex_refusals :
  mutation_step false ex_idt ex_gr MAddCommentAndClose ex_st ex_args None = (ex_st, Err ENotAuth) /\
  mutation_step false ex_idt ex_gr MAddCommentAndClose ex_st ex_args (Some 3) = (ex_st, Err ENotFound) /\
  mutation_step false ex_idt ex_gr MAddCommentAndClose ex_st
    {| a_wf := true; a_files_ok := true; a_repo_ok := true; a_prefix := [97]; a_title := []; a_msg := []; a_files := []; a_added := []; a_removed := []; a_fresh := [] |}
    (Some 8) = (ex_st, Err EMultiple) /\
  snd (mutation_step false ex_idt ex_gr MSetTitle ex_st
    {| a_wf := true; a_files_ok := true; a_repo_ok := true; a_prefix := [97; 98]; a_title := [32; 1; 9]; a_msg := []; a_files := []; a_added := []; a_removed := []; a_fresh := [9] |}
    (Some 8)) = Err EOther.
Proof. vm_compute. auto. Qed.

(* a label change keeps only what has an effect: "l" once, and the removal of an absent label is dropped *)
Example C17_ex_changeLabels :
  snd (mutation_step false ex_idt ex_gr MChangeLabels ex_st ex_args (Some 7)) =
  Ok {| p_bug := 1; p_ops := [9];
        p_snap := {| sn_closed := false; sn_title := [116]; sn_labels := [[108]];
                     sn_comments := [{| cm_id := 1; cm_au := 7; cm_msg := [109]; cm_files := [] |}];
                     sn_nops := 2; sn_actors := [7]; sn_parts := [7] |} |}.
Proof. vm_compute. reflexivity. Qed.

(* uploads: refused without a user (403), stored once with one (200), not an image (400), unknown identity (500) *)
Example C17_ex_upload :
  upload_status ex_st {| u_repo_ok := true; u_form := FFile 4 true |} None = 403%nat /\
  upload_step ex_st {| u_repo_ok := true; u_form := FFile 4 true |} (Some 7) =
    ({| st_bugs := st_bugs ex_st; st_idents := [7; 8]; st_blobs := [4] |}, Ok 4) /\
  upload_status ex_st {| u_repo_ok := true; u_form := FFile 4 false |} (Some 7) = 400%nat /\
  upload_status ex_st {| u_repo_ok := true; u_form := FFile 4 true |} (Some 3) = 500%nat.
Proof. vm_compute. auto. Qed.
