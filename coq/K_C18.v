(* C18 — concurrent use of one cache loses no acknowledged edit: the case record written by harness/c18.go,
   the outcome check against the model (mismatches) and the property on the implementation's observations (failing). *)
From Coq Require Import List Arith Bool.
Import ListNotations.
From GB Require Export Conc CacheConc CachePersist CacheClock.

(* one call of one goroutine: error classes as in CacheConc (0 ok, 1 nothing to commit, 2 entity missing from
   cache, 3 not found, 4 other, 7 no commit attempted) plus 5 = the call panicked, 6 = it never returned *)
Record callobs := mkcall { co_thread : nat; co_kind : ckind; co_bug : nat; co_op : nat; co_e1 : nat; co_e2 : nat }.
(* one bug as stored in git after the run, read on a fresh handle: packs root first; bo_chain: one root and every
   other commit exactly one parent; bo_read: the operations bug.Read returns (None: unreadable); bo_times: the lamport
   edit time stored with each commit, root first *)
Record bugobs := mkbug { bo_id : nat; bo_packs : list (list nat); bo_chain : bool; bo_read : option (list nat); bo_times : list nat }.
Record case := mkcase {
  c_evict : nat;               (* 0: default cache size, nothing can be evicted; 1: at least one loaded entity per goroutine; 2: fewer;
                                  3: bugs are evicted, but by the construction of the run (harness c18Bounded: steps separated by
                                  barriers, one goroutine at a time resolves / edits, at most capacity goroutines with one handle
                                  each, fewer than capacity distinct other bugs resolved between the Resolve and the use of a
                                  handle) never the bug of a handle in use: CacheLru.recent_handle_survives *)
  c_shared : nat;              (* bugs 1..c_shared existed before the goroutines started, create operation 1000+b *)
  c_calls : list callobs;      (* thread-major; operation numbers are 1 + position of the issuing call *)
  c_flush : list (nat * nat);  (* the final CommitAsNeeded per bug: error class *)
  c_bugs : list bugobs;
  c_stuck : bool;              (* the watchdog fired: some goroutine never finished *)
  c_coherent : bool;           (* live cache = cache rebuilt from git (excerpts, snapshots, queries) *)
  c_stale : list nat;          (* once the goroutines are done, before the flush: the bugs whose excerpt in the cache is not
                                  the excerpt of the entity the cache hands out (staged operations included), or whose texts
                                  in the full-text index are not those of that entity (both are written by entityUpdated) *)
  c_saved : list nat;          (* at a checkpoint (every goroutine has returned from its calls; the last one: the goroutines are
                                  done): the bugs, with nothing staged, whose excerpt in the cache files as they are on disk,
                                  loaded again by a new cache without a rebuild, is not the excerpt of the entity / of git *)
  c_fatal : nat }.             (* part C18r: unsynchronised accesses to a Go map reported by the race detector: each is a
                                  'fatal error: concurrent map read and map write' (process crash) under the wrong timing *)

Definition res_of (c : callobs) : callres := mkres (co_kind c) (co_bug c) (co_op c) (co_e1 c) (co_e2 c).
Definition results_of (c : case) : list callres := map res_of (c_calls c).
Definition stored_of (c : case) (b : nat) : list nat :=
  match find (fun x => Nat.eqb (bo_id x) b) (c_bugs c) with Some x => concat (bo_packs x) | None => [] end.
Definition memn (x : nat) (l : list nat) := existsb (Nat.eqb x) l.
Fixpoint nodupb (l : list nat) : bool := match l with [] => true | x :: t => negb (memn x t) && nodupb t end.
Definition issued (c : case) (b : nat) : list nat :=
  (if Nat.leb b (c_shared c) then [1000 + b] else []) ++
  flat_map (fun x => if Nat.eqb (co_bug x) b && negb (Nat.eqb (co_op x) 0) then [co_op x] else []) (c_calls c).
Fixpoint prefixb (a b : list (list nat)) : bool :=
  match a, b with
  | [], _ => true
  | x :: a', y :: b' => (if list_eq_dec Nat.eq_dec x y then true else false) && prefixb a' b'
  | _, [] => false
  end.
Definition list_eqb (a b : list nat) : bool := if list_eq_dec Nat.eq_dec a b then true else false.
(* (CacheClock.increasingb: the edit times along a chain, each commit later than its parent: what bug.Read demands of a
   valid history) *)
(* may a handle in use be evicted in this run? (c_evict 1 or 2) *)
Definition may_evict_in_use (c : case) : bool := Nat.eqb (c_evict c) 1 || Nat.eqb (c_evict c) 2.

(* --- the outcome against the model: the conclusions of the theorems of P_C18 ---
   C18_no_lost_ack (acks_stored_once), C18_stored_once_issued, C18_history_append_only (a bug that existed keeps
   its first pack), C18_error_classes, C18_deadlock_free (stuck only if something can be evicted) *)
Definition C18_allowed (c : case) : bool :=
  acks_stored_once (results_of c) (stored_of c) &&
  (* (a call that never returned has no known operation number: 0) *)
  forallb (fun x => nodupb (filter (fun o => negb (Nat.eqb o 0)) (concat (bo_packs x))) &&
                    forallb (fun o => memn o (issued c (bo_id x)) || (c_stuck c && Nat.eqb o 0)) (concat (bo_packs x))) (c_bugs c) &&
  forallb (fun x => negb (Nat.leb (bo_id x) (c_shared c)) || prefixb [[1000 + bo_id x]] (bo_packs x)) (c_bugs c) &&
  (c_stuck c || classes_ok (results_of c)) &&
  (* C18_deadlock_free + CacheLru.recent_handle_survives: stuck only if the bug of a handle in use can be evicted *)
  (negb (c_stuck c) || may_evict_in_use c) &&
  (* CacheClock.times_increasing: the commits of a bug carry increasing edit times (one clock instance per name) *)
  forallb (fun x => increasingb (bo_times x)) (c_bugs c) &&
  (* C18_excerpts_fresh: an excerpt is stale only for a bug about which a call failed in entityUpdated / add *)
  forallb (fun b => existsb (fun x => Nat.eqb (co_bug x) b && missedb (res_of x)) (c_calls c)) (c_stale c) &&
  (* CachePersist.saved_fresh_when_done: the saved excerpts are the excerpts of the cache; stale only where those are *)
  forallb (fun b => existsb (fun x => Nat.eqb (co_bug x) b && missedb (res_of x)) (c_calls c)) (c_saved c) &&
  Nat.eqb (c_fatal c) 0.

Fixpoint index_filter {A} (ok : A -> bool) (i : nat) (l : list A) : list nat :=
  match l with [] => [] | x :: t => if ok x then index_filter ok (S i) t else i :: index_filter ok (S i) t end.
Definition mismatches (cs : list case) : list nat := index_filter C18_allowed 0 cs.

(* --- the property itself on what the implementation did --- *)
Definition C18_ok (c : case) : bool :=
  negb (c_stuck c) &&                                                             (* no call deadlocks *)
  forallb (fun x => negb (Nat.eqb (co_e1 x) 5) && negb (Nat.eqb (co_e1 x) 6)) (c_calls c) &&   (* ... or panics *)
  acks_stored_once (results_of c) (stored_of c) &&                                (* every acknowledged operation stored exactly once *)
  forallb (fun x => bo_chain x &&                                                 (* each history a chain ... *)
                    match bo_read x with Some ops => list_eqb ops (concat (bo_packs x)) | None => false end &&   (* ... that reads back *)
                    increasingb (bo_times x) &&                                   (* ... valid: every commit later (lamport edit time) than its parent *)
                    nodupb (concat (bo_packs x)) &&
                    forallb (fun o => memn o (issued c (bo_id x))) (concat (bo_packs x)))   (* containing only what was issued *)
          (c_bugs c) &&
  c_coherent c &&                                                                 (* the cache agrees with a rebuild *)
  is_nil (c_stale c) &&                                                           (* ... and with its own entities, before anything else touches it *)
  is_nil (c_saved c) &&                                                           (* ... and so does the cache the next process loads from the files it saved *)
  Nat.eqb (c_fatal c) 0.                                                          (* no call can crash the process *)

Definition failing (cs : list case) : list nat := index_filter C18_ok 0 cs.

(* --replay: did the run hang; the bugs whose commits do not carry increasing edit times, with the times; the
   acknowledged operations that are not stored exactly once, per (bug, operation); the bugs whose excerpt was stale
   in the cache / in the saved cache loaded again; and the verdicts *)
Definition explain (c : case) :=
  (c_stuck c, flat_map (fun x => if increasingb (bo_times x) then [] else [(bo_id x, bo_times x)]) (c_bugs c),
   flat_map (fun r => if ackedb r && negb (Nat.eqb (count_occ Nat.eq_dec (stored_of c (r_bug r)) (r_op r)) 1) then [(r_bug r, r_op r)] else []) (results_of c),
   c_stale c, c_saved c, C18_allowed c, C18_ok c).
