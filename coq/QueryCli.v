(* C12 — from the command line to the query: model of commands/bug/bug.go (repairQuery, runBug, completeQuery).
   `git bug [flags] [QUERY...]`: every argv element is a piece of the query; the shell has removed the quotes of
   title:"a b" (the element is  title:a b ) unless the user protected them (the element is  title:"a b" ).
   [fixed = true] is the code with the three repairs (an element with closed quotations is left alone; --by and
   --direction replace the sort of the query only when given; --metadata k=v is cut at the first =);
   [fixed = false] is the code as it was. *)
From Coq Require Import List Arith NArith Bool Lia.
Import ListNotations.
From GB Require Import Query Lex QueryRender.
Local Open Scope N_scope.

(* ------------------------------------------------------------------ repairQuery *)

Definition has_quote (s : str) : bool := existsb is_quote s.
Definition has_sp (s : str) : bool := existsb (N.eqb space) s.
(* isQuoted: the element has quotes and every quotation in it is closed *)
Definition arg_quoted (a : str) : bool := has_quote a && negb (unmatched_quote a).

(* strings.Split(arg, ":") — not quote aware *)
Fixpoint split_plain (s cur : str) : list str :=
  match s with
  | [] => [rev cur]
  | r :: t => if is_colon r then rev cur :: split_plain t [] else split_plain t (r :: cur)
  end.
Definition requote (p : str) : str := if has_sp p then dq :: p ++ [dq] else p.
Definition requote_arg (a : str) : str := join colon (map requote (split_plain a [])).
Definition repair_arg (fixed : bool) (a : str) : str := if fixed && arg_quoted a then a else requote_arg a.
Definition repair (fixed : bool) (args : list str) : str := join space (map (repair_arg fixed) args).

(* ------------------------------------------------------------------ completeQuery *)

Record flags := mkflags {
  fl_status : list str; fl_author : list str; fl_meta : list str; fl_participant : list str; fl_actor : list str;
  fl_label : list str; fl_title : list str; fl_no : list str; fl_by : option str; fl_dir : option str }.
Definition no_flags := mkflags [] [] [] [] [] [] [] [] None None.

Definition eq_sign : rune := 61.
Fixpoint cut_at (c : rune) (s pre : str) : option (str * str) :=
  match s with [] => None | r :: t => if N.eqb r c then Some (rev pre, t) else cut_at c t (r :: pre) end.
(* strings.SplitN(str, "=", 2): key, everything after the first = *)
Definition cut_first (s : str) : option (str * str) := cut_at eq_sign s [].
(* strings.Split(str, "="): tokens[0], tokens[1] — the value stops at the second = *)
Definition cut_pinned (s : str) : option (str * str) :=
  match cut_at eq_sign s [] with
  | None => None
  | Some (k, rest) => Some (k, match cut_at eq_sign rest [] with None => rest | Some (v, _) => v end)
  end.

Fixpoint all_some {A} (l : list (option A)) : option (list A) :=
  match l with
  | [] => Some []
  | None :: _ => None
  | Some x :: t => match all_some t with Some r => Some (x :: r) | None => None end
  end.

Definition v_asc : str := [97;115;99].
Definition v_desc : str := [100;101;115;99].
Definition by_of (v : str) : option N :=
  if str_eqb v v_id then Some 1 else if str_eqb v v_creation then Some 2 else if str_eqb v v_edit then Some 3 else None.
Definition dir_of (v : str) : option N := if str_eqb v v_asc then Some 1 else if str_eqb v v_desc then Some 2 else None.
Definition given {A} (o : option A) : bool := match o with Some _ => true | None => false end.
Definition or_default (o : option str) (d : str) : str := match o with Some v => v | None => d end.

(* the flag defaults are creation / asc; None = the command fails *)
Definition complete (fixed : bool) (q : query) (f : flags) : option query :=
  match all_some (map status_of (fl_status f)),
        all_some (map (if fixed then cut_first else cut_pinned) (fl_meta f)),
        by_of (or_default (fl_by f) v_creation), dir_of (or_default (fl_dir f) v_asc) with
  | Some sts, Some metas, Some ob, Some d =>
      if forallb (fun n => str_eqb n k_label) (fl_no f) then
        let keep := fixed && q_sorted q in
        Some {| q_search := q_search q; q_status := q_status q ++ sts; q_author := q_author q ++ fl_author f;
                q_meta := q_meta q ++ metas; q_actor := q_actor q ++ fl_actor f;
                q_participant := q_participant q ++ fl_participant f; q_label := q_label q ++ fl_label f;
                q_title := q_title q ++ fl_title f;
                q_nolabel := q_nolabel q || match fl_no f with [] => false | _ => true end;
                q_orderby := if keep && negb (given (fl_by f)) then q_orderby q else ob;
                q_dir := if keep && negb (given (fl_dir f)) then q_dir q else d;
                q_sorted := q_sorted q |}
      else None
  | _, _, _, _ => None
  end.

(* runBug: no argument = query.NewQuery() *)
Definition cli_query (fixed : bool) (args : list str) (f : flags) : option query :=
  match args with
  | [] => complete fixed q0 f
  | _ => match parse (repair fixed args) with None => None | Some q => complete fixed q f end
  end.

(* ------------------------------------------------------------------ what an argv element means *)

Inductive arg :=
| AQuery (its : list item)     (* a piece of the query language, verbatim *)
| AStripped (it : item)        (* one qualifier, values without their quotes *)
| ARaw (s : str).              (* anything else: nothing is claimed *)

Definition stripped_field (it : item) : str := join colon (map text (vals_of it)).
Definition arg_str (a : arg) : str :=
  match a with AQuery its => render its | AStripped it => stripped_field it | ARaw s => s end.
Definition arg_items (a : arg) : list item :=
  match a with AQuery its => its | AStripped it => [it] | ARaw _ => [] end.

(* a value the command can put back together: not empty, plain code points and U+0020 *)
Definition strip_rune_ok (r : rune) : bool := plain_rune r || N.eqb r space.
Definition strip_text_ok (t : str) : bool := negb (is_nil t) && forallb strip_rune_ok t.

Definition wf_arg (a : arg) : bool :=
  match a with
  | AQuery its => negb (match its with [] => true | _ => false end) && wf_lex its &&
                  (has_quote (render its) || negb (has_sp (render its)))
  | AStripped it => forallb strip_text_ok (map text (vals_of it))
  | ARaw _ => false
  end.

(* the spelling repairQuery gives to a stripped value *)
Definition restyle_val (x : val) : val := (if has_sp (snd x) then DQ else Bare, snd x).
Definition restyle_item (it : item) : item :=
  match it with
  | ISearch v => ISearch (restyle_val v)
  | IStatus kw v => IStatus kw (restyle_val v)
  | IAuthor v => IAuthor (restyle_val v) | IActor v => IActor (restyle_val v) | IParticipant v => IParticipant (restyle_val v)
  | ILabel v => ILabel (restyle_val v) | ITitle v => ITitle (restyle_val v)
  | IMeta k v => IMeta (restyle_val k) (restyle_val v)
  | INo v => INo (restyle_val v)
  | ISort v => ISort (restyle_val v)
  end.
Definition arg_items' (a : arg) : list item :=
  match a with AQuery its => its | AStripped it => [restyle_item it] | ARaw _ => [] end.

(* ------------------------------------------------------------------ lemmas: join *)

Lemma join_cons (s : rune) (w : str) ws : ws <> [] -> join s (w :: ws) = w ++ s :: join s ws.
Proof. destruct ws; [congruence|reflexivity]. Qed.

Lemma join_app (s : rune) (a b : list str) : a <> [] -> b <> [] -> join s (a ++ b) = join s a ++ s :: join s b.
Proof. induction a as [|w rest IH]; intros Ha Hb; [congruence|]. destruct rest as [|w2 rest'].
  - cbn [app]. now rewrite join_cons.
  - change ((w :: w2 :: rest') ++ b) with (w :: (w2 :: rest') ++ b). rewrite join_cons by (cbn; discriminate).
    rewrite IH by (discriminate || assumption). rewrite (join_cons s w (w2 :: rest')) by discriminate. now rewrite <- app_assoc. Qed.

Lemma join_concat (s : rune) {A} (f : A -> str) (ls : list (list A)) : ls <> [] -> Forall (fun l => l <> []) ls ->
  join s (map (fun l => join s (map f l)) ls) = join s (map f (concat ls)).
Proof. induction ls as [|l rest IH]; intros Hne F; [congruence|]. inversion F as [|? ? Hl F']; subst.
  destruct rest as [|l2 rest'].
  - cbn. now rewrite app_nil_r.
  - change (concat (l :: l2 :: rest')) with (l ++ concat (l2 :: rest')).
    change (map (fun l0 => join s (map f l0)) (l :: l2 :: rest')) with (join s (map f l) :: map (fun l0 => join s (map f l0)) (l2 :: rest')).
    rewrite join_cons by (cbn; discriminate). rewrite IH by (discriminate || assumption).
    rewrite map_app. rewrite join_app; [reflexivity| |].
    + destruct l; [congruence|discriminate].
    + inversion F'; subst. destruct l2; [congruence|discriminate]. Qed.

(* ------------------------------------------------------------------ lemmas: split on colons *)

Lemma split_plain_nonempty s : forall cur, split_plain s cur <> [].
Proof. induction s as [|r t IH]; intros cur; cbn; [discriminate|]. destruct (is_colon r); [discriminate|apply IH]. Qed.

Lemma split_plain_join_spec s : forall cur, join colon (split_plain s cur) = rev cur ++ s.
Proof. induction s as [|r t IH]; intros cur; cbn [split_plain].
  - cbn. now rewrite app_nil_r.
  - destruct (is_colon r) eqn:E.
    + rewrite join_cons by apply split_plain_nonempty.
      rewrite IH. cbn. unfold is_colon in E. apply N.eqb_eq in E. now subst.
    + rewrite IH. cbn. now rewrite <- app_assoc. Qed.

Lemma has_sp_app a b : has_sp (a ++ b) = has_sp a || has_sp b.
Proof. apply existsb_app. Qed.
Lemma has_sp_rev a : has_sp (rev a) = has_sp a.
Proof. induction a as [|r t IH]; [reflexivity|]. cbn [rev]. rewrite has_sp_app, IH. cbn. now rewrite orb_false_r, orb_comm. Qed.

Lemma split_plain_nosp s : forall cur, has_sp s = false -> has_sp cur = false -> Forall (fun p => has_sp p = false) (split_plain s cur).
Proof. induction s as [|r t IH]; intros cur Hs Hc; cbn [split_plain].
  - constructor; [now rewrite has_sp_rev|constructor].
  - cbn in Hs. apply orb_false_iff in Hs as [H1 H2]. destruct (is_colon r).
    + constructor; [now rewrite has_sp_rev|]. now apply IH.
    + apply IH; [exact H2|]. cbn. now rewrite H1. Qed.

Lemma requote_arg_nosp a : has_sp a = false -> requote_arg a = a.
Proof. intros H. unfold requote_arg. rewrite (map_ext_in requote (fun p => p)).
  - rewrite map_id. now rewrite split_plain_join_spec.
  - intros p Hp. pose proof (split_plain_nosp a [] H eq_refl) as F. rewrite Forall_forall in F. unfold requote. now rewrite (F p Hp). Qed.

(* cutting a join of colon-free pieces at the colons gives the pieces back *)
Definition no_colon (t : str) : bool := forallb (fun r => negb (is_colon r)) t.

Lemma split_plain_piece t : forall rest cur, no_colon t = true -> split_plain (t ++ rest) cur = split_plain rest (rev t ++ cur).
Proof. induction t as [|r t' IH]; intros rest cur H; [reflexivity|]. cbn in H. apply andb_true_iff in H as [H1 H2].
  apply negb_true_iff in H1. cbn. rewrite H1, IH by exact H2. now rewrite <- app_assoc. Qed.

Lemma split_plain_join ts : ts <> [] -> Forall (fun t => no_colon t = true) ts -> split_plain (join colon ts) [] = ts.
Proof. induction ts as [|t rest IH]; intros Hne F; [congruence|]. inversion F; subst. destruct rest as [|t2 rest'].
  - cbn [join]. rewrite <- (app_nil_r t) at 1. rewrite split_plain_piece by assumption. cbn. now rewrite app_nil_r, rev_involutive.
  - rewrite join_cons by discriminate. rewrite split_plain_piece by assumption. cbn [split_plain]. change (is_colon colon) with true. cbn iota.
    rewrite app_nil_r, rev_involutive. now rewrite IH by (discriminate || assumption). Qed.

(* ------------------------------------------------------------------ lemmas: one argv element *)

Lemma unmatched_rendered its : wf_lex its = true -> unmatched_quote (render its) = false.
Proof. intros H. pose proof (tokenize_k_render true its H) as T. unfold tokenize_k in T.
  destruct (split_func false is_space (render its)) eqn:E; [|discriminate].
  destruct (unmatched_quote (render its)) eqn:U; [|reflexivity]. apply (split_func_none false is_space) in U. congruence. Qed.

Lemma repair_query_arg its : wf_arg (AQuery its) = true -> repair_arg true (render its) = render its.
Proof. cbn [wf_arg]. intros H. apply andb_true_iff in H as [H Hq]. apply andb_true_iff in H as [_ Hl].
  unfold repair_arg, arg_quoted. rewrite (unmatched_rendered its Hl). cbn [negb andb]. rewrite andb_true_r.
  destruct (has_quote (render its)) eqn:Q; [reflexivity|]. cbn in Hq. apply negb_true_iff in Hq. now apply requote_arg_nosp. Qed.

Lemma strip_rune_no_quote r : strip_rune_ok r = true -> is_quote r = false /\ is_colon r = false.
Proof. unfold strip_rune_ok, plain_rune. intros H. apply orb_true_iff in H as [H|H].
  - apply negb_true_iff in H. apply orb_false_iff in H as [H H2]. apply orb_false_iff in H as [H0 H1]. now split.
  - apply N.eqb_eq in H. subst. split; reflexivity. Qed.

Lemma memr_dq_no_quote t : has_quote t = false -> memr dq t = false.
Proof. unfold has_quote, memr. induction t as [|r t' IH]; [reflexivity|]. cbn [existsb]. intros H. apply orb_false_iff in H as [A B].
  rewrite (IH B), orb_false_r. unfold is_quote in A. apply orb_false_iff in A as [A _]. rewrite N.eqb_sym. exact A. Qed.

Lemma bare_of_strip l : l <> [] -> has_sp l = false -> forallb strip_rune_ok l = true -> bare l = true.
Proof. intros Hne S Hf. unfold bare. destruct l as [|r0 t0]; [congruence|]. clear Hne. revert S Hf. generalize (r0 :: t0). intros l.
  unfold has_sp. induction l as [|r t' IH]; [reflexivity|]. cbn [existsb forallb]. intros S Hf.
  apply orb_false_iff in S as [S1 S2]. apply andb_true_iff in Hf as [H1 H2]. rewrite (IH S2 H2), andb_true_r.
  unfold strip_rune_ok in H1. apply orb_true_iff in H1 as [H1|H1]; [exact H1|]. rewrite N.eqb_sym in S1. congruence. Qed.

Lemma strip_text_props t : strip_text_ok t = true ->
  t <> [] /\ has_quote t = false /\ no_colon t = true /\ wf_val (restyle_val (Bare, t)) = true /\ render_val (restyle_val (Bare, t)) = requote t.
Proof. unfold strip_text_ok. intros H. apply andb_true_iff in H as [Hn Hf]. split; [destruct t; [discriminate|discriminate]|].
  assert (Hq : has_quote t = false /\ no_colon t = true).
  { clear Hn. induction t as [|r t' IH]; [split; reflexivity|]. cbn in Hf. apply andb_true_iff in Hf as [H1 H2].
    destruct (strip_rune_no_quote r H1) as [A B]. destruct (IH H2) as [C D]. unfold has_quote, no_colon in *. cbn [existsb forallb]. rewrite A, B, C, D. split; reflexivity. }
  destruct Hq as [Hq Hc]. repeat split; try assumption.
  - unfold restyle_val, wf_val. cbn [fst snd]. destruct (has_sp t) eqn:S.
    + apply negb_true_iff. now apply memr_dq_no_quote.
    + apply bare_of_strip; [destruct t; [discriminate|discriminate]|exact S|exact Hf].
  - unfold restyle_val, render_val, requote. cbn [fst snd]. now destruct (has_sp t). Qed.

Lemma vals_restyle it : vals_of (restyle_item it) = map restyle_val (vals_of it).
Proof. destruct it as [v|[|] v|v|v|v|v|v|k v|v|v]; reflexivity. Qed.

Lemma restyle_text x : text (restyle_val x) = text x.
Proof. reflexivity. Qed.

Lemma repair_stripped_arg it : wf_arg (AStripped it) = true ->
  repair_arg true (stripped_field it) = render_item (restyle_item it) /\ wf_lex_item (restyle_item it) = true.
Proof. cbn [wf_arg]. intros H. rewrite forallb_map in H.
  assert (P : Forall (fun x => strip_text_ok (text x) = true) (vals_of it)) by (apply forallb_Forall; exact H).
  assert (Hne : vals_of it <> []) by (destruct it as [v|[|] v|v|v|v|v|v|k v|v|v]; discriminate).
  assert (Hq : has_quote (stripped_field it) = false).
  { unfold stripped_field. clear H. induction P as [|x l Hx _ IH]; [congruence|]. destruct (strip_text_props _ Hx) as (_ & Q & _).
    destruct l as [|y l']; [cbn; exact Q|]. cbn [map]. rewrite join_cons by discriminate. unfold has_quote in *. rewrite existsb_app. cbn [existsb].
    rewrite Q. cbn. apply IH. discriminate. }
  split.
  - unfold repair_arg, arg_quoted. rewrite Hq. cbn [andb]. unfold requote_arg, stripped_field.
    rewrite split_plain_join.
    + unfold render_item, render_field. rewrite vals_restyle, !map_map. f_equal. apply map_ext_in. intros x Hx.
      rewrite Forall_forall in P. destruct (strip_text_props _ (P x Hx)) as (_ & _ & _ & _ & R). destruct x as [st t]. exact (eq_sym R).
    + destruct (vals_of it); [congruence|discriminate].
    + apply Forall_map. eapply Forall_impl; [|exact P]. intros x Hx. now destruct (strip_text_props _ Hx) as (_ & _ & C & _).
  - assert (W : forallb wf_val (vals_of (restyle_item it)) = true).
    { rewrite vals_restyle, forallb_map. apply forallb_Forall. eapply Forall_impl; [|exact P]. intros x Hx.
      destruct (strip_text_props _ Hx) as (_ & _ & _ & W & _). destruct x as [st t]. exact W. }
    destruct it as [v|[|] v|v|v|v|v|v|k v|v|v]; cbn [restyle_item wf_lex_item]; cbn [vals_of restyle_item map forallb] in W;
    rewrite ?andb_true_r in W; repeat match type of W with (_ && _ = true) => let A := fresh "A" in apply andb_true_iff in W as [A W] end;
    repeat match goal with H : wf_val _ = true |- _ => rewrite H; clear H end; reflexivity. Qed.

(* ------------------------------------------------------------------ the arguments of a command line *)

Lemma arg_items'_nonempty a : wf_arg a = true -> arg_items' a <> [].
Proof. destruct a as [its|it|s]; cbn; intros H; try discriminate. destruct its; [discriminate|discriminate]. Qed.

Lemma repair_arg_render a : wf_arg a = true -> repair_arg true (arg_str a) = join space (map render_item (arg_items' a)).
Proof. destruct a as [its|it|s]; intros H; [|cbn [arg_str arg_items' map join]|discriminate].
  - cbn [arg_str arg_items']. now apply repair_query_arg.
  - now destruct (repair_stripped_arg it H). Qed.

Theorem repair_render args : args <> [] -> Forall (fun a => wf_arg a = true) args ->
  repair true (map arg_str args) = render (flat_map arg_items' args).
Proof. intros Hne F. unfold repair, render. rewrite map_map. rewrite (map_ext_in _ (fun a => join space (map render_item (arg_items' a)))).
  - rewrite flat_map_concat_map. rewrite <- (join_concat space render_item (map arg_items' args)).
    + now rewrite map_map.
    + destruct args; [congruence|discriminate].
    + apply Forall_map. eapply Forall_impl; [|exact F]. intros a Ha. now apply arg_items'_nonempty.
  - intros a Ha. rewrite Forall_forall in F. now apply repair_arg_render, F. Qed.

(* restyling changes spellings only *)
Lemma apply_restyle q it : apply_item q (restyle_item it) = apply_item q it.
Proof. destruct it as [v|kw v|v|v|v|v|v|k v|v|v]; reflexivity. Qed.
Lemma sem_restyle it : wf_sem_item (restyle_item it) = wf_sem_item it.
Proof. destruct it as [v|kw v|v|v|v|v|v|k v|v|v]; reflexivity. Qed.
Lemma sort_restyle it : is_sort (restyle_item it) = is_sort it.
Proof. destruct it as [v|kw v|v|v|v|v|v|k v|v|v]; reflexivity. Qed.

Lemma items'_props args : Forall (fun a => wf_arg a = true) args ->
  wf_lex (flat_map arg_items' args) = true /\
  forallb wf_sem_item (flat_map arg_items' args) = forallb wf_sem_item (flat_map arg_items args) /\
  count_sort (flat_map arg_items' args) = count_sort (flat_map arg_items args) /\
  forall q, fold_left apply_item (flat_map arg_items' args) q = fold_left apply_item (flat_map arg_items args) q.
Proof. induction 1 as [|a rest Ha _ IH]; [repeat split; reflexivity|]. destruct IH as (I1 & I2 & I3 & I4).
  cbn [flat_map]. unfold wf_lex, count_sort in *. rewrite !forallb_app, !filter_app, !app_length, I1, I2, I3.
  destruct a as [its|it|s]; cbn [arg_items arg_items'].
  - cbn [wf_arg] in Ha. apply andb_true_iff in Ha as [Ha _]. apply andb_true_iff in Ha as [_ Ha]. unfold wf_lex in Ha. rewrite Ha.
    split; [reflexivity|]. split; [reflexivity|]. split; [reflexivity|]. intros q. now rewrite !fold_left_app, I4.
  - destruct (repair_stripped_arg it Ha) as [_ W]. cbn [forallb filter]. rewrite W, sem_restyle, sort_restyle.
    split; [reflexivity|]. split; [reflexivity|]. split; [now destruct (is_sort it)|]. intros q. rewrite !fold_left_app. cbn [fold_left]. now rewrite apply_restyle, I4.
  - discriminate. Qed.

(* the command line reaches the parser as the query its elements denote: qualifiers given verbatim (quotes
   protected from the shell) or without their quotes, in any number and order *)
Theorem cli_parse args : args <> [] -> Forall (fun a => wf_arg a = true) args -> wf_items (flat_map arg_items args) = true ->
  parse (repair true (map arg_str args)) = Some (denote (flat_map arg_items args)).
Proof. intros Hne F W. rewrite repair_render by assumption. destruct (items'_props args F) as (P1 & P2 & P3 & P4).
  rewrite parse_render.
  - unfold denote. now rewrite P4.
  - unfold wf_items in *. apply andb_true_iff in W as [W Wc]. apply andb_true_iff in W as [_ Ws]. now rewrite P1, P2, P3, Ws, Wc. Qed.

(* as it was: the documented example, given as one protected argument, is not parsed to what it denotes *)
Definition typo_in_string : str := [84;121;112;111;32;105;110;32;115;116;114;105;110;103].
Theorem cli_parse_pinned_refuted : exists args, args <> [] /\ Forall (fun a => wf_arg a = true) args /\
  wf_items (flat_map arg_items args) = true /\
  parse (repair false (map arg_str args)) <> Some (denote (flat_map arg_items args)).
Proof. exists [AQuery [ITitle (DQ, typo_in_string)]]. split; [discriminate|]. split; [repeat constructor|]. split; [reflexivity|].
  vm_compute. discriminate. Qed.

(* ------------------------------------------------------------------ the flags *)

Lemma cut_at_first c k v : forall pre, existsb (N.eqb c) k = false -> cut_at c (k ++ c :: v) pre = Some (rev pre ++ k, v).
Proof. induction k as [|r t IH]; intros pre H.
  - cbn. rewrite N.eqb_refl. now rewrite app_nil_r.
  - cbn in H. apply orb_false_iff in H as [H1 H2]. cbn. rewrite N.eqb_sym, H1. rewrite IH by exact H2. cbn. now rewrite <- app_assoc. Qed.

(* --metadata key=value: the value is everything after the first = *)
Theorem meta_flag_cut k v : existsb (N.eqb eq_sign) k = false -> cut_first (k ++ eq_sign :: v) = Some (k, v).
Proof. intros H. unfold cut_first. now rewrite cut_at_first. Qed.

Theorem meta_flag_pinned_refuted : exists k v, existsb (N.eqb eq_sign) k = false /\ cut_pinned (k ++ eq_sign :: v) <> Some (k, v).
Proof. exists [107], [97; 61; 98]. split; [reflexivity|]. vm_compute. discriminate. Qed.

(* the sort: the flags that are given win, the sort qualifier of the query comes next, the defaults last *)
Theorem complete_sort q f q' : complete true q f = Some q' ->
  Some (q_orderby q') = (match fl_by f with Some v => by_of v | None => Some (if q_sorted q then q_orderby q else 2) end) /\
  Some (q_dir q') = (match fl_dir f with Some v => dir_of v | None => Some (if q_sorted q then q_dir q else 1) end).
Proof. unfold complete. destruct (all_some (map status_of (fl_status f))); [|discriminate].
  destruct (all_some (map cut_first (fl_meta f))); [|discriminate].
  destruct (by_of (or_default (fl_by f) v_creation)) as [ob|] eqn:Eb; [|discriminate].
  destruct (dir_of (or_default (fl_dir f) v_asc)) as [d|] eqn:Ed; [|discriminate].
  destruct (forallb _ (fl_no f)); [|discriminate]. intros H. inversion H; subst; clear H. cbn [q_orderby q_dir andb].
  destruct (fl_by f) as [vb|], (fl_dir f) as [vd|], (q_sorted q); cbn in *; rewrite ?Eb, ?Ed; split; try reflexivity;
  try (inversion Eb; reflexivity); try (inversion Ed; reflexivity). Qed.

(* the filters of the flags come after those of the query, nothing else changes *)
Theorem complete_filters fixed q f q' : complete fixed q f = Some q' ->
  q_search q' = q_search q /\ q_author q' = q_author q ++ fl_author f /\ q_actor q' = q_actor q ++ fl_actor f /\
  q_participant q' = q_participant q ++ fl_participant f /\ q_label q' = q_label q ++ fl_label f /\ q_title q' = q_title q ++ fl_title f /\
  (exists sts, all_some (map status_of (fl_status f)) = Some sts /\ q_status q' = q_status q ++ sts) /\
  (exists ms, all_some (map (if fixed then cut_first else cut_pinned) (fl_meta f)) = Some ms /\ q_meta q' = q_meta q ++ ms).
Proof. unfold complete. destruct (all_some (map status_of (fl_status f))) as [sts|]; [|discriminate].
  destruct (all_some (map _ (fl_meta f))) as [ms|]; [|discriminate].
  destruct (by_of _); [|discriminate]. destruct (dir_of _); [|discriminate]. destruct (forallb _ (fl_no f)); [|discriminate].
  intros H. inversion H; subst; clear H. cbn. repeat split; try reflexivity; eexists; split; reflexivity. Qed.

(* as it was: `git bug sort:id` (no flag) is ordered by creation, ascending *)
Theorem complete_sort_pinned_refuted : exists q q', q_sorted q = true /\ complete false q no_flags = Some q' /\
  (q_orderby q', q_dir q') <> (q_orderby q, q_dir q).
Proof. exists (upd_sort q0 (1, 1)). eexists. split; [reflexivity|]. split; [vm_compute; reflexivity|]. vm_compute. discriminate. Qed.
