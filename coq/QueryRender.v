(* C12 — the documented query language (doc/queries.md) as a structure, its rendering, and the
   round trip / rejection lemmas over the model of query/lexer.go + parser.go (Query.v). *)
From Coq Require Import List Arith NArith Bool Lia.
Import ListNotations.
From GB Require Import Query Lex.
Local Open Scope N_scope.

(* ------------------------------------------------------------------ strings *)

Lemma str_eqb_refl a : str_eqb a a = true.
Proof. induction a; cbn; [reflexivity|]. now rewrite N.eqb_refl. Qed.

Lemma str_eqb_eq a : forall b, str_eqb a b = true <-> a = b.
Proof. induction a as [|x a IH]; intros [|y b]; cbn; split; intros H; try reflexivity; try discriminate.
  - apply andb_true_iff in H as [H1 H2]. apply N.eqb_eq in H1. apply IH in H2. now subst.
  - inversion H; subst. rewrite N.eqb_refl. now apply IH. Qed.

Definition dq : rune := 34.
Definition sq : rune := 39.
Definition colon : rune := 58.
Definition space : rune := 32.

Definition memr (r : rune) (s : str) : bool := existsb (N.eqb r) s.
(* a code point that needs no quoting: no quote, no white space (unicode.IsSpace), no colon *)
Definition plain_rune (r : rune) : bool := negb (is_quote r || is_space r || is_colon r).
Definition bare (v : str) : bool := match v with [] => false | _ => forallb plain_rune v end.

(* ------------------------------------------------------------------ values and their spelling *)

Inductive style := Bare | DQ | SQ.
Definition val := (style * str)%type.
Definition text (x : val) : str := snd x.

Definition render_val (x : val) : str :=
  match fst x with
  | Bare => snd x
  | DQ => dq :: snd x ++ [dq]
  | SQ => sq :: snd x ++ [sq]
  end.

(* which spellings are legal: unquoted needs a non-empty text of plain code points; a quoted text
   must not contain its own quote character (there is no escape in the language) *)
Definition wf_val (x : val) : bool :=
  match fst x with
  | Bare => bare (snd x)
  | DQ => negb (memr dq (snd x))
  | SQ => negb (memr sq (snd x))
  end.

(* the spelling chosen when only the text is given: bare if possible, else double quotes, else single *)
Definition wf_value (v : str) : bool := negb (memr dq v && memr sq v).
Definition auto_val (v : str) : val :=
  (if bare v then Bare else if memr dq v then SQ else DQ, v).

Lemma wf_auto_val v : wf_value v = true -> wf_val (auto_val v) = true.
Proof. unfold wf_value, auto_val, wf_val. cbn [fst snd]. intros H. destruct (bare v) eqn:B; [reflexivity|].
  destruct (memr dq v) eqn:D; [|reflexivity]. cbn in H. now destruct (memr sq v). Qed.

Lemma text_auto_val v : text (auto_val v) = v.
Proof. reflexivity. Qed.

(* ------------------------------------------------------------------ scanning a rendered value *)

Lemma scan_plain sep v : forallb (fun r => negb (is_quote r) && negb (sep r)) v = true -> scan sep v None = Some None.
Proof. induction v as [|r t IH]; cbn; [reflexivity|]. intros H. apply andb_true_iff in H as [H1 H2].
  apply andb_true_iff in H1 as [Hq Hs]. apply negb_true_iff in Hq, Hs. rewrite Hq, Hs. auto. Qed.

Lemma scan_inquote sep Q v rest : memr Q v = false -> scan sep (v ++ rest) (Some Q) = scan sep rest (Some Q).
Proof. induction v as [|r t IH]; cbn; [reflexivity|]. intros H. apply orb_false_iff in H as [H1 H2].
  rewrite N.eqb_sym, H1. auto. Qed.

Lemma scan_wrap sep Q v : is_quote Q = true -> memr Q v = false -> scan sep (Q :: v ++ [Q]) None = Some None.
Proof. intros HQ Hm. cbn. rewrite HQ, scan_inquote by exact Hm. cbn. now rewrite N.eqb_refl. Qed.

Lemma plain_sep sep : (forall r, sep r = true -> plain_rune r = false) ->
  forall v, forallb plain_rune v = true -> forallb (fun r => negb (is_quote r) && negb (sep r)) v = true.
Proof. intros Hsep v. induction v as [|r t IH]; cbn; [reflexivity|]. intros H. apply andb_true_iff in H as [H1 H2].
  rewrite IH by exact H2. rewrite andb_true_r. destruct (sep r) eqn:E; [rewrite Hsep in H1 by exact E; discriminate|].
  unfold plain_rune in H1. destruct (is_quote r); [discriminate|reflexivity]. Qed.

Definition sep_ok (sep : rune -> bool) := forall r, sep r = true -> plain_rune r = false.

Lemma sep_ok_space : sep_ok is_space.
Proof. intros r H. unfold plain_rune. rewrite H. now rewrite orb_true_r. Qed.
Lemma sep_ok_colon : sep_ok is_colon.
Proof. intros r H. unfold plain_rune. rewrite H. now rewrite !orb_true_r. Qed.

Lemma bare_nonempty v : bare v = true -> v <> [] /\ forallb plain_rune v = true.
Proof. destruct v; cbn; [discriminate|]. intros H. split; [discriminate|exact H]. Qed.

Lemma closed_render sep x : sep_ok sep -> wf_val x = true -> closed sep (render_val x).
Proof. intros Hsep. destruct x as [[| |] v]; unfold wf_val, render_val; cbn [fst snd]; intros H.
  - apply bare_nonempty in H as [Hne Hp]. split; [exact Hne|]. apply scan_plain. now apply plain_sep.
  - apply negb_true_iff in H. split; [discriminate|]. now apply scan_wrap.
  - apply negb_true_iff in H. split; [discriminate|]. now apply scan_wrap. Qed.

Lemma remove_quote_wrap Q v : is_quote Q = true -> remove_quote (Q :: v ++ [Q]) = v.
Proof. intros HQ. unfold remove_quote. destruct (v ++ [Q]) as [|a l] eqn:E; [destruct v; discriminate|].
  rewrite <- E. rewrite last_last, N.eqb_refl, HQ. cbn [andb]. apply removelast_last. Qed.

Lemma remove_quote_render x : wf_val x = true -> remove_quote (render_val x) = text x.
Proof. destruct x as [[| |] v]; unfold wf_val, render_val, text; cbn [fst snd]; intros H.
  - apply bare_nonempty in H as [_ Hp]. destruct v as [|r1 [|r2 t]]; try reflexivity.
    unfold remove_quote. cbn in Hp. apply andb_true_iff in Hp as [H1 _]. unfold plain_rune in H1.
    destruct (is_quote r1); [discriminate|]. now rewrite andb_false_r.
  - now apply remove_quote_wrap.
  - now apply remove_quote_wrap. Qed.

Lemma has_suffix_colon_app a b : b <> [] -> has_suffix_colon (a ++ b) = has_suffix_colon b.
Proof. intros Hb. unfold has_suffix_colon. rewrite rev_app_distr. destruct (rev b) eqn:E; [|reflexivity].
  apply (f_equal (@rev _)) in E. rewrite rev_involutive in E. now cbn in E. Qed.

Lemma has_prefix_colon_app a b : a <> [] -> has_prefix_colon (a ++ b) = has_prefix_colon a.
Proof. destruct a; [congruence|reflexivity]. Qed.

Lemma plain_not_colon r : plain_rune r = true -> is_colon r = false.
Proof. unfold plain_rune. destruct (is_colon r); [now rewrite !orb_true_r|reflexivity]. Qed.

Lemma render_prefix x : wf_val x = true -> has_prefix_colon (render_val x) = false.
Proof. destruct x as [[| |] v]; unfold wf_val, render_val; cbn [fst snd]; intros H; try reflexivity.
  apply bare_nonempty in H as [Hne Hp]. destruct v; [congruence|]. cbn in *. apply andb_true_iff in Hp as [H1 _].
  now apply plain_not_colon. Qed.

Lemma render_suffix x : wf_val x = true -> has_suffix_colon (render_val x) = false.
Proof. destruct x as [[| |] v]; unfold wf_val, render_val; cbn [fst snd]; intros H.
  - apply bare_nonempty in H as [Hne Hp]. unfold has_suffix_colon. destruct (rev v) as [|r t] eqn:E; [reflexivity|].
    apply plain_not_colon. rewrite forallb_forall in Hp. apply Hp. apply in_rev. rewrite E. now left.
  - change (dq :: v ++ [dq]) with ((dq :: v) ++ [dq]). now rewrite has_suffix_colon_app by discriminate.
  - change (sq :: v ++ [sq]) with ((sq :: v) ++ [sq]). now rewrite has_suffix_colon_app by discriminate. Qed.

(* ------------------------------------------------------------------ one field = values joined by ':' *)

Lemma join_nonempty s ws : ws <> [] -> Forall (fun w : str => w <> []) ws -> join s ws <> [].
Proof. destruct ws as [|w [|w2 rest]]; [congruence| |]; intros _ F; inversion F; subst; cbn.
  - assumption.
  - destruct w; [congruence|discriminate]. Qed.

Lemma join_cons2 s (w w2 : str) rest : join s (w :: w2 :: rest) = w ++ s :: join s (w2 :: rest).
Proof. reflexivity. Qed.

Lemma closed_join sep s ws : sep s = false -> is_quote s = false -> ws <> [] -> Forall (closed sep) ws -> closed sep (join s ws).
Proof. intros Hs Hq. induction ws as [|w rest IH]; [congruence|]. intros _ F. inversion F as [|? ? [Hne Hsc] F']; subst.
  destruct rest as [|w2 rest']; [cbn; now split|]. rewrite join_cons2. split; [destruct w; [congruence|discriminate]|].
  destruct (IH ltac:(discriminate) F') as [_ Hj]. apply (scan_app sep w _ None None None Hsc). cbn. now rewrite Hq, Hs. Qed.

Lemma join_prefix s (w : str) rest : w <> [] -> has_prefix_colon (join s (w :: rest)) = has_prefix_colon w.
Proof. intros H. destruct rest; [reflexivity|]. rewrite join_cons2. now apply has_prefix_colon_app. Qed.

Lemma join_suffix s ws : Forall (fun w : str => w <> []) ws -> ws <> [] ->
  has_suffix_colon (join s ws) = has_suffix_colon (last ws []).
Proof. induction ws as [|w rest IH]; [congruence|]. intros F _. inversion F; subst.
  destruct rest as [|w2 rest']; [reflexivity|]. rewrite join_cons2.
  change (w ++ s :: join s (w2 :: rest')) with (w ++ [s] ++ join s (w2 :: rest')).
  assert (Hj : join s (w2 :: rest') <> []) by (apply join_nonempty; [discriminate|assumption]).
  rewrite has_suffix_colon_app by (cbn; discriminate). rewrite has_suffix_colon_app by exact Hj.
  rewrite IH by (assumption || discriminate). reflexivity. Qed.

Definition render_field (vs : list val) : str := join colon (map render_val vs).

Lemma last_map {A B} (f : A -> B) l d : l <> [] -> last (map f l) (f d) = f (last l d).
Proof. induction l as [|x t IH]; [congruence|]. intros _. destruct t; [reflexivity|]. cbn [map last] in *. apply IH. discriminate. Qed.

Lemma last_indep {A} (l : list A) d d' : l <> [] -> last l d = last l d'.
Proof. induction l as [|x t IH]; [congruence|]. intros _. destruct t; [reflexivity|]. cbn [last]. apply IH. discriminate. Qed.

Lemma last_In {A} (l : list A) d : l <> [] -> In (last l d) l.
Proof. induction l as [|x t IH]; [congruence|]. intros _. destruct t; [now left|]. right. apply IH. discriminate. Qed.

Lemma forallb_Forall {A} (p : A -> bool) l : forallb p l = true <-> Forall (fun x => p x = true) l.
Proof. rewrite forallb_forall, Forall_forall. reflexivity. Qed.

Lemma field_ok vs : vs <> [] -> forallb wf_val vs = true ->
  closed is_space (render_field vs) /\
  (forall keep, split_func keep is_colon (render_field vs) = Some (map render_val vs)) /\
  has_prefix_colon (render_field vs) = false /\ has_suffix_colon (render_field vs) = false /\
  existsb is_nil (map render_val vs) = false /\
  map remove_quote (map render_val vs) = map text vs.
Proof. intros Hne Hwf. apply forallb_Forall in Hwf. unfold render_field.
  assert (Hm : map render_val vs <> []) by (destruct vs; [congruence|discriminate]).
  assert (Hnn : Forall (fun w : str => w <> []) (map render_val vs)).
  { apply Forall_map. eapply Forall_impl; [|exact Hwf]. intros x Hx. now destruct (closed_render is_space x sep_ok_space Hx). }
  repeat split.
  - now apply join_nonempty.
  - apply closed_join; [reflexivity|reflexivity|exact Hm|]. apply Forall_map. eapply Forall_impl; [|exact Hwf].
    intros x Hx. now apply closed_render; [apply sep_ok_space|].
  - intros keep. apply split_func_join; [reflexivity|reflexivity|exact Hm|]. apply Forall_map. eapply Forall_impl; [|exact Hwf].
    intros x Hx. now apply closed_render; [apply sep_ok_colon|].
  - destruct vs as [|x rest]; [congruence|]. cbn [map]. inversion Hwf; subst. inversion Hnn; subst.
    rewrite join_prefix by assumption. now apply render_prefix.
  - rewrite join_suffix by assumption. destruct vs as [|x rest]; [congruence|].
    rewrite (last_indep _ [] (render_val x)) by exact Hm. rewrite last_map by exact Hne. apply render_suffix.
    rewrite Forall_forall in Hwf. apply Hwf. now apply last_In.
  - clear - Hnn. induction Hnn as [|w l Hw _ IH]; [reflexivity|]. cbn. rewrite IH. now destruct w.
  - rewrite map_map. apply map_ext_in. intros x Hx. apply remove_quote_render. rewrite Forall_forall in Hwf. now apply Hwf. Qed.

(* ------------------------------------------------------------------ items of the documented language *)

Inductive item :=
| ISearch (v : val)                 (* a full-text term *)
| IStatus (kw : bool) (v : val)     (* status:V (kw = true) or its synonym state:V *)
| IAuthor (v : val) | IActor (v : val) | IParticipant (v : val) | ILabel (v : val) | ITitle (v : val)
| IMeta (k v : val)                 (* metadata:K:V *)
| INo (v : val)                     (* no:label *)
| ISort (v : val).                  (* sort:V *)

Definition key (k : str) : val := (Bare, k).

Definition vals_of (it : item) : list val :=
  match it with
  | ISearch v => [v]
  | IStatus kw v => [key (if kw then k_status else k_state); v]
  | IAuthor v => [key k_author; v] | IActor v => [key k_actor; v] | IParticipant v => [key k_participant; v]
  | ILabel v => [key k_label; v] | ITitle v => [key k_title; v]
  | IMeta k v => [key k_metadata; k; v]
  | INo v => [key k_no; v]
  | ISort v => [key k_sort; v]
  end.

Definition token_of (it : item) : token :=
  match it with
  | ISearch v => TSearch (text v)
  | IStatus kw v => TKV (if kw then k_status else k_state) (text v)
  | IAuthor v => TKV k_author (text v) | IActor v => TKV k_actor (text v) | IParticipant v => TKV k_participant (text v)
  | ILabel v => TKV k_label (text v) | ITitle v => TKV k_title (text v)
  | IMeta k v => TKVV k_metadata (text k) (text v)
  | INo v => TKV k_no (text v)
  | ISort v => TKV k_sort (text v)
  end.

Definition render_item (it : item) : str := render_field (vals_of it).
Definition render (its : list item) : str := join space (map render_item its).

(* lexical well-formedness: every value is spelled legally *)
Definition wf_lex_item (it : item) : bool :=
  match it with
  | IMeta k v => wf_val k && wf_val v
  | ISearch v | IStatus _ v | IAuthor v | IActor v | IParticipant v | ILabel v | ITitle v | INo v | ISort v => wf_val v
  end.
Definition wf_lex (its : list item) : bool := forallb wf_lex_item its.

Definition tok_of (cs : list str) : option token :=
  match cs with [a] => Some (TSearch a) | [a; b] => Some (TKV a b) | [a; b; c] => Some (TKVV a b c) | _ => None end.

Lemma tokenize_fields_k_cons strict f rest : tokenize_fields_k strict (f :: rest) =
  match split_func strict is_colon f with
  | None => None
  | Some chunks => if has_prefix_colon f || has_suffix_colon f then None else
                   if existsb is_nil chunks then None else
                   match tok_of (map remove_quote chunks), tokenize_fields_k strict rest with
                   | Some tk, Some tks => Some (tk :: tks) | _, _ => None end
  end.
Proof. reflexivity. Qed.
Lemma tokenize_fields_cons f rest : tokenize_fields (f :: rest) =
  match split_func true is_colon f with
  | None => None
  | Some chunks => if has_prefix_colon f || has_suffix_colon f then None else
                   if existsb is_nil chunks then None else
                   match tok_of (map remove_quote chunks), tokenize_fields rest with
                   | Some tk, Some tks => Some (tk :: tks) | _, _ => None end
  end.
Proof. reflexivity. Qed.

Lemma wf_vals_of it : wf_lex_item it = true -> forallb wf_val (vals_of it) = true /\ vals_of it <> [] /\
  tok_of (map text (vals_of it)) = Some (token_of it).
Proof. destruct it as [v|[|] v|v|v|v|v|v|k v|v|v]; cbn; intros H; rewrite ?H; repeat split; try discriminate.
  apply andb_true_iff in H as [H1 H2]. now rewrite H1, H2. Qed.

Lemma item_field it : wf_lex_item it = true -> closed is_space (render_item it).
Proof. intros H. destruct (wf_vals_of it H) as (Hw & Hne & _). now destruct (field_ok _ Hne Hw). Qed.

Lemma tokenize_fields_k_render strict its : wf_lex its = true -> tokenize_fields_k strict (map render_item its) = Some (map token_of its).
Proof. induction its as [|it rest IH]; [reflexivity|]. cbn [wf_lex forallb map]. intros H. apply andb_true_iff in H as [Hi Hr].
  destruct (wf_vals_of it Hi) as (Hw & Hne & Ht). destruct (field_ok _ Hne Hw) as (_ & Hs & Hp & Hx & Hn & Hq).
  rewrite tokenize_fields_k_cons. unfold render_item at 1 2 3. rewrite Hs, Hp, Hx, Hn, Hq, Ht. cbn [orb].
  now rewrite (IH Hr). Qed.

(* holds for the strict lexer and for the lenient one: a rendered query has no empty chunk *)
Theorem tokenize_k_render strict its : wf_lex its = true -> tokenize_k strict (render its) = Some (map token_of its).
Proof. intros H. unfold tokenize_k, render. destruct its as [|it rest]; [reflexivity|].
  rewrite split_func_join; [now apply tokenize_fields_k_render|reflexivity|reflexivity|discriminate|].
  apply Forall_map. apply forallb_Forall in H. eapply Forall_impl; [|exact H]. intros x Hx. now apply item_field. Qed.

Theorem tokenize_render its : wf_lex its = true -> tokenize (render its) = Some (map token_of its).
Proof. exact (tokenize_k_render true its). Qed.

(* ------------------------------------------------------------------ what a list of items denotes *)

Definition upd_search q x := {| q_search := q_search q ++ [x]; q_status := q_status q; q_author := q_author q; q_meta := q_meta q; q_actor := q_actor q; q_participant := q_participant q; q_label := q_label q; q_title := q_title q; q_nolabel := q_nolabel q; q_orderby := q_orderby q; q_dir := q_dir q; q_sorted := q_sorted q |}.
Definition upd_status q x := {| q_search := q_search q; q_status := q_status q ++ [x]; q_author := q_author q; q_meta := q_meta q; q_actor := q_actor q; q_participant := q_participant q; q_label := q_label q; q_title := q_title q; q_nolabel := q_nolabel q; q_orderby := q_orderby q; q_dir := q_dir q; q_sorted := q_sorted q |}.
Definition upd_author q x := {| q_search := q_search q; q_status := q_status q; q_author := q_author q ++ [x]; q_meta := q_meta q; q_actor := q_actor q; q_participant := q_participant q; q_label := q_label q; q_title := q_title q; q_nolabel := q_nolabel q; q_orderby := q_orderby q; q_dir := q_dir q; q_sorted := q_sorted q |}.
Definition upd_meta q x := {| q_search := q_search q; q_status := q_status q; q_author := q_author q; q_meta := q_meta q ++ [x]; q_actor := q_actor q; q_participant := q_participant q; q_label := q_label q; q_title := q_title q; q_nolabel := q_nolabel q; q_orderby := q_orderby q; q_dir := q_dir q; q_sorted := q_sorted q |}.
Definition upd_actor q x := {| q_search := q_search q; q_status := q_status q; q_author := q_author q; q_meta := q_meta q; q_actor := q_actor q ++ [x]; q_participant := q_participant q; q_label := q_label q; q_title := q_title q; q_nolabel := q_nolabel q; q_orderby := q_orderby q; q_dir := q_dir q; q_sorted := q_sorted q |}.
Definition upd_participant q x := {| q_search := q_search q; q_status := q_status q; q_author := q_author q; q_meta := q_meta q; q_actor := q_actor q; q_participant := q_participant q ++ [x]; q_label := q_label q; q_title := q_title q; q_nolabel := q_nolabel q; q_orderby := q_orderby q; q_dir := q_dir q; q_sorted := q_sorted q |}.
Definition upd_label q x := {| q_search := q_search q; q_status := q_status q; q_author := q_author q; q_meta := q_meta q; q_actor := q_actor q; q_participant := q_participant q; q_label := q_label q ++ [x]; q_title := q_title q; q_nolabel := q_nolabel q; q_orderby := q_orderby q; q_dir := q_dir q; q_sorted := q_sorted q |}.
Definition upd_title q x := {| q_search := q_search q; q_status := q_status q; q_author := q_author q; q_meta := q_meta q; q_actor := q_actor q; q_participant := q_participant q; q_label := q_label q; q_title := q_title q ++ [x]; q_nolabel := q_nolabel q; q_orderby := q_orderby q; q_dir := q_dir q; q_sorted := q_sorted q |}.
Definition upd_nolabel q := {| q_search := q_search q; q_status := q_status q; q_author := q_author q; q_meta := q_meta q; q_actor := q_actor q; q_participant := q_participant q; q_label := q_label q; q_title := q_title q; q_nolabel := true; q_orderby := q_orderby q; q_dir := q_dir q; q_sorted := q_sorted q |}.
Definition upd_sort q (od : N * N) := {| q_search := q_search q; q_status := q_status q; q_author := q_author q; q_meta := q_meta q; q_actor := q_actor q; q_participant := q_participant q; q_label := q_label q; q_title := q_title q; q_nolabel := q_nolabel q; q_orderby := fst od; q_dir := snd od; q_sorted := true |}.

Definition apply_item (q : query) (it : item) : query :=
  match it with
  | ISearch v => upd_search q (text v)
  | IStatus _ v => match status_of (text v) with Some s => upd_status q s | None => q end
  | IAuthor v => upd_author q (text v)
  | IActor v => upd_actor q (text v)
  | IParticipant v => upd_participant q (text v)
  | ILabel v => upd_label q (text v)
  | ITitle v => upd_title q (text v)
  | IMeta k v => upd_meta q (text k, text v)
  | INo _ => upd_nolabel q
  | ISort v => match sorting (text v) with Some od => upd_sort q od | None => q end
  end.

(* default: creation, descending (query.NewQuery / Parse) *)
Definition denote (its : list item) : query := fold_left apply_item its q0.

(* semantic well-formedness: the closed vocabularies, and at most one sort *)
Definition wf_sem_item (it : item) : bool :=
  match it with
  | IStatus _ v => match status_of (text v) with Some _ => true | None => false end
  | INo v => str_eqb (text v) k_label
  | ISort v => match sorting (text v) with Some _ => true | None => false end
  | _ => true
  end.
Definition is_sort (it : item) : bool := match it with ISort _ => true | _ => false end.
Definition count_sort (its : list item) : nat := length (filter is_sort its).
Definition wf_items (its : list item) : bool :=
  wf_lex its && forallb wf_sem_item its && Nat.leb (count_sort its) 1.

Lemma step_item q it : wf_sem_item it = true -> (is_sort it = true -> q_sorted q = false) ->
  step q (token_of it) = Some (apply_item q it).
Proof. destruct it as [v|[|] v|v|v|v|v|v|k v|v|v]; cbn [wf_sem_item is_sort token_of apply_item]; intros H Hs; try reflexivity.
  - unfold step. cbn. destruct (status_of (text v)); [reflexivity|discriminate].
  - unfold step. cbn. destruct (status_of (text v)); [reflexivity|discriminate].
  - unfold step. cbn. now rewrite H.
  - unfold step. cbn. rewrite (Hs eq_refl). destruct (sorting (text v)) as [[ob d]|]; [reflexivity|discriminate]. Qed.

Lemma sorted_apply q it : wf_sem_item it = true -> q_sorted (apply_item q it) = q_sorted q || is_sort it.
Proof. destruct it as [v|kw v|v|v|v|v|v|k v|v|v]; cbn; intros H; rewrite ?orb_false_r; try reflexivity.
  - now destruct (status_of (text v)).
  - destruct (sorting (text v)); [now rewrite orb_true_r|discriminate]. Qed.

Lemma steps_items its : forall q, forallb wf_sem_item its = true ->
  (count_sort its + (if q_sorted q then 1 else 0) <= 1)%nat ->
  steps q (map token_of its) = Some (fold_left apply_item its q).
Proof. induction its as [|it rest IH]; intros q Hw Hc; [reflexivity|]. cbn [forallb] in Hw. apply andb_true_iff in Hw as [Hi Hr].
  cbn [map steps fold_left]. rewrite step_item; [|exact Hi|].
  - apply IH; [exact Hr|]. rewrite sorted_apply by exact Hi. unfold count_sort in *. cbn [filter] in Hc.
    destruct (is_sort it), (q_sorted q); cbn in *; lia.
  - intros Hs. unfold count_sort in Hc. cbn [filter] in Hc. rewrite Hs in Hc. destruct (q_sorted q); [cbn in Hc; lia|reflexivity]. Qed.

Theorem parse_render its : wf_items its = true -> parse (render its) = Some (denote its).
Proof. unfold wf_items. intros H. apply andb_true_iff in H as [H Hc]. apply andb_true_iff in H as [Hl Hs].
  unfold parse, parse_k. fold tokenize. rewrite tokenize_render by exact Hl. apply steps_items; [exact Hs|]. apply Nat.leb_le in Hc. cbn. lia. Qed.

(* ---- the denotation, field by field ---- *)

Definition sel {A} (f : item -> list A) (its : list item) : list A := flat_map f its.

Definition searches_of := sel (fun it => match it with ISearch v => [text v] | _ => [] end).
Definition statuses_of := sel (fun it => match it with IStatus _ v => match status_of (text v) with Some s => [s] | None => [] end | _ => [] end).
Definition authors_of := sel (fun it => match it with IAuthor v => [text v] | _ => [] end).
Definition actors_of := sel (fun it => match it with IActor v => [text v] | _ => [] end).
Definition participants_of := sel (fun it => match it with IParticipant v => [text v] | _ => [] end).
Definition labels_of := sel (fun it => match it with ILabel v => [text v] | _ => [] end).
Definition titles_of := sel (fun it => match it with ITitle v => [text v] | _ => [] end).
Definition metas_of := sel (fun it => match it with IMeta k v => [(text k, text v)] | _ => [] end).
Definition sorts_of := sel (fun it => match it with ISort v => match sorting (text v) with Some od => [od] | None => [] end | _ => [] end).
Definition has_no (its : list item) : bool := existsb (fun it => match it with INo _ => true | _ => false end) its.

Definition sorted_of (its : list item) : bool :=
  existsb (fun it => match it with ISort v => match sorting (text v) with Some _ => true | None => false end | _ => false end) its.

Lemma fold_proj its : forall q,
  let r := fold_left apply_item its q in
  q_search r = q_search q ++ searches_of its /\ q_status r = q_status q ++ statuses_of its /\
  q_author r = q_author q ++ authors_of its /\ q_actor r = q_actor q ++ actors_of its /\
  q_participant r = q_participant q ++ participants_of its /\ q_label r = q_label q ++ labels_of its /\
  q_title r = q_title q ++ titles_of its /\ q_meta r = q_meta q ++ metas_of its /\
  q_nolabel r = q_nolabel q || has_no its /\
  (q_orderby r, q_dir r) = last (sorts_of its) (q_orderby q, q_dir q) /\
  q_sorted r = q_sorted q || sorted_of its.
Proof. induction its as [|it rest IH]; intros q; cbn zeta.
  - cbn. rewrite !app_nil_r, !orb_false_r. repeat split; reflexivity.
  - cbn [fold_left]. specialize (IH (apply_item q it)). cbn zeta in IH.
    destruct IH as (H1 & H2 & H3 & H4 & H5 & H6 & H7 & H8 & H9 & H10 & H11).
    rewrite H1, H2, H3, H4, H5, H6, H7, H8, H9, H10, H11.
    unfold searches_of, statuses_of, authors_of, actors_of, participants_of, labels_of, titles_of, metas_of, sorts_of, has_no, sorted_of, sel.
    cbn [flat_map existsb].
    destruct it as [v|kw v|v|v|v|v|v|k v|v|v]; cbn [apply_item];
      try (destruct (status_of (text v)) eqn:?); try (destruct (sorting (text v)) as [[ob d]|] eqn:?);
      cbn; rewrite <- ?app_assoc; cbn; rewrite ?orb_true_r; repeat split; try reflexivity.
    all: try (match goal with |- context [last ?l _] => generalize l end; intros l; destruct l; [reflexivity|apply last_indep; discriminate]).
Qed.

Theorem denote_spec its :
  let r := denote its in
  q_search r = searches_of its /\ q_status r = statuses_of its /\ q_author r = authors_of its /\
  q_actor r = actors_of its /\ q_participant r = participants_of its /\ q_label r = labels_of its /\
  q_title r = titles_of its /\ q_meta r = metas_of its /\ q_nolabel r = has_no its /\
  (q_orderby r, q_dir r) = last (sorts_of its) (2, 2) /\ q_sorted r = sorted_of its.
Proof. exact (fold_proj its q0). Qed.

(* ------------------------------------------------------------------ from a query record to text and back *)

Definition spelling (ob d : N) : str :=
  match ob, d with
  | 1, 1 => v_id_asc | 1, _ => v_id_desc
  | 2, 1 => v_creation_asc | 2, _ => v_creation_desc
  | 3, 1 => v_edit_asc | _, _ => v_edit_desc
  end.
Definition status_word (s : N) : str := if N.eqb s 1 then s_open else s_closed.
Definition valid_sort (ob d : N) : bool := (N.eqb ob 1 || N.eqb ob 2 || N.eqb ob 3) && (N.eqb d 1 || N.eqb d 2).
Definition valid_status (s : N) : bool := N.eqb s 1 || N.eqb s 2.

Definition items_of (q : query) : list item :=
  map (fun v => ISearch (auto_val v)) (q_search q) ++
  map (fun s => IStatus true (key (status_word s))) (q_status q) ++
  map (fun v => IAuthor (auto_val v)) (q_author q) ++
  map (fun p => IMeta (auto_val (fst p)) (auto_val (snd p))) (q_meta q) ++
  map (fun v => IActor (auto_val v)) (q_actor q) ++
  map (fun v => IParticipant (auto_val v)) (q_participant q) ++
  map (fun v => ILabel (auto_val v)) (q_label q) ++
  map (fun v => ITitle (auto_val v)) (q_title q) ++
  (if q_nolabel q then [INo (key k_label)] else []) ++
  (if q_sorted q then [ISort (key (spelling (q_orderby q) (q_dir q)))] else []).

Definition render_query (q : query) : str := render (items_of q).

Definition wf_query (q : query) : bool :=
  forallb wf_value (q_search q) && forallb valid_status (q_status q) && forallb wf_value (q_author q) &&
  forallb (fun p => wf_value (fst p) && wf_value (snd p)) (q_meta q) && forallb wf_value (q_actor q) &&
  forallb wf_value (q_participant q) && forallb wf_value (q_label q) && forallb wf_value (q_title q) &&
  valid_sort (q_orderby q) (q_dir q) &&
  (q_sorted q || (N.eqb (q_orderby q) 2 && N.eqb (q_dir q) 2)).

Lemma steps_app a : forall q b, steps q (a ++ b) = match steps q a with Some q' => steps q' b | None => None end.
Proof. induction a as [|t a IH]; intros q b; [reflexivity|]. cbn. destruct (step q t); [apply IH|reflexivity]. Qed.

Lemma fold_app_items a b q : fold_left apply_item (a ++ b) q = fold_left apply_item b (fold_left apply_item a q).
Proof. apply fold_left_app. Qed.

Lemma fold_map_upd {A} (f : A -> item) (u : query -> A -> query) l :
  (forall q x, apply_item q (f x) = u q x) -> forall q, fold_left apply_item (map f l) q = fold_left u l q.
Proof. intros H. induction l as [|x t IH]; intros q; [reflexivity|]. cbn. rewrite H. apply IH. Qed.

Lemma wf_lex_app a b : wf_lex (a ++ b) = wf_lex a && wf_lex b.
Proof. apply forallb_app. Qed.

Lemma forallb_map {A B} (p : B -> bool) (f : A -> B) l : forallb p (map f l) = forallb (fun x => p (f x)) l.
Proof. induction l; cbn; [reflexivity|]. now rewrite IHl. Qed.

Lemma forallb_impl {A} (p p' : A -> bool) l : (forall x, p x = true -> p' x = true) -> forallb p l = true -> forallb p' l = true.
Proof. intros H. rewrite !forallb_forall. auto. Qed.

Lemma filter_map_none {A} (f : A -> item) l : (forall x, is_sort (f x) = false) -> filter is_sort (map f l) = [].
Proof. intros H. induction l; cbn; [reflexivity|]. now rewrite H. Qed.

Lemma wf_key k : bare k = true -> wf_val (key k) = true.
Proof. intros H. exact H. Qed.

Lemma status_word_ok s : valid_status s = true -> status_of (status_word s) = Some s.
Proof. unfold valid_status, status_word. destruct (N.eqb_spec s 1) as [->|]; [reflexivity|].
  destruct (N.eqb_spec s 2) as [->|]; [reflexivity|discriminate]. Qed.

Lemma spelling_ok ob d : valid_sort ob d = true -> sorting (spelling ob d) = Some (ob, d) /\ bare (spelling ob d) = true.
Proof. unfold valid_sort. intros H. apply andb_true_iff in H as [H1 H2].
  apply orb_true_iff in H1 as [H1|H1]; [apply orb_true_iff in H1 as [H1|H1]|]; apply N.eqb_eq in H1; subst;
  (apply orb_true_iff in H2 as [H2|H2]; apply N.eqb_eq in H2; subst; split; reflexivity). Qed.

Lemma fold_upd_list (u : query -> str -> query) (get : query -> list str) :
  forall l q, (forall q x, get (u q x) = get q ++ [x]) -> get (fold_left u l q) = get q ++ l.
Proof. induction l as [|x t IH]; intros q H; cbn; [now rewrite app_nil_r|]. rewrite IH by exact H. rewrite H. now rewrite <- app_assoc. Qed.

(* the items of a well-formed query are well-formed *)
Lemma wf_items_of q : wf_query q = true -> wf_items (items_of q) = true.
Proof. unfold wf_query. intros H. repeat (apply andb_true_iff in H as [H ?]).
  unfold wf_items, items_of. apply andb_true_iff; split; [apply andb_true_iff; split|].
  - unfold wf_lex. rewrite !forallb_app, !forallb_map. cbn [wf_lex_item].
    repeat (apply andb_true_iff; split).
    + eapply forallb_impl; [|exact H]. intros; now apply wf_auto_val.
    + eapply forallb_impl; [|eassumption]. intros s Hs. apply wf_key. unfold valid_status, status_word in *.
      destruct (N.eqb s 1); reflexivity.
    + eapply forallb_impl; [|eassumption]. intros; now apply wf_auto_val.
    + eapply forallb_impl; [|eassumption]. intros p Hp. apply andb_true_iff in Hp as [Ha Hb]. now rewrite !wf_auto_val.
    + eapply forallb_impl; [|eassumption]. intros; now apply wf_auto_val.
    + eapply forallb_impl; [|eassumption]. intros; now apply wf_auto_val.
    + eapply forallb_impl; [|eassumption]. intros; now apply wf_auto_val.
    + eapply forallb_impl; [|eassumption]. intros; now apply wf_auto_val.
    + destruct (q_nolabel q); reflexivity.
    + destruct (q_sorted q); [|reflexivity]. cbn. rewrite andb_true_r. apply wf_key. now apply spelling_ok.
  - rewrite !forallb_app, !forallb_map. cbn [wf_sem_item].
    repeat (apply andb_true_iff; split); try (apply forallb_forall; reflexivity).
    + eapply forallb_impl; [|eassumption]. intros s Hs. cbn [text key snd]. now rewrite status_word_ok.
    + destruct (q_nolabel q); reflexivity.
    + destruct (q_sorted q); [|reflexivity]. cbn [forallb wf_sem_item text key snd]. rewrite andb_true_r.
      match goal with Hv : valid_sort _ _ = true |- _ => destruct (spelling_ok _ _ Hv) as [-> _] end. reflexivity.
  - unfold count_sort. rewrite !filter_app, !app_length, !filter_map_none by reflexivity. cbn.
    destruct (q_nolabel q), (q_sorted q); reflexivity. Qed.


Lemma query_ext (a b : query) :
  q_search a = q_search b -> q_status a = q_status b -> q_author a = q_author b -> q_meta a = q_meta b ->
  q_actor a = q_actor b -> q_participant a = q_participant b -> q_label a = q_label b -> q_title a = q_title b ->
  q_nolabel a = q_nolabel b -> (q_orderby a, q_dir a) = (q_orderby b, q_dir b) -> q_sorted a = q_sorted b -> a = b.
Proof. destruct a, b; cbn; intros; subst. congruence. Qed.

Lemma flat_map_map {A B C} (f : B -> list C) (g : A -> B) l : flat_map f (map g l) = flat_map (fun x => f (g x)) l.
Proof. induction l; cbn; [reflexivity|]. now rewrite IHl. Qed.
Lemma flat_map_nil_fun {A B} (l : list A) : flat_map (fun _ : A => @nil B) l = [].
Proof. induction l; cbn; auto. Qed.
Lemma flat_map_single {A} (l : list A) : flat_map (fun x : A => [x]) l = l.
Proof. induction l; cbn; [reflexivity|]. now rewrite IHl. Qed.
Lemma flat_map_pair {A B} (l : list (A * B)) : flat_map (fun p : A * B => [(fst p, snd p)]) l = l.
Proof. induction l as [|[a b] t IH]; cbn; [reflexivity|]. now rewrite IH. Qed.
Lemma flat_map_ext_in {A B} (f g : A -> list B) l : (forall x, In x l -> f x = g x) -> flat_map f l = flat_map g l.
Proof. induction l; cbn; intros H; [reflexivity|]. rewrite H by now left. rewrite IHl; [reflexivity|]. intros; apply H; now right. Qed.
Lemma existsb_map {A B} (p : B -> bool) (g : A -> B) l : existsb p (map g l) = existsb (fun x => p (g x)) l.
Proof. induction l; cbn; [reflexivity|]. now rewrite IHl. Qed.
Lemma existsb_false_fun {A} (l : list A) : existsb (fun _ : A => false) l = false.
Proof. induction l; cbn; auto. Qed.

Ltac items_simpl :=
  unfold items_of, searches_of, statuses_of, authors_of, actors_of, participants_of, labels_of, titles_of, metas_of, sorts_of, has_no, sorted_of, sel;
  rewrite ?flat_map_app, ?existsb_app, ?flat_map_map, ?existsb_map; cbn [text auto_val key snd fst];
  rewrite ?flat_map_nil_fun, ?existsb_false_fun, ?flat_map_single, ?flat_map_pair; cbn [app orb].

Lemma denote_items_of q : wf_query q = true -> denote (items_of q) = q.
Proof. intros Hwf. pose proof Hwf as H. unfold wf_query in H. repeat (apply andb_true_iff in H as [H ?]).
  destruct (denote_spec (items_of q)) as (D1 & D2 & D3 & D4 & D5 & D6 & D7 & D8 & D9 & D10 & D11).
  apply query_ext.
  - rewrite D1. items_simpl. destruct (q_nolabel q), (q_sorted q); cbn; now rewrite ?app_nil_r.
  - rewrite D2. unfold statuses_of, items_of, sel. rewrite !flat_map_app, !flat_map_map. cbn [text key snd].
    rewrite (flat_map_ext_in _ (fun s => [s]) (q_status q)).
    2:{ intros s Hs. rewrite forallb_forall in H8. now rewrite status_word_ok by auto. }
    rewrite ?flat_map_nil_fun, ?flat_map_single. destruct (q_nolabel q), (q_sorted q); cbn; now rewrite ?app_nil_r.
  - rewrite D3. items_simpl. destruct (q_nolabel q), (q_sorted q); cbn; now rewrite ?app_nil_r.
  - rewrite D8. items_simpl. destruct (q_nolabel q), (q_sorted q); cbn; now rewrite ?app_nil_r.
  - rewrite D4. items_simpl. destruct (q_nolabel q), (q_sorted q); cbn; now rewrite ?app_nil_r.
  - rewrite D5. items_simpl. destruct (q_nolabel q), (q_sorted q); cbn; now rewrite ?app_nil_r.
  - rewrite D6. items_simpl. destruct (q_nolabel q), (q_sorted q); cbn; now rewrite ?app_nil_r.
  - rewrite D7. items_simpl. destruct (q_nolabel q), (q_sorted q); cbn; now rewrite ?app_nil_r.
  - rewrite D9. items_simpl. destruct (q_nolabel q), (q_sorted q); reflexivity.
  - rewrite D10. items_simpl. destruct (spelling_ok _ _ H1) as [Hsp _].
    destruct (q_nolabel q), (q_sorted q); cbn [flat_map app text key snd]; rewrite ?Hsp; try reflexivity;
    cbn in H0; apply andb_true_iff in H0 as [Ha Hb]; apply N.eqb_eq in Ha, Hb; now rewrite Ha, Hb.
  - rewrite D11. items_simpl. destruct (spelling_ok _ _ H1) as [Hsp _].
    destruct (q_nolabel q), (q_sorted q); cbn [existsb orb text key snd]; rewrite ?Hsp; reflexivity. Qed.

Theorem roundtrip_query q : wf_query q = true -> parse (render_query q) = Some q.
Proof. intros H. unfold render_query. rewrite parse_render by now apply wf_items_of. now rewrite denote_items_of. Qed.

(* ------------------------------------------------------------------ rejections *)

(* quote state after reading s: Some Q = inside a quotation opened by Q and not closed yet *)
Fixpoint qstate (s : str) (q : option rune) : option rune :=
  match s with
  | [] => q
  | r :: t => match q with
              | None => if is_quote r then qstate t (Some r) else qstate t None
              | Some lq => if N.eqb r lq then qstate t None else qstate t q
              end
  end.
Definition unmatched_quote (s : str) : bool := match qstate s None with Some _ => true | None => false end.

Lemma split_go_qstate keep sep s : forall q chunk acc, split_go keep sep s q chunk acc = None <-> qstate s q <> None.
Proof. induction s as [|r t IH]; intros q chunk acc; cbn.
  - destruct q; split; intros H; congruence.
  - destruct q as [lq|]; [destruct (N.eqb r lq); apply IH|]. destruct (is_quote r); [apply IH|]. destruct (sep r); apply IH. Qed.

Lemma split_func_none keep sep s : split_func keep sep s = None <-> unmatched_quote s = true.
Proof. unfold split_func, unmatched_quote. rewrite split_go_qstate. destruct (qstate s None); split; intros H; congruence. Qed.

Theorem reject_unmatched_quote s : unmatched_quote s = true -> parse s = None.
Proof. intros H. unfold parse, parse_k, tokenize_k. apply (split_func_none false is_space) in H. now rewrite H. Qed.

Definition field_tok (f : str) : option token :=
  match split_func true is_colon f with
  | None => None
  | Some chunks => if has_prefix_colon f || has_suffix_colon f then None else
                   if existsb is_nil chunks then None else tok_of (map remove_quote chunks)
  end.

Lemma tokenize_fields_cons' f rest : tokenize_fields (f :: rest) =
  match field_tok f, tokenize_fields rest with Some tk, Some tks => Some (tk :: tks) | _, _ => None end.
Proof. rewrite tokenize_fields_cons. unfold field_tok. destruct (split_func true is_colon f) as [chunks|]; [|reflexivity].
  destruct (has_prefix_colon f || has_suffix_colon f); [reflexivity|]. destruct (existsb is_nil chunks); reflexivity. Qed.

Lemma tokenize_fields_bad fs f : In f fs -> field_tok f = None -> tokenize_fields fs = None.
Proof. induction fs as [|g rest IH]; intros Hin Hb; [destruct Hin|]. rewrite tokenize_fields_cons'.
  destruct Hin as [->|Hin]; [now rewrite Hb|]. rewrite (IH Hin Hb). now destruct (field_tok g). Qed.

Lemma parse_bad_field s fields f : split_func false is_space s = Some fields -> In f fields -> field_tok f = None -> parse s = None.
Proof. intros Hs Hin Hb. unfold parse, parse_k, tokenize_k. rewrite Hs. fold tokenize_fields. now rewrite (tokenize_fields_bad fields f Hin Hb). Qed.

Theorem reject_colon_edge s fields f : split_func false is_space s = Some fields -> In f fields ->
  has_prefix_colon f || has_suffix_colon f = true -> parse s = None.
Proof. intros Hs Hin Hc. apply (parse_bad_field s fields f Hs Hin). unfold field_tok. rewrite Hc. now destruct (split_func true is_colon f). Qed.

Theorem reject_too_many_separators s fields f chunks : split_func false is_space s = Some fields -> In f fields ->
  split_func true is_colon f = Some chunks -> (3 < length chunks)%nat -> parse s = None.
Proof. intros Hs Hin Hc Hl. apply (parse_bad_field s fields f Hs Hin). unfold field_tok. rewrite Hc.
  destruct (has_prefix_colon f || has_suffix_colon f); [reflexivity|]. destruct (existsb is_nil chunks); [reflexivity|].
  destruct chunks as [|a [|b [|c [|d rest]]]]; cbn in Hl; try lia. reflexivity. Qed.

(* an empty chunk: nothing between two colons (at the edges it is the case above) *)
Theorem reject_empty_chunk s fields f chunks : split_func false is_space s = Some fields -> In f fields ->
  split_func true is_colon f = Some chunks -> In [] chunks -> parse s = None.
Proof. intros Hs Hin Hc He. apply (parse_bad_field s fields f Hs Hin). unfold field_tok. rewrite Hc.
  destruct (has_prefix_colon f || has_suffix_colon f); [reflexivity|].
  assert (E : existsb is_nil chunks = true) by (apply existsb_exists; now exists []). now rewrite E. Qed.

(* the fields of a string are what white space outside quotations separates; a quoted colon does not count *)

Lemma steps_bad ts t : In t ts -> (forall q, step q t = None) -> forall q, steps q ts = None.
Proof. induction ts as [|u rest IH]; intros Hin Hb q; [destruct Hin|]. cbn. destruct Hin as [->|Hin]; [now rewrite Hb|].
  destruct (step q u); [now apply IH|reflexivity]. Qed.

Definition known_key (k : str) : bool :=
  str_eqb k k_status || str_eqb k k_state || str_eqb k k_author || str_eqb k k_actor || str_eqb k k_participant ||
  str_eqb k k_label || str_eqb k k_title || str_eqb k k_no || str_eqb k k_sort.

Lemma step_unknown_kv k v q : known_key k = false -> step q (TKV k v) = None.
Proof. unfold known_key. intros H. repeat (apply orb_false_iff in H as [H ?]). unfold step.
  repeat match goal with E : str_eqb k _ = false |- _ => rewrite E; clear E end. reflexivity. Qed.

Lemma step_unknown_kvv k sk v q : str_eqb k k_metadata = false -> step q (TKVV k sk v) = None.
Proof. intros H. unfold step. now rewrite H. Qed.

Lemma step_bad_status k v q : str_eqb k k_status || str_eqb k k_state = true -> status_of v = None -> step q (TKV k v) = None.
Proof. intros Hk Hv. unfold step. now rewrite Hk, Hv. Qed.

Lemma step_bad_no v q : str_eqb v k_label = false -> step q (TKV k_no v) = None.
Proof. intros Hv. unfold step. cbn. now rewrite Hv. Qed.

Lemma step_bad_sort v q : sorting v = None -> step q (TKV k_sort v) = None.
Proof. intros Hv. unfold step. cbn. rewrite Hv. now destruct (q_sorted q). Qed.

Lemma step_second_sort v q : q_sorted q = true -> step q (TKV k_sort v) = None.
Proof. intros Hs. unfold step. cbn. now rewrite Hs. Qed.

Lemma parse_bad_token s ts t : tokenize s = Some ts -> In t ts -> (forall q, step q t = None) -> parse s = None.
Proof. intros Ht Hin Hb. unfold parse, parse_k. fold tokenize. rewrite Ht. now apply (steps_bad ts t). Qed.

Theorem reject_unknown_qualifier s ts k v : tokenize s = Some ts -> In (TKV k v) ts -> known_key k = false -> parse s = None.
Proof. intros Ht Hin Hk. apply (parse_bad_token s ts _ Ht Hin). intros q. now apply step_unknown_kv. Qed.

Theorem reject_unknown_subqualifier s ts k sk v : tokenize s = Some ts -> In (TKVV k sk v) ts -> str_eqb k k_metadata = false -> parse s = None.
Proof. intros Ht Hin Hk. apply (parse_bad_token s ts _ Ht Hin). intros q. now apply step_unknown_kvv. Qed.

Theorem reject_unknown_status s ts k v : tokenize s = Some ts -> In (TKV k v) ts ->
  str_eqb k k_status || str_eqb k k_state = true -> status_of v = None -> parse s = None.
Proof. intros Ht Hin Hk Hv. apply (parse_bad_token s ts _ Ht Hin). intros q. now apply step_bad_status. Qed.

Theorem reject_unknown_no s ts v : tokenize s = Some ts -> In (TKV k_no v) ts -> str_eqb v k_label = false -> parse s = None.
Proof. intros Ht Hin Hv. apply (parse_bad_token s ts _ Ht Hin). intros q. now apply step_bad_no. Qed.

Theorem reject_unknown_sort s ts v : tokenize s = Some ts -> In (TKV k_sort v) ts -> sorting v = None -> parse s = None.
Proof. intros Ht Hin Hv. apply (parse_bad_token s ts _ Ht Hin). intros q. now apply step_bad_sort. Qed.

(* once a sort has been seen the flag stays *)
Lemma step_sorted_mono q t q' : step q t = Some q' -> q_sorted q = true -> q_sorted q' = true.
Proof. intros H Hs. destruct t; cbn in H;
  repeat match type of H with
         | context [if ?c then _ else _] => destruct c
         | context [match ?c with _ => _ end] => destruct c
         end; try discriminate; inversion H; subst; cbn; auto. Qed.

Lemma steps_sorted_mono ts : forall q q', steps q ts = Some q' -> q_sorted q = true -> q_sorted q' = true.
Proof. induction ts as [|t rest IH]; intros q q' H Hs; cbn in H; [inversion H; now subst|].
  destruct (step q t) eqn:E; [|discriminate]. eapply IH; [exact H|]. eapply step_sorted_mono; eauto. Qed.

Lemma step_sort_sets q v q' : step q (TKV k_sort v) = Some q' -> q_sorted q' = true.
Proof. unfold step. cbn. destruct (q_sorted q); [discriminate|]. destruct (sorting v) as [[ob d]|]; [|discriminate].
  intros H. inversion H. reflexivity. Qed.

Theorem reject_second_sort s a v1 b v2 c : tokenize s = Some (a ++ TKV k_sort v1 :: b ++ TKV k_sort v2 :: c) -> parse s = None.
Proof. intros Ht. unfold parse, parse_k. fold tokenize. rewrite Ht. rewrite steps_app. destruct (steps q0 a) as [qa|]; [|reflexivity].
  cbn [steps]. destruct (step qa (TKV k_sort v1)) as [q1|] eqn:E1; [|reflexivity]. apply step_sort_sets in E1.
  rewrite steps_app. destruct (steps q1 b) as [qb|] eqn:Eb; [|reflexivity].
  cbn [steps]. now rewrite step_second_sort by (eapply steps_sorted_mono; eauto). Qed.

(* the same at the level of rendered structured queries *)
Lemma step_item_bad it q : wf_sem_item it = false -> step q (token_of it) = None.
Proof. destruct it as [v|[|] v|v|v|v|v|v|k v|v|v]; cbn [wf_sem_item token_of]; intros H; try discriminate.
  - apply step_bad_status; [reflexivity|]. now destruct (status_of (text v)).
  - apply step_bad_status; [reflexivity|]. now destruct (status_of (text v)).
  - now apply step_bad_no.
  - apply step_bad_sort. now destruct (sorting (text v)). Qed.

Lemma steps_two_sorts its : forall q, (2 <= count_sort its + (if q_sorted q then 1 else 0))%nat -> steps q (map token_of its) = None.
Proof. induction its as [|it rest IH]; intros q Hc; [cbn in Hc; destruct (q_sorted q); lia|].
  cbn [map steps]. destruct (wf_sem_item it) eqn:Ew; [|now rewrite step_item_bad].
  destruct (is_sort it) eqn:Es.
  - destruct (q_sorted q) eqn:Eq.
    + destruct it; try discriminate. cbn [token_of]. now rewrite step_second_sort.
    + rewrite step_item by (auto). apply IH. rewrite sorted_apply by exact Ew. rewrite Eq, Es. cbn [orb].
      unfold count_sort in *. cbn [filter] in Hc. rewrite Es in Hc. cbn in *. lia.
  - rewrite step_item by (auto || congruence). apply IH. rewrite sorted_apply by exact Ew. rewrite Es, orb_false_r.
    unfold count_sort in *. cbn [filter] in Hc. now rewrite Es in Hc. Qed.

Theorem reject_render its : wf_lex its = true ->
  (existsb (fun it => negb (wf_sem_item it)) its = true \/ (2 <= count_sort its)%nat) -> parse (render its) = None.
Proof. intros Hl H. unfold parse, parse_k. fold tokenize. rewrite tokenize_render by exact Hl. destruct H as [H|H].
  - apply existsb_exists in H as (it & Hin & Hb). apply negb_true_iff in Hb.
    apply (steps_bad _ (token_of it)); [now apply in_map|]. intros q. now apply step_item_bad.
  - apply steps_two_sorts. cbn. lia. Qed.

(* every accepted query carries a valid sort key and direction, and only valid statuses *)
Lemma step_valid q t q' : step q t = Some q' -> valid_sort (q_orderby q) (q_dir q) = true -> forallb valid_status (q_status q) = true ->
  valid_sort (q_orderby q') (q_dir q') = true /\ forallb valid_status (q_status q') = true.
Proof. intros H Hv Hs. destruct t as [k v|k sk v|x]; cbn in H.
  - destruct (str_eqb k k_status || str_eqb k k_state).
    { unfold status_of in H. destruct (str_eqb _ s_open); [inversion H; subst; cbn; rewrite forallb_app, Hs; auto|].
      destruct (str_eqb _ s_closed); [inversion H; subst; cbn; rewrite forallb_app, Hs; auto|discriminate]. }
    repeat match type of H with context [if ?c then _ else _] => destruct c end; try discriminate;
      try (inversion H; subst; cbn; auto; fail).
    unfold sorting in H.
    repeat match type of H with context [if ?c then _ else _] => destruct c end; try discriminate; inversion H; subst; cbn; auto.
  - destruct (str_eqb k k_metadata); [|discriminate]. inversion H; subst; cbn; auto.
  - inversion H; subst; cbn; auto. Qed.

Lemma steps_valid ts : forall q q', steps q ts = Some q' -> valid_sort (q_orderby q) (q_dir q) = true -> forallb valid_status (q_status q) = true ->
  valid_sort (q_orderby q') (q_dir q') = true /\ forallb valid_status (q_status q') = true.
Proof. induction ts as [|t rest IH]; intros q q' H Hv Hs; cbn in H; [inversion H; subst; auto|].
  destruct (step q t) eqn:E; [|discriminate]. destruct (step_valid _ _ _ E Hv Hs). eapply IH; eauto. Qed.

Theorem parse_valid s q : parse s = Some q -> valid_sort (q_orderby q) (q_dir q) = true /\ forallb valid_status (q_status q) = true.
Proof. unfold parse, parse_k. destruct (tokenize_k true s); [|discriminate]. intros H. eapply steps_valid; eauto. Qed.

(* ------------------------------------------------------------------ the rejection classes are exhaustive *)

(* the reasons for which the parser refuses a string *)
Inductive malformed (s : str) : Prop :=
| M_quote : unmatched_quote s = true -> malformed s
| M_field_quote fields f : split_func false is_space s = Some fields -> In f fields -> unmatched_quote f = true -> malformed s
| M_colon_edge fields f : split_func false is_space s = Some fields -> In f fields -> has_prefix_colon f || has_suffix_colon f = true -> malformed s
| M_empty_chunk fields f chunks : split_func false is_space s = Some fields -> In f fields -> split_func true is_colon f = Some chunks ->
    In [] chunks -> malformed s
| M_separators fields f chunks : split_func false is_space s = Some fields -> In f fields -> split_func true is_colon f = Some chunks ->
    (length chunks = 0 \/ 3 < length chunks)%nat -> malformed s
| M_qualifier ts k v : tokenize s = Some ts -> In (TKV k v) ts -> known_key k = false -> malformed s
| M_subqualifier ts k sk v : tokenize s = Some ts -> In (TKVV k sk v) ts -> str_eqb k k_metadata = false -> malformed s
| M_status ts k v : tokenize s = Some ts -> In (TKV k v) ts -> str_eqb k k_status || str_eqb k k_state = true -> status_of v = None -> malformed s
| M_no ts v : tokenize s = Some ts -> In (TKV k_no v) ts -> str_eqb v k_label = false -> malformed s
| M_sort ts v : tokenize s = Some ts -> In (TKV k_sort v) ts -> sorting v = None -> malformed s
| M_second_sort a v1 b v2 c : tokenize s = Some (a ++ TKV k_sort v1 :: b ++ TKV k_sort v2 :: c) -> malformed s.

Lemma tok_of_none cs : tok_of cs = None -> (length cs = 0 \/ 3 < length cs)%nat.
Proof. destruct cs as [|a [|b [|c [|d r]]]]; cbn; intros H; try discriminate; [left; reflexivity|right; lia]. Qed.

Lemma tokenize_fields_none fs : tokenize_fields fs = None -> exists f, In f fs /\ field_tok f = None.
Proof. induction fs as [|f rest IH]; [discriminate|]. rewrite tokenize_fields_cons'. destruct (field_tok f) eqn:E.
  - destruct (tokenize_fields rest); [discriminate|]. intros _. destruct (IH eq_refl) as (g & Hg & Hb). exists g. split; [now right|exact Hb].
  - intros _. exists f. split; [now left|exact E]. Qed.

Lemma steps_none ts : forall q, steps q ts = None -> exists a t b qa, ts = a ++ t :: b /\ steps q a = Some qa /\ step qa t = None.
Proof. induction ts as [|t rest IH]; intros q H; [discriminate|]. cbn in H. destruct (step q t) as [q'|] eqn:E.
  - destruct (IH q' H) as (a & u & b & qa & -> & Ha & Hu). exists (t :: a), u, b, qa. repeat split; [|exact Hu]. cbn. now rewrite E.
  - exists [], t, rest, q. repeat split. exact E. Qed.

(* the sort flag is raised by a sort token only *)
Lemma step_sorted_origin q t q' : step q t = Some q' -> q_sorted q = false -> q_sorted q' = true -> exists v, t = TKV k_sort v.
Proof. intros H Hs Hs'. destruct t as [k v|k sk v|x]; cbn in H.
  - destruct (str_eqb k k_sort) eqn:Ek; [apply str_eqb_eq in Ek; subst; now exists v|].
    repeat match type of H with
           | context [if ?c then _ else _] => destruct c
           | context [match ?c with _ => _ end] => destruct c
           end; try discriminate; inversion H; subst; cbn in Hs'; congruence.
  - destruct (str_eqb k k_metadata); [|discriminate]. inversion H; subst; cbn in Hs'; congruence.
  - inversion H; subst; cbn in Hs'; congruence. Qed.

Lemma steps_sorted_origin ts : forall q q', steps q ts = Some q' -> q_sorted q = false -> q_sorted q' = true ->
  exists a v b, ts = a ++ TKV k_sort v :: b.
Proof. induction ts as [|t rest IH]; intros q q' H Hs Hs'; cbn in H; [inversion H; subst; congruence|].
  destruct (step q t) as [q1|] eqn:E; [|discriminate]. destruct (q_sorted q1) eqn:E1.
  - destruct (step_sorted_origin _ _ _ E Hs E1) as [v ->]. now exists [], v, rest.
  - destruct (IH q1 q' H E1 Hs') as (a & v & b & ->). now exists (t :: a), v, b. Qed.

Theorem rejects_complete s : parse s = None -> malformed s.
Proof. unfold parse, parse_k. fold tokenize. destruct (tokenize s) as [ts|] eqn:Et.
  - intros H. destruct (steps_none ts q0 H) as (a & t & b & qa & -> & Ha & Ht).
    assert (Hin : In t (a ++ t :: b)) by (apply in_or_app; right; now left).
    destruct t as [k v|k sk v|x]; cbn in Ht.
    + destruct (str_eqb k k_status || str_eqb k k_state) eqn:E1.
      { destruct (status_of v) eqn:Ev; [discriminate|]. eapply M_status; eauto. }
      destruct (str_eqb k k_author) eqn:E2; [discriminate|]. destruct (str_eqb k k_actor) eqn:E3; [discriminate|].
      destruct (str_eqb k k_participant) eqn:E4; [discriminate|]. destruct (str_eqb k k_label) eqn:E5; [discriminate|].
      destruct (str_eqb k k_title) eqn:E6; [discriminate|].
      destruct (str_eqb k k_no) eqn:E7.
      { apply str_eqb_eq in E7; subst k. destruct (str_eqb v k_label) eqn:Ev; [discriminate|]. eapply M_no; eauto. }
      destruct (str_eqb k k_sort) eqn:E8.
      { apply str_eqb_eq in E8; subst k. destruct (q_sorted qa) eqn:Es.
        - destruct (steps_sorted_origin a q0 qa Ha eq_refl Es) as (a1 & v1 & a2 & ->).
          apply (M_second_sort s a1 v1 a2 v b). now rewrite <- app_assoc in Et.
        - destruct (sorting v) as [[ob d]|] eqn:Ev; [discriminate|]. eapply M_sort; eauto. }
      apply orb_false_iff in E1 as [E0 E1]. eapply M_qualifier; eauto. unfold known_key. now rewrite E0, E1, E2, E3, E4, E5, E6, E7, E8.
    + destruct (str_eqb k k_metadata) eqn:E; [discriminate|]. eapply M_subqualifier; eauto.
    + discriminate.
  - intros _. unfold tokenize, tokenize_k in Et. destruct (split_func false is_space s) as [fields|] eqn:Es.
    + fold tokenize_fields in Et. destruct (tokenize_fields_none fields Et) as (f & Hin & Hb). unfold field_tok in Hb.
      destruct (split_func true is_colon f) as [chunks|] eqn:Ec.
      * destruct (has_prefix_colon f || has_suffix_colon f) eqn:Ep; [eapply M_colon_edge; eauto|].
        destruct (existsb is_nil chunks) eqn:En.
        { apply existsb_exists in En as (c & Hc & Hn). destruct c; [|discriminate]. eapply M_empty_chunk; eauto. }
        apply tok_of_none in Hb. rewrite map_length in Hb. eapply M_separators; eauto.
      * apply split_func_none in Ec. eapply M_field_quote; eauto.
    + apply split_func_none in Es. now apply M_quote. Qed.

Theorem rejects_sound s : malformed s -> parse s = None.
Proof. intros [H|fields f Hs Hin H|fields f Hs Hin H|fields f chunks Hs Hin Hc H|fields f chunks Hs Hin Hc [H|H]|ts k v Ht Hin H|ts k sk v Ht Hin H|ts k v Ht Hin Hk H|ts v Ht Hin H|ts v Ht Hin H|a v1 b v2 c Ht].
  - now apply reject_unmatched_quote.
  - apply (parse_bad_field s fields f Hs Hin). unfold field_tok. apply (split_func_none true is_colon) in H. now rewrite H.
  - eapply reject_colon_edge; eauto.
  - eapply reject_empty_chunk; eauto.
  - apply (parse_bad_field s fields f Hs Hin). unfold field_tok. rewrite Hc. destruct (has_prefix_colon f || has_suffix_colon f); [reflexivity|].
    destruct chunks; [reflexivity|discriminate].
  - eapply reject_too_many_separators; eauto.
  - eapply reject_unknown_qualifier; eauto.
  - eapply reject_unknown_subqualifier; eauto.
  - eapply reject_unknown_status; eauto.
  - eapply reject_unknown_no; eauto.
  - eapply reject_unknown_sort; eauto.
  - eapply reject_second_sort; eauto. Qed.

(* the lexer as it was: status::open is malformed and accepted *)
Theorem empty_chunk_lenient_refuted : exists s, malformed s /\ parse_lenient s <> None.
Proof. exists (k_status ++ [58; 58] ++ s_open). split; [|vm_compute; discriminate].
  apply (M_empty_chunk _ [k_status ++ [58; 58] ++ s_open] (k_status ++ [58; 58] ++ s_open) [k_status; []; s_open]);
  [reflexivity|now left|reflexivity|right; now left]. Qed.
