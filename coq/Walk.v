From Coq Require Import List Arith Lia Bool ZArith.
Import ListNotations.
From GB Require Import Page.

(* a client paging forward: follow the end cursor while hasNextPage *)
Fixpoint walk (fuel n k : nat) (after : option nat) : option (list nat) :=
  match fuel with
  | 0 => None
  | S f =>
    match fwd n k after with
    | Ok p => if p_hasnext p
              then match rev (p_items p) with
                   | e :: _ => option_map (app (p_items p)) (walk f n k (Some e))
                   | [] => None
                   end
              else Some (p_items p)
    | _ => None
    end
  end.

Definition cursor_before (o : nat) : option nat := match o with 0 => None | S o' => Some o' end.

Lemma rev_seq_last a len : 0 < len -> exists t, rev (seq a len) = (a + len - 1) :: t.
Proof. intros H. destruct len; [lia|]. rewrite seq_S, rev_app_distr. cbn. eexists. f_equal. lia. Qed.

Lemma walk_from : forall fuel n k o, 0 < k -> o <= n -> n - o < fuel ->
  walk fuel n k (cursor_before o) = Some (seq o (n - o)).
Proof. induction fuel as [|f IH]; intros n k o Hk Ho Hf; [lia|]. cbn [walk]. unfold cursor_before at 1.
  rewrite (fwd_page n k o Hk Ho). cbn [p_hasnext p_items].
  destruct (Nat.ltb_spec k (n - o)) as [Hlt|Hge].
  - replace (Nat.min k (n - o)) with k by lia.
    destruct (rev_seq_last o k Hk) as (t & ->).
    replace (Some (o + k - 1)) with (cursor_before (o + k)) by (unfold cursor_before; destruct (o + k) eqn:E; [lia|f_equal; lia]).
    rewrite IH by lia. cbn. f_equal. rewrite <- seq_app. f_equal. lia.
  - f_equal. f_equal. lia. Qed.

Theorem C20_forward_walk n k : 0 < k -> walk (S n) n k None = Some (seq 0 n).
Proof. intros Hk. change None with (cursor_before 0). rewrite walk_from by lia. now rewrite Nat.sub_0_r. Qed.
Print Assumptions C20_forward_walk.
