(* The clock file and its crash states (util/lamport/persisted_clock.go). *)
From Coq Require Import List NArith Bool Lia.
Import ListNotations.
From GB Require Import Decimal.
Local Open Scope N_scope.

Inductive proto := PInPlace | PRename | PUnknown.

(* fmt.Sscanf(content, "%d", &value) into a uint64: leading decimal digits; nothing to scan is an error.
   On the contents git-bug writes (digits only) this is parse_u64. *)
Definition load (s : list N) : option N := parse_u64 s.

Fixpoint prefixes {A} (l : list A) : list (list A) :=   (* proper prefixes, shortest first *)
  match l with [] => [] | x :: t => [] :: map (cons x) (prefixes t) end.

(* contents the clock file can hold after a crash during the write old -> new *)
Definition crash_states (p : proto) (old new : list N) : list (list N) :=
  match p with
  | PRename => [old; new]
  | _ => prefixes new ++ [old; new]
  end.

(* write-aside + rename: whatever the crash point, the file holds a clock that loads and is not older *)
Lemma rename_safe o n s : o <= n -> n < 2 ^ 64 -> In s (crash_states PRename (print_u64 o) (print_u64 n)) ->
  exists v, load s = Some v /\ o <= v.
Proof. intros Hon Hn [<-|[<-|[]]]; unfold load; rewrite C04_decimal_roundtrip by lia; eauto using N.le_refl. Qed.

(* in-place truncate-then-write: a crash can leave an unreadable (empty) clock, or a readable but older one *)
Lemma inplace_unsafe_empty : In [] (crash_states PInPlace (print_u64 13) (print_u64 14)) /\ load [] = None.
Proof. split; [vm_compute; auto|reflexivity]. Qed.
Lemma inplace_unsafe_regress : exists s v, In s (crash_states PInPlace (print_u64 13) (print_u64 14)) /\ load s = Some v /\ v < 13.
Proof. exists [49], 1. split; [vm_compute; auto|]. split; [reflexivity|lia]. Qed.
