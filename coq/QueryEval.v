(* C12 — evaluation of a parsed query over bug excerpts: model of cache/filter.go (Matcher.Match and the
   filters), cache/identity_excerpt.go (Match), the sorters of cache/bug_excerpt.go and
   RepoCacheBug.Query (cache/bug_subcache.go). *)
From Coq Require Import List Arith NArith Bool Lia Sorting.Sorted Sorting.Permutation.
Import ListNotations.
From GB Require Import Query QueryRender.
Local Open Scope N_scope.

(* strings.HasPrefix / strings.Contains over code points *)
Fixpoint prefixb (p s : str) : bool :=
  match p, s with
  | [], _ => true
  | x :: p', y :: s' => N.eqb x y && prefixb p' s'
  | _ :: _, [] => false
  end.
Fixpoint containsb (s sub : str) : bool :=
  prefixb sub s || match s with [] => false | _ :: t => containsb t sub end.

Lemma prefixb_spec p : forall s, prefixb p s = true <-> exists post, s = p ++ post.
Proof. induction p as [|x p IH]; intros s; cbn.
  - split; [intros _; now exists s|reflexivity].
  - destruct s as [|y s']; [split; [discriminate|intros [? H]; discriminate]|]. rewrite andb_true_iff, N.eqb_eq, IH. split.
    + intros [-> [post ->]]. now exists post.
    + intros [post H]. inversion H; subst. split; [reflexivity|now exists post]. Qed.

Lemma containsb_spec sub s : containsb s sub = true <-> exists pre post, s = pre ++ sub ++ post.
Proof. induction s as [|y t IH]; cbn [containsb]; rewrite orb_true_iff.
  - rewrite prefixb_spec. split.
    + intros [[post H]|H]; [|discriminate]. now exists [], post.
    + intros (pre & post & H). left. destruct pre; [now exists post|discriminate].
  - rewrite prefixb_spec, IH. split.
    + intros [[post H]|(pre & post & H)]; [now exists [], post|]. exists (y :: pre), post. now rewrite H.
    + intros (pre & post & H). destruct pre as [|z pre]; [left; now exists post|]. right. inversion H; subst. now exists pre, post. Qed.

Record ident := mkident { i_id : str; i_name : str; i_login : str }.

Record bug := mkbug {
  b_id : N;                      (* rank of the id among the population (order preserving) *)
  b_cl : N; b_cu : N;            (* creation: Lamport time, unix time *)
  b_el : N; b_eu : N;            (* last edit: Lamport time, unix time *)
  b_author : ident; b_status : N (* 1 open, 2 closed *);
  b_labels : list str; b_title : str;
  b_actors : list ident; b_participants : list ident;
  b_meta : list (str * str);     (* metadata of the create operation *)
  b_texts : list (list str)      (* the indexed texts (title, every comment), each as its list of tokens *)
}.

Fixpoint assoc (k : str) (l : list (str * str)) : option str :=
  match l with [] => None | (k', v) :: t => if str_eqb k k' then Some v else assoc k t end.

(* a code point that is part of a word for the full-text index: ASCII letters and digits, anything beyond ASCII (the
   harness checks every text against unicode.IsLetter/IsDigit); everything else separates words and is dropped:
   the operators of bleve's query string language (plus, minus, =, &, |, <, >, !, brackets of all kinds, ^, the double quote, ~, star, ?, colon, backslash, slash) are among them *)
Definition is_word_rune (r : rune) : bool :=
  (N.leb 48 r && N.leb r 57) || (N.leb 65 r && N.leb r 90) || (N.leb 97 r && N.leb r 122) || N.leb 128 r.

Section Eval.
(* strings.ToLower, code point by code point *)
Variable lower : rune -> rune.
Definition lower_s (s : str) : str := map lower s.

(* IdentityExcerpt.Match, called with an already lowered query *)
Definition ident_match (ql : str) (i : ident) : bool :=
  prefixb ql (i_id i) || containsb (lower_s (i_name i)) ql || containsb (lower_s (i_login i)) ql.

Definition f_status (st : N) (b : bug) : bool := N.eqb (b_status b) st.
Definition f_author (v : str) (b : bug) : bool := ident_match (lower_s v) (b_author b).
Definition f_meta (p : str * str) (b : bug) : bool :=
  match assoc (fst p) (b_meta b) with Some x => str_eqb x (snd p) | None => false end.
Definition f_label (l : str) (b : bug) : bool := existsb (str_eqb l) (b_labels b).
Definition f_actor (v : str) (b : bug) : bool := existsb (ident_match (lower_s v)) (b_actors b).
Definition f_participant (v : str) (b : bug) : bool := existsb (ident_match (lower_s v)) (b_participants b).
Definition f_title (t : str) (b : bug) : bool := containsb (lower_s (b_title b)) (lower_s t).
Definition f_nolabel (b : bug) : bool := match b_labels b with [] => true | _ => false end.

(* Matcher.orMatch / andMatch *)
Definition or_match (fs : list (bug -> bool)) (b : bug) : bool :=
  match fs with [] => true | _ => existsb (fun f => f b) fs end.
Definition and_match (fs : list (bug -> bool)) (b : bug) : bool := forallb (fun f => f b) fs.

Definition matches (q : query) (b : bug) : bool :=
  or_match (map f_status (q_status q)) b &&
  or_match (map f_author (q_author q)) b &&
  or_match (map f_meta (q_meta q)) b &&
  or_match (map f_participant (q_participant q)) b &&
  or_match (map f_actor (q_actor q)) b &&
  and_match (map f_label (q_label q)) b &&
  and_match (if q_nolabel q then [f_nolabel] else []) b &&
  and_match (map f_title (q_title q)) b.

(* full-text search (repository/index_bleve.go Search over the "bugs" index): a term is text to look for: it is cut
   into words like the indexed texts (lower-cased, at every code point that is no letter and no digit) and matches a
   bug that has these words in a row inside one indexed text (one word: that word); a term without any word matches
   nothing; the index answers with the bugs matching any of the terms *)
Fixpoint words_go (s cur : str) : list str :=
  match s with
  | [] => match cur with [] => [] | _ => [rev cur] end
  | r :: t => if is_word_rune r then words_go t (r :: cur)
              else match cur with [] => words_go t [] | _ => rev cur :: words_go t [] end
  end.
Definition term_words (t : str) : list str := words_go (lower_s t) [].
Fixpoint wprefixb (p l : list str) : bool :=
  match p, l with [], _ => true | x :: p', y :: l' => str_eqb x y && wprefixb p' l' | _ :: _, [] => false end.
Fixpoint winfixb (p l : list str) : bool := wprefixb p l || match l with [] => false | _ :: t => winfixb p t end.
Definition term_found (t : str) (b : bug) : bool :=
  match term_words t with [] => false | ws => existsb (winfixb ws) (b_texts b) end.
Definition found (q : query) (b : bug) : bool :=
  match q_search q with [] => true | ts => existsb (fun t => term_found t b) ts end.

Definition selected (q : query) (b : bug) : bool := found q b && matches q b.

(* ---- sorting: BugsById / BugsByCreationTime / BugsByEditTime, sort.Reverse for descending ---- *)
Definition skey (ob : N) (b : bug) : N * N :=
  if N.eqb ob 1 then (b_id b, 0) else if N.eqb ob 2 then (b_cl b, b_cu b) else (b_el b, b_eu b).
(* Less of the Go sorters on keys *)
Definition klt (a b : N * N) : bool := N.ltb (fst a) (fst b) || (N.eqb (fst a) (fst b) && N.ltb (snd a) (snd b)).
Definition kle (a b : N * N) : bool := negb (klt b a).
(* a may stand before b in the result *)
Definition ord (ob d : N) (a b : bug) : bool :=
  if N.eqb d 1 then kle (skey ob a) (skey ob b) else kle (skey ob b) (skey ob a).

Fixpoint insert (le : bug -> bug -> bool) (x : bug) (l : list bug) : list bug :=
  match l with [] => [x] | y :: t => if le x y then x :: l else y :: insert le x t end.
Definition isort (le : bug -> bug -> bool) (l : list bug) : list bug := fold_right (insert le) [] l.

Definition eval (q : query) (bugs : list bug) : option (list bug) :=
  if valid_sort (q_orderby q) (q_dir q)
  then Some (isort (ord (q_orderby q) (q_dir q)) (filter (selected q) bugs))
  else None.

(* ------------------------------------------------------------------ lemmas *)

Lemma kle_total a b : kle a b = true \/ kle b a = true.
Proof. unfold kle, klt. destruct a as [a1 a2], b as [b1 b2]; cbn.
  destruct (N.ltb_spec b1 a1), (N.ltb_spec a1 b1), (N.eqb_spec b1 a1), (N.eqb_spec a1 b1), (N.ltb_spec b2 a2), (N.ltb_spec a2 b2); cbn; auto; lia. Qed.

Lemma kle_trans a b c : kle a b = true -> kle b c = true -> kle a c = true.
Proof. unfold kle, klt. destruct a as [a1 a2], b as [b1 b2], c as [c1 c2]; cbn.
  destruct (N.ltb_spec b1 a1), (N.eqb_spec b1 a1), (N.ltb_spec b2 a2); cbn; try discriminate;
  destruct (N.ltb_spec c1 b1), (N.eqb_spec c1 b1), (N.ltb_spec c2 b2); cbn; try discriminate;
  destruct (N.ltb_spec c1 a1), (N.eqb_spec c1 a1), (N.ltb_spec c2 a2); cbn; auto; lia. Qed.

Lemma ord_total ob d a b : ord ob d a b = true \/ ord ob d b a = true.
Proof. unfold ord. destruct (N.eqb d 1); apply kle_total. Qed.

Lemma ord_trans ob d a b c : ord ob d a b = true -> ord ob d b c = true -> ord ob d a c = true.
Proof. unfold ord. destruct (N.eqb d 1); intros H1 H2; eapply kle_trans; eauto. Qed.

Section Sorting.
Variable le : bug -> bug -> bool.
Hypothesis le_total : forall a b, le a b = true \/ le b a = true.
Hypothesis le_trans : forall a b c, le a b = true -> le b c = true -> le a c = true.

Lemma insert_perm x l : Permutation (x :: l) (insert le x l).
Proof. induction l as [|y t IH]; cbn; [reflexivity|]. destruct (le x y); [reflexivity|]. rewrite perm_swap. now constructor. Qed.

Lemma isort_perm l : Permutation l (isort le l).
Proof. induction l as [|x t IH]; cbn; [constructor|]. rewrite <- insert_perm. now constructor. Qed.

Definition sortedl := StronglySorted (fun a b => le a b = true).

Lemma insert_sorted x l : sortedl l -> sortedl (insert le x l).
Proof. induction 1 as [|y t Hs IH Hall]; cbn; [repeat constructor|]. destruct (le x y) eqn:E.
  - constructor; [now constructor|]. constructor; [exact E|]. rewrite Forall_forall in *. intros z Hz. eapply le_trans; eauto.
  - constructor; [exact IH|]. destruct (le_total x y) as [H|H]; [congruence|].
    rewrite Forall_forall in *. intros z Hz. apply (Permutation_in _ (Permutation_sym (insert_perm x t))) in Hz.
    destruct Hz as [<-|Hz]; auto. Qed.

Lemma isort_sorted l : sortedl (isort le l).
Proof. induction l; cbn; [constructor|]. now apply insert_sorted. Qed.
End Sorting.

Theorem eval_spec q bugs r : eval q bugs = Some r ->
  Permutation r (filter (selected q) bugs) /\
  StronglySorted (fun a b => ord (q_orderby q) (q_dir q) a b = true) r /\
  (NoDup (map b_id bugs) -> NoDup (map b_id r)) /\
  (forall b, In b r <-> In b bugs /\ selected q b = true).
Proof. unfold eval. destruct (valid_sort _ _); [|discriminate]. intros H. inversion H; subst. clear H.
  set (le := ord (q_orderby q) (q_dir q)). set (l := filter (selected q) bugs).
  assert (P : Permutation (isort le l) l) by (apply Permutation_sym, isort_perm).
  split; [exact P|]. split; [apply isort_sorted; [apply ord_total|apply ord_trans]|]. split.
  - intros Hn. apply (Permutation_NoDup (l := map b_id l)); [apply Permutation_map, Permutation_sym, P|].
    unfold l. clear P. induction bugs as [|x t IH]; cbn; [constructor|]. inversion Hn; subst.
    destruct (selected q x); cbn; [constructor|]; auto.
    intros Hin. apply in_map_iff in Hin as (y & Hy & Hin). apply filter_In in Hin as [Hin _]. apply H1. rewrite <- Hy. now apply in_map.
  - intros b. rewrite <- filter_In. split; intros Hb; [eapply Permutation_in; eauto|eapply Permutation_in; [apply Permutation_sym|]; eauto]. Qed.

Theorem eval_total s q bugs : parse s = Some q -> eval q bugs <> None.
Proof. intros H. apply parse_valid in H as [H _]. unfold eval. now rewrite H. Qed.

(* what "sorted" means in terms of Go's Less: ascending = never Less(later, earlier); descending = never Less(earlier, later) *)
Lemma ord_less ob d a b : ord ob d a b = if N.eqb d 1 then negb (klt (skey ob b) (skey ob a)) else negb (klt (skey ob a) (skey ob b)).
Proof. reflexivity. Qed.

(* ---- the match rules spelled out ---- *)

Lemma or_match_spec {A} (f : A -> bug -> bool) l b :
  or_match (map f l) b = true <-> (l = [] \/ exists x, In x l /\ f x b = true).
Proof. destruct l as [|a t]; [cbn; split; auto|]. unfold or_match. cbn [map]. rewrite existsb_exists. split.
  - intros (g & Hg & Hb). right. apply (in_map_iff f (a :: t)) in Hg as (x & <- & Hx). now exists x.
  - intros [H|(x & Hx & Hb)]; [discriminate|]. exists (f x). split; [now apply (in_map f (a :: t))|exact Hb]. Qed.

Lemma and_match_spec {A} (f : A -> bug -> bool) l b :
  and_match (map f l) b = true <-> (forall x, In x l -> f x b = true).
Proof. unfold and_match. rewrite forallb_forall. split.
  - intros H x Hx. apply (H (f x)). now apply in_map.
  - intros H g Hg. apply in_map_iff in Hg as (x & <- & Hx). now apply H. Qed.

Definition ident_matches (v : str) (i : ident) : Prop :=
  (exists post, i_id i = lower_s v ++ post) \/
  (exists pre post, lower_s (i_name i) = pre ++ lower_s v ++ post) \/
  (exists pre post, lower_s (i_login i) = pre ++ lower_s v ++ post).

Lemma ident_match_spec v i : ident_match (lower_s v) i = true <-> ident_matches v i.
Proof. unfold ident_match, ident_matches. rewrite !orb_true_iff, prefixb_spec, !containsb_spec. tauto. Qed.

Lemma assoc_spec k l : forall v, assoc k l = Some v <-> exists pre post, l = pre ++ (k, v) :: post /\ ~ In k (map fst pre).
Proof. induction l as [|[k' v'] t IH]; intros v; cbn.
  - split; [discriminate|]. intros (pre & post & H & _). destruct pre; discriminate.
  - destruct (str_eqb k k') eqn:E.
    + apply str_eqb_eq in E. subst k'. split.
      * intros H. inversion H; subst. exists [], t. cbn. auto.
      * intros (pre & post & H & Hn). destruct pre as [|[k2 v2] pre]; [now inversion H|]. inversion H; subst. cbn in Hn. tauto.
    + rewrite IH. split.
      * intros (pre & post & -> & Hn). exists ((k', v') :: pre), post. split; [reflexivity|]. cbn. intros [->|H]; [|tauto].
        now rewrite str_eqb_refl in E.
      * intros (pre & post & H & Hn). destruct pre as [|[k2 v2] pre]; [inversion H; subst; now rewrite str_eqb_refl in E|].
        inversion H; subst. exists pre, post. split; [reflexivity|]. cbn in Hn. tauto. Qed.

Theorem matches_spec q b : matches q b = true <->
  (q_status q = [] \/ exists st, In st (q_status q) /\ b_status b = st) /\
  (q_author q = [] \/ exists v, In v (q_author q) /\ ident_matches v (b_author b)) /\
  (q_meta q = [] \/ exists k v, In (k, v) (q_meta q) /\ assoc k (b_meta b) = Some v) /\
  (q_participant q = [] \/ exists v, In v (q_participant q) /\ exists i, In i (b_participants b) /\ ident_matches v i) /\
  (q_actor q = [] \/ exists v, In v (q_actor q) /\ exists i, In i (b_actors b) /\ ident_matches v i) /\
  (forall l, In l (q_label q) -> In l (b_labels b)) /\
  (q_nolabel q = true -> b_labels b = []) /\
  (forall t, In t (q_title q) -> exists pre post, lower_s (b_title b) = pre ++ lower_s t ++ post).
Proof. unfold matches. rewrite !andb_true_iff, !or_match_spec, !and_match_spec.
  assert (E1 : (exists x, In x (q_status q) /\ f_status x b = true) <-> (exists st, In st (q_status q) /\ b_status b = st)).
  { split; intros (x & Hx & H); exists x; (split; [exact Hx|]); unfold f_status in *; now apply N.eqb_eq. }
  assert (E2 : (exists x, In x (q_author q) /\ f_author x b = true) <-> (exists v, In v (q_author q) /\ ident_matches v (b_author b))).
  { split; intros (x & Hx & H); exists x; (split; [exact Hx|]); now apply ident_match_spec. }
  assert (E3 : (exists x, In x (q_meta q) /\ f_meta x b = true) <-> (exists k v, In (k, v) (q_meta q) /\ assoc k (b_meta b) = Some v)).
  { unfold f_meta. split.
    - intros ([k v] & Hx & H). exists k, v. split; [exact Hx|]. cbn in H. destruct (assoc k (b_meta b)); [|discriminate]. apply str_eqb_eq in H. now subst.
    - intros (k & v & Hx & H). exists (k, v). split; [exact Hx|]. cbn. rewrite H. apply str_eqb_refl. }
  assert (E4 : forall l, (exists x, In x l /\ existsb (ident_match (lower_s x)) (b_participants b) = true) <->
                         (exists v, In v l /\ exists i, In i (b_participants b) /\ ident_matches v i)).
  { intros l. split; intros (x & Hx & H); exists x; (split; [exact Hx|]).
    - apply existsb_exists in H as (i & Hi & H). exists i. split; [exact Hi|]. now apply ident_match_spec.
    - destruct H as (i & Hi & H). apply existsb_exists. exists i. split; [exact Hi|]. now apply ident_match_spec. }
  assert (E5 : forall l, (exists x, In x l /\ existsb (ident_match (lower_s x)) (b_actors b) = true) <->
                         (exists v, In v l /\ exists i, In i (b_actors b) /\ ident_matches v i)).
  { intros l. split; intros (x & Hx & H); exists x; (split; [exact Hx|]).
    - apply existsb_exists in H as (i & Hi & H). exists i. split; [exact Hi|]. now apply ident_match_spec.
    - destruct H as (i & Hi & H). apply existsb_exists. exists i. split; [exact Hi|]. now apply ident_match_spec. }
  assert (E6 : (forall x, In x (q_label q) -> f_label x b = true) <-> (forall l, In l (q_label q) -> In l (b_labels b))).
  { unfold f_label. split; intros H x Hx; specialize (H x Hx).
    - apply existsb_exists in H as (y & Hy & H). apply str_eqb_eq in H. now subst.
    - apply existsb_exists. exists x. split; [exact H|apply str_eqb_refl]. }
  assert (E7 : and_match (if q_nolabel q then [f_nolabel] else []) b = true <-> (q_nolabel q = true -> b_labels b = [])).
  { destruct (q_nolabel q); cbn; [|split; [intros _ H; discriminate|reflexivity]]. unfold f_nolabel. destruct (b_labels b); cbn; split; auto; intros H; try discriminate. now specialize (H eq_refl). }
  assert (E8 : (forall x, In x (q_title q) -> f_title x b = true) <-> (forall t, In t (q_title q) -> exists pre post, lower_s (b_title b) = pre ++ lower_s t ++ post)).
  { unfold f_title. split; intros H x Hx; specialize (H x Hx); now apply containsb_spec. }
  unfold f_participant, f_actor. rewrite E1, E2, E3, (E4 (q_participant q)), (E5 (q_actor q)), E6, E7, E8. tauto. Qed.

(* ---- case-insensitivity ---- *)
Definition ci_eq (a b : str) : Prop := lower_s a = lower_s b.

Lemma ci_query_value v v' i : ci_eq v v' -> ident_match (lower_s v) i = ident_match (lower_s v') i.
Proof. unfold ci_eq. now intros ->. Qed.

Lemma ci_ident_name ql i i' : i_id i = i_id i' -> ci_eq (i_name i) (i_name i') -> ci_eq (i_login i) (i_login i') ->
  ident_match ql i = ident_match ql i'.
Proof. unfold ci_eq, ident_match. now intros -> -> ->. Qed.

Lemma ci_title t t' b : ci_eq t t' -> f_title t b = f_title t' b.
Proof. unfold ci_eq, f_title. now intros ->. Qed.

Lemma ci_title_bug t b b' : ci_eq (b_title b) (b_title b') -> f_title t b = f_title t b'.
Proof. unfold ci_eq, f_title. now intros ->. Qed.

(* the id prefix test compares the lowered query with the id as stored: it is case-insensitive exactly
   because ids are lower-case hexadecimal *)
Lemma ci_id_prefix ql i : lower_s (i_id i) = i_id i -> prefixb ql (i_id i) = prefixb ql (lower_s (i_id i)).
Proof. now intros ->. Qed.

End Eval.

(* ---- a concrete lower-casing on the code points the check uses: ASCII, Latin-1, Greek, Cyrillic ---- *)
Definition lower_rune (r : rune) : rune :=
  if (N.leb 65 r && N.leb r 90) then r + 32
  else if (N.leb 192 r && N.leb r 222 && negb (N.eqb r 215)) then r + 32
  else if (N.leb 913 r && N.leb r 939 && negb (N.eqb r 930)) then r + 32
  else if (N.leb 1040 r && N.leb r 1071) then r + 32
  else if (N.leb 1024 r && N.leb r 1039) then r + 80
  else r.

(* ---- the search rule spelled out ---- *)

Lemma words_go_sep p : forall s, forallb (fun r => negb (is_word_rune r)) p = true -> words_go (p ++ s) [] = words_go s [].
Proof. induction p as [|r t IH]; intros s H; [reflexivity|]. cbn in H. apply andb_true_iff in H as [H1 H2].
  apply negb_true_iff in H1. cbn. rewrite H1. now apply IH. Qed.

Lemma words_go_word w : forall s cur, forallb is_word_rune w = true -> words_go (w ++ s) cur = words_go s (rev w ++ cur).
Proof. induction w as [|r t IH]; intros s cur H; [reflexivity|]. cbn in H. apply andb_true_iff in H as [H1 H2].
  cbn. rewrite H1, IH by exact H2. now rewrite <- app_assoc. Qed.

Lemma words_go_sep_flush p : forall cur, cur <> [] -> forallb (fun r => negb (is_word_rune r)) p = true -> words_go p cur = [rev cur].
Proof. induction p as [|r t IH]; intros cur Hc H; cbn.
  - destruct cur; [congruence|reflexivity].
  - cbn in H. apply andb_true_iff in H as [H1 H2]. apply negb_true_iff in H1. rewrite H1.
    destruct cur as [|c cur']; [congruence|]. assert (E : words_go t [] = []).
    { rewrite <- (app_nil_r t). now rewrite words_go_sep. }
    now rewrite E. Qed.

(* operators and punctuation around a word do not change what the term looks for; alone they look for nothing *)
Theorem term_words_decorated lower (Hl : forall r, is_word_rune (lower r) = is_word_rune r) p w s :
  forallb (fun r => negb (is_word_rune r)) p = true -> forallb (fun r => negb (is_word_rune r)) s = true ->
  w <> [] -> forallb is_word_rune w = true -> term_words lower (p ++ w ++ s) = [lower_s lower w].
Proof. intros Hp Hs Hw Hww. unfold term_words, lower_s. rewrite !map_app.
  assert (P : forall l, forallb (fun r => negb (is_word_rune r)) l = true -> forallb (fun r => negb (is_word_rune r)) (map lower l) = true).
  { induction l as [|r t IH]; cbn; [reflexivity|]. intros H. apply andb_true_iff in H as [H1 H2]. now rewrite Hl, H1, IH. }
  assert (W : forallb is_word_rune (map lower w) = true).
  { clear - Hl Hww. induction w as [|r t IH]; cbn in *; [reflexivity|]. apply andb_true_iff in Hww as [H1 H2]. now rewrite Hl, H1, IH. }
  rewrite words_go_sep by now apply P. rewrite words_go_word by exact W. rewrite app_nil_r.
  rewrite words_go_sep_flush; [now rewrite rev_involutive| |now apply P].
  destruct w; [congruence|]. cbn. intros E. apply (f_equal (@length _)) in E. rewrite app_length in E. cbn in E. lia. Qed.

Theorem term_words_operators lower (Hl : forall r, is_word_rune (lower r) = is_word_rune r) p :
  forallb (fun r => negb (is_word_rune r)) p = true -> term_words lower p = [].
Proof. intros Hp. unfold term_words, lower_s. rewrite <- (app_nil_r (map lower p)). rewrite words_go_sep; [reflexivity|].
  induction p as [|r t IH]; cbn in *; [reflexivity|]. apply andb_true_iff in Hp as [H1 H2]. now rewrite Hl, H1, IH. Qed.

Lemma lower_rune_word r : is_word_rune (lower_rune r) = is_word_rune r.
Proof. assert (Hi : forall a b, 128 <= a -> 128 <= b -> is_word_rune a = is_word_rune b).
  { intros a b Ha Hb. unfold is_word_rune. apply N.leb_le in Ha, Hb. now rewrite Ha, Hb, !orb_true_r. }
  unfold lower_rune.
  destruct (N.leb 65 r && N.leb r 90) eqn:E1.
  { apply andb_true_iff in E1 as [A B]. unfold is_word_rune. rewrite A, B. apply N.leb_le in A, B.
    assert (C : N.leb 97 (r + 32) && N.leb (r + 32) 122 = true) by (apply andb_true_iff; split; apply N.leb_le; lia).
    rewrite C. cbn. now rewrite !orb_true_r. }
  destruct (N.leb 192 r && N.leb r 222 && negb (N.eqb r 215)) eqn:E2.
  { apply andb_true_iff in E2 as [E2 _]. apply andb_true_iff in E2 as [A _]. apply N.leb_le in A. apply Hi; lia. }
  destruct (N.leb 913 r && N.leb r 939 && negb (N.eqb r 930)) eqn:E3.
  { apply andb_true_iff in E3 as [E3 _]. apply andb_true_iff in E3 as [A _]. apply N.leb_le in A. apply Hi; lia. }
  destruct (N.leb 1040 r && N.leb r 1071) eqn:E4.
  { apply andb_true_iff in E4 as [A _]. apply N.leb_le in A. apply Hi; lia. }
  destruct (N.leb 1024 r && N.leb r 1039) eqn:E5.
  { apply andb_true_iff in E5 as [A _]. apply N.leb_le in A. apply Hi; lia. }
  reflexivity. Qed.

Lemma wprefixb_spec p : forall l, wprefixb p l = true <-> exists post, l = p ++ post.
Proof. induction p as [|x p IH]; intros l; cbn.
  - split; [intros _; now exists l|reflexivity].
  - destruct l as [|y l']; [split; [discriminate|intros [? H]; discriminate]|]. rewrite andb_true_iff, str_eqb_eq, IH. split.
    + intros [-> [post ->]]. now exists post.
    + intros [post H]. inversion H; subst. split; [reflexivity|now exists post]. Qed.

Lemma winfixb_spec p l : winfixb p l = true <-> exists pre post, l = pre ++ p ++ post.
Proof. induction l as [|y t IH]; cbn [winfixb]; rewrite orb_true_iff.
  - rewrite wprefixb_spec. split.
    + intros [[post H]|H]; [|discriminate]. now exists [], post.
    + intros (pre & post & H). left. destruct pre; [now exists post|discriminate].
  - rewrite wprefixb_spec, IH. split.
    + intros [[post H]|(pre & post & H)]; [now exists [], post|]. exists (y :: pre), post. now rewrite H.
    + intros (pre & post & H). destruct pre as [|z pre]; [left; now exists post|]. right. inversion H; subst. now exists pre, post. Qed.

Theorem found_spec lower q b : found lower q b = true <->
  (q_search q = [] \/ exists t, In t (q_search q) /\ term_words lower t <> [] /\
     exists text pre post, In text (b_texts b) /\ text = pre ++ term_words lower t ++ post).
Proof. unfold found. destruct (q_search q) as [|t0 ts] eqn:E; [split; auto|]. rewrite existsb_exists. split.
  - intros (t & Hin & H). right. exists t. split; [exact Hin|]. unfold term_found in H. destruct (term_words lower t) as [|w ws] eqn:Ew; [discriminate|].
    split; [discriminate|]. apply existsb_exists in H as (text & Ht & H). apply winfixb_spec in H as (pre & post & H). now exists text, pre, post.
  - intros [H|(t & Hin & Hne & text & pre & post & Ht & H)]; [discriminate|]. exists t. split; [exact Hin|]. unfold term_found.
    destruct (term_words lower t) as [|w ws] eqn:Ew; [congruence|]. apply existsb_exists. exists text. split; [exact Ht|]. apply winfixb_spec. now exists pre, post. Qed.
