(* C16 — bridge imports are idempotent, incremental and resumable. Property theorems only.
   Model: Import.v (GitLab importer behind core.Bridge). cfg: one flag per repair (c_dedupe_labels, c_list_error, c_clean_title,
   c_clean_ident, c_empty_text, c_next_page, c_ghost; all false = the tree before the repairs: `pinned`), c_graphic is
   unicode.IsGraphic, c_totals says whether the server sends X-Total-Pages. paging_ok c p: the page size is positive and the
   listings are followed to their end (c_next_page, or c_totals). wf_tracker: per issue, note ids distinct and different
   from the IID, IIDs distinct. ids_disjoint: IID, note ids, label event ids, state event ids pairwise distinct. *)
From Coq Require Import String List Arith NArith Bool Lia.
Import ListNotations.
From GB Require Import Import ImportText ImportProofs ImportNoError.
Local Open Scope N_scope.

(* -------- idempotent -------- *)

(* an import round followed by a round of the same kind on the unchanged tracker adds no bug, identity or operation *)
Theorem C16_idempotent c t p full now now' idents bugs cursor :
  c_dedupe_labels c = true -> paging_ok c p -> wf_tracker t -> bugs_ok c t bugs ->
  match cursor with Some x => x <= now - 5 | None => True end ->
  let o1 := run_round c t p full now None idents bugs cursor in
  let o2 := run_round c t p full now' None (out_idents o1) (out_bugs o1) (out_cursor o1) in
  out_idents o2 = out_idents o1 /\ out_bugs o2 = out_bugs o1.
Proof. exact (idempotent_round c t p full now now' idents bugs cursor). Qed.
Print Assumptions C16_idempotent.

(* the same for any later listing: the same one (even if the first run was stopped by an issue it could not create),
   or any part of a listing that was gone through to its end *)
Theorem C16_idempotent_listing c t p since s : c_dedupe_labels c = true -> paging_ok c p -> wf_tracker t -> rs_fault s = None -> bugs_ok c t (rs_bugs s) ->
  let r1 := import_all c t p since s in
  forall since' s', rs_fault s' = None -> rs_idents s' = rs_idents (fst r1) -> rs_bugs s' = rs_bugs (fst r1) ->
  since' = since \/ (snd r1 = true /\ forall i, In i (listed t since') -> In i (listed t since)) ->
  let r2 := import_all c t p since' s' in
  rs_idents (fst r2) = rs_idents s' /\ rs_bugs (fst r2) = rs_bugs s'.
Proof. exact (import_all_again c t p since s). Qed.
Print Assumptions C16_idempotent_listing.

(* -------- incremental -------- *)

(* a clean run that is not stopped only appends, every gitlab-id stays unique, and afterwards the id of an event (other
   than a description change, which carries no stable id) is there exactly if it was there before or the event is
   importable and its author can be had: exactly the new events are imported, once *)
Theorem C16_incremental c t p since s : c_dedupe_labels c = true -> paging_ok c p -> wf_tracker t ->
  (forall i, In i (listed t since) -> ids_disjoint i) -> rs_fault s = None -> bugs_ok c t (rs_bugs s) ->
  no_stop c (t_users t) (listed t since) (rs_idents s) (rs_bugs s) ->
  let r := import_all c t p since s in
  snd r = true /\ rs_fault (fst r) = None /\ grown c (t_users t) (rs_idents s) (rs_idents (fst r)) /\ bugs_ok c t (rs_bugs (fst r)) /\
  forall i, In i (listed t since) ->
    find_bug (i_iid i) (rs_bugs (fst r)) <> None /\
    (exists d, ops_of (i_iid i) (rs_bugs (fst r)) = ops_of (i_iid i) (rs_bugs s) ++ d) /\
    NoDup (gids (ops_of (i_iid i) (rs_bugs (fst r)))) /\
    forall e, In_ev i e -> e <> EError -> ev_kind e <> KDesc ->
      (In (ev_id e) (gids (ops_of (i_iid i) (rs_bugs (fst r)))) <->
       In (ev_id e) (gids (ops_of (i_iid i) (rs_bugs s))) \/ (importable c e = true /\ person_ok c (t_users t) (rs_idents s) (ev_user e) = true)).
Proof. exact (clean_char c t p since s). Qed.
Print Assumptions C16_incremental.

(* whatever run (a request may fail): operations are only appended to the bugs of the tracker's issues, other bugs are
   not touched, and an added gitlab-id is the IID or the id of an event of that issue whose author could be had *)
Theorem C16_only_justified c t p since s base : c_dedupe_labels c = true -> wf_tracker t -> bugs_ok c t (rs_bugs s) -> grown c (t_users t) base (rs_idents s) ->
  let r := import_all c t p since s in
  grown c (t_users t) base (rs_idents (fst r)) /\ bugs_ok c t (rs_bugs (fst r)) /\
  (forall iid', ~ In iid' (map i_iid (t_issues t)) -> find_bug iid' (rs_bugs (fst r)) = find_bug iid' (rs_bugs s)) /\
  (forall i, In i (t_issues t) -> (exists d, ops_of (i_iid i) (rs_bugs (fst r)) = ops_of (i_iid i) (rs_bugs s) ++ d) /\
     forall g, In g (gids (ops_of (i_iid i) (rs_bugs (fst r)))) ->
               In g (gids (ops_of (i_iid i) (rs_bugs s))) \/ g = i_iid i \/ justified_ev c (t_users t) base i g).
Proof. exact (import_all_sound c t p since s base). Qed.
Print Assumptions C16_only_justified.

(* -------- cursor -------- *)

(* a run that relays an error does not store the cursor *)
Theorem C16_cursor c t p full now fault idents bugs cursor :
  let o := run_round c t p full now fault idents bugs cursor in
  has_error (out_res o) = true -> out_stored o = false /\ out_cursor o = cursor.
Proof. exact (cursor_on_error c t p full now fault idents bugs cursor). Qed.
Print Assumptions C16_cursor.

(* and a request that fails, whichever it is, makes the run relay an error (once the issue listing reports its failure) *)
Theorem C16_failure_reported c t p (full : bool) now q idents bugs cursor : c_list_error c = true ->
  rs_fault (fst (import_all c t p (if full then None else cursor) (mkrs idents bugs [] [] (Some q)))) = None ->
  let o := run_round c t p full now (Some q) idents bugs cursor in
  has_error (out_res o) = true /\ out_stored o = false /\ out_cursor o = cursor.
Proof. exact (failure_reported c t p full now q idents bugs cursor). Qed.
Print Assumptions C16_failure_reported.

(* -------- resume -------- *)

(* a run in which any one request fails, followed by a clean run over the same listing (the cursor did not move), has
   imported the same events, each once, as a run that never failed *)
Theorem C16_resume c t p since idents bugs q : c_dedupe_labels c = true -> paging_ok c p -> wf_tracker t ->
  (forall i, In i (listed t since) -> ids_disjoint i) -> bugs_ok c t bugs ->
  no_stop c (t_users t) (listed t since) idents bugs ->
  let clean := fst (import_all c t p since (mkrs idents bugs [] [] None)) in
  let failed := fst (import_all c t p since (mkrs idents bugs [] [] (Some q))) in
  let resumed := fst (import_all c t p since (mkrs (rs_idents failed) (rs_bugs failed) [] [] None)) in
  forall i, In i (listed t since) ->
    find_bug (i_iid i) (rs_bugs resumed) <> None /\ find_bug (i_iid i) (rs_bugs clean) <> None /\
    NoDup (gids (ops_of (i_iid i) (rs_bugs resumed))) /\ NoDup (gids (ops_of (i_iid i) (rs_bugs clean))) /\
    forall e, In_ev i e -> e <> EError -> ev_kind e <> KDesc ->
      (In (ev_id e) (gids (ops_of (i_iid i) (rs_bugs resumed))) <-> In (ev_id e) (gids (ops_of (i_iid i) (rs_bugs clean)))).
Proof. exact (resume_same c t p since idents bugs q). Qed.
Print Assumptions C16_resume.

(* -------- validity of what is imported -------- *)

(* every operation of the bugs of the tracker's issues passes Validate after any run *)
Theorem C16_valid c t p since s : c_dedupe_labels c = true -> wf_tracker t -> bugs_ok c t (rs_bugs s) ->
  forall i, In i (t_issues t) -> Forall (fun o => op_valid c o = true) (ops_of (i_iid i) (rs_bugs (fst (import_all c t p since s)))).
Proof. exact (valid_after c t p since s). Qed.
Print Assumptions C16_valid.

(* whatever text the tracker holds: Cleanup gives a text that passes Safe, CleanupOneLine one that passes SafeOneLine and
   has no line break, so a comment or description is never refused, a title or label only for being empty *)
Theorem C16_cleanup_safe l : safe (cleanup l) = true.
Proof. exact (cleanup_safe l). Qed.
Print Assumptions C16_cleanup_safe.
Theorem C16_cleanup_one_line_safe l : safe1 (cleanup1 l) = true /\ forall r, In r (cleanup1 l) -> is_tnr r = false.
Proof. exact (conj (cleanup1_safe1 l) (cleanup1_one_line l)). Qed.
Print Assumptions C16_cleanup_one_line_safe.
Theorem C16_comment_never_refused c g a t m p : op_valid c (mkop g a t (OComment (cleanup m))) = true /\ op_valid c (mkop g a t (OEdit p (cleanup m))) = true.
Proof. exact (conj (op_valid_comment c g a t m) (op_valid_edit c g a t p m)). Qed.
Print Assumptions C16_comment_never_refused.

(* -------- the pinned tree, and the limits of the repaired one: concrete counter-examples -------- *)

Definition gr (r : N) : bool := negb (is_control r).
Definition u11 := mkuser 11 (lit "user 11") (lit "u11") (lit "u11@example.org") false.
Definition u12 := mkuser 12 (lit "user 12") (lit "u12") (lit "u12@example.org") false.

(* (a) pinned tree: the label event is imported again by the second run *)
Definition t_label := mktracker [u11; u12] [mkissue 1 11 101 104 (lit "T one") (lit "d") [] [mklab 201 12 0 (lit "bug") 104] []].
Theorem C16_idempotent_refuted_pinned : exists t, wf_tracker t /\ (forall i, In i (t_issues t) -> ids_disjoint i) /\
  let o1 := run_round (pinned gr true) t 20 true 110 None [] [] None in
  let o2 := run_round (pinned gr true) t 20 true 120 None (out_idents o1) (out_bugs o1) (out_cursor o1) in
  has_error (out_res o1) = false /\ out_bugs o2 <> out_bugs o1.
Proof. exists t_label. split; [|split].
  - split; [repeat constructor; cbn; tauto|repeat constructor; cbn; tauto].
  - intros i [<-|[]]. unfold ids_disjoint. cbn. repeat constructor; cbn; intuition discriminate.
  - vm_compute. split; [reflexivity|discriminate]. Qed.
Print Assumptions C16_idempotent_refuted_pinned.

(* (b) pinned tree: the second page of the issue listing fails; no error is relayed, the cursor is stored, and the
   next run never imports issue 2 *)
Definition t_two := mktracker [u11; u12]
  [mkissue 1 11 101 101 (lit "T one") (lit "d1") [] [] []; mkissue 2 12 102 103 (lit "T two") (lit "d2") [mknote 101 11 false (lit "hello") 103 103] [] []].
Theorem C16_resume_refuted_pinned : exists t q,
  let o1 := run_round (pinned gr true) t 1 false 200 (Some q) [] [] None in
  let o2 := run_round (pinned gr true) t 1 false 210 None (out_idents o1) (out_bugs o1) (out_cursor o1) in
  let oc := run_round (pinned gr true) t 1 false 200 None [] [] None in
  out_reqs o1 <> out_reqs oc /\ has_error (out_res o1) = false /\ out_stored o1 = true /\
  find_bug 2 (out_bugs oc) <> None /\ find_bug 2 (out_bugs o2) = None.
Proof. exists t_two, (QIssues 2). vm_compute. repeat split; try discriminate. Qed.
Print Assumptions C16_resume_refuted_pinned.

(* (c) repaired tree, known finding: without ids_disjoint the theorems fail: a comment whose note id equals the IID of
   its issue is not imported as a comment; its body replaces the description *)
Definition t_shared := mktracker [u11; u12]
  [mkissue 1 11 101 105 (lit "T one") (lit "the description") [mknote 1 12 false (lit "a comment") 105 105] [] []].
Theorem C16_shared_id_refuted : exists t, (forall i, In i (t_issues t) -> ~ ids_disjoint i) /\
  let o := run_round (fixed gr true) t 20 true 110 None [] [] None in
  has_error (out_res o) = false /\
  match find_bug 1 (out_bugs o) with
  | Some b => comment_text (b_ops b) 0 = Some (lit "a comment") /\ existsb (fun o => match o_k o with OComment _ => true | _ => false end) (b_ops b) = false
  | None => False end.
Proof. exists t_shared. split.
  - intros i [<-|[]] H. unfold ids_disjoint in H. cbn in H. inversion H as [|? ? H1 _]. apply H1. now left.
  - vm_compute. repeat split. Qed.
Print Assumptions C16_shared_id_refuted.

(* (d) repaired tree, known finding: the resumed run has the same events (C16_resume) but appends the one that failed
   behind a later one, and the title ends differently *)
Definition t_titles := mktracker [u11; u12]
  [mkissue 1 11 101 108 (lit "T c") (lit "d")
     [mknote 101 12 true (lit "changed title from **T a** to **T b**") 105 105; mknote 102 11 true (lit "changed title from **T b** to **T c**") 108 108] [] []].
Theorem C16_resume_order_refuted : exists t q,
  let o1 := run_round (fixed gr true) t 20 false 110 (Some q) [] [] None in
  let o2 := run_round (fixed gr true) t 20 false 112 None (out_idents o1) (out_bugs o1) (out_cursor o1) in
  let oc := run_round (fixed gr true) t 20 false 110 None [] [] None in
  has_error (out_res o1) = true /\ out_cursor o1 = None /\ has_error (out_res o2) = false /\
  match find_bug 1 (out_bugs o2), find_bug 1 (out_bugs oc) with
  | Some b2, Some bc => cur_title (b_ops b2) [] = lit "T b" /\ cur_title (b_ops bc) [] = lit "T c"
  | _, _ => False end.
Proof. exists t_titles, (QUser 12). vm_compute. repeat split. Qed.
Print Assumptions C16_resume_order_refuted.

(* -------- the hypotheses are satisfiable, the conclusions are not vacuous -------- *)

Example C16_example_hypotheses :
  wf_tracker t_two /\ (forall i, In i (listed t_two None) -> ids_disjoint i) /\ bugs_ok (fixed gr true) t_two [] /\
  no_stop (fixed gr true) (t_users t_two) (listed t_two None) [] [].
Proof. split; [|split; [|split]].
  - split; [repeat constructor; cbn; intuition discriminate|repeat constructor; cbn; intuition discriminate].
  - intros i [<-|[<-|[]]]; unfold ids_disjoint; cbn; repeat constructor; cbn; intuition discriminate.
  - intros i _ b H. discriminate.
  - intros i [<-|[<-|[]]]; split; try reflexivity; right; reflexivity. Qed.

(* one page per issue: the repaired importer, first run then a second one: 2 bugs, 3 operations, then nothing *)
Example C16_example_run :
  let o1 := run_round (fixed gr true) t_two 1 false 200 None [] [] None in
  let o2 := run_round (fixed gr true) t_two 1 false 204 None (out_idents o1) (out_bugs o1) (out_cursor o1) in
  map (fun b => List.length (b_ops b)) (out_bugs o1) = [1%nat; 2%nat] /\ out_cursor o1 = Some 195 /\ out_bugs o2 = out_bugs o1 /\ out_res o2 = [].
Proof. vm_compute. repeat split. Qed.

(* the repaired importer on the two counter-examples of the pinned tree *)
Example C16_example_repaired :
  (let o1 := run_round (fixed gr true) t_label 20 true 110 None [] [] None in
   let o2 := run_round (fixed gr true) t_label 20 true 120 None (out_idents o1) (out_bugs o1) (out_cursor o1) in out_bugs o2 = out_bugs o1) /\
  (let o1 := run_round (fixed gr true) t_two 1 false 200 (Some (QIssues 2)) [] [] None in has_error (out_res o1) = true /\ out_cursor o1 = None).
Proof. vm_compute. repeat split. Qed.

(* ======== the repairs that followed the audit of the unchanged tree ======== *)

(* -------- listings without X-Total-Pages -------- *)

(* a listing in which no request fails returns every item, whether or not the server sends X-Total-Pages *)
Theorem C16_listing_complete (A : Type) c (mk : nat -> req) p (l : list A) s : paging_ok c p -> rs_fault s = None ->
  snd (fst (fetch_all c mk p l s)) = l /\ snd (fetch_all c mk p l s) = false.
Proof. exact (listing_complete c mk p l s). Qed.
Print Assumptions C16_listing_complete.
Example C16_paging_ok_without_totals p : (1 <= p)%nat -> paging_ok (fixed gr false) p.
Proof. intros H. split; [exact H|now left]. Qed.

(* before the repair, a server that does not send X-Total-Pages: the listings stop after their first page, no error is
   relayed, the cursor is stored and the second issue is never imported *)
Theorem C16_no_totals_refuted_pinned : exists t,
  let o1 := run_round (pinned gr false) t 1 false 200 None [] [] None in
  let o2 := run_round (pinned gr false) t 1 false 210 None (out_idents o1) (out_bugs o1) (out_cursor o1) in
  has_error (out_res o1) = false /\ out_stored o1 = true /\ find_bug 2 (out_bugs o1) = None /\ find_bug 2 (out_bugs o2) = None /\
  find_bug 2 (out_bugs (run_round (fixed gr false) t 1 false 200 None [] [] None)) <> None.
Proof. exists t_two. vm_compute. repeat split. discriminate. Qed.
Print Assumptions C16_no_totals_refuted_pinned.

(* -------- events of deleted users -------- *)

(* the author of an event whose user was deleted ("user": null, id 0) is always there, without any request *)
Theorem C16_deleted_user_author c us s : c_ghost c = true ->
  let r := ensure_person c us 0 s in
  snd r = true /\ rs_reqs (fst r) = rs_reqs s /\ rs_fault (fst r) = rs_fault s /\ In 0 (rs_idents (fst r)).
Proof. exact (deleted_user_author c us s). Qed.
Print Assumptions C16_deleted_user_author.
(* hence person_ok holds for such events in C16_incremental and C16_resume *)
Theorem C16_deleted_user_ok c us idents : c_ghost c = true -> person_ok c us idents 0 = true.
Proof. exact (deleted_user_ok c us idents). Qed.
Print Assumptions C16_deleted_user_ok.

Definition t_deleted := mktracker [u11]
  [mkissue 1 11 101 106 (lit "T one") (lit "d") [] [mklab 201 0 0 (lit "bug") 105] [mkst 301 0 0 106]].
Theorem C16_deleted_user_refuted_pinned : exists t, wf_tracker t /\ (forall i, In i (t_issues t) -> ids_disjoint i) /\
  let o1 := run_round (pinned gr true) t 20 false 110 None [] [] None in
  let o2 := run_round (pinned gr true) t 20 false 120 None (out_idents o1) (out_bugs o1) (out_cursor o1) in
  let of := run_round (fixed gr true) t 20 false 110 None [] [] None in
  has_error (out_res o1) = true /\ has_error (out_res o2) = true /\ out_cursor o2 = None /\
  map (fun b => List.length (b_ops b)) (out_bugs o2) = [1%nat] /\
  has_error (out_res of) = false /\ map (fun b => List.length (b_ops b)) (out_bugs of) = [3%nat].
Proof. exists t_deleted. split; [|split].
  - split; [repeat constructor; cbn; tauto|repeat constructor; cbn; tauto].
  - intros i [<-|[]]. unfold ids_disjoint. cbn. repeat constructor; cbn; intuition discriminate.
  - vm_compute. repeat split. Qed.
Print Assumptions C16_deleted_user_refuted_pinned.

(* -------- texts: titles, labels, users -------- *)

(* the new title of a title change is never refused, unless nothing at all is left of it *)
Theorem C16_title_change_valid c t : c_clean_title c = true -> c_empty_text c = true -> title_valid c placeholder = true ->
  cleanup1 t <> [] -> title_valid c (note_title c t) = true.
Proof. exact (note_title_valid c t). Qed.
Print Assumptions C16_title_change_valid.

(* the create operation of an issue is never refused, so no issue stops the run because of its title: no_stop (the
   hypothesis of C16_incremental and C16_resume) only asks for the authors of the issues *)
Theorem C16_issue_never_refused c iss : c_empty_text c = true -> title_valid c placeholder = true -> op_valid c (create_op c iss) = true.
Proof. exact (issue_title_valid c iss). Qed.
Print Assumptions C16_issue_never_refused.
Theorem C16_no_stop_on_title c us l idents bugs : c_empty_text c = true -> title_valid c placeholder = true ->
  (forall i, In i l -> person_ok c us idents (i_author i) = true) -> no_stop c us l idents bugs.
Proof. exact (no_stop_authors c us l idents bugs). Qed.
Print Assumptions C16_no_stop_on_title.

(* a label event names no label and is skipped, or its label is valid *)
Theorem C16_label_skipped_or_valid c e : c_empty_text c = true -> no_label c e = true \/ label_valid c (label_name e) = true.
Proof. exact (label_skipped_or_valid c e). Qed.
Print Assumptions C16_label_skipped_or_valid.

(* a user is refused only when neither the name nor the login has a visible character *)
Theorem C16_user_texts_cleaned c u : c_clean_ident c = true ->
  ident_valid c u = negb (text_empty (c_graphic c) (cleanup1 (u_name u)) && text_empty (c_graphic c) (cleanup1 (u_login u))).
Proof. exact (ident_valid_clean c u). Qed.
Print Assumptions C16_user_texts_cleaned.

(* unicode.IsGraphic on what the witnesses below contain: not the control characters, not the zero width space *)
Definition gr2 (r : N) : bool := negb (is_control r) && negb (r =? 8203).
Example C16_placeholder_valid : title_valid (fixed gr2 true) placeholder = true.
Proof. reflexivity. Qed.

(* before the repair: the new title holds a tabulation; the title change is refused at every run, the cursor does not move
   any more, and the bug keeps a title that a fresh import of the same tracker does not give *)
Definition t_title0 := mktracker [u11] [mkissue 1 11 101 101 (lit "T a") (lit "d") [] [] []].
Definition t_title1 := mktracker [u11]
  [mkissue 1 11 101 120 (lit "T" ++ [9] ++ lit "b") (lit "d")
     [mknote 101 11 true (lit "changed title from **T a** to **T" ++ [9] ++ lit "b**") 120 120] [] []].
Theorem C16_title_change_refuted_pinned : exists t0 t,
  let o1 := run_round (pinned gr2 true) t0 20 false 110 None [] [] None in
  let o2 := run_round (pinned gr2 true) t 20 false 130 None (out_idents o1) (out_bugs o1) (out_cursor o1) in
  let o3 := run_round (pinned gr2 true) t 20 false 140 None (out_idents o2) (out_bugs o2) (out_cursor o2) in
  let fresh := run_round (pinned gr2 true) t 20 false 130 None [] [] None in
  let r2 := run_round (fixed gr2 true) t 20 false 130 None (out_idents o1) (out_bugs o1) (out_cursor o1) in
  has_error (out_res o1) = false /\ has_error (out_res o2) = true /\ has_error (out_res o3) = true /\ out_cursor o3 = out_cursor o1 /\
  cur_title (ops_of 1 (out_bugs o3)) [] = lit "T a" /\ cur_title (ops_of 1 (out_bugs fresh)) [] = lit "Tb" /\
  has_error (out_res r2) = false /\ cur_title (ops_of 1 (out_bugs r2)) [] = lit "Tb".
Proof. exists t_title0, t_title1. vm_compute. repeat split. Qed.
Print Assumptions C16_title_change_refuted_pinned.

(* before the repair: the title of the first issue is a zero width space; the run stops there at every run and the second
   issue is never imported *)
Definition t_invisible := mktracker [u11]
  [mkissue 1 11 101 101 [8203] (lit "d1") [] [] []; mkissue 2 11 102 104 (lit "T two") (lit "d2") [] [mklab 201 11 0 [8203] 104] []].
Theorem C16_invisible_title_refuted_pinned : exists t,
  let o1 := run_round (pinned gr2 true) t 20 false 110 None [] [] None in
  let o2 := run_round (pinned gr2 true) t 20 false 120 None (out_idents o1) (out_bugs o1) (out_cursor o1) in
  let of := run_round (fixed gr2 true) t 20 false 110 None [] [] None in
  has_error (out_res o1) = true /\ out_bugs o2 = [] /\ out_cursor o2 = None /\
  has_error (out_res of) = false /\ map (fun b => List.length (b_ops b)) (out_bugs of) = [1%nat; 1%nat] /\
  cur_title (ops_of 1 (out_bugs of)) [] = placeholder.
Proof. exists t_invisible. vm_compute. repeat split. Qed.
Print Assumptions C16_invisible_title_refuted_pinned.

(* before the repair: a display name with a tabulation; the comment of that user is never imported, his issue stops the run *)
Definition u13 := mkuser 13 (lit "Bob" ++ [9] ++ lit "B") (lit "bob") (lit "bob@example.org") false.
Definition t_bob := mktracker [u11; u13]
  [mkissue 1 11 101 103 (lit "T one") (lit "d1") [mknote 101 13 false (lit "a comment") 103 103] [] [];
   mkissue 2 13 104 104 (lit "T two") (lit "d2") [] [] []; mkissue 3 11 105 105 (lit "T three") (lit "d3") [] [] []].
Theorem C16_user_texts_refuted_pinned : exists t,
  let o1 := run_round (pinned gr2 true) t 20 false 110 None [] [] None in
  let o2 := run_round (pinned gr2 true) t 20 false 120 None (out_idents o1) (out_bugs o1) (out_cursor o1) in
  let of := run_round (fixed gr2 true) t 20 false 110 None [] [] None in
  has_error (out_res o2) = true /\ out_cursor o2 = None /\ map (fun b => List.length (b_ops b)) (out_bugs o2) = [1%nat] /\
  has_error (out_res of) = false /\ map (fun b => List.length (b_ops b)) (out_bugs of) = [2%nat; 1%nat; 1%nat].
Proof. exists t_bob. vm_compute. repeat split. Qed.
Print Assumptions C16_user_texts_refuted_pinned.

(* -------- a run in which nothing fails reports nothing -------- *)

(* texts_repaired c: c_dedupe_labels, c_clean_title, c_empty_text, and the placeholder title is valid (C16_placeholder_valid).
   issue_fine c us idents i: the author of the issue can be had, and so can the user of each of its events (the id 0 always
   can: C16_deleted_user_ok), which are all of a known kind, the title changes with a new title of which something is left.
   tracker_comments_ok: the operation carrying the id of a comment note created a comment (true of no bugs, and kept).
   Then, whatever the texts of the tracker are, a run in which no request fails goes through its whole listing and relays
   no error result. *)
Theorem C16_clean_run_reports_no_error c t p since s : texts_repaired c -> paging_ok c p -> wf_tracker t ->
  (forall i, In i (listed t since) -> ids_disjoint i) -> rs_fault s = None ->
  bugs_ok c t (rs_bugs s) -> tracker_comments_ok t (rs_bugs s) ->
  (forall i, In i (listed t since) -> issue_fine c (t_users t) (rs_idents s) i) ->
  let r := import_all c t p since s in
  snd r = true /\ has_error (rs_res (fst r)) = has_error (rs_res s) /\ tracker_comments_ok t (rs_bugs (fst r)).
Proof. exact (clean_run_no_error c t p since s). Qed.
Print Assumptions C16_clean_run_reports_no_error.

(* so Bridge.ImportAll stores the cursor: the next run resumes from there *)
Theorem C16_clean_round_stores_cursor c t p (full : bool) now idents bugs (cursor : option N) : texts_repaired c -> paging_ok c p -> wf_tracker t ->
  (forall i, In i (listed t (if full then None else cursor)) -> ids_disjoint i) ->
  bugs_ok c t bugs -> tracker_comments_ok t bugs ->
  (forall i, In i (listed t (if full then None else cursor)) -> issue_fine c (t_users t) idents i) ->
  let o := run_round c t p full now None idents bugs cursor in
  has_error (out_res o) = false /\ out_stored o = true /\ out_cursor o = Some (now - 5) /\ out_completed o = true /\
  tracker_comments_ok t (out_bugs o).
Proof. exact (clean_round_stores_cursor c t p full now idents bugs cursor). Qed.
Print Assumptions C16_clean_round_stores_cursor.

(* the hypotheses hold of the witnesses above: a first import of the tracker with the events of a deleted user, and of the
   one with the invisible title and label *)
Example C16_example_fine :
  texts_repaired (fixed gr2 true) /\ tracker_comments_ok t_deleted [] /\
  (forall i, In i (listed t_deleted None) -> issue_fine (fixed gr2 true) (t_users t_deleted) [] i) /\
  (forall i, In i (listed t_invisible None) -> issue_fine (fixed gr2 true) (t_users t_invisible) [] i).
Proof. split; [repeat split|]. split; [intros i _ b H; discriminate|]. split.
  - intros i [<-|[]]. split; [reflexivity|]. intros e He NE.
    destruct e as [n|l|s|]; cbn in He; [destruct He|destruct He as [<-|[]]|destruct He as [<-|[]]|congruence];
    (split; [split; [discriminate|discriminate]|reflexivity]).
  - intros i [<-|[<-|[]]]; (split; [reflexivity|]); intros e He NE;
    (destruct e as [n|l|s|]; cbn in He; try (now destruct He); try congruence);
    destruct He as [<-|[]]; (split; [split; [discriminate|discriminate]|reflexivity]). Qed.
