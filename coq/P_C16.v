(* C16 — placeholder while the model is being tied to the code *)
From GB Require Import Import.
