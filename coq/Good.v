From Coq Require Import List Arith NArith Lia Bool Sorting.Permutation.
Import ListNotations.
From GB Require Import Reach Sort Read.

(* ghost: the entity (root index) every commit belongs to *)
Section Good.
Variable s : store.
Variable eid : nat -> nat.

Definition good_commit (i : nat) : Prop :=
  check_commit s i = true /\
  (parents s i = [] -> eid i = i) /\
  (forall p, In p (parents s i) -> eid p = eid i).

Definition good_store : Prop := wf_store s /\ forall i, i < length s -> good_commit i.

Hypothesis G : good_store.

Lemma parents_lt_len i p : In p (parents s i) -> i < length s.
Proof. unfold parents. destruct (nth_error s i) eqn:E; [|intros []]. intros _. apply nth_error_Some. congruence. Qed.

Lemma reach_lt_len h i : h < length s -> reach s h i -> i < length s.
Proof. destruct G as [W _]. intros H R. apply reach_le in R; auto. lia. Qed.

Lemma reach_eid h i : h < length s -> reach s h i -> eid i = eid h.
Proof. intros H R. induction R as [|i p R IH Hp]; [reflexivity|].
  destruct G as [W Gc]. destruct (Gc i) as (_ & _ & E); [eapply reach_lt_len; eauto|]. rewrite <- IH. now apply E. Qed.

(* every commit reaches its root *)
Lemma reach_root : forall h, h < length s -> reach s h (eid h) /\ parents s (eid h) = [].
Proof. destruct G as [W Gc]. induction h as [h IH] using lt_wf_ind. intros H.
  destruct (Gc h H) as (_ & Er & Ep).
  destruct (parents s h) as [|p ps] eqn:E.
  - rewrite (Er eq_refl). split; [constructor|exact E].
  - assert (Hp : In p (parents s h)) by (rewrite E; now left).
    assert (p < h) by (apply W; exact Hp).
    destruct (IH p) as [R Rt]; [lia|lia|]. rewrite (Ep p (or_introl eq_refl)) in R, Rt.
    split; [|exact Rt]. clear - R Hp. 
    (* reach from p lifts to reach from h *)
    induction R as [|i q R IHR Hq]; [eapply reach_step; [constructor|exact Hp]|eapply reach_step; eauto]. Qed.

Lemma NoDup_filter_seq f a n : NoDup (filter f (seq a n)).
Proof. apply NoDup_filter, seq_NoDup. Qed.

Lemma filter_none (P : nat -> bool) l : (forall x, In x l -> P x = false) -> filter P l = [].
Proof. induction l as [|y u IH]; intros H; cbn; [reflexivity|]. rewrite (H y (or_introl eq_refl)). apply IH. intros x Hx. apply H. now right. Qed.

Lemma count_unique (P : nat -> bool) l a : NoDup l -> (forall x, In x l -> (P x = true <-> x = a)) -> In a l -> length (filter P l) = 1.
Proof. induction l as [|x t IH]; intros ND HP Ha; [destruct Ha|]. inversion ND as [|? ? Hx ND']; subst. cbn.
  destruct (Nat.eq_dec x a) as [->|Hne].
  - assert (P a = true) as -> by (apply HP; [now left|reflexivity]). cbn. f_equal.
    rewrite filter_none; [reflexivity|]. intros y Hy. destruct (P y) eqn:E; [|reflexivity].
    exfalso. apply Hx. assert (y = a) as <- by (apply HP; [now right|exact E]). exact Hy.
  - destruct Ha as [Ha|Ha]; [congruence|].
    destruct (P x) eqn:E; [exfalso; apply Hne; apply HP; [now left|exact E]|].
    apply IH; auto. intros z Hz. apply HP. now right. Qed.

Theorem good_valid h : h < length s -> valid s h = true.
Proof. intros H. destruct G as [W Gc]. unfold valid. apply andb_true_iff. split.
  - apply forallb_forall. intros i Hi. apply reachl_spec in Hi; [|exact W]. destruct (Gc i) as (C & _); [eapply reach_lt_len; eauto|exact C].
  - apply Nat.eqb_eq. destruct (reach_root h H) as [Rr Rt].
    apply count_unique with (a := eid h).
    + unfold reachl. apply NoDup_filter_seq.
    + intros x Hx. apply reachl_spec in Hx; [|exact W]. unfold is_root. split.
      * intros Hr. destruct (parents s x) eqn:E; [|discriminate]. destruct (Gc x) as (_ & Er & _); [eapply reach_lt_len; eauto|].
        rewrite <- (Er E). now apply reach_eid.
      * intros ->. now rewrite Rt.
    + now apply reachl_spec. Qed.
End Good.
Print Assumptions good_valid.
