From Coq Require Import List Arith NArith Lia Bool Sorting.Sorted Sorting.Permutation.
Import ListNotations.
From GB Require Import Reach Sort.
Local Open Scope N_scope.

Definition packs_of (s : store) (l : list nat) : list pack :=
  flat_map (fun i => match nth_error s i with Some c => [c_pack c] | None => [] end) l.
Definition pack_at (s : store) (i : nat) : option pack := option_map c_pack (nth_error s i).

Definition jump_limit : N := 1000000.

(* per-commit check of dag.read *)
Definition check_commit (s : store) (i : nat) : bool :=
  match nth_error s i with
  | None => false
  | Some c =>
    let p := c_pack c in
    let ps := c_parents c in
    negb (N.eqb (p_edit p) 0) &&
    (if Nat.ltb 1 (length ps) then match p_ops p with [] => true | _ => false end else true) &&
    (match ps with [] => N.ltb 0 (p_create p) | _ => true end) &&
    forallb (fun q => match nth_error s q with
                      | None => false
                      | Some cq => N.ltb (p_edit (c_pack cq)) (p_edit p) &&
                                   (Nat.ltb 1 (length ps) || N.leb (p_edit p - p_edit (c_pack cq)) jump_limit)
                      end) ps
  end.

Definition is_root (s : store) (i : nat) : bool := match parents s i with [] => true | _ => false end.

Definition valid (s : store) (h : nat) : bool :=
  let r := reachl s h in
  forallb (check_commit s) r && Nat.eqb (length (filter (is_root s) r)) 1.

Definition read (s : store) (h : nat) : option (list N) :=
  if valid s h then Some (concat (map p_ops (isort (packs_of s (reachl s h))))) else None.

(* ---- causal order ---- *)
Lemma check_parent_lt s i q : check_commit s i = true -> In q (parents s i) ->
  exists ci cq, nth_error s i = Some ci /\ nth_error s q = Some cq /\ p_edit (c_pack cq) < p_edit (c_pack ci).
Proof. unfold check_commit, parents. destruct (nth_error s i) as [c|]; [|discriminate]. intros H Hq.
  rewrite !andb_true_iff in H. destruct H as [_ H]. rewrite forallb_forall in H. specialize (H q Hq).
  destruct (nth_error s q) as [cq|]; [|discriminate]. apply andb_true_iff in H as [H _]. apply N.ltb_lt in H. eauto. Qed.

(* ancestor strictly below: a path of >= 1 parent steps *)
Inductive anc (s : store) : nat -> nat -> Prop :=
| anc_one i p : In p (parents s i) -> anc s i p
| anc_trans i j p : anc s i j -> In p (parents s j) -> anc s i p.

Lemma anc_reach s h i a : reach s h i -> anc s i a -> reach s h a.
Proof. intros R A. induction A as [i p Hp|i j p A IH Hp]; [eapply reach_step; eauto|eapply reach_step; [apply IH; exact R|exact Hp]]. Qed.

Lemma valid_reach_check s h i : wf_store s -> valid s h = true -> reach s h i -> check_commit s i = true.
Proof. intros W V R. unfold valid in V. apply andb_true_iff in V as [V _]. rewrite forallb_forall in V. apply V. now apply reachl_spec. Qed.

Theorem ancestor_edit_lt s h b a : wf_store s -> valid s h = true -> reach s h b -> anc s b a ->
  exists cb ca, nth_error s b = Some cb /\ nth_error s a = Some ca /\ p_edit (c_pack ca) < p_edit (c_pack cb).
Proof. intros W V R A. induction A as [i p Hp|i j p A IH Hp].
  - destruct (check_parent_lt s i p) as (ci & cq & ? & ? & ?); eauto using valid_reach_check.
  - destruct (IH R) as (cb & cj & Hb & Hj & Hlt).
    destruct (check_parent_lt s j p) as (cj' & cp & Hj' & Hp' & Hlt'); eauto using valid_reach_check, anc_reach.
    rewrite Hj in Hj'. inversion Hj'; subst. exists cb, cp. repeat split; auto. lia. Qed.

(* position lemma for sorted lists: strictly smaller edit time => all ops earlier in the concatenation *)
Definition before {A} (x y : A) (l : list A) := exists l1 l2 l3, l = l1 ++ x :: l2 ++ y :: l3.

Lemma sorted_lt_before (l : list pack) a b : sorted l -> In a l -> In b l -> p_edit a < p_edit b -> before a b l.
Proof. intros S Ha Hb Hlt. apply Sorted_StronglySorted in S; [|intros x y z; apply key_le_trans].
  induction S as [|x l S IH Hall]; [destruct Ha|]. rewrite Forall_forall in Hall.
  destruct Ha as [->|Ha], Hb as [->|Hb].
  - lia.
  - apply in_split in Hb as (l2 & l3 & ->). exists [], l2, l3. reflexivity.
  - exfalso. specialize (Hall a Ha). unfold key_le in Hall. destruct (N.eqb_spec (p_edit b) (p_edit a)); [lia|]. apply N.ltb_lt in Hall. lia.
  - destruct (IH Ha Hb) as (l1 & l2 & l3 & ->). exists (x :: l1), l2, l3. reflexivity. Qed.

Theorem C03_causal s h ops a b ca cb : wf_store s -> read s h = Some ops -> reach s h b -> anc s b a ->
  nth_error s a = Some ca -> nth_error s b = Some cb ->
  exists l, ops = concat (map p_ops l) /\ before (c_pack ca) (c_pack cb) l.
Proof. intros W Hr R A Ha Hb. unfold read in Hr. destruct (valid s h) eqn:V; [|discriminate]. inversion Hr; subst; clear Hr.
  eexists; split; [reflexivity|].
  destruct (ancestor_edit_lt s h b a W V R A) as (cb' & ca' & Hb' & Ha' & Hlt).
  rewrite Hb in Hb'; rewrite Ha in Ha'; inversion Hb'; inversion Ha'; subst.
  assert (Hin : forall i c, reach s h i -> nth_error s i = Some c -> In (c_pack c) (isort (packs_of s (reachl s h)))).
  { intros i c Ri Hi. eapply Permutation_in; [apply isort_perm|]. unfold packs_of. apply in_flat_map. exists i. split; [now apply reachl_spec|]. rewrite Hi. now left. }
  apply sorted_lt_before; [apply isort_sorted| | |exact Hlt].
  - eapply Hin; [eapply anc_reach; [exact R|exact A]|exact Ha].
  - eapply Hin; [exact R|exact Hb]. Qed.
Print Assumptions C03_causal.

(* ---- convergence ---- *)
Definition nonempty (p : pack) : bool := match p_ops p with [] => false | _ => true end.

Lemma concat_filter_nonempty l : concat (map p_ops l) = concat (map p_ops (filter nonempty l)).
Proof. induction l as [|x t IH]; cbn; [reflexivity|]. unfold nonempty at 1. destruct (p_ops x) eqn:E; cbn; [exact IH|]. now rewrite E, IH. Qed.

Lemma filter_sorted f l : sorted l -> sorted (filter f l).
Proof. intros S. apply Sorted_StronglySorted in S; [|intros x y z; apply key_le_trans].
  apply StronglySorted_Sorted. induction S as [|x l S IH Hall]; cbn; [constructor|].
  destruct (f x); [|exact IH]. constructor; [exact IH|]. rewrite Forall_forall in *. intros y Hy. apply filter_In in Hy as [Hy _]. auto. Qed.

Lemma filter_perm {A} (f : A -> bool) l1 l2 : Permutation l1 l2 -> Permutation (filter f l1) (filter f l2).
Proof. induction 1; cbn; try destruct (f x); try destruct (f y); auto; try constructor; auto. econstructor; eauto. Qed.

Theorem C01_dag_convergence s h1 h2 : valid s h1 = true -> valid s h2 = true ->
  let P1 := packs_of s (reachl s h1) in let P2 := packs_of s (reachl s h2) in
  key_inj (filter nonempty P1) ->
  Permutation (filter nonempty P1) (filter nonempty P2) ->
  read s h1 = read s h2.
Proof. intros V1 V2 P1 P2 Hinj HP. unfold read. rewrite V1, V2. f_equal.
  rewrite (concat_filter_nonempty (isort _)), (concat_filter_nonempty (isort (packs_of s (reachl s h2)))).
  f_equal. f_equal.
  transitivity (isort (filter nonempty P1)).
  - apply sorted_perm_unique; [apply filter_sorted, isort_sorted|apply isort_sorted| |].
    + eapply Permutation_trans; [apply filter_perm; symmetry; apply isort_perm|apply isort_perm].
    + intros x y Hx Hy. apply Hinj; apply filter_In; apply filter_In in Hx as [Hx ?], Hy as [Hy ?]; split; auto;
      eapply Permutation_in; try (symmetry; apply isort_perm); auto.
  - transitivity (isort (filter nonempty P2)); [now apply isort_order_independent|].
    symmetry. apply sorted_perm_unique; [apply filter_sorted, isort_sorted|apply isort_sorted| |].
    + eapply Permutation_trans; [apply filter_perm; symmetry; apply isort_perm|apply isort_perm].
    + intros x y Hx Hy. assert (Hinj2 : key_inj (filter nonempty P2)).
      { intros u v Hu Hv. apply Hinj; eapply Permutation_in; try (symmetry; exact HP); auto. }
      apply Hinj2; apply filter_In; apply filter_In in Hx as [Hx ?], Hy as [Hy ?]; split; auto;
      eapply Permutation_in; try (symmetry; apply isort_perm); auto. Qed.
Print Assumptions C01_dag_convergence.
