(* C18 — which entity the bounded cache evicts (cache/subcache.go: Resolve, entityUpdated, evictIfNeeded; cache/lru_id_cache.go).

   The sub-cache keeps the ids of the loaded entities in a list, least recently used first. Resolve of a loaded entity
   and entityUpdated move the id to the recent end (lru.Get), Resolve of an entity that is not loaded appends it
   (lru.Add) and then runs evictIfNeeded: while more than maxLoaded ids are listed, walk the list from the old end, never
   looking at the newest id, skip the entities with staged operations, lock the others for ever and drop them.
   A goroutine that uses a handle whose entity was evicted waits for ever: by design when more entities are in use than
   the cache may hold (finding F-evicted-handle). This file proves when that is NOT the case: a handle stays usable as
   long as fewer than maxLoaded distinct other entities were resolved since it was taken — and shows that this is
   exactly what a Resolve that does not refresh the position of a loaded entity breaks.                                  *)
From Coq Require Import List Arith Lia Bool Permutation.
Import ListNotations.
From GB Require Import CacheConc.

Inductive lop := LResolve (b : nat) | LNotify (b : nat).
Definition bug_of (o : lop) : nat := match o with LResolve b => b | LNotify b => b end.
Definition memb (b : nat) (l : list nat) := existsb (Nat.eqb b) l.

(* evictIfNeeded, the loop over ids[:len-1]: staged entities are skipped, the walk stops as soon as c ids are left *)
Fixpoint evict_walk (st : nat -> bool) (c : nat) (cands l : list nat) : list nat :=
  match cands with
  | [] => l
  | x :: r => if Nat.leb (length l) c then l
              else if st x then evict_walk st c r l else evict_walk st c r (remove_nat x l)
  end.
Definition evict (st : nat -> bool) (c : nat) (l : list nat) : list nat :=
  if Nat.leb (length l) c then l else evict_walk st c (removelast l) l.

(* one call; [rf]: does Resolve refresh the position of an entity that is already loaded (the code does: rf = true) *)
Definition lstep (rf : bool) (st : nat -> bool) (c : nat) (l : list nat) (o : lop) : list nat :=
  match o with
  | LResolve b => if memb b l then (if rf then touch b l else l) else evict st c (touch b l)
  | LNotify b => if memb b l then touch b l else l
  end.
Definition lrun rf st c (l : list nat) (ops : list lop) : list nat := fold_left (lstep rf st c) ops l.

(* ---- lists ---- *)
Lemma remove_nat_notin b l : ~ In b l -> remove_nat b l = l.
Proof. induction l as [|x l IH]; intros H; [reflexivity|]. cbn. destruct (Nat.eqb x b) eqn:E.
  - apply Nat.eqb_eq in E. subst. exfalso. apply H. now left.
  - cbn. f_equal. apply IH. intros K. apply H. now right. Qed.
Lemma remove_nat_head b l : remove_nat b (b :: l) = remove_nat b l.
Proof. cbn. now rewrite Nat.eqb_refl. Qed.
Lemma remove_nat_app b l1 l2 : remove_nat b (l1 ++ l2) = remove_nat b l1 ++ remove_nat b l2.
Proof. apply filter_app. Qed.
Lemma In_remove_nat b x l : In x (remove_nat b l) <-> In x l /\ x <> b.
Proof. unfold remove_nat. rewrite filter_In. split; intros [A B]; split; auto.
  - intros ->. now rewrite Nat.eqb_refl in B.
  - apply negb_true_iff. now apply Nat.eqb_neq. Qed.
Lemma NoDup_remove_nat b l : NoDup l -> NoDup (remove_nat b l).
Proof. apply NoDup_filter. Qed.
Lemma NoDup_snoc (l : list nat) b : NoDup l -> ~ In b l -> NoDup (l ++ [b]).
Proof. intros A B. apply (Permutation_NoDup (l := b :: l)); [apply Permutation_cons_append|]. now constructor. Qed.
Lemma NoDup_app_l (l1 l2 : list nat) : NoDup (l1 ++ l2) -> NoDup l1.
Proof. induction l1 as [|x l1 IH]; intros H; [constructor|]. inversion H as [|? ? N D]; subst. constructor.
  - intros K. apply N. apply in_or_app. now left.
  - now apply IH. Qed.
Lemma NoDup_app_r (l1 l2 : list nat) : NoDup (l1 ++ l2) -> NoDup l2.
Proof. induction l1 as [|x l1 IH]; intros H; [exact H|]. inversion H; subst. now apply IH. Qed.
Lemma memb_In b l : memb b l = true <-> In b l.
Proof. unfold memb. rewrite existsb_exists. split.
  - intros (x & A & B). apply Nat.eqb_eq in B. now subst.
  - intros A. exists b. split; [exact A|apply Nat.eqb_refl]. Qed.
Lemma NoDup_touch b l : NoDup l -> NoDup (touch b l).
Proof. intros H. unfold touch. apply NoDup_snoc; [now apply NoDup_remove_nat|]. rewrite In_remove_nat. now intros [_ K]. Qed.

(* ---- the walk of evictIfNeeded: the candidates [pre] are dropped from the old end; it stops for good once c are left *)
Lemma walk_keeps_tail st c : (forall x, st x = false) -> forall pre rest tail,
  NoDup (pre ++ tail) -> (rest = [] \/ length tail <= c) ->
  exists pre', evict_walk st c (pre ++ rest) (pre ++ tail) = pre' ++ tail /\ NoDup (pre' ++ tail).
Proof. intros ST. induction pre as [|p pre IH]; intros rest tail ND H.
  - exists []. split; [|exact ND]. cbn. destruct H as [->|H]; [reflexivity|].
    destruct rest as [|x r]; [reflexivity|]. cbn. apply Nat.leb_le in H. now rewrite H.
  - cbn [app evict_walk]. destruct (Nat.leb (length (p :: pre ++ tail)) c).
    + exists (p :: pre). now split.
    + rewrite ST. rewrite remove_nat_head. inversion ND as [|? ? N D]; subst.
      rewrite (remove_nat_notin p (pre ++ tail) N). now apply IH. Qed.

(* ---- the invariant: b is loaded, and everything more recent than b is one of the bugs of D ---- *)
Section Handle.
Variables (c : nat) (st : nat -> bool) (b : nat) (D : list nat).
Hypothesis nothing_staged : forall x, st x = false.
Hypothesis few : length D < c.

Definition HInv (l : list nat) : Prop := NoDup l /\ exists pre post, l = pre ++ b :: post /\ incl post D.

Lemma HInv_In l : HInv l -> In b l.
Proof. intros (_ & pre & post & -> & _). apply in_or_app. right. now left. Qed.

Lemma post_short l pre post : NoDup l -> l = pre ++ b :: post -> incl post D -> length (b :: post) <= c.
Proof. intros ND -> I. assert (NoDup post) as NP.
  { apply NoDup_app_r in ND. now inversion ND. }
  pose proof (NoDup_incl_length NP I). cbn. lia. Qed.

Lemma HInv_touch x l : HInv l -> (x <> b -> In x D) -> HInv (touch x l).
Proof. intros (ND & pre & post & E & I) HX. split; [now apply NoDup_touch|]. subst l. unfold touch.
  destruct (Nat.eq_dec x b) as [->|NE].
  - (* b itself: it becomes the most recent one *)
    exists (remove_nat b (pre ++ post)), []. split; [|intros ? []].
    rewrite !remove_nat_app, remove_nat_head, <- app_assoc. reflexivity.
  - exists (remove_nat x pre), (remove_nat x post ++ [x]). split.
    + rewrite remove_nat_app. cbn. apply Nat.eqb_neq in NE. rewrite Nat.eqb_sym in NE. rewrite NE. cbn.
      now rewrite <- app_assoc.
    + intros y Hy. apply in_app_or in Hy as [Hy|[<-|[]]]; [|now apply HX].
      apply In_remove_nat in Hy as [Hy _]. now apply I. Qed.

Lemma HInv_load x l : HInv l -> ~ In x l -> In x D -> HInv (evict st c (touch x l)).
Proof. intros H NI HX. assert (x <> b) as NE by (intros ->; apply NI; now apply HInv_In).
  pose proof (HInv_touch x l H (fun _ => HX)) as (ND & pre & post & E & I).
  unfold touch in *. rewrite (remove_nat_notin x l NI) in *.
  unfold evict. destruct (Nat.leb (length (l ++ [x])) c); [split; [exact ND|now exists pre, post]|].
  (* post ends with x: the candidates are everything but x *)
  destruct (exists_last (l := post)) as (post0 & y & EP).
  { intros ->. assert (In x (pre ++ [b])) as K.
    { assert (l ++ [x] = (pre ++ [b]) ++ []) as E2 by (rewrite E, <- app_assoc; reflexivity).
      rewrite app_nil_r in E2. rewrite <- E2. apply in_or_app. right. now left. }
      assert (pre ++ [b] = l) as E3.
      { assert (l ++ [x] = pre ++ [b]) as E2 by (rewrite E; reflexivity).
        destruct (app_inj_tail l pre x b) as [-> ->]; [exact E2|]. congruence. }
      now subst. }
  subst post. assert (l = pre ++ b :: post0 /\ y = x) as [EL ->].
  { assert (l ++ [x] = (pre ++ b :: post0) ++ [y]) as E2 by (rewrite E, <- app_assoc; reflexivity).
    apply app_inj_tail in E2. destruct E2 as [A B]. split; [exact A|now symmetry]. }
  rewrite removelast_last. rewrite E. subst l.
  destruct (walk_keeps_tail st c nothing_staged pre (b :: post0) (b :: post0 ++ [x])) as (pre' & EW & NW).
  - now rewrite <- E.
  - right. eapply post_short; [exact ND|exact E|exact I].
  - rewrite EW. split; [exact NW|]. now exists pre', (post0 ++ [x]). Qed.

Lemma HInv_step l o : HInv l -> (bug_of o <> b -> In (bug_of o) D) -> HInv (lstep true st c l o).
Proof. intros H HX. destruct o as [x|x]; cbn [lstep bug_of] in *.
  - destruct (memb x l) eqn:M; [now apply HInv_touch|].
    assert (~ In x l) as NI by (intros K; apply memb_In in K; congruence).
    apply HInv_load; [exact H|exact NI|]. apply HX. intros ->. apply NI. now apply HInv_In.
  - destruct (memb x l); [now apply HInv_touch|exact H]. Qed.

Lemma HInv_run ops : forall l, HInv l -> (forall o, In o ops -> bug_of o <> b -> In (bug_of o) D) -> HInv (lrun true st c l ops).
Proof. induction ops as [|o ops IH]; intros l H HX; [exact H|]. cbn. apply IH.
  - apply HInv_step; [exact H|]. apply HX. now left.
  - intros o' Ho'. apply HX. now right. Qed.

(* taking the handle: Resolve puts b at the recent end, whether it was loaded or not *)
Lemma HInv_resolve l : NoDup l -> HInv (lstep true st c l (LResolve b)).
Proof. intros ND. cbn. destruct (memb b l) eqn:M.
  - split; [now apply NoDup_touch|]. exists (remove_nat b l), []. split; [reflexivity|intros ? []].
  - assert (~ In b l) as NI by (intros K; apply memb_In in K; congruence).
    unfold touch. rewrite (remove_nat_notin b l NI). unfold evict.
    assert (NoDup (l ++ [b])) as N2 by now apply NoDup_snoc.
    destruct (Nat.leb (length (l ++ [b])) c).
    + split; [exact N2|]. exists l, []. split; [reflexivity|intros ? []].
    + rewrite removelast_last.
      destruct (walk_keeps_tail st c nothing_staged l [] [b]) as (pre' & EW & NW); [exact N2|now left|].
      rewrite app_nil_r in EW. rewrite EW. split; [exact NW|]. exists pre', []. split; [reflexivity|intros ? []]. Qed.
End Handle.

(* A goroutine resolves b (loaded or not) on a cache that may hold c entities; afterwards, in any order, entities are
   resolved (loading and evicting as needed) and notified, fewer than c distinct ones other than b, and nothing is
   staged while an entity is loaded: b is still loaded, its handle is usable. *)
Theorem recent_handle_survives c st l b ops D :
  (forall x, st x = false) -> NoDup l ->
  (forall o, In o ops -> bug_of o <> b -> In (bug_of o) D) -> length D < c ->
  In b (lrun true st c (lstep true st c l (LResolve b)) ops).
Proof. intros ST ND HX F. apply (HInv_In b D). apply HInv_run; [exact ST|exact F| |exact HX]. now apply HInv_resolve. Qed.

(* With a Resolve that hands out a loaded entity without refreshing its position: the cache may hold 3 entities, 2 is the
   least recently used of the loaded ones; a goroutine resolves 2, another one resolves 1 (not loaded): 2 is evicted. *)
Theorem stale_position_handle_evicted : exists c l b ops D,
  NoDup l /\ (forall o, In o ops -> bug_of o <> b -> In (bug_of o) D) /\ length D < c /\
  ~ In b (lrun false (fun _ => false) c (lstep false (fun _ => false) c l (LResolve b)) ops).
Proof. exists 3, [2; 3; 4], 2, [LResolve 1], [1]. split; [|split; [|split]].
  - repeat constructor; cbn; intuition discriminate.
  - intros o [<-|[]] _. now left.
  - cbn. lia.
  - cbn. intros [H|[H|[H|[]]]]; discriminate. Qed.

(* the same calls with the Resolve of the code *)
Example same_calls_refreshing : lrun true (fun _ => false) 3 (lstep true (fun _ => false) 3 [2; 3; 4] (LResolve 2)) [LResolve 1] = [4; 2; 1].
Proof. reflexivity. Qed.
