From Coq Require Import List Arith NArith Bool Lia.
Import ListNotations.
Local Open Scope N_scope.

Inductive mres := MNothing | MUpdated (l : list N) | MInvalid.

(* Identity.Merge over version commit hashes: walk the remote versions; beyond the local end, append; on a differing hash, refuse *)
Fixpoint merge_go (loc rem : list N) {struct rem} : option (list N * bool) :=
  match rem with
  | [] => Some (loc, false)
  | o :: rem' =>
    match loc with
    | [] => Some (rem, true)                          (* every remaining remote version is appended *)
    | x :: loc' => if N.eqb x o then match merge_go loc' rem' with Some (l, m) => Some (x :: l, m) | None => None end
                   else None
    end
  end.
Definition merge_identity (loc rem : list N) : mres :=
  match merge_go loc rem with None => MInvalid | Some (l, true) => MUpdated l | Some (_, false) => MNothing end.

Lemma merge_go_ext loc suf : suf <> [] -> merge_go loc (loc ++ suf) = Some (loc ++ suf, true).
Proof. intros H. induction loc as [|x t IH]; cbn.
  - destruct suf; [congruence|reflexivity].
  - rewrite N.eqb_refl, IH. reflexivity. Qed.
Lemma merge_go_behind rem suf : merge_go (rem ++ suf) rem = Some (rem ++ suf, false).
Proof. induction rem as [|x t IH]; cbn; [reflexivity|]. rewrite N.eqb_refl, IH. reflexivity. Qed.

Definition prefix (a b : list N) := exists s, b = a ++ s.

Lemma merge_go_none loc rem : merge_go loc rem = None -> ~ prefix loc rem /\ ~ prefix rem loc.
Proof. revert loc. induction rem as [|o r IH]; intros loc H; cbn in H; [discriminate|].
  destruct loc as [|x l]; [discriminate|]. destruct (N.eqb_spec x o) as [->|Hne].
  - destruct (merge_go l r) as [[? ?]|] eqn:E; [discriminate|]. destruct (IH l E) as [A B].
    split; intros [s Hs]; inversion Hs; [apply A|apply B]; eexists; eauto.
  - split; intros [s Hs]; inversion Hs; congruence. Qed.

Lemma merge_go_some_prefix : forall rem loc l m, merge_go loc rem = Some (l, m) -> prefix loc rem \/ prefix rem loc.
Proof. induction rem as [|o r IH]; intros loc l m E.
  - right. exists loc. reflexivity.
  - destruct loc as [|x t]; [left; eexists; reflexivity|]. cbn in E. destruct (N.eqb_spec x o) as [->|]; [|discriminate].
    destruct (merge_go t r) as [[l' m']|] eqn:E'; [|discriminate].
    destruct (IH t l' m' E') as [[s Hs]|[s Hs]]; [left|right]; exists s; now rewrite Hs. Qed.

Theorem C09_updated loc suf : suf <> [] -> merge_identity loc (loc ++ suf) = MUpdated (loc ++ suf).
Proof. intros H. unfold merge_identity. now rewrite merge_go_ext. Qed.
Theorem C09_nothing rem suf : merge_identity (rem ++ suf) rem = MNothing.
Proof. unfold merge_identity. now rewrite merge_go_behind. Qed.
Theorem C09_invalid_iff loc rem : merge_identity loc rem = MInvalid <-> (~ prefix loc rem /\ ~ prefix rem loc).
Proof. unfold merge_identity. split.
  - destruct (merge_go loc rem) as [[l [|]]|] eqn:E; try discriminate. intros _. now apply merge_go_none.
  - intros [A B]. destruct (merge_go loc rem) as [[l m]|] eqn:E; [|reflexivity].
    destruct (merge_go_some_prefix _ _ _ _ E); contradiction. Qed.
Print Assumptions C09_invalid_iff.
