(* C06 — a crash during any write leaves every entity in its old or new state. Property theorems only. *)
From Coq Require Import List Arith NArith Bool.
Import ListNotations.
From GB Require Import Reach Sort Read Good Snoc Ext Decimal ClockFile.

(* for every write path made of object writes followed by one ref update, and every crash point k:
   each entity reads exactly as before, or (only the entity being written) exactly as after the complete path *)
Theorem C06_atomic st cs e h k : wf_store (objs st) -> refs_ok st ->
  let crashed := fold_left apply_mut (firstn k (write_path cs e h)) st in
  let final := fold_left apply_mut (write_path cs e h) st in
  forall e', read_entity crashed e' = read_entity st e' \/
             (e' = e /\ read_entity crashed e' = read_entity final e').
Proof. exact (Ext.C06_atomic st cs e h k). Qed.
Print Assumptions C06_atomic.

(* objects that no ref reaches do not change what is read: unreachable garbage left by a crash is harmless *)
Theorem C06_garbage_harmless s ext h : wf_store s -> h < length s -> read (s ++ ext) h = read s h.
Proof. exact (read_app_old s ext h). Qed.
Print Assumptions C06_garbage_harmless.

(* clock file written aside and renamed: in every crash state it loads, to a value that is not older *)
Theorem C06_clock_safe o n s : (o <= n)%N -> (n < 2 ^ 64)%N -> In s (crash_states PRename (print_u64 o) (print_u64 n)) ->
  exists v, load s = Some v /\ (o <= v)%N.
Proof. exact (rename_safe o n s). Qed.
Print Assumptions C06_clock_safe.

(* written in place (truncate, then write), a crash can leave an unreadable clock or a readable older one *)
Theorem C06_inplace_refuted :
  (In [] (crash_states PInPlace (print_u64 13) (print_u64 14)) /\ load [] = None) /\
  (exists s v, In s (crash_states PInPlace (print_u64 13) (print_u64 14)) /\ load s = Some v /\ (v < 13)%N).
Proof. exact (conj inplace_unsafe_empty inplace_unsafe_regress). Qed.
Print Assumptions C06_inplace_refuted.
