(* C06 — a crash during any write leaves every entity in its old or new state. Property theorems only. *)
From Coq Require Import List Arith NArith Bool.
Import ListNotations.
From GB Require Import Reach Sort Read Good Snoc Ext Decimal ClockFile ClockDir Rebuild RebuildProps.

(* for every write path made of object writes followed by one ref update, and every crash point k:
   each entity reads exactly as before, or (only the entity being written) exactly as after the complete path *)
Theorem C06_atomic st cs e h k : wf_store (objs st) -> refs_ok st ->
  let crashed := fold_left apply_mut (firstn k (write_path cs e h)) st in
  let final := fold_left apply_mut (write_path cs e h) st in
  forall e', read_entity crashed e' = read_entity st e' \/
             (e' = e /\ read_entity crashed e' = read_entity final e').
Proof. exact (Ext.C06_atomic st cs e h k). Qed.
Print Assumptions C06_atomic.

(* objects that no ref reaches do not change what is read: unreachable garbage left by a crash is harmless *)
Theorem C06_garbage_harmless s ext h : wf_store s -> h < length s -> read (s ++ ext) h = read s h.
Proof. exact (read_app_old s ext h). Qed.
Print Assumptions C06_garbage_harmless.

(* clock file written aside and renamed: in every crash state it loads, to a value that is not older *)
Theorem C06_clock_safe o n s : (o <= n)%N -> (n < 2 ^ 64)%N -> In s (crash_states PRename (print_u64 o) (print_u64 n)) ->
  exists v, load s = Some v /\ (o <= v)%N.
Proof. exact (rename_safe o n s). Qed.
Print Assumptions C06_clock_safe.

(* written in place (truncate, then write), a crash can leave an unreadable clock or a readable older one *)
Theorem C06_inplace_refuted :
  (In [] (crash_states PInPlace (print_u64 13) (print_u64 14)) /\ load [] = None) /\
  (exists s v, In s (crash_states PInPlace (print_u64 13) (print_u64 14)) /\ load s = Some v /\ (v < 13)%N).
Proof. exact (conj inplace_unsafe_empty inplace_unsafe_regress). Qed.
Print Assumptions C06_inplace_refuted.

(* the files around the clock: with the temporary file outside the clocks directory, in every crash state of one
   clock write (before each file operation, inside the write of the temporary file, after the rename) the
   directory AllClocks lists holds exactly the clock, which loads to a value that is not older *)
Theorem C06_clock_dir_safe in_dir tmp clock o n s :
  in_dir tmp = false -> in_dir clock = true -> (o <= n)%N -> (n < 2 ^ 64)%N ->
  In s (fs_crashes [(clock, print_u64 o)] (write_aside tmp clock (print_u64 n))) ->
  exists c v, listing in_dir s = [(clock, c)] /\ load c = Some v /\ (o <= v)%N.
Proof. exact (aside_outside_safe in_dir tmp clock o n s). Qed.
Print Assumptions C06_clock_dir_safe.

(* with the temporary file inside that directory a crash leaves an entry that is not a clock *)
Theorem C06_tmp_in_clock_dir_refuted : exists in_dir tmp clock s,
  in_dir tmp = true /\ in_dir clock = true /\
  In s (fs_crashes [(clock, print_u64 13)] (write_aside tmp clock (print_u64 14))) /\
  In (tmp, []) (listing in_dir s) /\ load [] = None.
Proof. exact aside_inside_unsafe. Qed.
Print Assumptions C06_tmp_in_clock_dir_refuted.

(* the clock rebuild of an open, as atomic disk mutations (drop the broken clocks, set the marker, create and
   witness, clear the marker): whatever the instant at which an open dies - and however many opens die in a row -
   the next complete open ends with every clock at or above every stored time, for every order of the witnesses *)
Theorem C06_rebuild_restartable d ws k : in_range d ws -> safe d ws ->
  let d' := run d (firstn k (open_actions d ws)) in dominated (run d' (open_actions d' ws)) ws.
Proof. exact (rebuild_restartable d ws k). Qed.
Print Assumptions C06_rebuild_restartable.

Theorem C06_rebuild_restartable_many ks d ws : in_range d ws -> safe d ws ->
  dominated (run (crashes d ws ks) (open_actions (crashes d ws ks) ws)) ws.
Proof. exact (rebuild_restartable_many ks d ws). Qed.
Print Assumptions C06_rebuild_restartable_many.

(* every crash state of an open is again safe: the rebuild is still owed, or the clocks already dominate *)
Theorem C06_rebuild_crash_states_safe d ws k : in_range d ws -> safe d ws -> safe (run d (firstn k (open_actions d ws))) ws.
Proof. exact (open_crash_safe d ws k). Qed.
Print Assumptions C06_rebuild_crash_states_safe.

(* the pinned open (a rebuild only when a clock is missing or broken): an open that dies after the first
   entity's witnesses leaves clocks that all exist, the next open does nothing, a clock stays below a stored time *)
Theorem C06_rebuild_pinned_refuted : exists d ws k,
  need_p d = true /\ in_range d ws /\
  let d' := run d (firstn k (open_actions_p d ws)) in ~ dominated (run d' (open_actions_p d' ws)) ws.
Proof. exact rebuild_pinned_refuted. Qed.
Print Assumptions C06_rebuild_pinned_refuted.
