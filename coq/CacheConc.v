(* C18 — data model of concurrent use of one RepoCache (cache/subcache.go, cached.go, bug_cache.go,
   bug_subcache.go, entity/dag/entity.go:Commit), at the granularity of the critical sections of the code.

   A thread is a list of sections; one step of the interleaving semantics runs one section of one thread.
   A section protected by one lock is one step (justified by Conc.C18_mutex); what stays visible of the locks:
   - the sub-cache lock has an owner (cown) while evictIfNeeded walks its victims, because that section
     takes entity locks inside and other threads' entity sections interleave with it;
   - the entity lock of an evicted instance is taken for ever (i_dead): a section that needs it can never
     run, so a blocked configuration is a reachable state (exec returns None), not excluded by fiat.
   Operations and bugs are numbered by counters (ids are content hashes with a nonce: fresh, unguessable).
   [fixed = false] is the pinned Resolve (read outside the lock, then install unconditionally),
   [fixed = true] the repaired one (re-check and read while holding the write lock).                     *)
From Coq Require Import List Arith Lia Bool.
Import ListNotations.
From GB Require Import Conc.

Definition chain := list (list nat).              (* packs of operation numbers, root first *)
Record inst := mkinst { i_bug : nat; i_chain : chain; i_stage : list nat; i_dead : bool }.

Record shared := mksh {
  git : nat -> option chain;        (* refs/bugs/<b> -> stored history *)
  insts : list inst;                (* every BugCache ever made; a handle is an index *)
  cached : nat -> option nat;       (* SubCache.cached *)
  lru : list nat;                   (* oldest first *)
  maxl : nat;                       (* maxLoaded *)
  cown : option nat;                (* thread inside evictIfNeeded *)
  excerpt : nat -> option (list nat);
  nextop : nat; nextbug : nat }.

Inductive ckind := KNew | KEdit (commit : bool) | KCommit | KRead.
Record callres := mkres { r_kind : ckind; r_bug : nat; r_op : nat; r_e1 : nat; r_e2 : nat }.
(* error classes: 0 ok, 1 nothing to commit, 2 entity missing from cache, 3 not found, 4 other, 7 not attempted *)

Inductive sec :=
  | SBegin (k : ckind) (b : nat)
  | SLookup (b : nat)      (* Resolve: mu.RLock { cached[id] } *)
  | SMiss (b : nat)        (* Resolve: branch on the result *)
  | SLoad (b : nat)        (* repaired Resolve: mu.Lock { re-check; read; install } *)
  | SRead (b : nat)        (* pinned Resolve: read, no lock *)
  | SInstall (b : nat)     (* pinned Resolve: mu.Lock { cached[id] = new instance } *)
  | SEvictBegin            (* evictIfNeeded: mu.Lock, list the victims *)
  | SEvCheck (b : nat)     (*   NeedCommit(): entity RLock *)
  | SEvLock (b : nat)      (*   entity Lock for ever; delete *)
  | SEvictEnd              (*   mu.Unlock *)
  | SAppend                (* entity Lock { append to staging } *)
  | SNotify (slot : bool)  (* entityUpdated: mu.Lock { excerpt of cached[id] } ; slot: error goes to e1 (false) / e2 (true) *)
  | SNotifyRd              (* an entityUpdated that is NOT the code's: mu.RLock { cached[id] }; excerpt computed, no lock held *)
  | SNotifySt              (*   ... mu.Lock { excerpts[id] = that excerpt }   (CacheExcerpt.split_notify_stale) *)
  | SCommit                (* entity Lock { Entity.Commit } *)
  | SCreate                (* bug.Create + Commit: the new ref *)
  | SAdd                   (* SubCache.add: mu.Lock { cached[id] = instance } *)
  | SReadC                 (* AllIds / Query / ...: mu.RLock *)
  | SEnd.

Record thr := mkthr {
  code : list sec; reg : option nat; rdbuf : option chain;
  kind : ckind; cbug : nat; curop : nat;
  e1 : nat; e2 : nat; results : list callres }.

(* the calls of the API as sequences of sections *)
Inductive call := New | Edit (b : nat) (commit : bool) | Commit (b : nat) | Resolve (b : nat) | ReadAll.
Definition code_of (c : call) : list sec :=
  match c with
  | New => [SBegin KNew 0; SCreate; SAdd; SEvictBegin; SNotify false; SEnd]
  | Edit b cm => [SBegin (KEdit cm) b; SLookup b; SMiss b; SAppend; SNotify false] ++ (if cm then [SCommit; SNotify true] else []) ++ [SEnd]
  | Commit b => [SBegin KCommit b; SLookup b; SMiss b; SCommit; SNotify true; SEnd]
  | Resolve b => [SBegin KRead b; SLookup b; SMiss b; SEnd]
  | ReadAll => [SBegin KRead 0; SReadC; SEnd]
  end.
Definition thread_of (cs : list call) : thr :=
  mkthr (concat (map code_of cs)) None None KRead 0 0 0 7 [].

Definition fupd {A} (f : nat -> option A) (k : nat) (v : option A) : nat -> option A :=
  fun k' => if Nat.eqb k' k then v else f k'.
Definition stored (s : shared) (b : nat) : list nat := match git s b with Some ch => concat ch | None => [] end.
Definition remove_nat (b : nat) (l : list nat) := filter (fun x => negb (Nat.eqb x b)) l.
Definition touch (b : nat) (l : list nat) := remove_nat b l ++ [b].

(* an error ends the call: drop the sections up to its SEnd *)
Fixpoint skip_to_end (c : list sec) : list sec :=
  match c with [] => [] | SEnd :: _ => c | _ :: r => skip_to_end r end.
Fixpoint skip_to_evict_end (c : list sec) : list sec :=
  match c with [] => [] | SEvictEnd :: _ => c | _ :: r => skip_to_evict_end r end.

Definition is_nil {A} (l : list A) := match l with [] => true | _ => false end.
Definition is_none {A} (o : option A) := match o with None => true | _ => false end.
Definition is_edit (k : ckind) := match k with KEdit _ => true | _ => false end.
Definition is_new (k : ckind) := match k with KNew => true | _ => false end.

Definition set_code (th : thr) c := mkthr c (reg th) (rdbuf th) (kind th) (cbug th) (curop th) (e1 th) (e2 th) (results th).
Definition fail1 (th : thr) (e : nat) (rest : list sec) :=
  mkthr (skip_to_end rest) (reg th) (rdbuf th) (kind th) (cbug th) (curop th) e (e2 th) (results th).
Definition fail2 (th : thr) (e : nat) (rest : list sec) :=
  mkthr (skip_to_end rest) (reg th) (rdbuf th) (kind th) (cbug th) (curop th) (e1 th) e (results th).
(* a new handle in the register: the operation and the commit status of the call start again *)
Definition set_reg (th : thr) (r : option nat) c :=
  mkthr c r (rdbuf th) (kind th) (cbug th) 0 (e1 th) 7 (results th).

Definition with_insts (s : shared) l := mksh (git s) l (cached s) (lru s) (maxl s) (cown s) (excerpt s) (nextop s) (nextbug s).
Definition with_cown (s : shared) o := mksh (git s) (insts s) (cached s) (lru s) (maxl s) o (excerpt s) (nextop s) (nextbug s).
Definition with_lru (s : shared) l := mksh (git s) (insts s) (cached s) l (maxl s) (cown s) (excerpt s) (nextop s) (nextbug s).

(* one section of thread t; None: the thread has to wait *)
Definition exec (fixed : bool) (t : nat) (s : shared) (th : thr) : option (shared * thr) :=
  match code th with
  | [] => None
  | SBegin k b :: rest =>
      Some (s, mkthr rest None None k b 0 0 7 (results th))
  | SLookup b :: rest =>
      if is_none (cown s) then
        match cached s b with
        | Some i => Some (with_lru s (touch b (lru s)), set_reg th (Some i) rest)
        | None => Some (s, set_reg th None rest)
        end
      else None
  | SMiss b :: rest =>
      match reg th with
      | Some _ => Some (s, set_code th rest)
      | None => Some (s, set_code th ((if fixed then [SLoad b] else [SRead b; SInstall b]) ++ rest))
      end
  | SLoad b :: rest =>
      if negb fixed then Some (s, fail1 th 4 rest) else
      if is_none (cown s) then
        match cached s b with
        | Some i => Some (with_lru s (touch b (lru s)), set_reg th (Some i) rest)
        | None =>
            match git s b with
            | None => Some (s, fail1 th 3 rest)
            | Some ch =>
                let i := length (insts s) in
                Some (mksh (git s) (insts s ++ [mkinst b ch [] false]) (fupd (cached s) b (Some i)) (touch b (lru s))
                           (maxl s) (cown s) (excerpt s) (nextop s) (nextbug s),
                      set_reg th (Some i) (SEvictBegin :: rest))
            end
        end
      else None
  | SRead b :: rest =>
      if fixed then Some (s, fail1 th 4 rest) else
      match git s b with
      | None => Some (s, fail1 th 3 rest)
      | Some ch => Some (s, mkthr rest (reg th) (Some ch) (kind th) (cbug th) (curop th) (e1 th) (e2 th) (results th))
      end
  | SInstall b :: rest =>
      if fixed then Some (s, fail1 th 4 rest) else
      if is_none (cown s) then
        match rdbuf th with
        | None => Some (s, fail1 th 4 rest)
        | Some ch =>
            let i := length (insts s) in
            Some (mksh (git s) (insts s ++ [mkinst b ch [] false]) (fupd (cached s) b (Some i)) (touch b (lru s))
                       (maxl s) (cown s) (excerpt s) (nextop s) (nextbug s),
                  set_reg th (Some i) (SEvictBegin :: rest))
        end
      else None
  | SEvictBegin :: rest =>
      if is_none (cown s) then
        if Nat.leb (length (lru s)) (maxl s) then Some (s, set_code th rest)
        else Some (with_cown s (Some t), set_code th (map SEvCheck (lru s) ++ SEvictEnd :: rest))
      else None
  | SEvCheck b :: rest =>
      match cached s b with
      | Some i =>
          match nth_error (insts s) i with
          | Some ins => if is_nil (i_stage ins) then Some (s, set_code th (SEvLock b :: rest)) else Some (s, set_code th rest)
          | None => Some (s, set_code th rest)
          end
      | None => Some (s, set_code th rest)
      end
  | SEvLock b :: rest =>
      match cached s b with
      | Some i =>
          match nth_error (insts s) i with
          | Some ins =>
              let l' := remove_nat b (lru s) in
              Some (mksh (git s) (upd (insts s) i (mkinst (i_bug ins) (i_chain ins) (i_stage ins) true)) (fupd (cached s) b None) l'
                         (maxl s) (cown s) (excerpt s) (nextop s) (nextbug s),
                    set_code th (if Nat.leb (length l') (maxl s) then skip_to_evict_end rest else rest))
          | None => Some (s, set_code th rest)
          end
      | None => Some (s, set_code th rest)
      end
  | SEvictEnd :: rest => Some (with_cown s None, set_code th rest)
  | SAppend :: rest =>
      if negb (is_edit (kind th)) then Some (s, fail1 th 4 rest) else
      match reg th with
      | None => Some (s, fail1 th 4 rest)
      | Some i =>
          match nth_error (insts s) i with
          | None => Some (s, fail1 th 4 rest)
          | Some ins =>
              if i_dead ins then None else
              let o := nextop s in
              Some (mksh (git s) (upd (insts s) i (mkinst (i_bug ins) (i_chain ins) (i_stage ins ++ [o]) false)) (cached s) (lru s)
                         (maxl s) (cown s) (excerpt s) (S o) (nextbug s),
                    mkthr rest (reg th) (rdbuf th) (kind th) (i_bug ins) o (e1 th) 7 (results th))
          end
      end
  | SNotify slot :: rest =>
      if is_none (cown s) then
        let b := match reg th with
                 | Some i => match nth_error (insts s) i with Some ins => i_bug ins | None => cbug th end
                 | None => cbug th end in
        match cached s b with
        | Some j =>
            match nth_error (insts s) j with
            | Some ins => Some (mksh (git s) (insts s) (cached s) (touch b (lru s)) (maxl s) (cown s)
                                     (fupd (excerpt s) b (Some (concat (i_chain ins) ++ i_stage ins))) (nextop s) (nextbug s),
                                set_code th rest)
            | None => Some (s, set_code th rest)
            end
        | None => Some (s, if slot then fail2 th 2 rest else fail1 th 2 rest)
        end
      else None
  | SNotifyRd :: rest =>
      if is_none (cown s) then
        let b := match reg th with
                 | Some i => match nth_error (insts s) i with Some ins => i_bug ins | None => cbug th end
                 | None => cbug th end in
        match cached s b with
        | Some j =>
            match nth_error (insts s) j with
            | Some ins => Some (s, mkthr rest (reg th) (Some [concat (i_chain ins) ++ i_stage ins]) (kind th) (cbug th) (curop th) (e1 th) (e2 th) (results th))
            | None => Some (s, set_code th rest)
            end
        | None => Some (s, fail1 th 2 rest)
        end
      else None
  | SNotifySt :: rest =>
      if is_none (cown s) then
        let b := match reg th with
                 | Some i => match nth_error (insts s) i with Some ins => i_bug ins | None => cbug th end
                 | None => cbug th end in
        match rdbuf th with
        | Some ch => Some (mksh (git s) (insts s) (cached s) (lru s) (maxl s) (cown s)
                                (fupd (excerpt s) b (Some (concat ch))) (nextop s) (nextbug s), set_code th rest)
        | None => Some (s, set_code th rest)
        end
      else None
  | SCommit :: rest =>
      match reg th with
      | None => Some (s, fail2 th 4 rest)
      | Some i =>
          match nth_error (insts s) i with
          | None => Some (s, fail2 th 4 rest)
          | Some ins =>
              if i_dead ins then None else
              if is_nil (i_stage ins) then
                Some (s, mkthr (skip_to_end rest) (reg th) (rdbuf th) (kind th) (cbug th) (curop th) (e1 th) 1 (results th))
              else
                let ch := i_chain ins ++ [i_stage ins] in
                Some (mksh (fupd (git s) (i_bug ins) (Some ch)) (upd (insts s) i (mkinst (i_bug ins) ch [] false)) (cached s) (lru s)
                           (maxl s) (cown s) (excerpt s) (nextop s) (nextbug s),
                      mkthr rest (reg th) (rdbuf th) (kind th) (cbug th) (curop th) (e1 th) 0 (results th))
          end
      end
  | SCreate :: rest =>
      if negb (is_new (kind th)) then Some (s, fail1 th 4 rest) else
      if negb (Nat.eqb (curop th) 0) then Some (s, fail1 th 4 rest) else
      let b := nextbug s in let o := nextop s in
      Some (mksh (fupd (git s) b (Some [[o]])) (insts s) (cached s) (lru s) (maxl s) (cown s) (excerpt s) (S o) (S b),
            mkthr rest None (rdbuf th) (kind th) b o (e1 th) (e2 th) (results th))
  | SAdd :: rest =>
      if negb (is_new (kind th)) then Some (s, fail1 th 4 rest) else
      if is_none (cown s) then
        match cached s (cbug th), git s (cbug th) with
        | None, Some ch =>
            let i := length (insts s) in
            Some (mksh (git s) (insts s ++ [mkinst (cbug th) ch [] false]) (fupd (cached s) (cbug th) (Some i)) (touch (cbug th) (lru s))
                       (maxl s) (cown s) (excerpt s) (nextop s) (nextbug s),
                  mkthr rest (Some i) (rdbuf th) (kind th) (cbug th) (curop th) (e1 th) (e2 th) (results th))
        | _, _ => Some (s, fail1 th 4 rest)   (* "already exist in the cache" *)
        end
      else None
  | SReadC :: rest => if is_none (cown s) then Some (s, set_code th rest) else None
  | SEnd :: rest =>
      Some (s, mkthr rest None None (kind th) (cbug th) 0 (e1 th) (e2 th)
                     (results th ++ [mkres (kind th) (cbug th) (curop th) (e1 th) (e2 th)]))
  end.

Definition cfg := (shared * list thr)%type.
Definition step (fixed : bool) (c : cfg) (t : nat) : option cfg :=
  match nth_error (snd c) t with
  | Some th => match exec fixed t (fst c) th with
               | Some (s', th') => Some (s', upd (snd c) t th')
               | None => None end
  | None => None
  end.
(* naming a thread that cannot run is a no-op: every execution of the system is the run of some schedule *)
Fixpoint run (fixed : bool) (sched : list nat) (c : cfg) : cfg :=
  match sched with
  | [] => c
  | t :: r => run fixed r (match step fixed c t with Some c' => c' | None => c end)
  end.

Definition blockedb (fixed : bool) (c : cfg) : bool :=
  existsb (fun th => negb (is_nil (code th))) (snd c) &&
  forallb (fun t => is_none (step fixed c t)) (seq 0 (length (snd c))).

(* what a client counts as acknowledged: the call returned success (a Commit that found nothing left to
   commit — somebody else's Commit took the staged operation along — counts as success) *)
Definition ackedb (r : callres) : bool :=
  match r_kind r with
  | KNew => Nat.eqb (r_e1 r) 0 && negb (Nat.eqb (r_op r) 0)
  | KEdit true => Nat.eqb (r_e1 r) 0 && (Nat.eqb (r_e2 r) 0 || Nat.eqb (r_e2 r) 1) && negb (Nat.eqb (r_op r) 0)
  | _ => false
  end.

(* the state after the set-up of a run: n bugs with one stored operation each; loaded (same session) or not (reopened cache) *)
Fixpoint init_git (n : nat) : nat -> option chain :=
  match n with 0 => fun _ => None | S k => fupd (init_git k) (S k) (Some [[S k]]) end.
(* (the excerpts of a cache that was just opened are those of the stored histories) *)
Definition init_cold (n maxloaded : nat) : shared :=
  mksh (init_git n) [] (fun _ => None) [] maxloaded None
       (fun b => match init_git n b with Some ch => Some (concat ch) | None => None end) (S n) (S n).

(* ------------------------------------------------------------------------------------------------ *)
(* Invariant of the repaired cache.  Stated over the components it depends on, so that sections which
   only move the LRU list, the excerpts or the owner of the sub-cache lock keep it by definition.       *)
Definition storedg (g : nat -> option chain) (b : nat) : list nat := match g b with Some ch => concat ch | None => [] end.

Record InvC (g : nat -> option chain) (l : list inst) (c : nat -> option nat) (no nb : nat) : Prop := {
  (* a cached instance is alive and up to date with the stored history *)
  iA : forall b i, c b = Some i -> exists ins, nth_error l i = Some ins /\ i_bug ins = b /\ i_dead ins = false /\ g b = Some (i_chain ins);
  (* the only instance of a bug that is not locked for ever is the cached one *)
  iB : forall i ins, nth_error l i = Some ins -> i_dead ins = false -> c (i_bug ins) = Some i;
  (* operations are stored at most once and were issued *)
  iC1 : forall b, NoDup (storedg g b) /\ forall o, In o (storedg g b) -> o < no;
  iC2 : forall i ins, nth_error l i = Some ins ->
        NoDup (i_stage ins) /\ forall o, In o (i_stage ins) -> o < no /\ ~ In o (storedg g (i_bug ins));
  iC3 : forall i j a b o, nth_error l i = Some a -> nth_error l j = Some b -> i <> j -> In o (i_stage a) -> ~ In o (i_stage b);
  iF : forall b, nb <= b -> g b = None /\ c b = None;
  iG : forall i ins, nth_error l i = Some ins -> i_bug ins < nb }.

Definition Inv (s : shared) := InvC (git s) (insts s) (cached s) (nextop s) (nextbug s).

Lemma fupd_eq {A} (f : nat -> option A) k v : fupd f k v k = v.
Proof. unfold fupd. now rewrite Nat.eqb_refl. Qed.
Lemma fupd_neq {A} (f : nat -> option A) k v k' : k' <> k -> fupd f k v k' = f k'.
Proof. unfold fupd. intros H. apply Nat.eqb_neq in H. now rewrite H. Qed.

Lemma nth_app_one {A} (l : list A) x i y : nth_error (l ++ [x]) i = Some y ->
  (i < length l /\ nth_error l i = Some y) \/ (i = length l /\ y = x).
Proof. intros H. destruct (Nat.lt_ge_cases i (length l)) as [L|G].
  - left. split; [exact L|]. now rewrite nth_error_app1 in H.
  - right. rewrite nth_error_app2 in H by exact G. destruct (i - length l) as [|k] eqn:E.
    + cbn in H. injection H as <-. split; [lia|reflexivity].
    + cbn in H. destruct k; discriminate. Qed.

Lemma nth_lt {A} (l : list A) i x : nth_error l i = Some x -> i < length l.
Proof. intros H. apply nth_error_Some. congruence. Qed.

Lemma nth_upd_same {A} (l : list A) i x y : nth_error l i = Some y -> nth_error (upd l i x) i = Some x.
Proof. intros H. rewrite nth_upd, Nat.eqb_refl, H. reflexivity. Qed.
Lemma nth_upd_other {A} (l : list A) i x j : j <> i -> nth_error (upd l i x) j = nth_error l j.
Proof. intros H. rewrite nth_upd. apply Nat.eqb_neq in H. now rewrite H. Qed.
Lemma nth_upd_inv {A} (l : list A) i x j y : nth_error (upd l i x) j = Some y ->
  (j = i /\ y = x /\ exists z, nth_error l i = Some z) \/ (j <> i /\ nth_error l j = Some y).
Proof. rewrite nth_upd. destruct (Nat.eqb j i) eqn:E.
  - apply Nat.eqb_eq in E. subst j. destruct (nth_error l i) eqn:N; [|discriminate]. intros [= <-]. left. eauto.
  - apply Nat.eqb_neq in E. intros H. now right. Qed.

(* 1. a new instance read from the stored history is installed for a bug that has none (SLoad, SAdd) *)
Lemma inv_load g l c no nb b ch : InvC g l c no nb -> c b = None -> g b = Some ch ->
  InvC g (l ++ [mkinst b ch [] false]) (fupd c b (Some (length l))) no nb.
Proof. intros I Cb Gb. assert (Bnb : b < nb).
  { destruct (Nat.lt_ge_cases b nb) as [L|G]; [exact L|]. destruct (iF _ _ _ _ _ I b G) as [Hg _]. congruence. }
  constructor.
  - intros b' i H. destruct (Nat.eq_dec b' b) as [->|N].
    + rewrite fupd_eq in H. injection H as <-. exists (mkinst b ch [] false). rewrite nth_error_app2, Nat.sub_diag by lia. cbn. auto.
    + rewrite fupd_neq in H by exact N. destruct (iA _ _ _ _ _ I b' i H) as (ins & Hn & R). exists ins.
      rewrite nth_error_app1 by (eapply nth_lt; eauto). auto.
  - intros i ins H D. apply nth_app_one in H as [[L H]|[-> ->]]; cbn.
    + pose proof (iB _ _ _ _ _ I i ins H D) as Hc. destruct (Nat.eq_dec (i_bug ins) b) as [E|N]; [rewrite E in Hc; congruence|].
      now rewrite fupd_neq.
    + now rewrite fupd_eq.
  - exact (iC1 _ _ _ _ _ I).
  - intros i ins H. apply nth_app_one in H as [[L H]|[-> ->]]; [exact (iC2 _ _ _ _ _ I i ins H)|]. cbn. split; [constructor|intros o []].
  - intros i j a b0 o Hi Hj Nij Ho. apply nth_app_one in Hi as [[Li Hi]|[-> ->]]; [|destruct Ho].
    apply nth_app_one in Hj as [[Lj Hj]|[-> ->]]; [exact (iC3 _ _ _ _ _ I i j a b0 o Hi Hj Nij Ho)|]. cbn. tauto.
  - intros b' H. destruct (iF _ _ _ _ _ I b' H) as [Hg Hc]. split; [exact Hg|]. rewrite fupd_neq by lia. exact Hc.
  - intros i ins H. apply nth_app_one in H as [[L H]|[-> ->]]; [exact (iG _ _ _ _ _ I i ins H)|]. exact Bnb. Qed.

(* 2. eviction: the cached instance of b is locked for ever and forgotten (SEvLock) *)
Lemma inv_evlock g l c no nb b i ins : InvC g l c no nb -> c b = Some i -> nth_error l i = Some ins ->
  InvC g (upd l i (mkinst (i_bug ins) (i_chain ins) (i_stage ins) true)) (fupd c b None) no nb.
Proof. intros I Cb Hi. destruct (iA _ _ _ _ _ I b i Cb) as (ins0 & H0 & Bb & Dd & Gb). rewrite Hi in H0. injection H0 as <-.
  constructor.
  - intros b' i' H. destruct (Nat.eq_dec b' b) as [->|N]; [rewrite fupd_eq in H; discriminate|]. rewrite fupd_neq in H by exact N.
    destruct (iA _ _ _ _ _ I b' i' H) as (ins' & Hn & R). exists ins'. split; [|exact R].
    rewrite nth_upd_other; [exact Hn|]. intros ->. rewrite Hi in Hn. injection Hn as <-. destruct R as (R & _). congruence.
  - intros j x H D. apply nth_upd_inv in H as [(-> & -> & _)|(N & H)]; [discriminate D|].
    pose proof (iB _ _ _ _ _ I j x H D) as Hc. destruct (Nat.eq_dec (i_bug x) b) as [E|Nb]; [rewrite E in Hc; congruence|].
    now rewrite fupd_neq.
  - exact (iC1 _ _ _ _ _ I).
  - intros j x H. apply nth_upd_inv in H as [(-> & -> & _)|(N & H)]; [exact (iC2 _ _ _ _ _ I i ins Hi)|exact (iC2 _ _ _ _ _ I j x H)].
  - intros j k a b0 o Hj Hk Njk Ho.
    apply nth_upd_inv in Hj as [(-> & -> & _)|(Nj & Hj)]; apply nth_upd_inv in Hk as [(-> & -> & _)|(Nk & Hk)]; cbn in *.
    + congruence.
    + exact (iC3 _ _ _ _ _ I i k ins b0 o Hi Hk Njk Ho).
    + exact (iC3 _ _ _ _ _ I j i a ins o Hj Hi Njk Ho).
    + exact (iC3 _ _ _ _ _ I j k a b0 o Hj Hk Njk Ho).
  - intros b' H. destruct (iF _ _ _ _ _ I b' H) as [Hg Hc]. split; [exact Hg|]. unfold fupd. destruct (Nat.eqb b' b); auto.
  - intros j x H. apply nth_upd_inv in H as [(-> & -> & _)|(N & H)]; [exact (iG _ _ _ _ _ I i ins Hi)|exact (iG _ _ _ _ _ I j x H)]. Qed.

Lemma NoDup_snoc {A} (l : list A) x : NoDup l -> ~ In x l -> NoDup (l ++ [x]).
Proof. induction 1 as [|y t Hy Ht IH]; cbn; intros Hx; [constructor; [tauto|constructor]|].
  constructor; [|apply IH; tauto]. rewrite in_app_iff. cbn. intros [H|[H|[]]]; [tauto|subst; tauto]. Qed.
Lemma NoDup_append {A} (a b : list A) : NoDup a -> NoDup b -> (forall x, In x b -> ~ In x a) -> NoDup (a ++ b).
Proof. induction 1 as [|y t Hy Ht IH]; cbn; intros Hb D; [exact Hb|]. constructor.
  - rewrite in_app_iff. intros [H|H]; [tauto|]. apply (D y H). now left.
  - apply IH; [exact Hb|]. intros x Hx Hi. apply (D x Hx). now right. Qed.

Lemma storedg_eq g b v : storedg (fupd g b (Some v)) b = concat v.
Proof. unfold storedg. now rewrite fupd_eq. Qed.
Lemma storedg_neq g b v b' : b' <> b -> storedg (fupd g b v) b' = storedg g b'.
Proof. intros H. unfold storedg. now rewrite fupd_neq. Qed.
Lemma concat_snoc {A} (ch : list (list A)) p : concat (ch ++ [p]) = concat ch ++ p.
Proof. rewrite concat_app. cbn. now rewrite app_nil_r. Qed.

(* 3. an operation with a fresh number is staged on a live instance (SAppend) *)
Lemma inv_append g l c no nb i ins : InvC g l c no nb -> nth_error l i = Some ins -> i_dead ins = false ->
  InvC g (upd l i (mkinst (i_bug ins) (i_chain ins) (i_stage ins ++ [no]) false)) c (S no) nb.
Proof. intros I Hi Dd. destruct (iC2 _ _ _ _ _ I i ins Hi) as [ND Hst].
  assert (Fresh : forall j x, nth_error l j = Some x -> ~ In no (i_stage x)).
  { intros j x Hj Hin. destruct (iC2 _ _ _ _ _ I j x Hj) as [_ H]. specialize (H no Hin). lia. }
  constructor.
  - intros b i' H. destruct (iA _ _ _ _ _ I b i' H) as (x & Hn & R). destruct (Nat.eq_dec i' i) as [->|N].
    + rewrite Hi in Hn. injection Hn as <-. eexists. split; [eapply nth_upd_same; eauto|]. cbn. tauto.
    + exists x. now rewrite nth_upd_other.
  - intros j x H D. apply nth_upd_inv in H as [(-> & -> & _)|(N & H)]; cbn; [exact (iB _ _ _ _ _ I i ins Hi Dd)|exact (iB _ _ _ _ _ I j x H D)].
  - intros b. destruct (iC1 _ _ _ _ _ I b) as [H1 H2]. split; [exact H1|]. intros o Ho. specialize (H2 o Ho). lia.
  - intros j x H. apply nth_upd_inv in H as [(-> & -> & _)|(N & H)]; cbn.
    + split; [apply NoDup_snoc; [exact ND|exact (Fresh i ins Hi)]|]. intros o Ho. apply in_app_iff in Ho as [Ho|[<-|[]]].
      * destruct (Hst o Ho). split; [lia|assumption].
      * split; [lia|]. intros Hin. destruct (iC1 _ _ _ _ _ I (i_bug ins)) as [_ H2]. specialize (H2 _ Hin). lia.
    + destruct (iC2 _ _ _ _ _ I j x H) as [H1 H2]. split; [exact H1|]. intros o Ho. destruct (H2 o Ho). split; [lia|assumption].
  - intros j k a b0 o Hj Hk Njk Ho.
    apply nth_upd_inv in Hj as [(-> & -> & _)|(Nj & Hj)]; apply nth_upd_inv in Hk as [(-> & -> & _)|(Nk & Hk)]; cbn in *.
    + congruence.
    + apply in_app_iff in Ho as [Ho|[<-|[]]]; [exact (iC3 _ _ _ _ _ I i k ins b0 o Hi Hk Njk Ho)|exact (Fresh k b0 Hk)].
    + rewrite in_app_iff. intros [H|[<-|[]]]; [exact (iC3 _ _ _ _ _ I j i a ins o Hj Hi Njk Ho H)|exact (Fresh j a Hj Ho)].
    + exact (iC3 _ _ _ _ _ I j k a b0 o Hj Hk Njk Ho).
  - exact (iF _ _ _ _ _ I).
  - intros j x H. apply nth_upd_inv in H as [(-> & -> & _)|(N & H)]; [exact (iG _ _ _ _ _ I i ins Hi)|exact (iG _ _ _ _ _ I j x H)]. Qed.

(* 4. a live instance commits its staged operations on top of the history it knows (SCommit) *)
Lemma inv_commit g l c no nb i ins : InvC g l c no nb -> nth_error l i = Some ins -> i_dead ins = false ->
  InvC (fupd g (i_bug ins) (Some (i_chain ins ++ [i_stage ins])))
       (upd l i (mkinst (i_bug ins) (i_chain ins ++ [i_stage ins]) [] false)) c no nb.
Proof. intros I Hi Dd. set (bb := i_bug ins).
  pose proof (iB _ _ _ _ _ I i ins Hi Dd) as Cb. fold bb in Cb.
  destruct (iA _ _ _ _ _ I bb i Cb) as (x0 & H0 & _ & _ & Gb). rewrite Hi in H0. injection H0 as <-.
  assert (St : storedg g bb = concat (i_chain ins)) by (unfold storedg; now rewrite Gb).
  destruct (iC2 _ _ _ _ _ I i ins Hi) as [ND Hst]. fold bb in Hst.
  constructor.
  - intros b i' H. destruct (iA _ _ _ _ _ I b i' H) as (x & Hn & Bx & Dx & Gx). destruct (Nat.eq_dec i' i) as [->|N].
    + rewrite Hi in Hn. injection Hn as <-. fold bb in Bx. subst b. eexists. split; [eapply nth_upd_same; eauto|]. cbn. now rewrite fupd_eq.
    + exists x. rewrite nth_upd_other by exact N. repeat split; try assumption. rewrite fupd_neq; [exact Gx|].
      intros ->. rewrite Cb in H. congruence.
  - intros j x H D. apply nth_upd_inv in H as [(-> & -> & _)|(N & H)]; cbn; [exact Cb|exact (iB _ _ _ _ _ I j x H D)].
  - intros b. destruct (Nat.eq_dec b bb) as [->|N].
    + rewrite storedg_eq, concat_snoc. destruct (iC1 _ _ _ _ _ I bb) as [H1 H2]. rewrite St in H1, H2. split.
      * apply NoDup_append; [exact H1|exact ND|]. intros o Ho. rewrite <- St. exact (proj2 (Hst o Ho)).
      * intros o Ho. apply in_app_iff in Ho as [Ho|Ho]; [exact (H2 o Ho)|exact (proj1 (Hst o Ho))].
    + rewrite storedg_neq by exact N. exact (iC1 _ _ _ _ _ I b).
  - intros j x H. apply nth_upd_inv in H as [(-> & -> & _)|(N & H)]; cbn; [split; [constructor|intros o []]|].
    destruct (iC2 _ _ _ _ _ I j x H) as [H1 H2]. split; [exact H1|]. intros o Ho. destruct (H2 o Ho) as [Lo No]. split; [exact Lo|].
    destruct (Nat.eq_dec (i_bug x) bb) as [E|Nb]; [|now rewrite storedg_neq].
    rewrite E, storedg_eq, concat_snoc, in_app_iff. rewrite E, St in No. intros [Hc|Hc]; [exact (No Hc)|].
    exact (iC3 _ _ _ _ _ I j i x ins o H Hi N Ho Hc).
  - intros j k a b0 o Hj Hk Njk Ho.
    apply nth_upd_inv in Hj as [(-> & -> & _)|(Nj & Hj)]; apply nth_upd_inv in Hk as [(-> & -> & _)|(Nk & Hk)]; cbn in *; try tauto.
    exact (iC3 _ _ _ _ _ I j k a b0 o Hj Hk Njk Ho).
  - intros b H. destruct (iF _ _ _ _ _ I b H) as [Hg Hc]. split; [|exact Hc]. rewrite fupd_neq; [exact Hg|].
    pose proof (iG _ _ _ _ _ I i ins Hi). fold bb in H0. lia.
  - intros j x H. apply nth_upd_inv in H as [(-> & -> & _)|(N & H)]; [exact (iG _ _ _ _ _ I i ins Hi)|exact (iG _ _ _ _ _ I j x H)]. Qed.

(* 5. a new bug is created and stored (SCreate) *)
Lemma inv_create g l c no nb : InvC g l c no nb -> InvC (fupd g nb (Some [[no]])) l c (S no) (S nb).
Proof. intros I. destruct (iF _ _ _ _ _ I nb (le_n nb)) as [Gn Cn]. constructor.
  - intros b i H. destruct (iA _ _ _ _ _ I b i H) as (x & Hn & Bx & Dx & Gx). exists x. repeat split; try assumption.
    rewrite fupd_neq; [exact Gx|]. intros ->. congruence.
  - exact (iB _ _ _ _ _ I).
  - intros b. destruct (Nat.eq_dec b nb) as [->|N].
    + rewrite storedg_eq. cbn. split; [constructor; [tauto|constructor]|]. intros o [<-|[]]. lia.
    + rewrite storedg_neq by exact N. destruct (iC1 _ _ _ _ _ I b) as [H1 H2]. split; [exact H1|]. intros o Ho. specialize (H2 o Ho). lia.
  - intros j x H. destruct (iC2 _ _ _ _ _ I j x H) as [H1 H2]. split; [exact H1|]. intros o Ho. destruct (H2 o Ho) as [Lo No].
    split; [lia|]. rewrite storedg_neq; [exact No|]. pose proof (iG _ _ _ _ _ I j x H). lia.
  - exact (iC3 _ _ _ _ _ I).
  - intros b H. destruct (iF _ _ _ _ _ I b) as [Hg Hc]; [lia|]. split; [|exact Hc]. rewrite fupd_neq by lia. exact Hg.
  - intros j x H. pose proof (iG _ _ _ _ _ I j x H). lia. Qed.

(* ------------------------------------------------------------------------------------------------ *)
(* What every section preserves for the other threads: stored histories only grow at their end, an
   operation that is staged or stored stays staged or stored.                                          *)
Definition ext (g : nat -> option chain) (l : list inst) (g' : nat -> option chain) (l' : list inst) : Prop :=
  (forall b ch, g b = Some ch -> exists e, g' b = Some (ch ++ e)) /\
  (forall i ins, nth_error l i = Some ins -> exists ins', nth_error l' i = Some ins' /\ i_bug ins' = i_bug ins /\
     forall o, In o (i_stage ins) \/ In o (storedg g (i_bug ins)) -> In o (i_stage ins') \/ In o (storedg g' (i_bug ins))).

Lemma ext_stored g l g' l' b o : ext g l g' l' -> In o (storedg g b) -> In o (storedg g' b).
Proof. intros [H _]. unfold storedg. destruct (g b) as [ch|] eqn:E; [|intros []]. destruct (H b ch E) as (e & ->).
  rewrite concat_app, in_app_iff. tauto. Qed.

Lemma ext_refl g l : ext g l g l.
Proof. split; [intros b ch H; exists []; now rewrite app_nil_r|]. intros i ins H. exists ins. tauto. Qed.

Lemma ext_load g l x : ext g l g (l ++ [x]).
Proof. split; [intros b ch H; exists []; now rewrite app_nil_r|]. intros i ins H. exists ins.
  rewrite nth_error_app1 by (eapply nth_lt; eauto). tauto. Qed.

Lemma ext_upd_stage g l i ins x : nth_error l i = Some ins -> i_bug x = i_bug ins -> (forall o, In o (i_stage ins) -> In o (i_stage x)) ->
  ext g l g (upd l i x).
Proof. intros Hi Bx St. split; [intros b ch H; exists []; now rewrite app_nil_r|]. intros j y Hj. destruct (Nat.eq_dec j i) as [->|N].
  - rewrite Hi in Hj. injection Hj as <-. exists x. split; [eapply nth_upd_same; eauto|]. split; [exact Bx|]. intros o [H|H]; auto.
  - exists y. rewrite nth_upd_other by exact N. tauto. Qed.

Lemma ext_commit g l c no nb i ins : InvC g l c no nb -> nth_error l i = Some ins -> i_dead ins = false ->
  ext g l (fupd g (i_bug ins) (Some (i_chain ins ++ [i_stage ins]))) (upd l i (mkinst (i_bug ins) (i_chain ins ++ [i_stage ins]) [] false)).
Proof. intros I Hi Dd. pose proof (iB _ _ _ _ _ I i ins Hi Dd) as Cb.
  destruct (iA _ _ _ _ _ I _ i Cb) as (x0 & H0 & _ & _ & Gb). rewrite Hi in H0. injection H0 as <-.
  assert (G1 : forall b ch, g b = Some ch -> exists e, fupd g (i_bug ins) (Some (i_chain ins ++ [i_stage ins])) b = Some (ch ++ e)).
  { intros b ch H. destruct (Nat.eq_dec b (i_bug ins)) as [->|N].
    - rewrite fupd_eq. rewrite Gb in H. injection H as <-. eauto.
    - rewrite fupd_neq by exact N. exists []. now rewrite app_nil_r. }
  assert (Mono : forall b o, In o (storedg g b) -> In o (storedg (fupd g (i_bug ins) (Some (i_chain ins ++ [i_stage ins]))) b)).
  { intros b o. unfold storedg. destruct (g b) as [ch|] eqn:E; [|intros []]. destruct (G1 b ch E) as (e & ->).
    rewrite concat_app, in_app_iff. tauto. }
  split; [exact G1|]. intros j y Hj. destruct (Nat.eq_dec j i) as [->|N].
  - rewrite Hi in Hj. injection Hj as <-. eexists. split; [eapply nth_upd_same; eauto|]. cbn. split; [reflexivity|].
    intros o [H|H]; right; [|now apply Mono]. rewrite storedg_eq, concat_snoc, in_app_iff. now right.
  - exists y. rewrite nth_upd_other by exact N. split; [exact Hj|]. split; [reflexivity|]. intros o [H|H]; [now left|right; now apply Mono]. Qed.

Lemma ext_create g l c no nb : InvC g l c no nb -> ext g l (fupd g nb (Some [[no]])) l.
Proof. intros I. destruct (iF _ _ _ _ _ I nb (le_n nb)) as [Gn _].
  assert (G1 : forall b ch, g b = Some ch -> exists e, fupd g nb (Some [[no]]) b = Some (ch ++ e)).
  { intros b ch H. rewrite fupd_neq by (intros ->; congruence). exists []. now rewrite app_nil_r. }
  split; [exact G1|]. intros i ins H. exists ins. split; [exact H|]. split; [reflexivity|]. intros o [Ho|Ho]; [now left|right].
  rewrite storedg_neq; [exact Ho|]. pose proof (iG _ _ _ _ _ I i ins H). lia. Qed.

(* what a thread knows about the operation of its current call, and about the calls it has finished *)
Record TInv (g : nat -> option chain) (l : list inst) (th : thr) : Prop := {
  tK : is_edit (kind th) = true -> curop th <> 0 -> exists i ins, reg th = Some i /\ nth_error l i = Some ins /\ i_bug ins = cbug th /\
       (In (curop th) (i_stage ins) \/ In (curop th) (storedg g (cbug th)));
  tD2 : is_edit (kind th) = true -> curop th <> 0 -> e2 th = 0 \/ e2 th = 1 -> In (curop th) (storedg g (cbug th));
  tD3 : kind th = KNew -> curop th <> 0 -> In (curop th) (storedg g (cbug th));
  tR : forall r, In r (results th) -> ackedb r = true -> In (r_op r) (storedg g (r_bug r)) }.

Lemma TInv_ext g l g' l' th : ext g l g' l' -> TInv g l th -> TInv g' l' th.
Proof. intros E T. constructor.
  - intros K C. destruct (tK _ _ _ T K C) as (i & ins & R & Hn & B & D). destruct (proj2 E i ins Hn) as (ins' & Hn' & B' & P).
    exists i, ins'. repeat split; try assumption; [congruence|]. rewrite <- B. apply P. now rewrite B.
  - intros K C H. eapply ext_stored; eauto. exact (tD2 _ _ _ T K C H).
  - intros K C. eapply ext_stored; eauto. exact (tD3 _ _ _ T K C).
  - intros r Hr A. eapply ext_stored; eauto. exact (tR _ _ _ T r Hr A). Qed.

Lemma TInv_keep g l th th' : kind th' = kind th -> cbug th' = cbug th -> curop th' = curop th -> reg th' = reg th ->
  results th' = results th -> (e2 th' = 0 \/ e2 th' = 1 -> e2 th' = e2 th) -> TInv g l th -> TInv g l th'.
Proof. intros K B C R Rs E T. constructor; rewrite ?K, ?B, ?C, ?R, ?Rs.
  - exact (tK _ _ _ T).
  - intros Hk Hc He. apply (tD2 _ _ _ T Hk Hc). rewrite <- (E He). exact He.
  - exact (tD3 _ _ _ T).
  - exact (tR _ _ _ T). Qed.

Lemma TInv_reset g l th th' : curop th' = 0 -> results th' = results th -> TInv g l th -> TInv g l th'.
Proof. intros C Rs T. constructor; rewrite ?C, ?Rs; try (intros; congruence). exact (tR _ _ _ T). Qed.

Lemma TInv_end g l th th' : curop th' = 0 ->
  results th' = results th ++ [mkres (kind th) (cbug th) (curop th) (e1 th) (e2 th)] -> TInv g l th -> TInv g l th'.
Proof. intros C Rs T. constructor; rewrite ?C, ?Rs; try (intros; congruence).
  intros r Hr A. apply in_app_iff in Hr as [Hr|[<-|[]]]; [exact (tR _ _ _ T r Hr A)|]. unfold ackedb in A. cbn in *.
  destruct (kind th) as [|[|]| |] eqn:K; try discriminate.
  - apply andb_true_iff in A as [_ A]. apply negb_true_iff, Nat.eqb_neq in A. exact (tD3 _ _ _ T K A).
  - apply andb_true_iff in A as [A A3]. apply andb_true_iff in A as [_ A2]. apply negb_true_iff, Nat.eqb_neq in A3.
    apply (tD2 _ _ _ T); [now rewrite K|exact A3|]. apply orb_true_iff in A2 as [A2|A2]; apply Nat.eqb_eq in A2; tauto. Qed.

Ltac break H := repeat match type of H with
  | context [match ?x with _ => _ end] => destruct x eqn:?; try discriminate H end.
Ltac tinv_easy T th := unfold set_code, set_reg, fail1, fail2;
   first [ apply (TInv_keep _ _ th); [reflexivity|reflexivity|reflexivity|reflexivity|reflexivity|cbn; intros [?|?]; congruence|exact T]
         | apply (TInv_reset _ _ th); [reflexivity|reflexivity|exact T] ].
Ltac easy_case I T th := split; [exact I|split; [apply ext_refl|tinv_easy T th]].

Lemma is_nil_true {A} (l : list A) : is_nil l = true -> l = [].
Proof. destruct l; [reflexivity|discriminate]. Qed.
Lemma is_edit_not_new k : is_edit k = true -> k <> KNew.
Proof. destruct k; discriminate. Qed.
Lemma is_new_not_edit k : is_new k = true -> is_edit k = false.
Proof. destruct k; try discriminate; reflexivity. Qed.

(* one section of the repaired cache keeps everything *)
Lemma exec_ok t s th s' th' : Inv s -> TInv (git s) (insts s) th -> exec true t s th = Some (s', th') ->
  Inv s' /\ ext (git s) (insts s) (git s') (insts s') /\ TInv (git s') (insts s') th'.
Proof. intros I T H. unfold exec in H. change (negb true) with false in H. cbv iota in H. unfold Inv in *.
  break H; injection H as <- <-; cbn [git insts cached nextop nextbug with_lru with_cown with_insts fst snd]; try solve [easy_case I T th].
  - (* SLoad: a new instance *)
    match goal with Hc : cached s ?b = None, Hg : git s ?b = Some _ |- _ =>
      split; [apply inv_load; assumption|split; [apply ext_load|]] end.
    unfold set_reg. apply (TInv_reset _ _ th); [reflexivity|reflexivity|]. eapply TInv_ext; [apply ext_load|exact T].
  - (* SEvLock, enough evicted *)
    match goal with Hc : cached s ?b = Some ?n, Hn : nth_error (insts s) ?n = Some ?i |- _ =>
      assert (E : ext (git s) (insts s) (git s) (upd (insts s) n (mkinst (i_bug i) (i_chain i) (i_stage i) true)))
        by (apply (ext_upd_stage _ _ _ i); [exact Hn|reflexivity|auto]);
      split; [apply inv_evlock; assumption|split; [exact E|]] end.
    unfold set_code. apply (TInv_keep _ _ th); try reflexivity. eapply TInv_ext; [exact E|exact T].
  - (* SEvLock, more to evict *)
    match goal with Hc : cached s ?b = Some ?n, Hn : nth_error (insts s) ?n = Some ?i |- _ =>
      assert (E : ext (git s) (insts s) (git s) (upd (insts s) n (mkinst (i_bug i) (i_chain i) (i_stage i) true)))
        by (apply (ext_upd_stage _ _ _ i); [exact Hn|reflexivity|auto]);
      split; [apply inv_evlock; assumption|split; [exact E|]] end.
    unfold set_code. apply (TInv_keep _ _ th); try reflexivity. eapply TInv_ext; [exact E|exact T].
  - (* SAppend *)
    match goal with Hr : reg th = Some ?n, Hn : nth_error (insts s) ?n = Some ?i, Hd : i_dead ?i = false, Hk : negb (is_edit (kind th)) = false |- _ =>
      assert (E : ext (git s) (insts s) (git s) (upd (insts s) n (mkinst (i_bug i) (i_chain i) (i_stage i ++ [nextop s]) false)))
        by (apply (ext_upd_stage _ _ _ i); [exact Hn|reflexivity|intros o Ho; apply in_app_iff; now left]);
      split; [apply inv_append; assumption|split; [exact E|]];
      pose proof (TInv_ext _ _ _ _ th E T) as T'; apply negb_false_iff in Hk; constructor; cbn end.
    + intros _ _. eexists _, _. split; [first [eassumption|reflexivity]|]. split; [eapply nth_upd_same; eassumption|]. cbn. split; [reflexivity|].
      left. apply in_app_iff. right. now left.
    + intros _ _ [?|?]; discriminate.
    + intros K. match goal with Hk : is_edit (kind th) = true |- _ => apply is_edit_not_new in Hk; contradiction end.
    + exact (tR _ _ _ T').
  - (* SCommit: nothing staged any more *)
    split; [exact I|split; [apply ext_refl|]].
    match goal with Hr : reg th = Some ?n, Hn : nth_error (insts s) ?n = Some ?i, Hs : is_nil (i_stage ?i) = true |- _ =>
      apply is_nil_true in Hs; rewrite <- Hr; constructor; cbn; [exact (tK _ _ _ T)| |exact (tD3 _ _ _ T)|exact (tR _ _ _ T)];
      intros K C _; destruct (tK _ _ _ T K C) as (i0 & ins0 & R0 & N0 & _ & [D|D]); [|exact D];
      rewrite Hr in R0; injection R0 as <-; rewrite Hn in N0; injection N0 as <-; rewrite Hs in D; destruct D end.
  - (* SCommit *)
    match goal with Hr : reg th = Some ?n, Hn : nth_error (insts s) ?n = Some ?i, Hd : i_dead ?i = false |- _ =>
      pose proof (ext_commit _ _ _ _ _ n i I Hn Hd) as E;
      split; [apply inv_commit; assumption|split; [exact E|]];
      pose proof (TInv_ext _ _ _ _ th E T) as T'; rewrite <- Hr; constructor; cbn; [exact (tK _ _ _ T')| |exact (tD3 _ _ _ T')|exact (tR _ _ _ T')];
      intros K C _; destruct (tK _ _ _ T' K C) as (i0 & ins0 & R0 & N0 & _ & [D|D]); [|exact D];
      rewrite Hr in R0; injection R0 as <-; rewrite (nth_upd_same _ _ _ _ Hn) in N0; injection N0 as <-; destruct D end.
  - (* SCreate *)
    pose proof (ext_create _ _ _ _ _ I) as E. split; [apply inv_create; exact I|split; [exact E|]].
    pose proof (TInv_ext _ _ _ _ th E T) as T'.
    match goal with Hk : negb (is_new (kind th)) = false |- _ => apply negb_false_iff in Hk; pose proof (is_new_not_edit _ Hk) as Hk' end.
    constructor; cbn; try (intros; congruence); [|exact (tR _ _ _ T')].
    intros _ _. rewrite storedg_eq. cbn. now left.
  - (* SAdd *)
    match goal with Hc : cached s (cbug th) = None, Hg : git s (cbug th) = Some _ |- _ =>
      split; [apply inv_load; assumption|split; [apply ext_load|]] end.
    match goal with Hk : negb (is_new (kind th)) = false |- _ => apply negb_false_iff in Hk; pose proof (is_new_not_edit _ Hk) as Hk' end.
    match goal with Hg : git s (cbug th) = Some ?c |- _ =>
      pose proof (TInv_ext _ _ _ _ th (ext_load (git s) (insts s) (mkinst (cbug th) c [] false)) T) as T' end.
    constructor; cbn; try (intros; congruence); [exact (tD3 _ _ _ T')|exact (tR _ _ _ T')].
  - (* SEnd *)
    split; [exact I|split; [apply ext_refl|]]. apply (TInv_end _ _ th); [reflexivity|reflexivity|exact T]. Qed.

Lemma ext_trans g1 l1 g2 l2 g3 l3 : ext g1 l1 g2 l2 -> ext g2 l2 g3 l3 -> ext g1 l1 g3 l3.
Proof. intros [A1 B1] [A2 B2]. split.
  - intros b ch H. destruct (A1 b ch H) as (e & H2). destruct (A2 b _ H2) as (e' & H3). exists (e ++ e'). now rewrite app_assoc.
  - intros i ins H. destruct (B1 i ins H) as (x & Hx & Bx & Px). destruct (B2 i x Hx) as (y & Hy & By & Py).
    exists y. split; [exact Hy|]. split; [congruence|]. intros o Ho. rewrite <- Bx. apply Py. rewrite Bx. now apply Px. Qed.

Definition Good (c : cfg) := Inv (fst c) /\ forall th, In th (snd c) -> TInv (git (fst c)) (insts (fst c)) th.

Lemma step_good c t c' : Good c -> step true c t = Some c' ->
  Good c' /\ ext (git (fst c)) (insts (fst c)) (git (fst c')) (insts (fst c')).
Proof. intros [I TT] H. unfold step in H. destruct (nth_error (snd c) t) as [th|] eqn:E; [|discriminate].
  destruct (exec true t (fst c) th) as [[s' th']|] eqn:X; [|discriminate]. injection H as <-. cbn.
  destruct (exec_ok _ _ _ _ _ I (TT th (nth_error_In _ _ E)) X) as (I' & Ex & T'). split; [|exact Ex]. split; [exact I'|].
  intros u Hu. apply In_upd in Hu as [->|Hu]; [exact T'|]. eapply TInv_ext; [exact Ex|exact (TT u Hu)]. Qed.

Lemma run_good sched : forall c, Good c ->
  Good (run true sched c) /\ ext (git (fst c)) (insts (fst c)) (git (fst (run true sched c))) (insts (fst (run true sched c))).
Proof. induction sched as [|t r IH]; intros c G; cbn; [split; [exact G|apply ext_refl]|].
  destruct (step true c t) as [c'|] eqn:E; [|exact (IH c G)].
  destruct (step_good _ _ _ G E) as [G' E1]. destruct (IH c' G') as [G'' E2]. split; [exact G''|eapply ext_trans; eauto]. Qed.

(* the properties, for every schedule of the repaired cache *)
Lemma no_lost_ack c0 sched : Good c0 -> let c := run true sched c0 in
  forall th r, In th (snd c) -> In r (results th) -> ackedb r = true ->
  count_occ Nat.eq_dec (stored (fst c) (r_bug r)) (r_op r) = 1.
Proof. intros G c th r Hth Hr A. destruct (run_good sched c0 G) as [[I TT] _]. fold c in I, TT.
  apply NoDup_count_occ'; [exact (proj1 (iC1 _ _ _ _ _ I (r_bug r)))|]. exact (tR _ _ _ (TT th Hth) r Hr A). Qed.

Lemma history_append_only c0 sched : Good c0 -> forall b ch, git (fst c0) b = Some ch ->
  exists e, git (fst (run true sched c0)) b = Some (ch ++ e).
Proof. intros G b ch H. destruct (run_good sched c0 G) as [_ [E _]]. exact (E b ch H). Qed.

Lemma stored_once_and_issued c0 sched : Good c0 -> let c := run true sched c0 in
  forall b, NoDup (stored (fst c) b) /\ forall o, In o (stored (fst c) b) -> o < nextop (fst c).
Proof. intros G c b. destruct (run_good sched c0 G) as [[I _] _]. exact (iC1 _ _ _ _ _ I b). Qed.

(* the initial states of the runs are good *)
Lemma init_git_spec n b : init_git n b = if Nat.leb 1 b && Nat.leb b n then Some [[b]] else None.
Proof. induction n as [|k IH]; cbn [init_git].
  - destruct (Nat.leb 1 b) eqn:A; cbn; [|reflexivity]. destruct b; [discriminate|reflexivity].
  - unfold fupd. destruct (Nat.eqb b (S k)) eqn:E.
    + apply Nat.eqb_eq in E. subst b. cbn. now rewrite Nat.leb_refl.
    + rewrite IH. apply Nat.eqb_neq in E. destruct (Nat.leb 1 b); cbn; [|reflexivity].
      destruct (Nat.leb b k) eqn:L1, (Nat.leb b (S k)) eqn:L2; try reflexivity;
        [apply Nat.leb_le in L1; apply Nat.leb_gt in L2; lia|apply Nat.leb_gt in L1; apply Nat.leb_le in L2; lia]. Qed.

Lemma nth_nil {A} i (x : A) : nth_error [] i = Some x -> False.
Proof. destruct i; discriminate. Qed.

Lemma init_good n m (progs : list (list call)) : Good (init_cold n m, map thread_of progs).
Proof. split; cbn.
  - constructor; cbn.
    + intros; discriminate.
    + intros i ins H. destruct (nth_nil _ _ H).
    + intros b. unfold storedg. rewrite init_git_spec. destruct (Nat.leb 1 b && Nat.leb b n) eqn:E; cbn; [|split; [constructor|intros o []]].
      split; [constructor; [tauto|constructor]|]. intros o [<-|[]]. apply andb_true_iff in E as [_ E]. apply Nat.leb_le in E. lia.
    + intros i ins H. destruct (nth_nil _ _ H).
    + intros i j a b o H. destruct (nth_nil _ _ H).
    + intros b H. rewrite init_git_spec. split; [|reflexivity]. destruct (Nat.leb b n) eqn:E; [apply Nat.leb_le in E; lia|]. now rewrite andb_false_r.
    + intros i ins H. destruct (nth_nil _ _ H).
  - intros th H. apply in_map_iff in H as (p & <- & _). constructor; cbn; try (intros; congruence). intros r []. Qed.

(* the pinned Resolve: two goroutines resolve the same bug that is not loaded, both miss, both read,
   both install; each then works on its own copy and the second Commit overwrites the first one's ref *)
Definition lostb (c : cfg) : bool :=
  existsb (fun th => existsb (fun r => ackedb r && negb (existsb (Nat.eqb (r_op r)) (stored (fst c) (r_bug r)))) (results th)) (snd c).

Lemma double_load_loses_ack : exists progs sched,
  lostb (run false sched (init_cold 1 1000, map thread_of progs)) = true.
Proof. exists [[Edit 1 true]; [Edit 1 true]], ([0;0;0; 1;1;1; 0;0;0; 1;1;1] ++ repeat 0 10 ++ repeat 1 10). vm_compute. reflexivity. Qed.

(* the same programs and schedule on the repaired cache *)
Example double_load_repaired :
  lostb (run true ([0;0;0; 1;1;1; 0;0;0; 1;1;1] ++ repeat 0 10 ++ repeat 1 10) (init_cold 1 1000, map thread_of [[Edit 1 true]; [Edit 1 true]])) = false.
Proof. vm_compute. reflexivity. Qed.

(* by design: a handle whose entity was evicted between Resolve and its use waits for ever *)
Lemma evicted_handle_blocks : exists progs sched,
  blockedb true (run true sched (init_cold 2 1, map thread_of progs)) = true.
Proof. exists [[Edit 1 true]; [Resolve 2]], ([0;0;0;0;0] ++ repeat 1 12 ++ [0;0]). vm_compute. reflexivity. Qed.

(* ------------------------------------------------------------------------------------------------ *)
(* The outcome of a run as a client sees it (results of the calls, stored histories), and the checks
   that K_C18 evaluates on the implementation's outcome: they are the conclusions of the lemmas above. *)
Definition acks_stored_once (rs : list callres) (st : nat -> list nat) : bool :=
  forallb (fun r => implb (ackedb r) (Nat.eqb (count_occ Nat.eq_dec (st (r_bug r)) (r_op r)) 1)) rs.

Definition cls1 (e : nat) := existsb (Nat.eqb e) [0; 2; 3; 4].
Definition cls2 (e : nat) := existsb (Nat.eqb e) [7; 0; 1; 2; 4].
Definition classes_ok (rs : list callres) : bool := forallb (fun r => cls1 (r_e1 r) && cls2 (r_e2 r)) rs.

Lemma allowed_acks c0 sched : Good c0 -> let c := run true sched c0 in
  acks_stored_once (flat_map results (snd c)) (stored (fst c)) = true.
Proof. intros G c. apply forallb_forall. intros r Hr. apply in_flat_map in Hr as (th & Hth & Hr).
  destruct (ackedb r) eqn:A; [|reflexivity]. cbn. apply Nat.eqb_eq. exact (no_lost_ack c0 sched G th r Hth Hr A). Qed.

Definition Cls (th : thr) := cls1 (e1 th) = true /\ cls2 (e2 th) = true /\ classes_ok (results th) = true.

Lemma exec_cls fixed t s th s' th' : Cls th -> exec fixed t s th = Some (s', th') -> Cls th'.
Proof. intros (A & B & C) H. unfold exec in H. break H; injection H as <- <-; unfold Cls, set_code, set_reg, fail1, fail2; cbn [e1 e2 results]; auto.
  split; [exact A|]. split; [exact B|]. unfold classes_ok in *. rewrite forallb_app, C. cbn [forallb r_e1 r_e2 andb].
  now rewrite A, B. Qed.

Lemma run_cls fixed sched : forall c, (forall th, In th (snd c) -> Cls th) -> forall th, In th (snd (run fixed sched c)) -> Cls th.
Proof. induction sched as [|t r IH]; intros c H; [exact H|]. cbn. apply IH. destruct (step fixed c t) as [c'|] eqn:E; [|exact H].
  unfold step in E. destruct (nth_error (snd c) t) as [th0|] eqn:N; [|discriminate].
  destruct (exec fixed t (fst c) th0) as [[s' th']|] eqn:X; [|discriminate]. injection E as <-. cbn.
  intros th Hth. apply In_upd in Hth as [->|Hth]; [|exact (H th Hth)]. eapply exec_cls; [|exact X]. apply H. eapply nth_error_In; eauto. Qed.

Lemma allowed_classes fixed n m progs sched : let c := run fixed sched (init_cold n m, map thread_of progs) in
  classes_ok (flat_map results (snd c)) = true.
Proof. intros c. apply forallb_forall. intros r Hr. apply in_flat_map in Hr as (th & Hth & Hr).
  assert (Cls th) as (_ & _ & C).
  { apply (run_cls fixed sched (init_cold n m, map thread_of progs)); [|exact Hth]. cbn. intros u Hu.
    apply in_map_iff in Hu as (p & <- & _). repeat split. }
  unfold classes_ok in C. rewrite forallb_forall in C. exact (C r Hr). Qed.

(* ------------------------------------------------------------------------------------------------ *)
(* Excerpts.  A call "missed" the excerpt of its bug when entityUpdated did not find the entity in the cache
   (class 2, the entity was evicted under the caller) or SubCache.add refused the new bug (class 4). *)
Definition missedb (r : callres) : bool := Nat.eqb (r_e1 r) 2 || Nat.eqb (r_e1 r) 4 || Nat.eqb (r_e2 r) 2.
