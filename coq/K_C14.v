(* C14 — correspondence (Remove.step = what go-git repositories, cache.RepoCache and the git-bug CLI did) and the
   boolean property checker C14_ok evaluated on the implementation's observations. *)
From Coq Require Import List Arith NArith Bool.
Import ListNotations.
From GB Require Export Remove.

(* what an open RepoCache answers *)
Record cobs := mkcobs {
  k_exc : list (ent * N);              (* ResolveExcerpt for every known id: content token *)
  k_idx : list ent;                    (* bugs found by the full-text search for their own unique word *)
  k_ndoc_b : nat; k_ndoc_i : nat;      (* DocCount of the two indexes *)
  k_res : list ent;                    (* known ids for which Resolve(id) succeeds *)
  k_qry : list ent;                    (* Bugs().Query(all) and Identities().AllIds() *)
  k_pfx : list (kind * id * presult)   (* ResolveExcerptPrefix on probe prefixes *)
}.
(* one look at the repository: every ref, the cache answers (if a cache is open), git config, .git/git-bug listing *)
Record obs := mkobs { o_refs : list (rname * N); o_cache : option cobs; o_conf : cfg; o_files : list N }.

Inductive xout := XOk | XNotFound | XMultiple | XOther | XErr.   (* XErr: a failing command (kind of error not observable) *)

Record case := mkcase {
  x_remotes : list N;
  x_univ : list ent;                   (* every bug / identity id of the scenario, and the target *)
  x_xtab : list (ent * N * N);         (* ((entity, commit), excerpt token) as observed anywhere: the excerpt oracle *)
  x_init : obs;
  x_steps : list (action * xout * obs)
}.

(* ---- equality / set tests ---- *)
Fixpoint list_eqb {A} (eqb : A -> A -> bool) (a b : list A) : bool :=
  match a, b with [], [] => true | x :: a', y :: b' => eqb x y && list_eqb eqb a' b' | _, _ => false end.
Definition incl_b {A} (eqb : A -> A -> bool) (a b : list A) : bool := forallb (fun x => existsb (eqb x) b) a.
Definition set_eqb {A} (eqb : A -> A -> bool) (a b : list A) : bool :=
  incl_b eqb a b && incl_b eqb b a && Nat.eqb (length a) (length b).
Definition ref_eqb (a b : rname * N) := rname_eqb (fst a) (fst b) && N.eqb (snd a) (snd b).
Definition exc_eqb (a b : ent * N) := ent_eqb (fst a) (fst b) && N.eqb (snd a) (snd b).
Definition sub_eqb (a b : N * N) := N.eqb (fst a) (fst b) && N.eqb (snd a) (snd b).
Definition opt_id_eqb (a b : option id) := match a, b with Some x, Some y => id_eqb x y | None, None => true | _, _ => false end.
Definition cfg_eqb (a b : cfg) : bool :=
  opt_id_eqb (c_user a) (c_user b) && set_eqb N.eqb (c_opts a) (c_opts b) && set_eqb sub_eqb (c_subs a) (c_subs b) &&
  set_eqb N.eqb (c_other a) (c_other b).
Definition presult_eqb (a b : presult) :=
  match a, b with PNone, PNone | PMany, PMany => true | PFound i, PFound j => id_eqb i j | _, _ => false end.
Definition action_eqb (a b : action) : bool :=
  match a, b with
  | AEntRemove k i, AEntRemove k' i' | ACacheRemove k i, ACacheRemove k' i' | AStaleCommit k i, AStaleCommit k' i' => kind_eqb k k' && id_eqb i i'
  | AEntRemoveAll k, AEntRemoveAll k' => kind_eqb k k'
  | ACacheRemoveAll, ACacheRemoveAll | ACliWipe, ACliWipe | ARebuild, ARebuild | AReopen, AReopen => true
  | ACliRm p, ACliRm p' => id_eqb p p'
  | ACacheMerge r, ACacheMerge r' | AEntMerge r, AEntMerge r' => N.eqb r r'
  | _, _ => false
  end.
Definition out_agrees (m : outcome) (x : xout) : bool :=
  match x, m with
  | XOk, OOk | XNotFound, ENotFound | XMultiple, EMultiple => true
  | XOther, OOk | XErr, OOk => false
  | XOther, _ | XErr, _ => true
  | _, _ => false
  end.
Definition is_ok (x : xout) : bool := match x with XOk => true | _ => false end.

(* ---- from an observation to a model state ---- *)
Definition of_kind (k : kind) (l : list ent) : list ent := filter (fun e => kind_eqb (fst e) k) l.
(* identity documents cannot be listed (they hold no text), only counted *)
Definition ident_docs (n : nat) (ids : list ent) : list ent := firstn n ids ++ repeat (KIdent, []) (n - length ids).

Definition state_of (rs : list N) (o : obs) : st :=
  match o_cache o with
  | None => mkst rs (o_refs o) [] [] (o_conf o) (o_files o)
  | Some c => mkst rs (o_refs o) (k_exc c) (k_idx c ++ ident_docs (k_ndoc_i c) (of_kind KIdent (map fst (k_exc c)))) (o_conf o) (o_files o)
  end.
(* the merge oracle: the next observation; whether merged identities were indexed shows in the document count only *)
Definition post_of (rs : list N) (prev o : obs) : st :=
  match o_cache o with
  | None => mkst rs (o_refs o) [] [] (o_conf o) (o_files o)
  | Some c =>
      let grew := match o_cache prev with Some p => Nat.ltb (k_ndoc_i p) (k_ndoc_i c) | None => false end in
      mkst rs (o_refs o) (k_exc c) (k_idx c ++ (if grew then of_kind KIdent (map fst (k_exc c)) else [])) (o_conf o) (o_files o)
  end.

Definition xo_of (tab : list (ent * N * N)) (k : kind) (i : id) (h : N) : N :=
  match find (fun t => ent_eqb (fst (fst t)) (k, i) && N.eqb (snd (fst t)) h) tab with Some t => snd t | None => 0%N end.

(* ---- model state against observation ---- *)
Definition no_clocks (l : list N) := filter (fun f => negb (N.eqb f F_clocks)) l.
Definition cache_agrees (s : st) (univ : list ent) (c : cobs) : bool :=
  set_eqb exc_eqb (exc s) (k_exc c) &&
  set_eqb ent_eqb (of_kind KBug (idx s)) (k_idx c) &&
  Nat.eqb (count_kind KBug (idx s)) (k_ndoc_b c) && Nat.eqb (count_kind KIdent (idx s)) (k_ndoc_i c) &&
  set_eqb ent_eqb (filter (fun e => has_local (fst e) (snd e) s) univ) (k_res c) &&
  set_eqb ent_eqb (map fst (exc s)) (k_qry c) &&
  forallb (fun t => presult_eqb (resolve_prefix (snd (fst t)) (exc_ids (fst (fst t)) (exc s))) (snd t)) (k_pfx c).
Definition agrees (s : st) (univ : list ent) (strict_files : bool) (o : obs) : bool :=
  set_eqb ref_eqb (refs s) (o_refs o) && cfg_eqb (conf s) (o_conf o) &&
  (if strict_files then set_eqb N.eqb (files s) (o_files o) else set_eqb N.eqb (no_clocks (files s)) (no_clocks (o_files o))) &&
  match o_cache o with Some c => cache_agrees s univ c | None => true end.

Definition is_removal (a : action) : bool :=
  match a with AEntRemove _ _ | AEntRemoveAll _ | ACacheRemove _ _ | ACacheRemoveAll | ACliRm _ | ACliWipe => true | _ => false end.

(* clock files appear when clocks are witnessed (merges, opening with clock loaders): not this property's business; after
   a step that is not a removal the model takes their presence from the observation *)
Definition sync_clocks (strict : bool) (s : st) (o : obs) : st :=
  if strict then s
  else with_files s (if memN F_clocks (o_files o) then add_file F_clocks (files s) else no_clocks (files s)).

(* index of the first step on which model and implementation differ *)
Fixpoint replay (c : case) (s : st) (prev : obs) (steps : list (action * xout * obs)) (i : nat) : option nat :=
  match steps with
  | [] => None
  | (a, out, o) :: t =>
      let '(s', mo) := step (xo_of (x_xtab c)) (post_of (x_remotes c) prev o) a s in
      if out_agrees mo out && agrees s' (x_univ c) (is_removal a) o then replay c (sync_clocks (is_removal a) s' o) o t (S i) else Some i
  end.
(* which component differs at the first divergence: [outcome; refs; config; files; cache] *)
Fixpoint replay_why (c : case) (s : st) (prev : obs) (steps : list (action * xout * obs)) : list bool :=
  match steps with
  | [] => []
  | (a, out, o) :: t =>
      let '(s', mo) := step (xo_of (x_xtab c)) (post_of (x_remotes c) prev o) a s in
      if out_agrees mo out && agrees s' (x_univ c) (is_removal a) o then replay_why c (sync_clocks (is_removal a) s' o) o t
      else [out_agrees mo out; set_eqb ref_eqb (refs s') (o_refs o); cfg_eqb (conf s') (o_conf o);
            set_eqb N.eqb (no_clocks (files s')) (no_clocks (o_files o)); set_eqb N.eqb (files s') (o_files o);
            match o_cache o with Some k => cache_agrees s' (x_univ c) k | None => true end]
  end.

Definition divergence (c : case) : option nat :=
  if agrees (state_of (x_remotes c) (x_init c)) (x_univ c) true (x_init c)
  then replay c (state_of (x_remotes c) (x_init c)) (x_init c) (x_steps c) 1
  else Some 0.
Definition model_agrees (c : case) : bool := match divergence c with None => true | Some _ => false end.

Fixpoint index_filter {A} (f : A -> bool) (i : nat) (l : list A) : list nat :=
  match l with [] => [] | x :: t => if f x then index_filter f (S i) t else i :: index_filter f (S i) t end.
Definition mismatches (cs : list case) : list nat := index_filter model_agrees 0 cs.

(* ================================================================== the property, on the implementation's observations *)

Definition of_ent (e : ent) (n : rname) : bool := kind_eqb (rk n) (fst e) && id_eqb (rid n) (snd e).
(* git-bug's refs: the whole of refs/bugs/ and refs/identities/, and refs/remotes/<remote>/{bugs,identities}/<valid id>;
   other names under the latter are the user's remote-tracking branches (Remove.is_gbref) *)
Definition is_gb (n : rname) : bool := is_gbref n.

Definition obs_no_ref (e : ent) (o : obs) : bool := forallb (fun p => negb (of_ent e (fst p))) (o_refs o).
Definition obs_not_cached (e : ent) (o : obs) : bool :=
  match o_cache o with
  | None => true
  | Some c =>
      negb (mem_ent e (map fst (k_exc c))) && negb (mem_ent e (k_idx c)) && negb (mem_ent e (k_res c)) && negb (mem_ent e (k_qry c)) &&
      forallb (fun t => match snd t with PFound i => negb (ent_eqb (fst (fst t), i) e) | _ => true end) (k_pfx c)
  end.
(* cannot be found by ref, id, prefix, query or search *)
Definition obs_gone (e : ent) (o : obs) : bool := obs_no_ref e o && obs_not_cached e o.

Definition refs_same_but (f : rname -> bool) (o o' : obs) : bool :=
  set_eqb ref_eqb (filter (fun p => negb (f (fst p))) (o_refs o)) (filter (fun p => negb (f (fst p))) (o_refs o')).
Definition refs_same (o o' : obs) : bool := set_eqb ref_eqb (o_refs o) (o_refs o').
(* other excerpts unchanged; no other document lost (a document gained belongs to an entity that has an excerpt) *)
Definition cache_same_but (e : option ent) (c c' : cobs) : bool :=
  let other x := match e with Some e' => negb (ent_eqb x e') | None => true end in
  set_eqb exc_eqb (filter (fun p => other (fst p)) (k_exc c)) (filter (fun p => other (fst p)) (k_exc c')) &&
  incl_b ent_eqb (filter other (k_idx c)) (k_idx c') &&
  forallb (fun x => mem_ent x (k_idx c) || mem_ent x (map fst (k_exc c'))) (filter other (k_idx c')).
Definition ocache_same_but (e : option ent) (o o' : obs) : bool :=
  match o_cache o, o_cache o' with Some c, Some c' => cache_same_but e c c' | _, _ => true end.
Definition rest_same_obs (o o' : obs) : bool := cfg_eqb (o_conf o) (o_conf o') && set_eqb N.eqb (o_files o) (o_files o').
Definition obs_same (o o' : obs) : bool :=
  refs_same o o' && rest_same_obs o o' &&
  match o_cache o, o_cache o' with
  | Some c, Some c' => set_eqb exc_eqb (k_exc c) (k_exc c') && set_eqb ent_eqb (k_idx c) (k_idx c')
  | _, _ => true
  end.

Definition no_gb_refs (o : obs) : bool := forallb (fun p => negb (is_gb (fst p))) (o_refs o).
Definition no_gb_cache (o : obs) : bool :=
  match o_cache o with
  | Some c => Nat.eqb (length (k_exc c)) 0 && Nat.eqb (length (k_idx c)) 0 && Nat.eqb (length (k_qry c)) 0 &&
              Nat.eqb (k_ndoc_b c) 0 && Nat.eqb (k_ndoc_i c) 0
  | None => true
  end.
Definition no_gb_conf (c : cfg) : bool :=
  match c_user c with None => true | Some _ => false end && Nat.eqb (length (c_opts c)) 0 && Nat.eqb (length (c_subs c)) 0.

(* the entity a prefix designates among the excerpts seen before the removal *)
Definition designated (k : kind) (p : id) (o : obs) : presult :=
  match o_cache o with Some c => resolve_prefix p (exc_ids k (k_exc c)) | None => PNone end.

(* one removal step: before o, after o'; returns (ok, entities now removed, everything removed) *)
Definition removal_ok (a : action) (out : xout) (o o' : obs) : bool * list ent * bool :=
  match a with
  | AEntRemove k i =>
      if is_ok out
      then (obs_no_ref (k, i) o' && refs_same_but (of_ent (k, i)) o o' && rest_same_obs o o' && ocache_same_but None o o', [(k, i)], false)
      else (obs_same o o', [], false)
  | ACacheRemove k p =>
      if is_ok out
      then match designated k p o with
           | PFound i => (obs_gone (k, i) o' && refs_same_but (of_ent (k, i)) o o' && ocache_same_but (Some (k, i)) o o' && rest_same_obs o o', [(k, i)], false)
           | _ => (false, [], false)       (* removed something on an ambiguous or dangling prefix *)
           end
      else (obs_same o o', [], false)
  | ACliRm p =>
      if is_ok out
      then match designated KBug p o with
           | PFound i => (obs_gone (KBug, i) o' && refs_same_but (of_ent (KBug, i)) o o' && ocache_same_but (Some (KBug, i)) o o' && rest_same_obs o o', [(KBug, i)], false)
           | _ => (false, [], false)
           end
      else (refs_same o o' && rest_same_obs o o', [], false)
  | AEntRemoveAll k =>
      (forallb (fun p => negb (kind_eqb (rk (fst p)) k && is_gb (fst p))) (o_refs o') &&
       refs_same_but (fun n => kind_eqb (rk n) k && is_gb n) o o' && rest_same_obs o o', [], false)
  | ACacheRemoveAll =>
      (no_gb_refs o' && no_gb_cache o' && refs_same_but is_gb o o' && rest_same_obs o o', [], true)
  | ACliWipe =>
      (is_ok out && no_gb_refs o' && refs_same_but is_gb o o' && no_gb_conf (o_conf o') &&
       set_eqb N.eqb (c_other (o_conf o)) (c_other (o_conf o')) && Nat.eqb (length (o_files o')) 0, [], true)
  | _ => (true, [], false)
  end.

Fixpoint scan (steps : list (action * xout * obs)) (prev : obs) (preva : option action) (lastc : option obs)
         (goneset : list ent) (allgone : bool) : list bool :=
  match steps with
  | [] => []
  | (a, out, o) :: t =>
      let '(ok1, newgone, newall) := if is_removal a then removal_ok a out prev o else (true, [], false) in
      (* the same removal a second time changes nothing *)
      let ok2 := match preva with Some a0 => if is_removal a && action_eqb a a0 then obs_same prev o else true | None => true end in
      let goneset' := newgone ++ goneset in
      let allgone' := allgone || newall in
      (* what was removed stays gone: after this step too *)
      let ok3 := forallb (fun e => obs_gone e o) goneset' && (if allgone' then no_gb_refs o && no_gb_cache o else true) in
      (* a command-line removal is seen through the cache only after the next open: others still unchanged then *)
      let ok4 := match a, lastc, preva with
                 | AReopen, Some c0, Some (ACliRm _) =>
                     match goneset with e :: _ => ocache_same_but (Some e) c0 o | [] => ocache_same_but None c0 o end
                 | _, _, _ => true
                 end in
      let lastc' := match o_cache o with Some _ => Some o | None => lastc end in
      (ok1 && ok2 && ok3 && ok4) :: scan t o (Some a) lastc' goneset' allgone'
  end.

Definition ok_trace (c : case) : list bool :=
  scan (x_steps c) (x_init c) None (match o_cache (x_init c) with Some _ => Some (x_init c) | None => None end) [] false.
Definition C14_ok (c : case) : bool := forallb (fun b => b) (ok_trace c).
Definition failing (cs : list case) : list nat := index_filter C14_ok 0 cs.

Definition explain (c : case) :=
  (divergence c, replay_why c (state_of (x_remotes c) (x_init c)) (x_init c) (x_steps c), ok_trace c).
