(* C05 — world part: clocks only move forward and dominate everything seen. Checker on observations. *)
From Coq Require Import List Arith NArith Lia Bool.
Import ListNotations.
From GB Require Export K_World.
Local Open Scope N_scope.

Definition case := K_World.case.
Definition mismatches := K_World.mismatches.
Definition explain := K_World.divergence.

Definition edit_at (s : store) (i : nat) : N := match pack_at s i with Some p => p_edit p | None => 0 end.
Definition create_at (s : store) (i : nat) : N := match pack_at s i with Some p => p_create p | None => 0 end.
Definition max_edit (s : store) (h : nat) : N := fold_left N.max (map (edit_at s) (reachl s h)) 0.

(* last observed (clk, cclk, nst) per replica *)
Definition last_of (r : nat) (l : list (nat * (N * N))) : N * N :=
  match find (fun p => Nat.eqb (fst p) r) l with Some p => snd p | None => (1, 1) end.

Fixpoint scan (s : store) (evs : list (event * obsv)) (last : list (nat * (N * N))) (nst : nat) : bool :=
  match evs with
  | [] => true
  | (ev, o) :: t =>
      if negb (o_chk o) then scan s t last nst else
      let r := ev_rep ev in
      let '(c0, cc0) := last_of r last in
      (* never decrease -- except that after the clock files were lost the clocks are rebuilt from the stored
         entities: then only "at least their maximum" is promised (checked below for every local history) *)
      (match ev with EReopen _ true => true | _ => N.leb c0 (o_clk o) && N.leb cc0 (o_cclk o) end) &&
      (* commits written by this step: strictly newer than the previous clock value and than all their ancestors,
         not newer than the clock afterwards *)
      forallb (fun i => N.ltb c0 (edit_at s i) && N.leb (edit_at s i) (o_clk o) &&
                        forallb (fun a => Nat.eqb a i || N.ltb (edit_at s a) (edit_at s i)) (reachl s i) &&
                        match parents s i with [] => N.ltb cc0 (create_at s i) && N.leb (create_at s i) (o_cclk o) | _ => true end)
              (seq nst (o_nst o - nst)) &&
      (* the clock dominates every local history *)
      forallb (fun p => N.leb (max_edit s (snd p)) (o_clk o) && N.leb (create_at s (fst p)) (o_cclk o)) (o_loc o) &&
      scan s t ((r, (o_clk o, o_cclk o)) :: last) (o_nst o)
  end.

Definition C05w_ok (c : case) : bool := scan (c_store c) (c_evs c) [] 0.
Definition failing (cs : list case) : list nat := index_filter C05w_ok 0 cs.
