(* C13 — the object a resolution hands out is the LIVE instance of the entity.

   cache/subcache.go keeps at most maxLoaded loaded entities (sc.cached + sc.lru). evictIfNeeded removes the least recently
   used ones and Lock()s every evicted instance for ever ("if something tries to do it anyway, it will lock the program"):
   a caller that still holds such an instance blocks on its first use, in a single goroutine. A later Resolve of the same id
   reads the entity again and makes a NEW instance. So "resolves to that comment and its bug" needs more than the right id:
   the instance returned must still be the loaded one.

   Model: an instance is (entity id, instance number); the cache is the list of loaded instances, least recently used
   first, and the next instance number. Generic in the id type. *)
From Coq Require Import List Arith Bool Lia.
Import ListNotations.

Section Live.
Variable id : Type.
Variable id_eqb : id -> id -> bool.
Hypothesis id_eqb_spec : forall a b, id_eqb a b = true <-> a = b.
(* NeedCommit: instances with uncommitted operations are skipped by the eviction *)
Variable dirty : id -> bool.

Definition inst := (id * nat)%type.
Record lcache := mklc { loaded : list inst; next : nat }.
Definition live (c : lcache) (h : inst) : Prop := In h (loaded c).

Fixpoint find_inst (e : id) (l : list inst) : option nat :=
  match l with [] => None | x :: t => if id_eqb (fst x) e then Some (snd x) else find_inst e t end.
Definition drop (e : id) (l : list inst) : list inst := filter (fun x => negb (id_eqb (fst x) e)) l.

(* evictIfNeeded: oldest first, every entry but the newest, entities that need a commit are skipped, until the bound holds *)
Fixpoint evict_go (cap : nat) (cands l : list inst) : list inst :=
  match cands with
  | [] => l
  | x :: t => if Nat.leb (length l) cap then l
              else if dirty (fst x) then evict_go cap t l
              else evict_go cap t (drop (fst x) l)
  end.
Definition evict (cap : nat) (l : list inst) : list inst := evict_go cap (removelast l) l.

(* SubCache.Resolve: a loaded entity becomes the most recently used one (lru.Get); otherwise the entity is read, a new
   instance is added as the most recently used one, and evictIfNeeded runs *)
Definition resolve (cap : nat) (e : id) (c : lcache) : lcache * inst :=
  match find_inst e (loaded c) with
  | Some n => (mklc (drop e (loaded c) ++ [(e, n)]) (next c), (e, n))
  | None => (mklc (evict cap (loaded c ++ [(e, next c)])) (S (next c)), (e, next c))
  end.

Lemma find_none e l : find_inst e l = None -> forall x, In x l -> id_eqb (fst x) e = false.
Proof. induction l as [|y l IH]; cbn; [intros _ x []|]. destruct (id_eqb (fst y) e) eqn:E; [discriminate|].
  intros H x [<-|Hx]; [exact E|apply IH; assumption]. Qed.

Lemma drop_snoc_other e l y : id_eqb (fst y) e = false -> drop e (l ++ [y]) = drop e l ++ [y].
Proof. intros H. unfold drop. rewrite filter_app. cbn. rewrite H. reflexivity. Qed.

(* the newest entry survives the eviction when no older entry is another instance of the same entity *)
Lemma evict_go_keeps_newest cap y : forall cands l,
  (forall x, In x cands -> id_eqb (fst x) (fst y) = false) ->
  exists l', evict_go cap cands (l ++ [y]) = l' ++ [y].
Proof. induction cands as [|x t IH]; intros l H; cbn [evict_go]; [exists l; reflexivity|].
  destruct (Nat.leb _ cap); [exists l; reflexivity|].
  assert (Ht : forall z, In z t -> id_eqb (fst z) (fst y) = false) by (intros z Hz; apply H; now right).
  destruct (dirty (fst x)); [apply IH, Ht|].
  rewrite drop_snoc_other.
  - apply IH, Ht.
  - destruct (id_eqb (fst y) (fst x)) eqn:E; [|reflexivity].
    apply id_eqb_spec in E. rewrite E in H. specialize (H x (or_introl eq_refl)).
    assert (E' : id_eqb (fst x) (fst x) = true) by now apply id_eqb_spec. congruence. Qed.

Lemma evict_keeps_newest cap l y : (forall x, In x l -> id_eqb (fst x) (fst y) = false) ->
  exists l', evict cap (l ++ [y]) = l' ++ [y].
Proof. intros H. unfold evict. rewrite removelast_last. apply evict_go_keeps_newest, H. Qed.

(* Resolve hands out the most recently used loaded instance: whatever the bound (even 0) and whatever was loaded *)
Theorem resolve_newest cap e c : exists l', loaded (fst (resolve cap e c)) = l' ++ [snd (resolve cap e c)].
Proof. unfold resolve. destruct (find_inst e (loaded c)) as [n|] eqn:F; cbn [fst snd loaded].
  - eexists. reflexivity.
  - apply evict_keeps_newest. cbn [fst]. apply find_none, F. Qed.

Theorem resolve_live cap e c : live (fst (resolve cap e c)) (snd (resolve cap e c)) /\ fst (snd (resolve cap e c)) = e.
Proof. split.
  - destruct (resolve_newest cap e c) as [l' H]. unfold live. rewrite H. apply in_or_app. right. now left.
  - unfold resolve. destruct (find_inst e (loaded c)); reflexivity. Qed.

(* ---- RepoCacheBug.ResolveComment. The candidates are given in the order in which they are visited (Go's map order:
   arbitrary), each with the number of its comments whose combined id starts with the prefix ---- *)
Inductive hres := HFound (h : inst) | HMultiple (l : list id) | HNone.

(* as found: the instance of the matching bug is kept while the remaining candidates are resolved *)
Fixpoint scan_kept (cap : nat) (cands : list (id * nat)) (c : lcache) (acc : list id) (h : option inst)
  : lcache * list id * option inst :=
  match cands with
  | [] => (c, acc, h)
  | (b, hits) :: t =>
      let r := resolve cap b c in
      scan_kept cap t (fst r) (acc ++ repeat b hits) (match hits with 0 => h | S _ => Some (snd r) end)
  end.
Definition resolve_comment_kept (cap : nat) (cands : list (id * nat)) (c : lcache) : lcache * hres :=
  match scan_kept cap cands c [] None with
  | (c', [], _) => (c', HNone)
  | (c', [_], Some h) => (c', HFound h)
  | (c', acc, _) => (c', HMultiple acc)
  end.

(* repaired: only the matching ids are remembered; the bug is resolved once after the scan *)
Fixpoint scan_ids (cap : nat) (cands : list (id * nat)) (c : lcache) (acc : list id) : lcache * list id :=
  match cands with
  | [] => (c, acc)
  | (b, hits) :: t => scan_ids cap t (fst (resolve cap b c)) (acc ++ repeat b hits)
  end.
Definition resolve_comment_again (cap : nat) (cands : list (id * nat)) (c : lcache) : lcache * hres :=
  match scan_ids cap cands c [] with
  | (c', []) => (c', HNone)
  | (c', [b]) => let r := resolve cap b c' in (fst r, HFound (snd r))
  | (c', acc) => (c', HMultiple acc)
  end.

(* the repaired ResolveComment hands out a live instance: every bound, every candidate order, every cache content *)
Theorem comment_handle_live cap cands c h :
  snd (resolve_comment_again cap cands c) = HFound h -> live (fst (resolve_comment_again cap cands c)) h.
Proof. unfold resolve_comment_again. destruct (scan_ids cap cands c []) as [c' [|b [|b' t]]]; cbn [fst snd]; try discriminate.
  intros H. inversion H; subst. apply resolve_live. Qed.

(* ... and answers what the code as found answers: same bug, same multiple-match list, same "no such comment" *)
Definition answer (r : hres) : option id + list id :=
  match r with HFound h => inl (Some (fst h)) | HNone => inl None | HMultiple l => inr l end.

Definition kept_inv (acc : list id) (h : option inst) : Prop :=
  match h with None => acc = [] | Some x => exists pre, acc = pre ++ [fst x] end.

Lemma repeat_snoc {A} (b : A) n : repeat b (S n) = repeat b n ++ [b].
Proof. induction n as [|n IH]; [reflexivity|]. cbn [repeat] in *. rewrite <- app_comm_cons, <- IH. reflexivity. Qed.

Lemma scan_same cap : forall cands c acc h, kept_inv acc h ->
  let '(c1, acc1, h1) := scan_kept cap cands c acc h in
  scan_ids cap cands c acc = (c1, acc1) /\ kept_inv acc1 h1.
Proof. induction cands as [|[b hits] t IH]; intros c acc h I; cbn [scan_kept scan_ids]; [auto|].
  apply IH. destruct hits as [|k].
  - cbn [repeat]. rewrite app_nil_r. exact I.
  - unfold kept_inv. exists (acc ++ repeat b k). rewrite repeat_snoc, app_assoc.
    rewrite (proj2 (resolve_live cap b c)). reflexivity. Qed.

Theorem comment_same_answer cap cands c :
  answer (snd (resolve_comment_again cap cands c)) = answer (snd (resolve_comment_kept cap cands c)).
Proof. pose proof (scan_same cap cands c [] None eq_refl) as H.
  unfold resolve_comment_again, resolve_comment_kept.
  destruct (scan_kept cap cands c [] None) as [[c1 acc1] h1]. destruct H as [-> I].
  destruct acc1 as [|b [|b' t]]; [reflexivity| |reflexivity].
  destruct h1 as [x|]; cbn [kept_inv] in I.
  - destruct I as [pre E]. destruct pre as [|p [|p' pre]]; cbn in E; inversion E; subst.
    cbn [snd answer]. rewrite (proj2 (resolve_live cap (fst x) c1)). reflexivity.
  - discriminate. Qed.

End Live.

(* ---- the code as found hands out an evicted (locked for ever) instance: two candidate bugs, room for one ---- *)
Definition nd (_ : nat) := false.
Theorem comment_kept_refuted : exists cap cands c h,
  snd (resolve_comment_kept nat Nat.eqb nd cap cands c) = HFound nat h /\
  ~ live nat (fst (resolve_comment_kept nat Nat.eqb nd cap cands c)) h /\
  (* while the repaired one, on the same input, answers the same bug with a live instance *)
  exists h', snd (resolve_comment_again nat Nat.eqb nd cap cands c) = HFound nat h' /\ fst h' = fst h /\
             live nat (fst (resolve_comment_again nat Nat.eqb nd cap cands c)) h'.
Proof. exists 1, [(7, 1); (8, 0)], (mklc nat [] 0), (7, 0). split; [vm_compute; reflexivity|]. split.
  - vm_compute. intros [H|[]]. discriminate.
  - exists (7, 2). vm_compute. auto. Qed.
