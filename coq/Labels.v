From Coq Require Import List Arith NArith Bool Lia Sorting.Sorted Sorting.Permutation.
Import ListNotations.
From GB Require Import Snap.
Local Open Scope N_scope.

Lemma existsb_eqb_In a l : existsb (N.eqb a) l = true <-> In a l.
Proof. rewrite existsb_exists. split; [intros (x & H & E); apply N.eqb_eq in E; now subst|intros H; exists a; split; auto; apply N.eqb_refl]. Qed.

(* ---- additions ---- *)
Definition add_step (l : list N) (a : N) := if existsb (N.eqb a) l then l else l ++ [a].
Lemma add_step_spec l a : NoDup l -> NoDup (add_step l a) /\ forall x, In x (add_step l a) <-> In x l \/ x = a.
Proof. intros ND. unfold add_step. destruct (existsb (N.eqb a) l) eqn:E.
  - apply existsb_eqb_In in E. split; [exact ND|]. intros x; split; [auto|intros [H|H]; [exact H|subst x; exact E]].
  - assert (~ In a l) by (intros H; apply existsb_eqb_In in H; congruence). split.
    + eapply Permutation_NoDup; [apply Permutation_cons_append|]. now constructor.
    + intros x. rewrite in_app_iff. cbn. intuition. Qed.

Lemma add_all_spec A : forall l, NoDup l -> NoDup (fold_left add_step A l) /\ forall x, In x (fold_left add_step A l) <-> In x l \/ In x A.
Proof. induction A as [|a A IH]; intros l ND; cbn; [split; auto; intuition|].
  destruct (add_step_spec l a ND) as [ND' M]. destruct (IH _ ND') as [ND'' M'']. split; [exact ND''|].
  intros x. rewrite M'', M. intuition. Qed.

(* ---- removals: the swap-remove ---- *)
Lemma rev_cons_inv {A} (t : list A) a b : rev t = a :: b -> t = rev b ++ [a].
Proof. intros H. apply (f_equal (@rev A)) in H. rewrite rev_involutive in H. now rewrite H. Qed.

Lemma swap_remove_perm r l : NoDup l -> Permutation (swap_remove r l) (filter (fun x => negb (N.eqb x r)) l).
Proof. induction l as [|x t IH]; intros ND; cbn; [constructor|]. inversion ND as [|? ? Hx ND']; subst.
  destruct (N.eqb_spec x r) as [->|Hne]; cbn.
  - assert (F : filter (fun x => negb (N.eqb x r)) t = t).
    { clear - Hx. induction t as [|y u IHu]; cbn; [reflexivity|]. destruct (N.eqb_spec y r) as [->|]; cbn.
      - exfalso. apply Hx. now left.
      - f_equal. apply IHu. intros H. apply Hx. now right. }
    rewrite F. destruct (rev t) as [|a b] eqn:E.
    + apply (f_equal (@rev _)) in E. rewrite rev_involutive in E. cbn in E. subst. constructor.
    + apply rev_cons_inv in E. subst t. rewrite removelast_last. apply Permutation_cons_append.
  - constructor. now apply IH. Qed.

Lemma swap_remove_spec r l : NoDup l -> NoDup (swap_remove r l) /\ forall x, In x (swap_remove r l) <-> In x l /\ x <> r.
Proof. intros ND. pose proof (swap_remove_perm r l ND) as P. split.
  - eapply Permutation_NoDup; [symmetry; exact P|]. now apply NoDup_filter.
  - intros x. split.
    + intros H. eapply Permutation_in in H; [|exact P]. apply filter_In in H as [H1 H2]. split; auto. apply negb_true_iff, N.eqb_neq in H2. exact H2.
    + intros [H1 H2]. eapply Permutation_in; [symmetry; exact P|]. apply filter_In. split; auto. apply negb_true_iff, N.eqb_neq. exact H2. Qed.

Lemma remove_all_spec R : forall l, NoDup l -> NoDup (fold_left (fun l r => swap_remove r l) R l) /\
  forall x, In x (fold_left (fun l r => swap_remove r l) R l) <-> In x l /\ ~ In x R.
Proof. induction R as [|r R IH]; intros l ND; cbn; [split; auto; intuition|].
  destruct (swap_remove_spec r l ND) as [ND' M]. destruct (IH _ ND') as [ND'' M'']. split; [exact ND''|].
  intros x. rewrite M'', M. intuition. Qed.

(* ---- sort ---- *)
Lemma insert_sorted_perm x l : Permutation (x :: l) (insert_sorted x l).
Proof. induction l as [|y t IH]; cbn; [reflexivity|]. destruct (N.leb x y); [reflexivity|]. rewrite perm_swap. now constructor. Qed.
Lemma sortN_perm l : Permutation l (sortN l).
Proof. induction l as [|x t IH]; cbn; [constructor|]. rewrite <- insert_sorted_perm. now constructor. Qed.
Lemma insert_sorted_sorted x l : Sorted N.le l -> Sorted N.le (insert_sorted x l).
Proof. induction 1 as [|y t Hs IH Hh]; cbn; [repeat constructor|]. destruct (N.leb_spec x y).
  - constructor; [now constructor|now constructor].
  - constructor; [exact IH|]. destruct t as [|z t']; cbn; [constructor; lia|]. destruct (N.leb_spec x z); constructor; auto; try lia. now inversion Hh. Qed.
Lemma sortN_sorted l : Sorted N.le (sortN l).
Proof. induction l; cbn; [constructor|]. now apply insert_sorted_sorted. Qed.

Theorem C10_labels L A R : NoDup L ->
  let res := apply_labels L A R in
  NoDup res /\ Sorted N.le res /\ forall x, In x res <-> (In x L \/ In x A) /\ ~ In x R.
Proof. intros ND res. unfold res, apply_labels.
  change (fun l a => if existsb (N.eqb a) l then l else l ++ [a]) with add_step.
  destruct (add_all_spec A L ND) as [ND1 M1]. destruct (remove_all_spec R _ ND1) as [ND2 M2].
  split; [eapply Permutation_NoDup; [apply sortN_perm|exact ND2]|]. split; [apply sortN_sorted|].
  intros x. split.
  - intros H. eapply Permutation_in in H; [|symmetry; apply sortN_perm]. apply M2 in H as [H1 H2]. apply M1 in H1. auto.
  - intros [H1 H2]. eapply Permutation_in; [apply sortN_perm|]. apply M2. split; auto. now apply M1. Qed.
Print Assumptions C10_labels.
