(* What the write side has to refuse, or to clean, so that everything it stores reads back (C04):
   1. text: utf8.ValidString / range-over-string / encoding/json's replacement of invalid bytes, and
      util/text.Safe, SafeOneLine with the check the repair adds;
   2. the shape rule of Bug.Validate, which Bug.Commit has to apply like every reader does;
   3. objects of one entity committing in turn: Entity.Commit as compare-and-set on the reference;
   4. the names git-bug writes in commits (repository.identConfig) against go-git's Signature.Decode. *)
From Coq Require Import List NArith Bool Lia Arith.
Import ListNotations.
Local Open Scope N_scope.

(* ---------------------------------------------------------------- 1. UTF-8 *)

Definition in_rng (lo hi b : N) : bool := (lo <=? b) && (b <=? hi).
Definition cont (b : N) : bool := in_rng 128 191 b.

(* utf8.DecodeRune (first, acceptRanges): a well-formed sequence gives its code point and width *)
Definition decode1 (l : list N) : option (N * nat) :=
  match l with
  | [] => None
  | b0 :: t =>
    if b0 <? 128 then Some (b0, 1%nat)
    else if in_rng 194 223 b0 then
      match t with
      | b1 :: _ => if cont b1 then Some ((b0 - 192) * 64 + (b1 - 128), 2%nat) else None
      | _ => None
      end
    else if in_rng 224 239 b0 then
      match t with
      | b1 :: b2 :: _ =>
        if in_rng (if b0 =? 224 then 160 else 128) (if b0 =? 237 then 159 else 191) b1 && cont b2
        then Some ((b0 - 224) * 4096 + (b1 - 128) * 64 + (b2 - 128), 3%nat) else None
      | _ => None
      end
    else if in_rng 240 244 b0 then
      match t with
      | b1 :: b2 :: b3 :: _ =>
        if in_rng (if b0 =? 240 then 144 else 128) (if b0 =? 244 then 143 else 191) b1 && cont b2 && cont b3
        then Some ((b0 - 240) * 262144 + (b1 - 128) * 4096 + (b2 - 128) * 64 + (b3 - 128), 4%nat) else None
      | _ => None
      end
    else None
  end.

Definition rune_error : N := 65533.

(* `for _, r := range s`, and what encoding/json writes: an invalid byte counts for U+FFFD, width 1 *)
Fixpoint runes_f (fuel : nat) (l : list N) : list N :=
  match fuel with
  | O => []
  | S f => match l with
           | [] => []
           | _ :: t => match decode1 l with
                       | Some (r, w) => r :: runes_f f (skipn w l)
                       | None => rune_error :: runes_f f t
                       end
           end
  end.
Definition runes (l : list N) : list N := runes_f (length l) l.

(* utf8.ValidString *)
Fixpoint valid_f (fuel : nat) (l : list N) : bool :=
  match l with
  | [] => true
  | _ :: _ => match fuel with
              | O => false
              | S f => match decode1 l with Some (_, w) => valid_f f (skipn w l) | None => false end
              end
  end.
Definition valid (l : list N) : bool := valid_f (length l) l.

(* utf8.EncodeRune / AppendRune *)
Definition encode1 (r : N) : list N :=
  if r <? 128 then [r]
  else if r <? 2048 then [192 + r / 64; 128 + r mod 64]
  else if in_rng 55296 57343 r then [239; 191; 189]
  else if r <? 65536 then [224 + r / 4096; 128 + (r / 64) mod 64; 128 + r mod 64]
  else if r <? 1114112 then [240 + r / 262144; 128 + (r / 4096) mod 64; 128 + (r / 64) mod 64; 128 + r mod 64]
  else [239; 191; 189].
Definition encode (rs : list N) : list N := flat_map encode1 rs.

(* what is read back of a text that went through json.Marshal and json.Unmarshal *)
Definition stored (l : list N) : list N := encode (runes l).

Ltac bools := repeat match goal with
  | H : _ && _ = true |- _ => apply andb_true_iff in H; destruct H
  | H : in_rng _ _ _ = true |- _ => unfold in_rng in H
  | H : cont _ = true |- _ => unfold cont in H
  | H : (_ <=? _) = true |- _ => apply N.leb_le in H
  | H : (_ <? _) = true |- _ => apply N.ltb_lt in H
  | H : (_ <? _) = false |- _ => apply N.ltb_ge in H
  | H : (_ =? _) = true |- _ => apply N.eqb_eq in H
  | H : (_ =? _) = false |- _ => apply N.eqb_neq in H
  end.

Lemma dm a b q r : b <> 0 -> r < b -> a = b * q + r -> a / b = q /\ a mod b = r.
Proof. intros Hb Hr E. split; symmetry; [eapply N.div_unique|eapply N.mod_unique]; eauto. Qed.

Lemma ltb_f a b : b <= a -> (a <? b) = false.  Proof. intros; now apply N.ltb_ge. Qed.
Lemma ltb_t a b : a < b -> (a <? b) = true.  Proof. intros; now apply N.ltb_lt. Qed.
Lemma rng_f lo hi b : b < lo \/ hi < b -> in_rng lo hi b = false.
Proof. intros [H|H]; unfold in_rng; [replace (lo <=? b) with false|replace (b <=? hi) with false; [apply andb_false_r|]]; try reflexivity;
  symmetry; apply N.leb_gt; exact H. Qed.

Lemma decode1_encode l r w : decode1 l = Some (r, w) -> firstn w l = encode1 r /\ (1 <= w <= length l)%nat.
Proof. destruct l as [|b0 t]; [discriminate|]. cbn [decode1].
  destruct (b0 <? 128) eqn:E0.
  { intros H; inversion H; subst. unfold encode1. rewrite E0. cbn. split; [reflexivity|lia]. }
  destruct (in_rng 194 223 b0) eqn:E1.
  { destruct t as [|b1 t]; [discriminate|]. destruct (cont b1) eqn:C1; [|discriminate]. intros H; inversion H; subst. bools.
    set (r := (b0 - 192) * 64 + (b1 - 128)).
    destruct (dm r 64 (b0 - 192) (b1 - 128)) as [D M]; [lia|lia|unfold r; lia|].
    unfold encode1. rewrite (ltb_f r 128), (ltb_t r 2048), D, M by (unfold r; lia).
    cbn [firstn length]. split; [f_equal; [lia|f_equal; lia]|lia]. }
  destruct (in_rng 224 239 b0) eqn:E2.
  { destruct t as [|b1 [|b2 t]]; try discriminate.
    destruct (in_rng (if b0 =? 224 then 160 else 128) (if b0 =? 237 then 159 else 191) b1 && cont b2) eqn:C; [|discriminate].
    intros H; inversion H; subst. bools.
    set (x := b0 - 224) in *. set (y := b1 - 128) in *. set (z := b2 - 128) in *.
    assert (Hy : (b0 = 224 -> 32 <= y) /\ (b0 = 237 -> y <= 31) /\ y <= 63 /\ 128 <= b1).
    { destruct (b0 =? 224) eqn:A; destruct (b0 =? 237) eqn:B; bools; unfold y; repeat split; intros; try lia. }
    set (r := x * 4096 + y * 64 + z).
    destruct (dm r 4096 x (y * 64 + z)) as [D1 _]; [lia|unfold z; lia|unfold r; lia|].
    destruct (dm r 64 (x * 64 + y) z) as [D2 M2]; [lia|unfold z; lia|unfold r; lia|].
    destruct (dm (x * 64 + y) 64 x y) as [_ M3]; [lia|lia|lia|].
    unfold encode1. rewrite (ltb_f r 128), (ltb_f r 2048), (rng_f 55296 57343 r), (ltb_t r 65536), D1, D2, M2, M3
      by (unfold r, x, z in *; lia).
    cbn [firstn length]. split; [unfold x, y, z; f_equal; [lia|f_equal; [lia|f_equal; lia]]|lia]. }
  destruct (in_rng 240 244 b0) eqn:E3; [|discriminate].
  destruct t as [|b1 [|b2 [|b3 t]]]; try discriminate.
  destruct (in_rng (if b0 =? 240 then 144 else 128) (if b0 =? 244 then 143 else 191) b1 && cont b2 && cont b3) eqn:C; [|discriminate].
  intros H; inversion H; subst. bools.
  set (x := b0 - 240) in *. set (y := b1 - 128) in *. set (z := b2 - 128) in *. set (u := b3 - 128) in *.
  assert (Hy : (b0 = 240 -> 16 <= y) /\ (b0 = 244 -> y <= 15) /\ y <= 63 /\ 128 <= b1).
  { destruct (b0 =? 240) eqn:A; destruct (b0 =? 244) eqn:B; bools; unfold y; repeat split; intros; try lia. }
  set (r := x * 262144 + y * 4096 + z * 64 + u).
  destruct (dm r 262144 x (y * 4096 + z * 64 + u)) as [D1 _]; [lia|unfold z, u; lia|unfold r; lia|].
  destruct (dm r 4096 (x * 64 + y) (z * 64 + u)) as [D2 _]; [lia|unfold z, u; lia|unfold r; lia|].
  destruct (dm (x * 64 + y) 64 x y) as [_ M2]; [lia|lia|lia|].
  destruct (dm r 64 (x * 4096 + y * 64 + z) u) as [D3 M3]; [lia|unfold u; lia|unfold r; lia|].
  destruct (dm (x * 4096 + y * 64 + z) 64 (x * 64 + y) z) as [_ M4]; [lia|unfold z; lia|lia|].
  unfold encode1. rewrite (ltb_f r 128), (ltb_f r 2048), (rng_f 55296 57343 r), (ltb_f r 65536), (ltb_t r 1114112), D1, D2, M2, D3, M3, M4
    by (unfold r, x, z, u in *; lia).
  cbn [firstn length]. split; [unfold x, y, z, u; f_equal; [lia|f_equal; [lia|f_equal; [lia|f_equal; lia]]]|lia]. Qed.

Lemma skipn_length_le {A} w (l : list A) : (1 <= w <= length l)%nat -> (length (skipn w l) < length l)%nat.
Proof. intros H. rewrite skipn_length. lia. Qed.

Lemma roundtrip_f f l : (length l <= f)%nat -> valid_f f l = true -> encode (runes_f f l) = l.
Proof. revert l. induction f as [|f IH]; intros l L V.
  - destruct l; [reflexivity|cbn in L; lia].
  - destruct l as [|b t]; [reflexivity|]. cbn [valid_f runes_f] in *.
    destruct (decode1 (b :: t)) as [[r w]|] eqn:D; [|discriminate].
    destruct (decode1_encode _ _ _ D) as [F W]. cbn [encode flat_map]. fold (encode (runes_f f (skipn w (b :: t)))).
    rewrite IH; [rewrite <- F; apply firstn_skipn| |exact V].
    pose proof (skipn_length_le w (b :: t) W). cbn [length] in *. lia. Qed.

(* a text that is valid UTF-8 is read back byte for byte *)
Theorem valid_stored l : valid l = true -> stored l = l.
Proof. apply roundtrip_f. lia. Qed.

Lemma decode1_fffd t : decode1 (239 :: 191 :: 189 :: t) = Some (rune_error, 3%nat).
Proof. reflexivity. Qed.

Lemma exact_f f l : (length l <= f)%nat -> encode (runes_f f l) = l -> valid_f f l = true.
Proof. revert l. induction f as [|f IH]; intros l L E.
  - destruct l; [reflexivity|cbn in L; lia].
  - destruct l as [|b t]; [reflexivity|]. cbn [valid_f runes_f] in *.
    destruct (decode1 (b :: t)) as [[r w]|] eqn:D.
    + destruct (decode1_encode _ _ _ D) as [F W]. cbn [encode flat_map] in E. fold (encode (runes_f f (skipn w (b :: t)))) in E.
      rewrite <- F in E. rewrite <- (firstn_skipn w (b :: t)) in E at 3. apply app_inv_head in E.
      apply IH; [|exact E]. pose proof (skipn_length_le w (b :: t) W). cbn [length] in *. lia.
    + exfalso. cbn [encode flat_map] in E. change (encode1 rune_error) with [239; 191; 189] in E. cbn [app] in E.
      inversion E as [[Hb Ht]]. subst b. rewrite <- Ht in D. rewrite decode1_fffd in D. discriminate. Qed.

(* ... and only such a text is: the check refuses nothing that could have been stored *)
Theorem stored_valid l : stored l = l -> valid l = true.
Proof. apply exact_f. lia. Qed.

Theorem preserved_iff_valid l : stored l = l <-> valid l = true.
Proof. split; [apply stored_valid|apply valid_stored]. Qed.

(* unicode.IsControl: category Cc *)
Definition is_control (r : N) : bool := (r <? 32) || in_rng 127 159 r.
(* text.Safe / text.SafeOneLine as pinned: they range over the string *)
Definition pinned_safe (l : list N) : bool :=
  forallb (fun r => (r =? 9) || (r =? 10) || (r =? 13) || negb (is_control r)) (runes l).
Definition pinned_safe_line (l : list N) : bool := forallb (fun r => negb (is_control r)) (runes l).
(* ... and repaired *)
Definition safe (l : list N) : bool := valid l && pinned_safe l.
Definition safe_line (l : list N) : bool := valid l && pinned_safe_line l.

Theorem safe_stored l : safe l = true \/ safe_line l = true -> stored l = l.
Proof. intros [H|H]; apply andb_true_iff in H; apply valid_stored; tauto. Qed.

Theorem pinned_safe_refuted : exists l, pinned_safe l = true /\ pinned_safe_line l = true /\ stored l <> l.
Proof. exists [255]. repeat split. discriminate. Qed.

(* two different accepted texts are even stored as the same one *)
Theorem pinned_safe_collision : exists a b, a <> b /\ pinned_safe_line a = true /\ pinned_safe_line b = true /\ stored a = stored b.
Proof. exists [107; 254], [107; 255]. repeat split. discriminate. Qed.

(* ---------------------------------------------------------------- 2. the shape of a bug *)

(* Bug.Validate (every reader, every merge): the first operation is a create (type 1), no other one is *)
Definition shape_ok (kinds : list N) : bool :=
  match kinds with
  | k :: rest => (k =? 1) && forallb (fun k => negb (k =? 1)) rest
  | [] => false
  end.
(* dag.Entity.Validate, all that the pinned Commit applies: not empty *)
Definition pinned_shape_ok (kinds : list N) : bool := match kinds with [] => false | _ => true end.

Theorem pinned_shape_refuted : exists ks, pinned_shape_ok ks = true /\ shape_ok ks = false.
Proof. exists [3]. split; reflexivity. Qed.

(* ---------------------------------------------------------------- 3. objects of one entity committing in turn *)

(* commits are content-addressed: a commit is its operations and its whole ancestry *)
Inductive cmt := Root (ops : list nat) | Child (p : cmt) (ops : list nat).
Fixpoint cread (c : cmt) : list nat := match c with Root o => o | Child p o => cread p ++ o end.
Definition rread (r : option cmt) : list nat := match r with None => [] | Some c => cread c end.

Fixpoint nats_eqb (a b : list nat) : bool :=
  match a, b with [], [] => true | x :: a', y :: b' => Nat.eqb x y && nats_eqb a' b' | _, _ => false end.
Fixpoint cmt_eqb (a b : cmt) : bool :=
  match a, b with
  | Root x, Root y => nats_eqb x y
  | Child p x, Child q y => cmt_eqb p q && nats_eqb x y
  | _, _ => false
  end.
Definition ocmt_eqb (a b : option cmt) : bool :=
  match a, b with None, None => true | Some x, Some y => cmt_eqb x y | _, _ => false end.

Lemma nats_eqb_eq a b : nats_eqb a b = true -> a = b.
Proof. revert b. induction a as [|x a IH]; destruct b as [|y b]; cbn; try discriminate; [reflexivity|].
  intros H. apply andb_true_iff in H as [H1 H2]. apply Nat.eqb_eq in H1. f_equal; auto. Qed.
Lemma cmt_eqb_eq a b : cmt_eqb a b = true -> a = b.
Proof. revert b. induction a as [x|p IH x]; destruct b as [y|q y]; cbn; try discriminate.
  - intros H. f_equal. now apply nats_eqb_eq.
  - intros H. apply andb_true_iff in H as [H1 H2]. f_equal; [now apply IH|now apply nats_eqb_eq]. Qed.
Lemma ocmt_eqb_eq a b : ocmt_eqb a b = true -> a = b.
Proof. destruct a, b; cbn; try discriminate; [|reflexivity]. intros H. f_equal. now apply cmt_eqb_eq. Qed.

(* the reference, and for every object (handle) the commit it was read at or moved the reference to *)
Record hstate := mkhs { h_ref : option cmt; h_last : nat -> option cmt }.
Definition hs0 : hstate := mkhs None (fun _ => None).
Definition upd (f : nat -> option cmt) (h : nat) (v : option cmt) : nat -> option cmt := fun k => if Nat.eqb k h then v else f k.

Inductive hev := HLoad (h : nat) | HCommit (h : nat) (ok : bool) (new : list nat).

Definition new_commit (last : option cmt) (new : list nat) : cmt := match last with None => Root new | Some p => Child p new end.
(* guard = true: Commit moves the reference only if it is where the object left it (the repair);
   guard = false: it moves it in any case (pinned). `ok`: everything else Commit checks. *)
Definition hdecide (guard : bool) (s : hstate) (h : nat) (ok : bool) : bool :=
  ok && (negb guard || ocmt_eqb (h_ref s) (h_last s h)).
Definition hstep (guard : bool) (s : hstate) (e : hev) : hstate :=
  match e with
  | HLoad h => mkhs (h_ref s) (upd (h_last s) h (h_ref s))
  | HCommit h ok new =>
      if hdecide guard s h ok
      then let c := new_commit (h_last s h) new in mkhs (Some c) (upd (h_last s) h (Some c))
      else s
  end.
(* the run: final state, the operations of the accepted commits in order, the decisions *)
Fixpoint hrun (guard : bool) (s : hstate) (evs : list hev) : hstate * list nat * list bool :=
  match evs with
  | [] => (s, [], [])
  | e :: t =>
      let '(s', log, ds) := hrun guard (hstep guard s e) t in
      match e with
      | HLoad _ => (s', log, ds)
      | HCommit h ok new => if hdecide guard s h ok then (s', new ++ log, true :: ds) else (s', log, false :: ds)
      end
  end.

Lemma hrun_reads s evs : let '(s', log, _) := hrun true s evs in rread (h_ref s') = rread (h_ref s) ++ log.
Proof. revert s. induction evs as [|e t IH]; intros s; cbn [hrun].
  - cbn. now rewrite app_nil_r.
  - specialize (IH (hstep true s e)). destruct (hrun true (hstep true s e) t) as [[s' log] ds].
    destruct e as [h|h ok new]; cbn [hstep] in IH.
    + exact IH.
    + destruct (hdecide true s h ok) eqn:D; [|exact IH].
      cbn [h_ref] in IH. rewrite IH. rewrite app_assoc. f_equal.
      unfold hdecide in D. apply andb_true_iff in D as [_ D]. cbn in D. apply ocmt_eqb_eq in D. rewrite <- D.
      destruct (h_ref s); reflexivity. Qed.

(* whatever objects load and commit in whatever order: what is read at the reference is exactly the
   operations of all the accepted commits, in the order they were accepted *)
Theorem cas_reads_all evs : let '(s, log, _) := hrun true hs0 evs in rread (h_ref s) = log.
Proof. exact (hrun_reads hs0 evs). Qed.

Theorem move_loses_refuted : exists evs, let '(s, log, _) := hrun false hs0 evs in exists op, In op log /\ ~ In op (rread (h_ref s)).
Proof. exists [HLoad 0%nat; HCommit 0%nat true [0%nat]; HLoad 1%nat; HCommit 1%nat true [1%nat]; HCommit 0%nat true [2%nat]].
  cbn. exists 1%nat. split; [tauto|]. intros [H|[H|[]]]; discriminate. Qed.

(* ---------------------------------------------------------------- 4. names in the commits written *)

Fixpoint drop_while {A} (f : A -> bool) (l : list A) : list A :=
  match l with [] => [] | x :: t => if f x then drop_while f t else l end.
Definition trim {A} (f : A -> bool) (l : list A) : list A := rev (drop_while f (rev (drop_while f l))).

(* ident.c: crud *)
Definition crud (r : N) : bool := (r <=? 32) || existsb (N.eqb r) [46; 44; 58; 59; 60; 62; 34; 92; 39].
Definition forbidden (r : N) : bool := (r =? 60) || (r =? 62) || (r =? 10).
Definition pinned_clean (l : list N) : list N := filter (fun r => negb (forbidden r)) l.
Definition clean (l : list N) : list N := trim crud (pinned_clean l).
(* go-git Signature.Decode: bytes.Trim(b[:open], " ") *)
Definition gogit_name (l : list N) : list N := trim (N.eqb 32) l.

Definition head_not {A} (f : A -> bool) (l : list A) : Prop := match l with [] => True | x :: _ => f x = false end.

Lemma dw_head {A} (f : A -> bool) l : head_not f (drop_while f l).
Proof. induction l as [|x t IH]; cbn; [exact I|]. destruct (f x) eqn:E; [exact IH|exact E]. Qed.
Lemma dw_id {A} (f : A -> bool) l : head_not f l -> drop_while f l = l.
Proof. destruct l as [|x t]; cbn; [reflexivity|]. now intros ->. Qed.
Lemma dw_snoc {A} (f : A -> bool) a x : f x = false -> drop_while f (a ++ [x]) = drop_while f a ++ [x].
Proof. intros H. induction a as [|y a IH]; cbn; [now rewrite H|]. destruct (f y); [exact IH|reflexivity]. Qed.

Lemma trim_ends {A} (f : A -> bool) l : head_not f (trim f l) /\ head_not f (rev (trim f l)).
Proof. unfold trim. rewrite rev_involutive. split; [|apply dw_head].
  pose proof (dw_head f l) as H. destruct (drop_while f l) as [|x t]; [exact I|]. cbn [head_not] in H.
  cbn [rev]. rewrite dw_snoc by exact H. rewrite rev_app_distr. exact H. Qed.

Lemma trim_id {A} (g : A -> bool) l : head_not g l -> head_not g (rev l) -> trim g l = l.
Proof. intros H1 H2. unfold trim. rewrite (dw_id g l H1), (dw_id g (rev l) H2). apply rev_involutive. Qed.

Lemma head_not_weaken {A} (f g : A -> bool) l : (forall x, g x = true -> f x = true) -> head_not f l -> head_not g l.
Proof. intros W. destruct l as [|x t]; cbn; [auto|]. intros H. destruct (g x) eqn:E; [|reflexivity]. apply W in E. congruence. Qed.

(* a name cleaned the way git does is a name go-git's decoder leaves as it is: the commit encoded again
   to verify a signature is the commit that has been signed *)
Theorem clean_survives_gogit l : gogit_name (clean l) = clean l.
Proof. unfold gogit_name, clean. destruct (trim_ends crud (pinned_clean l)) as [H1 H2].
  assert (W : forall x, (32 =? x) = true -> crud x = true).
  { intros x E. apply N.eqb_eq in E. subst x. reflexivity. }
  apply trim_id; eapply head_not_weaken; eauto. Qed.

Lemma dw_incl {A} (f : A -> bool) l x : In x (drop_while f l) -> In x l.
Proof. induction l as [|y t IH]; cbn; [tauto|]. destruct (f y); [intros H; right; auto|cbn; tauto]. Qed.
(* ... and still has none of the characters that end a name or a line *)
Theorem clean_no_forbidden l x : In x (clean l) -> forbidden x = false.
Proof. unfold clean, trim, pinned_clean. intros H. apply in_rev, dw_incl, in_rev, dw_incl in H.
  apply filter_In in H as [_ H]. now apply negb_true_iff in H. Qed.

Theorem clean_name_survives l : gogit_name (clean l) = clean l /\ forall x, In x (clean l) -> forbidden x = false.
Proof. split; [apply clean_survives_gogit|apply clean_no_forbidden]. Qed.

Theorem pinned_clean_refuted : exists l, gogit_name (pinned_clean l) <> pinned_clean l.
Proof. exists [74; 32]. discriminate. Qed.
