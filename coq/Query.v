From Coq Require Import List Arith NArith Bool.
Import ListNotations.
Local Open Scope N_scope.

Definition rune := N.
Definition str := list rune.

Definition is_quote (r : rune) : bool := N.eqb r 34 || N.eqb r 39.
(* unicode.IsSpace *)
Definition is_space (r : rune) : bool :=
  (N.leb 9 r && N.leb r 13) || N.eqb r 32 || N.eqb r 133 || N.eqb r 160 || N.eqb r 5760 ||
  (N.leb 8192 r && N.leb r 8202) || N.eqb r 8232 || N.eqb r 8233 || N.eqb r 8239 || N.eqb r 8287 || N.eqb r 12288.
Definition is_colon (r : rune) : bool := N.eqb r 58.

(* splitFunc: state = (lastQuote option, current chunk reversed, result reversed); [keep] = keepEmpty: an empty
   chunk (nothing between two separators, before the first or after the last one) is kept instead of dropped *)
Definition flush (keep : bool) (chunk : str) (acc : list str) : list str :=
  if keep then rev chunk :: acc else match chunk with [] => acc | _ => rev chunk :: acc end.
Fixpoint split_go (keep : bool) (sep : rune -> bool) (inp : str) (q : option rune) (chunk : str) (acc : list str) : option (list str) :=
  match inp with
  | [] => match q with
          | Some _ => None
          | None => Some (rev (flush keep chunk acc))
          end
  | r :: t =>
    match q with
    | None => if is_quote r then split_go keep sep t (Some r) (r :: chunk) acc
              else if sep r then split_go keep sep t None [] (flush keep chunk acc)
              else split_go keep sep t None (r :: chunk) acc
    | Some lq => if N.eqb r lq then split_go keep sep t None (r :: chunk) acc
                 else split_go keep sep t q (r :: chunk) acc
    end
  end.
Definition split_func keep sep inp := split_go keep sep inp None [] [].

Definition remove_quote (f : str) : str :=
  match f with
  | r1 :: (_ :: _) as t =>
      let r2 := last t 0 in
      if N.eqb r1 r2 && is_quote r1 then removelast t else f
  | _ => f
  end.

Inductive token := TKV (q v : str) | TKVV (q sq v : str) | TSearch (t : str).

Definition has_prefix_colon (f : str) := match f with r :: _ => is_colon r | [] => false end.
Definition has_suffix_colon (f : str) := match rev f with r :: _ => is_colon r | [] => false end.

Definition is_nil (c : str) : bool := match c with [] => true | _ => false end.

(* [strict] = the colon splitting keeps empty chunks, so that "status::open" has one and is refused with
   "empty qualifier or value"; strict = false is the lexer as it was (the empty-chunk test could never fire) *)
Fixpoint tokenize_fields_k (strict : bool) (fields : list str) : option (list token) :=
  match fields with
  | [] => Some []
  | f :: rest =>
    match split_func strict is_colon f with
    | None => None
    | Some chunks =>
      if has_prefix_colon f || has_suffix_colon f then None else
      if existsb is_nil chunks then None else
      let cs := map remove_quote chunks in
      match (match cs with
             | [a] => Some (TSearch a)
             | [a; b] => Some (TKV a b)
             | [a; b; c] => Some (TKVV a b c)
             | _ => None end), tokenize_fields_k strict rest with
      | Some tk, Some tks => Some (tk :: tks)
      | _, _ => None
      end
    end
  end.
Definition tokenize_k (strict : bool) (q : str) : option (list token) :=
  match split_func false is_space q with None => None | Some fields => tokenize_fields_k strict fields end.
Definition tokenize_fields := tokenize_fields_k true.
Definition tokenize := tokenize_k true.

Eval vm_compute in tokenize [97;58;34;98;32;99;34;32;100]. (* a:"b c" d *)

(* ---------- parser ---------- *)
Definition ascii_lower (r : rune) : rune := if N.leb 65 r && N.leb r 90 then r + 32 else r.
Fixpoint drop_space (s : str) : str := match s with r :: t => if is_space r then drop_space t else s | [] => [] end.
Definition trim_space (s : str) : str := rev (drop_space (rev (drop_space s))).
Fixpoint str_eqb (a b : str) : bool := match a, b with [], [] => true | x :: a', y :: b' => N.eqb x y && str_eqb a' b' | _, _ => false end.

Definition s_open := [111;112;101;110]. Definition s_closed := [99;108;111;115;101;100].
Definition status_of (v : str) : option N :=
  let w := trim_space (map ascii_lower v) in
  if str_eqb w s_open then Some 1 else if str_eqb w s_closed then Some 2 else None.

Record query := { q_search : list str; q_status : list N; q_author : list str; q_meta : list (str * str);
                  q_actor : list str; q_participant : list str; q_label : list str; q_title : list str;
                  q_nolabel : bool; q_orderby : N; q_dir : N; q_sorted : bool }.
Definition q0 := {| q_search := []; q_status := []; q_author := []; q_meta := []; q_actor := []; q_participant := [];
                    q_label := []; q_title := []; q_nolabel := false; q_orderby := 2; q_dir := 2; q_sorted := false |}.

Definition lit (l : list N) := l.
Definition k_status := [115;116;97;116;117;115]. Definition k_state := [115;116;97;116;101].
Definition k_author := [97;117;116;104;111;114]. Definition k_actor := [97;99;116;111;114].
Definition k_participant := [112;97;114;116;105;99;105;112;97;110;116]. Definition k_label := [108;97;98;101;108].
Definition k_title := [116;105;116;108;101]. Definition k_no := [110;111]. Definition k_sort := [115;111;114;116].
Definition k_metadata := [109;101;116;97;100;97;116;97].
Definition v_id := [105;100]. Definition v_id_asc := [105;100;45;97;115;99]. Definition v_id_desc := [105;100;45;100;101;115;99].
Definition v_creation := [99;114;101;97;116;105;111;110]. Definition v_creation_asc := v_creation ++ [45;97;115;99]. Definition v_creation_desc := v_creation ++ [45;100;101;115;99].
Definition v_edit := [101;100;105;116]. Definition v_edit_asc := v_edit ++ [45;97;115;99]. Definition v_edit_desc := v_edit ++ [45;100;101;115;99].

Definition sorting (v : str) : option (N * N) :=
  if str_eqb v v_id_desc then Some (1, 2) else if str_eqb v v_id || str_eqb v v_id_asc then Some (1, 1)
  else if str_eqb v v_creation || str_eqb v v_creation_desc then Some (2, 2) else if str_eqb v v_creation_asc then Some (2, 1)
  else if str_eqb v v_edit || str_eqb v v_edit_desc then Some (3, 2) else if str_eqb v v_edit_asc then Some (3, 1) else None.

Definition step (q : query) (t : token) : option query :=
  match t with
  | TSearch x => Some {| q_search := q_search q ++ [x]; q_status := q_status q; q_author := q_author q; q_meta := q_meta q; q_actor := q_actor q; q_participant := q_participant q; q_label := q_label q; q_title := q_title q; q_nolabel := q_nolabel q; q_orderby := q_orderby q; q_dir := q_dir q; q_sorted := q_sorted q |}
  | TKVV k sk v => if str_eqb k k_metadata then Some {| q_search := q_search q; q_status := q_status q; q_author := q_author q; q_meta := q_meta q ++ [(sk, v)]; q_actor := q_actor q; q_participant := q_participant q; q_label := q_label q; q_title := q_title q; q_nolabel := q_nolabel q; q_orderby := q_orderby q; q_dir := q_dir q; q_sorted := q_sorted q |} else None
  | TKV k v =>

    if str_eqb k k_status || str_eqb k k_state then
      match status_of v with None => None | Some st => Some {| q_search := q_search q; q_status := q_status q ++ [st]; q_author := q_author q; q_meta := q_meta q; q_actor := q_actor q; q_participant := q_participant q; q_label := q_label q; q_title := q_title q; q_nolabel := q_nolabel q; q_orderby := q_orderby q; q_dir := q_dir q; q_sorted := q_sorted q |} end
    else if str_eqb k k_author then Some {| q_search := q_search q; q_status := q_status q; q_author := q_author q ++ [v]; q_meta := q_meta q; q_actor := q_actor q; q_participant := q_participant q; q_label := q_label q; q_title := q_title q; q_nolabel := q_nolabel q; q_orderby := q_orderby q; q_dir := q_dir q; q_sorted := q_sorted q |}
    else if str_eqb k k_actor then Some {| q_search := q_search q; q_status := q_status q; q_author := q_author q; q_meta := q_meta q; q_actor := q_actor q ++ [v]; q_participant := q_participant q; q_label := q_label q; q_title := q_title q; q_nolabel := q_nolabel q; q_orderby := q_orderby q; q_dir := q_dir q; q_sorted := q_sorted q |}
    else if str_eqb k k_participant then Some {| q_search := q_search q; q_status := q_status q; q_author := q_author q; q_meta := q_meta q; q_actor := q_actor q; q_participant := q_participant q ++ [v]; q_label := q_label q; q_title := q_title q; q_nolabel := q_nolabel q; q_orderby := q_orderby q; q_dir := q_dir q; q_sorted := q_sorted q |}
    else if str_eqb k k_label then Some {| q_search := q_search q; q_status := q_status q; q_author := q_author q; q_meta := q_meta q; q_actor := q_actor q; q_participant := q_participant q; q_label := q_label q ++ [v]; q_title := q_title q; q_nolabel := q_nolabel q; q_orderby := q_orderby q; q_dir := q_dir q; q_sorted := q_sorted q |}
    else if str_eqb k k_title then Some {| q_search := q_search q; q_status := q_status q; q_author := q_author q; q_meta := q_meta q; q_actor := q_actor q; q_participant := q_participant q; q_label := q_label q; q_title := q_title q ++ [v]; q_nolabel := q_nolabel q; q_orderby := q_orderby q; q_dir := q_dir q; q_sorted := q_sorted q |}
    else if str_eqb k k_no then
      if str_eqb v k_label then Some {| q_search := q_search q; q_status := q_status q; q_author := q_author q; q_meta := q_meta q; q_actor := q_actor q; q_participant := q_participant q; q_label := q_label q; q_title := q_title q; q_nolabel := true; q_orderby := q_orderby q; q_dir := q_dir q; q_sorted := q_sorted q |} else None
    else if str_eqb k k_sort then
      if q_sorted q then None else
      match sorting v with None => None | Some (ob, d) => Some {| q_search := q_search q; q_status := q_status q; q_author := q_author q; q_meta := q_meta q; q_actor := q_actor q; q_participant := q_participant q; q_label := q_label q; q_title := q_title q; q_nolabel := q_nolabel q; q_orderby := ob; q_dir := d; q_sorted := true |} end
    else None
  end.

Fixpoint steps (q : query) (ts : list token) : option query :=
  match ts with [] => Some q | t :: r => match step q t with None => None | Some q' => steps q' r end end.
Definition parse_k (strict : bool) (s : str) : option query := match tokenize_k strict s with None => None | Some ts => steps q0 ts end.
Definition parse (s : str) : option query := parse_k true s.
(* the parser before "an empty chunk between two colons is refused" *)
Definition parse_lenient (s : str) : option query := parse_k false s.
