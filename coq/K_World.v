(* Session cases observed on real go-git repositories: replay against the Sync model (correspondence)
   and helper scans used by the per-property checkers K_C01 / K_C02 / K_C03 / K_C05. *)
From Coq Require Import List Arith NArith Lia Bool.
Import ListNotations.
From GB Require Export Reach Sort Read World Sync.
Local Open Scope N_scope.

Record obsv := mkobs {
  o_out : outcome;
  o_chk : bool;                               (* false: only the outcome was observable (merges inside one MergeAll) *)
  o_loc : amap; o_trk : amap; o_rem : amap;   (* refs after the event: acting replica's local and tracking refs, the remote's *)
  o_clk : N; o_cclk : N;                      (* acting replica's edit / create clocks after the event *)
  o_nst : nat                                 (* number of commits known (any ref of any repository) after the event *)
}.

Record case := mkcase { c_n : nat; c_evs : list (event * obsv); c_store : store; c_quiesced : bool }.

(* ---- equality tests ---- *)
Fixpoint list_eqb {A} (eqb : A -> A -> bool) (a b : list A) : bool :=
  match a, b with [], [] => true | x :: a', y :: b' => eqb x y && list_eqb eqb a' b' | _, _ => false end.
Definition opt_eqb {A} (eqb : A -> A -> bool) (a b : option A) : bool :=
  match a, b with Some x, Some y => eqb x y | None, None => true | _, _ => false end.
Definition pair_eqb (a b : nat * nat) := Nat.eqb (fst a) (fst b) && Nat.eqb (snd a) (snd b).
Definition amap_eqb := list_eqb pair_eqb.
Definition ops_eqb := list_eqb N.eqb.
Definition mstatus_eqb (a b : mstatus) :=
  match a, b with MNew, MNew | MNothing, MNothing | MUpdated, MUpdated | MInvalid, MInvalid => true | _, _ => false end.
Definition outcome_eqb (a b : outcome) :=
  match a, b with
  | ODone, ODone | OFail, OFail => true
  | ORead x, ORead y => opt_eqb ops_eqb x y
  | OMerge s x, OMerge t y => mstatus_eqb s t && opt_eqb ops_eqb x y
  | _, _ => false
  end.
Definition pack_eqb (a b : pack) :=
  N.eqb (p_id a) (p_id b) && N.eqb (p_author a) (p_author b) && ops_eqb (p_ops a) (p_ops b) &&
  N.eqb (p_edit a) (p_edit b) && N.eqb (p_create a) (p_create b).
Definition commit_eqb (a b : commit) := list_eqb Nat.eqb (c_parents a) (c_parents b) && pack_eqb (c_pack a) (c_pack b).
Definition store_eqb := list_eqb commit_eqb.

Definition ev_rep (ev : event) : nat :=
  match ev with ECommit r _ _ | ERead r _ | EPush r | EFetch r | EMerge r _ _ _ | ERemove r _ | EReopen r _ => r end.

Definition post_agrees (sw : sworld) (r : nat) (out : outcome) (o : obsv) : bool :=
  outcome_eqb out (o_out o) && (negb (o_chk o) ||
  amap_eqb (locals (ww sw) r) (o_loc o) && amap_eqb (asort (track_of sw r)) (o_trk o) && amap_eqb (asort (remote sw)) (o_rem o) &&
  N.eqb (clk (rep_of (ww sw) r)) (o_clk o) && N.eqb (cclk (rep_of (ww sw) r)) (o_cclk o) &&
  Nat.eqb (length (st (ww sw))) (o_nst o)).

(* index of the first event on which model and implementation differ *)
Fixpoint replay (sw : sworld) (evs : list (event * obsv)) (i : nat) : sworld * option nat :=
  match evs with
  | [] => (sw, None)
  | (ev, o) :: t =>
      match sstep sw ev with
      | None => (sw, Some i)
      | Some (sw', out) => if post_agrees sw' (ev_rep ev) out o then replay sw' t (S i) else (sw', Some i)
      end
  end.

Definition divergence (c : case) : option nat :=
  match replay (sw0 (c_n c)) (c_evs c) 0 with
  | (_, Some i) => Some i
  | (sw, None) => if store_eqb (st (ww sw)) (c_store c) then None else Some (length (c_evs c))
  end.

Definition agrees (c : case) : bool := match divergence c with None => true | Some _ => false end.

Fixpoint index_filter {A} (f : A -> bool) (i : nat) (l : list A) : list nat :=
  match l with [] => [] | x :: t => if f x then index_filter f (S i) t else i :: index_filter f (S i) t end.
Definition mismatches (cs : list case) : list nat := index_filter agrees 0 cs.

(* ---- scans over the implementation's observations ---- *)

(* per (replica, entity): head and what bug.Read returned, latest first *)
Record rrec := mkrec { rr_r : nat; rr_e : nat; rr_h : nat; rr_ops : option (list N) }.

Definition rec_find (r e : nat) (l : list rrec) : option rrec :=
  find (fun x => Nat.eqb (rr_r x) r && Nat.eqb (rr_e x) e) l.
Definition rec_drop (r e : nat) (l : list rrec) : list rrec :=
  filter (fun x => negb (Nat.eqb (rr_r x) r && Nat.eqb (rr_e x) e)) l.
Definition head_find (h : nat) (l : list rrec) : option rrec := find (fun x => Nat.eqb (rr_h x) h) l.

(* commits with a non-empty operation pack reachable from h (sorted by index: a canonical set) *)
Definition nonempty_set (s : store) (h : nat) : list nat :=
  filter (fun i => match pack_at s i with Some p => nonempty p | None => false end) (reachl s h).

Fixpoint sublistb (a b : list N) : bool :=
  match a, b with
  | [], _ => true
  | _ :: _, [] => false
  | x :: a', y :: b' => if N.eqb x y then sublistb a' b' else sublistb a b'
  end.
Definition mem_N (x : N) (l : list N) := existsb (N.eqb x) l.
