(* C10 — [Snap.compile] computes the documented interpretation (SnapSpec.v) for every valid operation sequence.
   Each component is proved under the weakest hypothesis it needs:
     status, labels, operation log : none                      (compile_status_spec, compile_labels_spec, compile_ops_spec)
     title                         : the sequence is non-empty (compile_title_spec)
     timeline                      : no later create re-uses the first id (compile_timeline_spec)
     metadata                      : full ids pairwise distinct (compile_meta_spec)
     comments, actors/participants : valid_ids = distinct full ids (compile_comments_actors_spec)
   and the counterexamples at the end show that the hypotheses cannot be dropped. *)
From Coq Require Import List Arith NArith Bool Lia Sorting.Sorted Sorting.Permutation.
Import ListNotations.
From GB Require Import Snap Labels SnapProps SnapSpec.
Local Open Scope N_scope.

(* ------------------------------------------------------------------ generic list facts *)
Lemma NoDup_snoc {A} (l : list A) a : NoDup (l ++ [a]) <-> NoDup l /\ ~ In a l.
Proof. split.
  - intros H. apply NoDup_remove in H. rewrite app_nil_r in H. exact H.
  - intros [H1 H2]. eapply Permutation_NoDup; [apply Permutation_cons_append|]. now constructor. Qed.

Lemma NoDup_map_inj_on {A B} (f : A -> B) l : NoDup (map f l) -> forall x y, In x l -> In y l -> f x = f y -> x = y.
Proof. induction l as [|a t IH]; cbn; intros ND x y Hx Hy E; [contradiction|]. inversion ND as [|? ? Hn ND']; subst.
  destruct Hx as [Hx|Hx], Hy as [Hy|Hy]; subst; auto.
  - exfalso. apply Hn. rewrite E. now apply in_map.
  - exfalso. apply Hn. rewrite <- E. now apply in_map. Qed.

Lemma NoDup_map_on {A B} (f : A -> B) l : (forall x y, In x l -> In y l -> f x = f y -> x = y) -> NoDup l -> NoDup (map f l).
Proof. induction l as [|a t IH]; cbn; intros Hi ND; [constructor|]. inversion ND as [|? ? Hn ND']; subst. constructor.
  - intros H. apply in_map_iff in H as (y & E & Hy). assert (y = a) by (apply Hi; auto). subst y. contradiction.
  - apply IH; auto. Qed.

Lemma find_unique {A} (f : A -> bool) l x : In x l -> f x = true -> (forall y, In y l -> f y = true -> y = x) -> find f l = Some x.
Proof. induction l as [|a t IH]; cbn; intros Hx Fx U; [contradiction|]. destruct (f a) eqn:Fa.
  - f_equal. apply U; auto.
  - destruct Hx as [->|Hx]; [congruence|]. apply IH; auto. Qed.

Lemma existsb_map {A B} (f : B -> bool) (g : A -> B) l : existsb f (map g l) = existsb (fun x => f (g x)) l.
Proof. induction l as [|a t IH]; cbn; [reflexivity|]. now rewrite IH. Qed.

Lemma existsb_false_forall {A} (f : A -> bool) l : existsb f l = false -> forall x, In x l -> f x = false.
Proof. intros H x Hx. destruct (f x) eqn:E; [|reflexivity]. rewrite <- H. symmetry. apply existsb_exists. eauto. Qed.

Lemma map_id_on {A} (f : A -> A) l : (forall x, In x l -> f x = x) -> map f l = l.
Proof. induction l as [|a t IH]; cbn; intros H; [reflexivity|]. rewrite H by auto. f_equal. apply IH. auto. Qed.

Lemma nodupb_NoDup l : nodupb l = true <-> NoDup l.
Proof. induction l as [|x t IH]; cbn; [split; [constructor|reflexivity]|].
  rewrite andb_true_iff, negb_true_iff, IH. split.
  - intros [H1 H2]. constructor; [|exact H2]. intros H. apply existsb_eqb_In in H. congruence.
  - intros H. inversion H; subst. split; [|assumption]. destruct (existsb (N.eqb x) t) eqn:E; [|reflexivity].
    apply existsb_eqb_In in E. contradiction. Qed.

(* ------------------------------------------------------------------ what one operation does to each field *)
Ltac apply_cases :=
  unfold apply; cbn;
  repeat match goal with
         | |- context [match s_id ?s with _ => _ end] => destruct (s_id s)
         | |- context [if negb ?b then _ else _] => destruct b; cbn
         | |- context [match timeline_target ?a ?b with _ => _ end] => destruct (timeline_target a b) as [[?|?]|]; cbn
         end; cbn.

Lemma apply_ops s o : s_ops (apply s o) = s_ops s ++ [op_id o].
Proof. destruct o; apply_cases; reflexivity. Qed.

Definition extra_step (ex : list (opid * list (N * N))) (o : op) :=
  match o with OSetMetadata _ _ t kv => set_extra_first t kv ex | _ => ex end.
Lemma apply_extra s o : s_extra (apply s o) = extra_step (s_extra s) o ++ [(op_id o, [])].
Proof. destruct o; apply_cases; reflexivity. Qed.

Lemma apply_status s o : s_status (apply s o) = status_step (s_status s) o.
Proof. destruct o; apply_cases; reflexivity. Qed.

Lemma apply_labels_proj s o :
  s_labels (apply s o) = match o with OLabelChange _ _ a r => apply_labels (s_labels s) a r | _ => s_labels s end.
Proof. destruct o; apply_cases; reflexivity. Qed.

(* ------------------------------------------------------------------ operation log, status *)
Lemma fold_ops ops : forall s, s_ops (fold_left apply ops s) = s_ops s ++ map op_id ops.
Proof. induction ops as [|o t IH]; intros s; cbn; [now rewrite app_nil_r|]. rewrite IH, apply_ops, <- app_assoc. reflexivity. Qed.

Theorem compile_ops_spec ops : s_ops (compile ops) = map op_id ops.
Proof. unfold compile. rewrite fold_ops. reflexivity. Qed.

Lemma fold_status ops : forall s, s_status (fold_left apply ops s) = fold_left status_step ops (s_status s).
Proof. induction ops as [|o t IH]; intros s; cbn; [reflexivity|]. rewrite IH, apply_status. reflexivity. Qed.

Theorem compile_status_spec ops : s_status (compile ops) = spec_status ops.
Proof. unfold compile. rewrite fold_status. reflexivity. Qed.

(* ------------------------------------------------------------------ labels *)
Lemma sorted_perm_eq : forall a b, StronglySorted N.le a -> StronglySorted N.le b -> Permutation a b -> a = b.
Proof. induction a as [|x a IH]; intros b Sa Sb P.
  - apply Permutation_nil in P. now subst.
  - destruct b as [|y b]; [apply Permutation_sym, Permutation_nil in P; discriminate|].
    inversion Sa as [|? ? Sa' Fa]; inversion Sb as [|? ? Sb' Fb]; subst.
    assert (E : x = y).
    { assert (Hx : In x (y :: b)) by (eapply Permutation_in; [exact P|now left]).
      assert (Hy : In y (x :: a)) by (eapply Permutation_in; [symmetry; exact P|now left]).
      rewrite Forall_forall in Fa, Fb.
      destruct Hx as [Hx|Hx]; [now subst|]. destruct Hy as [Hy|Hy]; [now subst|].
      apply Fb in Hx. apply Fa in Hy. lia. }
    subst y. f_equal. apply IH; auto. eapply Permutation_cons_inv; exact P. Qed.

Lemma sorted_ext a b : Sorted N.le a -> Sorted N.le b -> NoDup a -> NoDup b -> (forall x, In x a <-> In x b) -> a = b.
Proof. intros Sa Sb Na Nb M. apply sorted_perm_eq.
  - apply Sorted_StronglySorted; [intros ? ? ?; apply N.le_trans|exact Sa].
  - apply Sorted_StronglySorted; [intros ? ? ?; apply N.le_trans|exact Sb].
  - now apply NoDup_Permutation. Qed.

Definition lstep (S : list N) (o : op) : list N :=
  match o with
  | OLabelChange _ _ added removed =>
      filter (fun x => negb (existsb (N.eqb x) removed)) (fold_left (fun S a => set_add a S) added S)
  | _ => S end.

Lemma set_add_all A : forall S, NoDup S ->
  NoDup (fold_left (fun S a => set_add a S) A S) /\ forall x, In x (fold_left (fun S a => set_add a S) A S) <-> In x S \/ In x A.
Proof. induction A as [|a A IH]; intros S ND; cbn; [split; auto; intuition|].
  assert (H : NoDup (set_add a S) /\ forall x, In x (set_add a S) <-> In x S \/ x = a).
  { unfold set_add. destruct (existsb (N.eqb a) S) eqn:E.
    - apply existsb_eqb_In in E. split; [exact ND|]. intros x. split; [auto|intros [H|H]; [exact H|now subst]].
    - split; [constructor; auto; intros H; apply existsb_eqb_In in H; congruence|]. intros x. cbn. intuition. }
  destruct H as [ND' M]. destruct (IH _ ND') as [ND'' M'']. split; [exact ND''|]. intros x. rewrite M'', M. intuition. Qed.

Lemma lstep_NoDup S o : NoDup S -> NoDup (lstep S o).
Proof. intros ND. destruct o; cbn; auto. apply NoDup_filter. now apply set_add_all. Qed.

Lemma label_step L S a r : NoDup S -> L = sortN S ->
  apply_labels L a r = sortN (filter (fun x => negb (existsb (N.eqb x) r)) (fold_left (fun S a => set_add a S) a S)).
Proof. intros ND ->.
  assert (NDL : NoDup (sortN S)) by (eapply Permutation_NoDup; [apply sortN_perm|exact ND]).
  destruct (C10_labels (sortN S) a r NDL) as (N1 & S1 & M1). destruct (set_add_all a S ND) as [N2 M2].
  set (F := filter _ _). assert (NF : NoDup F) by (now apply NoDup_filter).
  apply sorted_ext; auto.
  - apply sortN_sorted.
  - eapply Permutation_NoDup; [apply sortN_perm|exact NF].
  - intros x. rewrite M1. transitivity (In x F).
    + unfold F. rewrite filter_In, M2, negb_true_iff.
      assert (In x (sortN S) <-> In x S) by (split; apply Permutation_in; [symmetry|]; apply sortN_perm).
      assert (existsb (N.eqb x) r = false <-> ~ In x r).
      { rewrite <- existsb_eqb_In. destruct (existsb (N.eqb x) r); intuition congruence. }
      intuition.
    + split; apply Permutation_in; [|symmetry]; apply sortN_perm. Qed.

Lemma fold_labels ops : forall s S, NoDup S -> s_labels s = sortN S ->
  s_labels (fold_left apply ops s) = sortN (fold_left lstep ops S).
Proof. induction ops as [|o t IH]; intros s S ND H; cbn [fold_left]; [exact H|].
  apply IH; [now apply lstep_NoDup|]. rewrite apply_labels_proj. destruct o; cbn [lstep]; auto. now apply label_step. Qed.

Theorem compile_labels_spec ops : s_labels (compile ops) = spec_labels ops.
Proof. unfold compile, spec_labels. apply (fold_labels ops (seed ops) []); [constructor|reflexivity]. Qed.

(* ------------------------------------------------------------------ title *)
Definition tstep (first : opid) (t : N) (o : op) : N :=
  match o with
  | OCreate i _ title _ _ => if id_eqb i first then title else t
  | OSetTitle _ _ title => title
  | _ => t end.

(* the snapshot id always is the first id, up to its full component *)
Lemma apply_id_title first s j o : s_id s = Some j -> snd j = snd first ->
  (exists j', s_id (apply s o) = Some j' /\ snd j' = snd first) /\ s_title (apply s o) = tstep first (s_title s) o.
Proof. intros Hi Hj. destruct o; unfold apply; cbn [tstep].
  - rewrite Hi. unfold id_eqb. rewrite Hj, (N.eqb_sym (snd first)). destruct (N.eqb_spec (snd id) (snd first)); cbn; eauto.
  - cbn. eauto.
  - destruct (negb _); cbn; [eauto|]. destruct (timeline_target _ _) as [[?|?]|]; cbn; eauto.
  - cbn. eauto.
  - cbn. eauto.
  - cbn. eauto.
  - cbn. eauto.
  - cbn. eauto. Qed.

Lemma fold_title first ops : forall s j, s_id s = Some j -> snd j = snd first ->
  s_title (fold_left apply ops s) = fold_left (tstep first) ops (s_title s).
Proof. induction ops as [|o t IH]; intros s j Hi Hj; cbn [fold_left]; [reflexivity|].
  destruct (apply_id_title first s j o Hi Hj) as ((j' & Hi' & Hj') & Ht). rewrite (IH _ j' Hi' Hj'), Ht. reflexivity. Qed.

Theorem compile_title_spec o1 rest : s_title (compile (o1 :: rest)) = spec_title (op_id o1) (o1 :: rest).
Proof. unfold compile, spec_title. now rewrite (fold_title (op_id o1) (o1 :: rest) (seed (o1 :: rest)) (op_id o1)). Qed.

(* ------------------------------------------------------------------ timeline *)
Definition tlv (first : opid) (o : op) : list (bool * N) :=
  match o with
  | OCreate i _ _ _ _ => if id_eqb i first then [(true, fst i)] else []
  | OAddComment i _ _ _ => [(true, fst i)]
  | OSetTitle i _ _ | OSetStatus i _ _ | OLabelChange i _ _ _ => [(false, fst i)]
  | _ => [] end.

Lemma id_eqb_sym a b : id_eqb a b = id_eqb b a.
Proof. apply N.eqb_sym. Qed.

Lemma apply_timeline first s o : s_id s = Some first -> not_recreate first o ->
  s_id (apply s o) = Some first /\
  map titem_view (s_timeline (apply s o)) = map titem_view (s_timeline s) ++ tlv first o.
Proof. intros Hi Hn. destruct o; unfold apply; cbn [tlv not_recreate] in *.
  - rewrite Hi, Hn, id_eqb_sym, Hn. cbn. now rewrite app_nil_r.
  - cbn. now rewrite map_app.
  - destruct (negb _); cbn; [now rewrite app_nil_r|]. destruct (timeline_target _ _) as [[?|?]|]; cbn; now rewrite app_nil_r.
  - cbn. now rewrite map_app.
  - cbn. now rewrite map_app.
  - cbn. now rewrite map_app.
  - cbn. now rewrite app_nil_r.
  - cbn. now rewrite app_nil_r. Qed.

Lemma fold_timeline first ops : forall s, s_id s = Some first -> (forall o, In o ops -> not_recreate first o) ->
  map titem_view (s_timeline (fold_left apply ops s)) = map titem_view (s_timeline s) ++ flat_map (tlv first) ops.
Proof. induction ops as [|o t IH]; intros s Hi Hn; cbn [fold_left flat_map]; [now rewrite app_nil_r|].
  destruct (apply_timeline first s o Hi (Hn o (or_introl eq_refl))) as [Hi' Ht].
  rewrite (IH _ Hi' (fun x Hx => Hn x (or_intror Hx))), Ht, app_assoc. reflexivity. Qed.

Theorem compile_timeline_spec o1 rest : (forall o, In o rest -> not_recreate (op_id o1) o) ->
  map titem_view (s_timeline (compile (o1 :: rest))) = spec_timeline (op_id o1) (o1 :: rest).
Proof. intros Hn. unfold compile, spec_timeline. change (fun o => match o with OCreate i _ _ _ _ => _ | _ => _ end) with (tlv (op_id o1)).
  destruct (is_create o1) eqn:C.
  - destruct o1; try discriminate. cbn [fold_left flat_map op_id seed hd_error option_map].
    set (s1 := apply _ _). assert (H1 : s_id s1 = Some id /\ s_timeline s1 = [TComment id]).
    { unfold s1, apply. cbn. unfold id_eqb. rewrite N.eqb_refl. cbn. auto. }
    destruct H1 as [Hi Ht]. rewrite (fold_timeline id rest s1 Hi Hn), Ht. cbn. unfold id_eqb. now rewrite N.eqb_refl.
  - apply (fold_timeline (op_id o1) (o1 :: rest) (seed (o1 :: rest))); [reflexivity|].
    intros o [<-|H]; [destruct o1; try discriminate; exact I|now apply Hn]. Qed.

(* ------------------------------------------------------------------ metadata *)
Definition addkv (kv m : list (N * N)) : list (N * N) :=
  fold_left (fun m p => if existsb (fun q => N.eqb (fst q) (fst p)) m then m else m ++ [p]) kv m.
Definition mstep (target : opid) (m : list (N * N)) (o : op) : list (N * N) :=
  match o with OSetMetadata _ _ t kv => if id_eqb t target then addkv kv m else m | _ => m end.
Fixpoint raw_meta (ops : list op) : list (opid * list (N * N)) :=
  match ops with [] => [] | o :: t => (op_id o, fold_left (mstep (op_id o)) t []) :: raw_meta t end.

Lemma spec_meta_raw ops : spec_meta ops = map (fun e => kv_sort (snd e)) (raw_meta ops).
Proof. induction ops as [|o t IH]; cbn; [reflexivity|]. now rewrite IH. Qed.

Lemma raw_meta_ids ops : map fst (raw_meta ops) = map op_id ops.
Proof. induction ops as [|o t IH]; cbn; [reflexivity|]. now rewrite IH. Qed.

Lemma raw_meta_snoc ops o :
  raw_meta (ops ++ [o]) = map (fun e => (fst e, mstep (fst e) (snd e) o)) (raw_meta ops) ++ [(op_id o, [])].
Proof. induction ops as [|a t IH]; cbn; [reflexivity|]. rewrite IH, fold_left_app. reflexivity. Qed.

Lemma set_extra_first_map t kv : forall ex, NoDup (map (fun e => snd (fst e)) ex) ->
  set_extra_first t kv ex = map (fun e => (fst e, mstep (fst e) (snd e) (OSetMetadata t 0 t kv))) ex.
Proof. induction ex as [|e r IH]; cbn; intros ND; [reflexivity|]. inversion ND as [|? ? Hn ND']; subst.
  rewrite (id_eqb_sym t). destruct (id_eqb _ t) eqn:E.
  - f_equal. symmetry. apply map_id_on. intros e' He'. destruct e' as [i m]; cbn.
    replace (id_eqb t i) with false; [reflexivity|]. symmetry. unfold id_eqb in *. apply N.eqb_eq in E. apply N.eqb_neq.
    intros H. apply Hn. apply in_map_iff. exists (i, m). split; [|exact He']. cbn. transitivity (snd t); symmetry; assumption.
  - f_equal; [now destruct e|]. now apply IH. Qed.

Lemma extra_step_map ex o : NoDup (map (fun e => snd (fst e)) ex) ->
  extra_step ex o = map (fun e => (fst e, mstep (fst e) (snd e) o)) ex.
Proof. intros ND. destruct o; cbn [extra_step]; try (symmetry; apply map_id_on; intros [? ?] _; reflexivity).
  now rewrite set_extra_first_map. Qed.

Lemma fold_extra ops : forall s, s_extra s = [] -> NoDup (map snd (op_ids ops)) -> s_extra (fold_left apply ops s) = raw_meta ops.
Proof. induction ops as [|o t IH] using rev_ind; intros s Hs ND; cbn; [exact Hs|].
  unfold op_ids in ND. rewrite !map_app in ND. apply NoDup_snoc in ND as [ND _].
  rewrite fold_left_app. cbn [fold_left]. rewrite apply_extra, (IH s Hs ND), raw_meta_snoc. f_equal. apply extra_step_map.
  rewrite <- (map_map fst snd), raw_meta_ids. exact ND. Qed.

Theorem compile_meta_spec ops : NoDup (map snd (op_ids ops)) ->
  map (fun e => kv_sort (snd e)) (s_extra (compile ops)) = spec_meta ops.
Proof. intros ND. unfold compile. rewrite (fold_extra ops (seed ops) eq_refl ND). symmetry. apply spec_meta_raw. Qed.

(* ------------------------------------------------------------------ validity of the ids, as propositions *)
Definition validP (ops : list op) : Prop := NoDup (map snd (op_ids ops)).

Lemma valid_ids_validP ops : valid_ids ops = true <-> validP ops.
Proof. unfold valid_ids, validP. apply nodupb_NoDup. Qed.

Lemma validP_prefix p o : validP (p ++ [o]) -> validP p.
Proof. unfold validP, op_ids. rewrite !map_app. intros A. now apply NoDup_snoc in A as [A _]. Qed.

(* a valid bug has no second create operation with the first id *)
Lemma valid_ids_no_recreate o1 rest : NoDup (map snd (op_ids (o1 :: rest))) -> forall o, In o rest -> not_recreate (op_id o1) o.
Proof. cbn. intros ND o Ho. inversion ND as [|? ? Hn _]; subst. destruct o; cbn; auto.
  unfold id_eqb. apply N.eqb_neq. intros E. apply Hn. rewrite E.
  apply (in_map (fun x => snd (op_id x)) rest) in Ho. rewrite map_map. exact Ho. Qed.

(* ------------------------------------------------------------------ comments, actors, participants *)
Definition upd (t : opid) (msg : N) (files : list N) (c : comment) : comment :=
  if id_eqb (c_id c) t
  then {| c_id := c_id c; c_author := c_author c; c_msg := msg; c_files := files; c_edits := S (c_edits c) |} else c.

Definition cstep (first : opid) (cs : list comment) (o : op) : list comment :=
  match o with
  | OCreate i au _ msg files =>
      if id_eqb i first then [{| c_id := i; c_author := au; c_msg := msg; c_files := files; c_edits := 0 |}] else cs
  | OAddComment i au msg files => cs ++ [{| c_id := i; c_author := au; c_msg := msg; c_files := files; c_edits := 0 |}]
  | OEditComment _ _ t msg files => map (upd t msg files) cs
  | _ => cs end.

Definition astep (first : opid) (st : list opid * list N * list N) (o : op) : list opid * list N * list N :=
  let '(cids, acts, parts) := st in
  match o with
  | OCreate i au _ _ _ => if id_eqb i first then ([i], add_once' au acts, add_once' au parts) else st
  | OAddComment i au _ _ => (cids ++ [i], add_once' au acts, add_once' au parts)
  | OEditComment _ au t _ _ => if existsb (fun c => id_eqb c t) cids then (cids, add_once' au acts, parts) else st
  | OSetTitle _ au _ | OSetStatus _ au _ | OLabelChange _ au _ _ => (cids, add_once' au acts, parts)
  | _ => st
  end.

Lemma spec_comments_fold first ops : spec_comments first ops = fold_left (cstep first) ops [].
Proof. reflexivity. Qed.
Lemma spec_actors_parts_fold first ops :
  spec_actors_parts first ops = let '(_, a, p) := fold_left (astep first) ops ([], [], []) in (a, p).
Proof. reflexivity. Qed.

Definition titem_id (it : titem) : opid := match it with TComment i | TOther i => i end.

Lemma upd_id t msg files c : c_id (upd t msg files c) = c_id c.
Proof. unfold upd. now destruct (id_eqb _ _). Qed.
Lemma map_upd_ids t msg files cs : map c_id (map (upd t msg files) cs) = map c_id cs.
Proof. rewrite map_map. apply map_ext. intros c. apply upd_id. Qed.

(* full ids being distinct, the first-match update is the update of all matches *)
Lemma upd_comment_map t msg files : forall cs, NoDup (map (fun c => snd (c_id c)) cs) ->
  upd_comment t msg files cs = map (upd t msg files) cs.
Proof. unfold upd_comment. induction cs as [|c r IH]; intros ND; cbn [map]; [reflexivity|].
  inversion ND as [|? ? Hn ND']; subst. unfold upd at 1.
  destruct (id_eqb (c_id c) t) eqn:E.
  - f_equal. symmetry. apply map_id_on. intros c' Hc'. unfold upd. replace (id_eqb (c_id c') t) with false; [reflexivity|].
    symmetry. unfold id_eqb in *. apply N.eqb_eq in E. apply N.eqb_neq. intros H. apply Hn. rewrite E, <- H.
    now apply (in_map (fun c => snd (c_id c))).
  - f_equal. apply IH; auto. Qed.

(* the heart of the matter: an edit whose target is the full id of a comment resolves to that very comment and to
   a comment item of the timeline, whatever the first 14 characters of the ids are *)
Lemma edit_resolves (tl : list titem) (cs : list comment) (ids : list opid) t msg files :
  NoDup (map snd ids) ->
  (forall it, In it tl -> In (titem_id it) ids) ->
  (forall c, In c cs -> In (TComment (c_id c)) tl) -> NoDup (map c_id cs) ->
  existsb (fun c => id_eqb (c_id c) t) cs = true ->
  (exists i, timeline_target tl t = Some (TComment i)) /\ upd_comment t msg files cs = map (upd t msg files) cs.
Proof. intros Ns Hin Hct Nc Ex.
  apply existsb_exists in Ex as (c0 & Hc0 & E0).
  assert (Hids : forall c, In c cs -> In (c_id c) ids) by (intros c Hc; apply (Hin _ (Hct c Hc))).
  split.
  - unfold timeline_target.
    destruct (find _ tl) as [x|] eqn:F.
    + apply find_some in F as [_ F]. destruct x; [now eexists|discriminate].
    + pose proof (find_none _ _ F _ (Hct c0 Hc0)) as F'. cbn in F'. congruence.
  - apply upd_comment_map.
    rewrite <- (map_map c_id snd). apply NoDup_map_on; [|exact Nc].
    intros x y Hx Hy. apply (NoDup_map_inj_on snd ids Ns).
    + apply in_map_iff in Hx as (c & <- & Hc). now apply Hids.
    + apply in_map_iff in Hy as (c & <- & Hc). now apply Hids. Qed.

Record Inv (first : opid) (p : list op) (s : snapshot) : Prop := {
  inv_id : s_id s = Some first;
  inv_comments : s_comments s = fold_left (cstep first) p [];
  inv_actors : fold_left (astep first) p ([], [], []) = (map c_id (s_comments s), s_actors s, s_parts s);
  inv_tl_nodup : NoDup (map titem_id (s_timeline s));
  inv_tl_ids : forall it, In it (s_timeline s) -> In (titem_id it) (op_ids p);
  inv_c_tl : forall c, In c (s_comments s) -> In (TComment (c_id c)) (s_timeline s);
  inv_c_nodup : NoDup (map c_id (s_comments s)) }.

Lemma inv_step first p s o :
  In first (op_ids p) -> validP (p ++ [o]) -> Inv first p s -> Inv first (p ++ [o]) (apply s o).
Proof.
  intros Hfirst Ns [Hid Hc Ha Hnd Hin Hct Hcn]. unfold validP in Ns.
  assert (Ns' := Ns).
  unfold op_ids in Ns'. rewrite !map_app in Ns'. cbn [map] in Ns'.
  apply NoDup_snoc in Ns' as [Nsp Hnew_s].
  assert (Hnew : ~ In (op_id o) (op_ids p)).
  { intros H. apply Hnew_s. now apply in_map. }
  assert (Hne : id_eqb (op_id o) first = false).
  { unfold id_eqb. apply N.eqb_neq. intros E. apply Hnew_s. rewrite E. now apply in_map. }
  assert (Hin' : forall it, In it (s_timeline s) -> In (titem_id it) (op_ids (p ++ [o]))).
  { intros it H. unfold op_ids. rewrite map_app. apply in_or_app. left. now apply Hin. }
  assert (Hcid : forall c, In c (s_comments s) -> In (c_id c) (op_ids p)) by (intros c H; apply (Hin _ (Hct c H))).
  assert (Htl : forall it, titem_id it = op_id o ->
            NoDup (map titem_id (s_timeline s ++ [it])) /\
            forall x, In x (s_timeline s ++ [it]) -> In (titem_id x) (op_ids (p ++ [o]))).
  { intros it E. split.
    - rewrite map_app. cbn [map]. apply NoDup_snoc. split; [exact Hnd|]. rewrite E. intros H. apply Hnew.
      apply in_map_iff in H as (y & <- & Hy). now apply Hin.
    - intros x Hx. apply in_app_or in Hx as [Hx|[<-|[]]]; [now apply Hin'|]. rewrite E. unfold op_ids. rewrite map_app.
      apply in_or_app. right. now left. }
  pose proof (fold_left_app (cstep first) p [o] []) as Fc. pose proof (fold_left_app (astep first) p [o] ([], [], [])) as Fa.
  cbn [fold_left] in Fc, Fa. rewrite <- Hc in Fc. rewrite Ha in Fa. cbn [astep] in Fa.
  destruct o; unfold apply; cbn [op_id cstep] in *.
  - (* a later create never carries the first id: ignored *)
    rewrite Hid, (id_eqb_sym first), Hne. cbn. rewrite Hne in Fc, Fa. now constructor; cbn.
  - (* add comment *)
    destruct (Htl (TComment id) eq_refl) as [T1 T2]. constructor; cbn; auto.
    + rewrite Fa, map_app. reflexivity.
    + intros c Hc'. apply in_or_app. apply in_app_or in Hc' as [Hc'|[<-|[]]]; [left; now apply Hct|right; now left].
    + rewrite map_app. cbn [map]. apply NoDup_snoc. split; [exact Hcn|]. cbn. intros H. apply Hnew.
      apply in_map_iff in H as (c & <- & Hc'). now apply Hcid.
  - (* edit comment *)
    rewrite existsb_map in Fa.
    destruct (existsb (fun c => id_eqb (c_id c) target) (s_comments s)) eqn:Ex; cbn [negb].
    + destruct (edit_resolves (s_timeline s) (s_comments s) (op_ids p) target msg files Nsp Hin Hct Hcn) as ((i & Ht) & Hu); auto.
      rewrite Ht. cbn. rewrite Hu. constructor; cbn; auto.
      * rewrite Fa, map_upd_ids. reflexivity.
      * intros c Hc'. apply in_map_iff in Hc' as (c' & <- & Hc'). rewrite upd_id. now apply Hct.
      * now rewrite map_upd_ids.
    + cbn. assert (M : map (upd target msg files) (s_comments s) = s_comments s).
      { apply map_id_on. intros c Hc'. unfold upd. now rewrite (existsb_false_forall _ _ Ex c Hc'). }
      rewrite M in Fc. now constructor; cbn.
  - destruct (Htl (TOther id) eq_refl) as [T1 T2]. constructor; cbn; auto. intros c Hc'. apply in_or_app. left. now apply Hct.
  - destruct (Htl (TOther id) eq_refl) as [T1 T2]. constructor; cbn; auto. intros c Hc'. apply in_or_app. left. now apply Hct.
  - destruct (Htl (TOther id) eq_refl) as [T1 T2]. constructor; cbn; auto. intros c Hc'. apply in_or_app. left. now apply Hct.
  - now constructor; cbn.
  - now constructor; cbn.
Qed.

Lemma inv_base o1 : Inv (op_id o1) [o1] (compile [o1]).
Proof. destruct o1; unfold compile; cbn [fold_left seed hd_error option_map op_id]; unfold apply; cbn;
  unfold id_eqb; rewrite ?N.eqb_refl; cbn; constructor; cbn; unfold id_eqb; rewrite ?N.eqb_refl; auto;
  try (repeat constructor; cbn; tauto); try (intros ? [<-|[]]; auto); try tauto. Qed.

Theorem compile_inv o1 rest : validP (o1 :: rest) -> Inv (op_id o1) (o1 :: rest) (compile (o1 :: rest)).
Proof. induction rest as [|o rest IH] using rev_ind; intros V; [apply inv_base|].
  rewrite app_comm_cons in *. rewrite compile_snoc by discriminate.
  apply inv_step; [now left|exact V|]. apply IH. eapply validP_prefix. exact V. Qed.

Theorem compile_comments_actors_spec o1 rest : valid_ids (o1 :: rest) = true ->
  let s := compile (o1 :: rest) in
  s_comments s = spec_comments (op_id o1) (o1 :: rest) /\
  (s_actors s, s_parts s) = spec_actors_parts (op_id o1) (o1 :: rest).
Proof. intros V s. apply valid_ids_validP in V. destruct (compile_inv o1 rest V) as [_ Hc Ha _ _ _ _]. fold s in Hc, Ha.
  split; [exact Hc|]. rewrite spec_actors_parts_fold, Ha. reflexivity. Qed.

Corollary compile_comments_spec o1 rest : valid_ids (o1 :: rest) = true ->
  s_comments (compile (o1 :: rest)) = spec_comments (op_id o1) (o1 :: rest).
Proof. intros V. exact (proj1 (compile_comments_actors_spec o1 rest V)). Qed.
Corollary compile_actors_parts_spec o1 rest : valid_ids (o1 :: rest) = true ->
  (s_actors (compile (o1 :: rest)), s_parts (compile (o1 :: rest))) = spec_actors_parts (op_id o1) (o1 :: rest).
Proof. intros V. exact (proj2 (compile_comments_actors_spec o1 rest V)). Qed.
Corollary compile_status_labels_ops_spec ops :
  s_status (compile ops) = spec_status ops /\ s_labels (compile ops) = spec_labels ops /\ s_ops (compile ops) = map op_id ops.
Proof. exact (conj (compile_status_spec ops) (conj (compile_labels_spec ops) (compile_ops_spec ops))). Qed.

(* ------------------------------------------------------------------ the whole snapshot *)
Theorem compile_spec ops o1 rest : ops = o1 :: rest -> valid_ids ops = true ->
  let s := compile ops in let first := op_id o1 in
  s_title s = spec_title first ops /\ s_status s = spec_status ops /\ s_labels s = spec_labels ops /\
  s_comments s = spec_comments first ops /\ (s_actors s, s_parts s) = spec_actors_parts first ops /\
  map titem_view (s_timeline s) = spec_timeline first ops /\ s_ops s = map op_id ops /\
  map (fun e => kv_sort (snd e)) (s_extra s) = spec_meta ops.
Proof. intros -> V s first. pose proof V as Ns. apply valid_ids_validP in Ns. unfold validP in Ns.
  destruct (compile_comments_actors_spec o1 rest V) as [Hc Ha].
  split; [apply compile_title_spec|]. split; [apply compile_status_spec|]. split; [apply compile_labels_spec|].
  split; [exact Hc|]. split; [exact Ha|].
  split; [apply compile_timeline_spec; now apply valid_ids_no_recreate|].
  split; [apply compile_ops_spec|]. now apply compile_meta_spec. Qed.

(* the same with the (unused) hypothesis that the first operation is a create, as a valid bug guarantees *)
Corollary compile_spec_create ops o1 rest : ops = o1 :: rest -> is_create o1 = true -> valid_ids ops = true ->
  let s := compile ops in let first := op_id o1 in
  s_title s = spec_title first ops /\ s_status s = spec_status ops /\ s_labels s = spec_labels ops /\
  s_comments s = spec_comments first ops /\ (s_actors s, s_parts s) = spec_actors_parts first ops /\
  map titem_view (s_timeline s) = spec_timeline first ops /\ s_ops s = map op_id ops /\
  map (fun e => kv_sort (snd e)) (s_extra s) = spec_meta ops.
Proof. intros E _ V. exact (compile_spec ops o1 rest E V). Qed.

(* ------------------------------------------------------------------ the hypotheses cannot be dropped *)
(* a valid sequence with an edit, an edit of a 14-character-colliding unknown target, a label change, metadata *)
Definition ex_ops : list op :=
  [OCreate (1, 1) 1 5 7 [1]; OAddComment (2, 2) 2 8 []; OEditComment (3, 3) 1 (2, 2) 9 [2];
   OLabelChange (4, 4) 2 [3; 1; 3] [1]; OSetMetadata (5, 5) 1 (2, 2) [(1, 4); (1, 5)];
   OEditComment (6, 6) 3 (2, 7) 4 []; OSetTitle (7, 8) 3 6].
Example ex_ops_valid : valid_ids ex_ops = true.
Proof. reflexivity. Qed.

(* two operations sharing their first 14 characters (full ids distinct): valid, and the edit of the second lands on
   the second — also with a non-comment item sharing the 14 characters in front *)
Definition ex_head_collision : list op :=
  [OCreate (1, 1) 1 1 1 []; OAddComment (2, 2) 1 1 []; OAddComment (2, 3) 1 2 []; OEditComment (3, 4) 2 (2, 3) 9 []].
Definition ex_head_collision_other : list op :=
  [OCreate (1, 1) 1 1 1 []; OSetStatus (2, 2) 1 2; OAddComment (2, 3) 1 2 []; OEditComment (3, 4) 2 (2, 3) 9 []].
Example head_collision_harmless :
  valid_ids ex_head_collision = true /\ heads_distinct ex_head_collision = false /\
  map c_msg (s_comments (compile ex_head_collision)) = [1; 1; 9] /\
  map c_edits (s_comments (compile ex_head_collision)) = [0; 0; 1]%nat /\
  s_comments (compile ex_head_collision) = spec_comments (1, 1) ex_head_collision /\
  valid_ids ex_head_collision_other = true /\
  map c_msg (s_comments (compile ex_head_collision_other)) = [1; 9] /\
  s_actors (compile ex_head_collision_other) = [1; 2].
Proof. vm_compute. repeat split. Qed.

(* a target that has the full id of a comment but not its first 14 characters (impossible for ranks of real
   strings): no longer matters either *)
Definition ex_incoherent : list op := [OCreate (1, 1) 1 1 1 []; OEditComment (2, 2) 2 (5, 1) 9 []].
Example coherence_not_needed :
  valid_ids ex_incoherent = true /\ coherent_targets ex_incoherent = false /\
  map c_msg (s_comments (compile ex_incoherent)) = [9] /\ map c_msg (spec_comments (1, 1) ex_incoherent) = [9] /\
  s_actors (compile ex_incoherent) = [1; 2] /\ fst (spec_actors_parts (1, 1) ex_incoherent) = [1; 2].
Proof. vm_compute. repeat split. Qed.

(* two operations with the same full id: metadata reaches the first only; a second create with the first id
   restarts the timeline of the model *)
Definition ex_dup_id : list op := [OCreate (1, 1) 1 1 1 []; ONoOp (2, 1) 1; OSetMetadata (3, 3) 1 (1, 1) [(1, 1)]].
Definition ex_recreate : list op := [OCreate (1, 1) 1 1 1 []; OSetTitle (2, 2) 1 2; OCreate (3, 1) 1 3 3 []].
Example full_id_distinct_needed :
  nodupb (map snd (op_ids ex_dup_id)) = false /\
  map (fun e => kv_sort (snd e)) (s_extra (compile ex_dup_id)) = [[(1, 1)]; []; []] /\
  spec_meta ex_dup_id = [[(1, 1)]; [(1, 1)]; []] /\
  map titem_view (s_timeline (compile ex_recreate)) = [(true, 3)] /\
  spec_timeline (1, 1) ex_recreate = [(true, 1); (false, 2); (true, 3)].
Proof. vm_compute. repeat split. Qed.

