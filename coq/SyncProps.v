(* The session model refines the commit-level transition system: every session step is a run of World steps.
   Hence everything proved of all states reachable by World.run holds in every session. *)
From Coq Require Import List Arith NArith Lia Bool.
Import ListNotations.
From GB Require Import Reach Sort Read Good Snoc World Sync.
Local Open Scope N_scope.

Lemma run_app w a b w1 w2 : run w a = Some w1 -> run w1 b = Some w2 -> run w (a ++ b) = Some w2.
Proof. revert w. induction a as [|x t IH]; intros w H1 H2; cbn in *; [inversion H1; subst; exact H2|].
  destruct (step w x); [|discriminate]. now apply IH. Qed.

Lemma run_one w a w' : step w a = Some w' -> run w [a] = Some w'.
Proof. intros H. cbn [run]. now rewrite H. Qed.

Lemma commit_packs_run ps : forall w r h w', commit_packs w r h ps = Some w' ->
  exists acts, run w acts = Some w' /\ length acts = length ps.
Proof. induction ps as [|[id au ops] t IH]; intros w r h w' H; cbn [commit_packs] in H.
  - inversion H; subst. exists []. split; reflexivity.
  - destruct h as [h'|].
    + destruct (step w (AEdit r h' id au ops)) as [w1|] eqn:E; [|discriminate].
      destruct (IH _ _ _ _ H) as (acts & R & L). exists (AEdit r h' id au ops :: acts). split; [cbn [run]; rewrite E; exact R|cbn [length]; now rewrite L].
    + destruct (step w (ACreate r id au ops)) as [w1|] eqn:E; [|discriminate].
      destruct (IH _ _ _ _ H) as (acts & R & L). exists (ACreate r id au ops :: acts). split; [cbn [run]; rewrite E; exact R|cbn [length]; now rewrite L]. Qed.

Ltac done_nil := exists []; split; [reflexivity|cbn; lia].

Theorem sstep_runs sw ev sw' o : sstep sw ev = Some (sw', o) ->
  exists acts, run (ww sw) acts = Some (ww sw') /\ (length acts <= cost ev)%nat.
Proof.
  destruct ev as [r tgt ps|r e|r|r|r e mid mau|r e|r lost]; cbn [sstep cost]; intros H.
  - (* commit *)
    destruct tgt as [e|].
    + destruct (alookup e (locals (ww sw) r)) as [h|]; [|inversion H; subst; done_nil].
      destruct (negb (valid (st (ww sw)) h)); [inversion H; subst; done_nil|].
      destruct ps as [|p t]; [inversion H; subst; done_nil|].
      destruct (step (ww sw) (AWitness r h)) as [w1|] eqn:E1; [|discriminate].
      destruct (commit_packs w1 r (Some h) (p :: t)) as [w'|] eqn:E2; [|discriminate].
      inversion H; subst. destruct (commit_packs_run _ _ _ _ _ E2) as (acts & R & L).
      exists (AWitness r h :: acts). split; [cbn [run]; rewrite E1; exact R|cbn [length] in *; lia].
    + destruct ps as [|p t]; [inversion H; subst; done_nil|].
      destruct (commit_packs (ww sw) r None (p :: t)) as [w'|] eqn:E2; [|discriminate].
      inversion H; subst. destruct (commit_packs_run _ _ _ _ _ E2) as (acts & R & L).
      exists acts. split; [exact R|cbn [length] in *; lia].
  - (* read *)
    destruct (alookup e (locals (ww sw) r)) as [h|]; [|inversion H; subst; done_nil].
    destruct (negb (valid (st (ww sw)) h)); [inversion H; subst; done_nil|].
    destruct (step (ww sw) (AWitness r h)) as [w1|] eqn:E1; [|discriminate].
    inversion H; subst. exists [AWitness r h]. split; [now apply run_one|cbn; lia].
  - (* push *)
    destruct (push_ok _ _ _); inversion H; subst; done_nil.
  - (* fetch *)
    inversion H; subst; done_nil.
  - (* merge *)
    destruct (alookup e (track_of sw r)) as [t|]; [|inversion H; subst; done_nil].
    destruct (negb (valid (st (ww sw)) t)); [inversion H; subst; done_nil|].
    destruct (step (ww sw) (AWitness r t)) as [w1|] eqn:E1; [|discriminate].
    destruct (alookup e (locals (ww sw) r)) as [h|].
    + destruct (Nat.eqb h t); [inversion H; subst; exists [AWitness r t]; split; [now apply run_one|cbn; lia]|].
      destruct (is_anc (st (ww sw)) t h); [inversion H; subst; exists [AWitness r t]; split; [now apply run_one|cbn; lia]|].
      destruct (is_anc (st (ww sw)) h t).
      * destruct (step w1 (AFF r h t)) as [w2|] eqn:E2; [|discriminate]. inversion H; subst.
        exists [AWitness r t; AFF r h t]. split; [cbn [run]; now rewrite E1, E2|cbn; lia].
      * destruct (step w1 (AWitness r h)) as [w2|] eqn:E2; [|discriminate].
        destruct (step w2 (AMerge r h t mid mau)) as [w3|] eqn:E3; [|discriminate]. inversion H; subst.
        exists [AWitness r t; AWitness r h; AMerge r h t mid mau]. split; [cbn [run]; now rewrite E1, E2, E3|cbn; lia].
    + destruct (step w1 (AAdopt r t)) as [w2|] eqn:E2; [|discriminate]. inversion H; subst.
      exists [AWitness r t; AAdopt r t]. split; [cbn [run]; now rewrite E1, E2|cbn; lia].
  - (* remove *)
    destruct (alookup e (locals (ww sw) r)) as [h|]; [|inversion H; subst; done_nil].
    destruct (step (ww sw) (ARemove r h)) as [w1|] eqn:E1; [|discriminate]. inversion H; subst.
    exists [ARemove r h]. split; [now apply run_one|cbn; lia].
  - (* reopen *)
    destruct lost; [|inversion H; subst; done_nil].
    destruct (step (ww sw) (AResetClock r)) as [w1|] eqn:E1; [|discriminate]. inversion H; subst.
    exists [AResetClock r]. split; [now apply run_one|cbn; lia].
Qed.

Definition total_cost (evs : list event) : nat := fold_right (fun e n => (cost e + n)%nat) 0%nat evs.

Theorem srun_runs evs : forall sw sw', srun sw evs = Some sw' ->
  exists acts, run (ww sw) acts = Some (ww sw') /\ (length acts <= total_cost evs)%nat.
Proof. induction evs as [|e t IH]; intros sw sw' H; cbn [srun] in H.
  - inversion H; subst. exists []. split; [reflexivity|cbn; lia].
  - destruct (sstep sw e) as [[sw1 o]|] eqn:E; [|discriminate].
    destruct (sstep_runs _ _ _ _ E) as (a1 & R1 & L1). destruct (IH _ _ H) as (a2 & R2 & L2).
    exists (a1 ++ a2). split; [eapply run_app; eauto|rewrite app_length; cbn [total_cost fold_right]; fold (total_cost t); lia]. Qed.

(* every commit that exists in any state of any session (any number of replicas, any interleaving of commits,
   reads, pushes, fetches, merges, removals and restarts with or without clock files) heads a history that
   read accepts -- as long as fewer than 10^6 commit-level steps were taken *)
Theorem session_valid n evs sw : srun (sw0 n) evs = Some sw -> (N.of_nat (total_cost evs) + 1 <= jump_limit) ->
  forall h, (h < length (st (ww sw)))%nat -> valid (st (ww sw)) h = true.
Proof. intros H B h Hh. destruct (srun_runs _ _ _ H) as (acts & R & L).
  eapply C01_reachable_valid; [exact R| |exact Hh]. cbn [sw0 ww] in *. lia. Qed.

(* and every replica's clock dominates its local heads *)
Theorem session_clock_dominates n evs sw : srun (sw0 n) evs = Some sw -> (N.of_nat (total_cost evs) + 1 <= jump_limit) ->
  forall rp h, In rp (reps (ww sw)) -> In h (heads rp) -> edit_of (st (ww sw)) h <= clk rp.
Proof. intros H B. destruct (srun_runs _ _ _ H) as (acts & R & L).
  eapply clock_dominates; [exact R|]. cbn [sw0 ww] in *. lia. Qed.
