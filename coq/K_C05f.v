(* C05 — forged root clock (finding F-clock): model with the 64-bit wrap against what happened. *)
From Coq Require Import List NArith Bool.
Import ListNotations.
From GB Require Export ClockWrap.
Local Open Scope N_scope.

Inductive fstatus := FNew | FInvalid | FOther.
Record case := mkcasef { k_forged : N; k_own_edit : N; k_clock_before : N; k_status : fstatus; k_clock_after : N;
                         k_commit_ok : bool; k_new_edit : N; k_read_back : bool }.

Definition agrees (c : case) : bool :=
  match k_status c with
  | FNew =>
      N.eqb (k_clock_after c) (witness (k_clock_before c) (k_forged c)) &&
      (let '(e, ok) := after_forged_root (k_clock_before c) (k_own_edit c) (k_forged c) in
       if k_commit_ok c then N.eqb (k_new_edit c) e && Bool.eqb (k_read_back c) ok else negb ok)
  | _ => false   (* the forged root is valid by every rule the reader applies: the model expects it accepted *)
  end.

(* the property: the clock never decreases, and the repository can read back what it writes *)
Definition C05f_ok (c : case) : bool :=
  N.leb (k_clock_before c) (k_clock_after c) && k_commit_ok c && k_read_back c &&
  N.ltb (k_own_edit c) (k_new_edit c) && N.leb (k_clock_after c) (k_new_edit c).

Fixpoint index_filter {A} (f : A -> bool) (i : nat) (l : list A) : list nat :=
  match l with [] => [] | x :: t => if f x then index_filter f (S i) t else i :: index_filter f (S i) t end.
Definition mismatches (cs : list case) : list nat := index_filter agrees 0 cs.
Definition failing (cs : list case) : list nat := index_filter C05f_ok 0 cs.
Definition explain (c : case) := after_forged_root (k_clock_before c) (k_own_edit c) (k_forged c).
