From Coq Require Import List NArith ZArith Lia Bool ZifyN ZifyBool.
Import ListNotations.
Local Open Scope N_scope.
Ltac Zify.zify_post_hook ::= Z.div_mod_to_equations.

(* fmt.Sprintf("%d", n): canonical decimal, most significant digit first, as code points *)
Fixpoint digits (fuel : nat) (n : N) : list N :=
  match fuel with
  | O => []
  | S f => if n <? 10 then [48 + n] else digits f (n / 10) ++ [48 + n mod 10]
  end.
Definition print_u64 (n : N) : list N := digits 20 n.

(* strconv.ParseUint(s, 10, 64): non-empty, digits only, value below 2^64 *)
Definition is_digit (r : N) : bool := (48 <=? r) && (r <=? 57).
Definition value (ds : list N) : N := fold_left (fun a r => a * 10 + (r - 48)) ds 0.
Definition parse_u64 (s : list N) : option N :=
  match s with
  | [] => None
  | _ => if forallb is_digit s then (if value s <? 2 ^ 64 then Some (value s) else None) else None
  end.

Lemma value_app a b : value (a ++ b) = fold_left (fun a r => a * 10 + (r - 48)) b (value a).
Proof. unfold value. now rewrite fold_left_app. Qed.

Lemma digits_spec : forall fuel n, n < 10 ^ N.of_nat fuel -> (0 < fuel)%nat ->
  digits fuel n <> [] /\ forallb is_digit (digits fuel n) = true /\ value (digits fuel n) = n.
Proof. induction fuel as [|f IH]; intros n Hn Hf; [lia|]. cbn [digits].
  destruct (N.ltb_spec n 10) as [Hs|Hb].
  - repeat split; [discriminate| |]; unfold is_digit, value; cbn [forallb fold_left]; [|lia].
    rewrite andb_true_r. apply andb_true_iff. split; apply N.leb_le; lia.
  - destruct f as [|f']; [cbn in Hn; lia|].
    assert (Hq : n / 10 < 10 ^ N.of_nat (S f')).
    { rewrite Nat2N.inj_succ, N.pow_succ_r' in Hn. apply N.div_lt_upper_bound; [lia|exact Hn]. }
    destruct (IH (n / 10) Hq ltac:(lia)) as (Hne & Hd & Hv). repeat split.
    + intros E. apply app_eq_nil in E as [_ E]. discriminate.
    + rewrite forallb_app, Hd. cbn [forallb andb]. unfold is_digit. rewrite andb_true_r. apply andb_true_iff.
      assert (n mod 10 < 10) by (apply N.mod_lt; lia). split; apply N.leb_le; lia.
    + rewrite value_app, Hv. cbn [fold_left].
      assert (n mod 10 < 10) by (apply N.mod_lt; lia).
      replace (48 + n mod 10 - 48) with (n mod 10) by lia.
      rewrite (N.div_mod n 10) at 3 by lia. lia. Qed.

Theorem C04_decimal_roundtrip n : n < 2 ^ 64 -> parse_u64 (print_u64 n) = Some n.
Proof. intros H. unfold parse_u64, print_u64.
  assert (B : n < 10 ^ N.of_nat 20).
  { change (10 ^ N.of_nat 20) with 100000000000000000000. change (2 ^ 64) with 18446744073709551616 in H. lia. }
  destruct (digits_spec 20 n B ltac:(lia)) as (Hne & Hd & Hv).
  destruct (digits 20 n) as [|d ds] eqn:E; [congruence|]. rewrite Hd, Hv.
  apply N.ltb_lt in H. now rewrite H. Qed.
Print Assumptions C04_decimal_roundtrip.
