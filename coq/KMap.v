(* Keyed association lists (key = nat), kept strictly sorted by key: the canonical form in which the
   cache model stores excerpts, index documents and loaded entities, so that "the cache equals the
   rebuilt cache" is plain list equality.  Same shape as Sync.amap (alookup / ainsert / aremove). *)
From Coq Require Import List Arith Lia Bool Sorting.Sorted.
Import ListNotations.

Section KMap.
Context {A : Type}.

Definition kmap := list (nat * A).

Definition kget (e : nat) (m : kmap) : option A := option_map snd (find (fun p => Nat.eqb (fst p) e) m).
Fixpoint kins (e : nat) (v : A) (m : kmap) : kmap :=
  match m with
  | [] => [(e, v)]
  | (e', v') :: t => if Nat.ltb e e' then (e, v) :: m else if Nat.eqb e e' then (e, v) :: t else (e', v') :: kins e v t
  end.
Definition kdel (e : nat) (m : kmap) : kmap := filter (fun p => negb (Nat.eqb (fst p) e)) m.
Definition kset (e : nat) (o : option A) (m : kmap) : kmap := match o with Some v => kins e v m | None => kdel e m end.
Definition keys (m : kmap) : list nat := map fst m.

Lemma kget_kins e' e v m : kget e' (kins e v m) = if Nat.eqb e' e then Some v else kget e' m.
Proof. induction m as [|[k x] t IH]; cbn [kins].
  - unfold kget; cbn. rewrite (Nat.eqb_sym e e'). destruct (Nat.eqb e' e); reflexivity.
  - destruct (Nat.ltb_spec e k) as [L|L].
    + unfold kget at 1; cbn [find fst]. rewrite (Nat.eqb_sym e e'). destruct (Nat.eqb e' e); reflexivity.
    + destruct (Nat.eqb_spec e k) as [->|Hne].
      * unfold kget; cbn [find fst]. rewrite (Nat.eqb_sym k e'). destruct (Nat.eqb e' k); reflexivity.
      * unfold kget in *; cbn [find fst]. destruct (Nat.eqb_spec k e') as [->|Hk].
        -- destruct (Nat.eqb_spec e' e); [congruence|reflexivity].
        -- exact IH. Qed.

Lemma kget_kdel e' e m : kget e' (kdel e m) = if Nat.eqb e' e then None else kget e' m.
Proof. induction m as [|[k x] t IH]; cbn [kdel filter fst].
  - unfold kget; cbn. destruct (Nat.eqb e' e); reflexivity.
  - fold (kdel e t). destruct (Nat.eqb_spec k e) as [->|Hne]; cbn [negb].
    + rewrite IH. unfold kget; cbn [find fst]. destruct (Nat.eqb_spec e' e) as [->|H]; [reflexivity|].
      destruct (Nat.eqb_spec e e'); [congruence|reflexivity].
    + unfold kget in *; cbn [find fst]. destruct (Nat.eqb_spec k e') as [->|Hk].
      * destruct (Nat.eqb_spec e' e); [congruence|reflexivity].
      * exact IH. Qed.

Lemma kget_kset e' e o m : kget e' (kset e o m) = if Nat.eqb e' e then o else kget e' m.
Proof. destruct o; cbn [kset]; [apply kget_kins|apply kget_kdel]. Qed.

Lemma kget_In e v m : kget e m = Some v -> In (e, v) m.
Proof. unfold kget. destruct (find _ m) as [[k x]|] eqn:F; [|discriminate]. cbn. intros H; inversion H; subst.
  apply find_some in F as [F E]. cbn in E. apply Nat.eqb_eq in E. now subst. Qed.

(* ---- strictly sorted by key ---- *)
Definition klt (p q : nat * A) := fst p < fst q.
Definition ksorted (m : kmap) := StronglySorted klt m.

Lemma ksorted_nil : ksorted [].
Proof. constructor. Qed.

Lemma Forall_klt_kins p e v m : klt p (e, v) -> Forall (klt p) m -> Forall (klt p) (kins e v m).
Proof. intros H F. induction m as [|[k x] t IH]; cbn [kins]; [repeat constructor; exact H|].
  inversion F as [|? ? Hk Ft]; subst.
  destruct (Nat.ltb e k); [constructor; auto|]. destruct (Nat.eqb e k); constructor; auto. Qed.

Lemma ksorted_kins e v m : ksorted m -> ksorted (kins e v m).
Proof. unfold ksorted. induction 1 as [|[k x] t S IH F]; cbn [kins]; [repeat constructor|].
  destruct (Nat.ltb_spec e k) as [L|L].
  - constructor; [now constructor|]. constructor; [exact L|]. eapply Forall_impl; [|exact F]. intros q Hq. unfold klt in *; cbn in *. lia.
  - destruct (Nat.eqb_spec e k) as [->|Hne].
    + constructor; [exact S|]. eapply Forall_impl; [|exact F]. intros q Hq. exact Hq.
    + constructor; [exact IH|]. apply Forall_klt_kins; [unfold klt; cbn; lia|exact F]. Qed.

Lemma ksorted_kdel e m : ksorted m -> ksorted (kdel e m).
Proof. unfold ksorted, kdel. induction 1 as [|p t S IH F]; cbn [filter]; [constructor|].
  destruct (negb (Nat.eqb (fst p) e)); [|exact IH]. constructor; [exact IH|].
  rewrite Forall_forall in *. intros q Hq. apply filter_In in Hq as [Hq _]. auto. Qed.

Lemma ksorted_kset e o m : ksorted m -> ksorted (kset e o m).
Proof. destruct o; cbn [kset]; [apply ksorted_kins|apply ksorted_kdel]. Qed.

Lemma kget_head_sorted k x t e : ksorted ((k, x) :: t) -> e < k -> kget e ((k, x) :: t) = None.
Proof. intros S L. inversion S as [|? ? S' F]; subst. unfold kget; cbn [find fst].
  destruct (Nat.eqb_spec k e); [lia|]. destruct (find _ t) as [[k' x']|] eqn:Fd; [|reflexivity].
  apply find_some in Fd as [Hin E]. cbn in E. apply Nat.eqb_eq in E. subst. rewrite Forall_forall in F. specialize (F _ Hin). unfold klt in F; cbn in F. lia. Qed.

(* two sorted maps with the same lookups are the same list *)
Theorem ksorted_ext (m1 m2 : kmap) : ksorted m1 -> ksorted m2 -> (forall e, kget e m1 = kget e m2) -> m1 = m2.
Proof. intros S1. revert m2. induction S1 as [|[k x] t S IH F]; intros m2 S2 H.
  - destruct m2 as [|[k2 x2] t2]; [reflexivity|]. specialize (H k2). unfold kget in H; cbn in H. rewrite Nat.eqb_refl in H. discriminate.
  - destruct m2 as [|[k2 x2] t2].
    + specialize (H k). unfold kget in H; cbn in H. rewrite Nat.eqb_refl in H. discriminate.
    + assert (S1' : ksorted ((k, x) :: t)) by (constructor; assumption).
      assert (k = k2) as <-.
      { destruct (Nat.lt_trichotomy k k2) as [L|[E|L]]; [|exact E|].
        - pose proof (H k) as Hk. rewrite (kget_head_sorted k2 x2 t2 k S2 L) in Hk. unfold kget in Hk; cbn in Hk. rewrite Nat.eqb_refl in Hk. discriminate.
        - pose proof (H k2) as Hk. rewrite (kget_head_sorted k x t k2 S1' L) in Hk. unfold kget in Hk; cbn in Hk. rewrite Nat.eqb_refl in Hk. discriminate. }
      assert (x = x2) as <-.
      { pose proof (H k) as Hk. unfold kget in Hk; cbn in Hk. rewrite Nat.eqb_refl in Hk. cbn in Hk. congruence. }
      f_equal. inversion S2 as [|? ? S2' F2]; subst. apply IH; [exact S2'|]. intros e.
      destruct (Nat.eq_dec e k) as [->|Hne].
      * assert (kget k t = None) as ->.
        { destruct (kget k t) eqn:E; [|reflexivity]. apply kget_In in E. rewrite Forall_forall in F. specialize (F _ E). unfold klt in F; cbn in F. lia. }
        destruct (kget k t2) eqn:E; [|reflexivity]. apply kget_In in E. rewrite Forall_forall in F2. specialize (F2 _ E). unfold klt in F2; cbn in F2. lia.
      * specialize (H e). unfold kget in H |- *; cbn [find fst] in H. destruct (Nat.eqb_spec k e); [congruence|]. exact H. Qed.

Lemma kget_None_notin e m : kget e m = None -> ~ In e (keys m).
Proof. intros H Hin. unfold keys in Hin. apply in_map_iff in Hin as ([k x] & E & Hin). cbn in E. subst k.
  unfold kget in H. destruct (find (fun p => Nat.eqb (fst p) e) m) eqn:F; [discriminate|].
  eapply find_none in F; [|exact Hin]. cbn in F. rewrite Nat.eqb_refl in F. discriminate. Qed.

Lemma In_keys_kget e m : In e (keys m) -> exists v, kget e m = Some v.
Proof. intros H. destruct (kget e m) eqn:E; [eauto|]. apply kget_None_notin in E. contradiction. Qed.

End KMap.

Arguments kmap : clear implicits.

(* mapping the values keeps keys, order and lookups *)
Definition kmapv {A B} (f : A -> B) (m : kmap A) : kmap B := map (fun p => (fst p, f (snd p))) m.

Lemma kget_kmapv {A B} (f : A -> B) e m : kget e (kmapv f m) = option_map f (kget e m).
Proof. induction m as [|[k x] t IH]; [reflexivity|]. unfold kget in *; cbn [kmapv map find fst snd].
  destruct (Nat.eqb k e); [reflexivity|exact IH]. Qed.

Lemma ksorted_kmapv {A B} (f : A -> B) m : ksorted m -> ksorted (kmapv f m).
Proof. unfold ksorted. induction 1 as [|p t S IH F]; cbn; [constructor|]. constructor; [exact IH|].
  rewrite Forall_forall in *. intros q Hq. apply in_map_iff in Hq as (q0 & <- & Hq0). specialize (F _ Hq0). exact F. Qed.

Lemma length_kmapv {A B} (f : A -> B) m : length (kmapv f m) = length m.
Proof. apply map_length. Qed.
