(* C17 — correspondence (Auth.mutation_step / upload_step = the served GraphQL and upload handlers) and the
   property evaluated on what the implementation did. A case is one session: an initial observation
   and a list of steps (request, response, observation after). *)
From Coq Require Import List Arith NArith Lia Bool.
Import ListNotations.
From GB Require Export Auth.
Local Open Scope N_scope.

(* ---- what the harness observes ---- *)
(* a bug read afresh from git (bug.ReadAll, not through the cache): operations and the snapshot the real Compile gives *)
Record gbug := mkg { g_id : N; g_ops : list op; g_snap : snap }.
(* the same bug as the cache answers: operation ids and snapshot of BugCache.Snapshot(), and its excerpt *)
Record cbug := mkc { cb_id : N; cb_opids : list N; cb_snap : snap;
                     cb_ex_closed : bool; cb_ex_title : text; cb_ex_labels : list text; cb_ex_ncom : nat }.
Record ostate := mkos { os_git : list gbug; os_cache : list cbug;
                        os_refs : list (nat * nat);          (* every ref: (name rank, hash rank) *)
                        os_nobj : nat;                       (* object files *)
                        os_clocks : list (nat * N);
                        os_blobs : list N;                   (* which upload payloads exist as blobs *)
                        os_query : option (list (N * snap)) (* answer of the allBugs query; None: the query failed *) }.

Inductive request :=
| RMut (m : mutk) (a : args) (u : option N)
| RUnknown (u : option N)                (* a served mutation the model does not know *)
| RUpload (a : uargs) (u : option N).
Inductive response :=
| PErr (e : err)
| POk (p : payload) (authors : list N)   (* returned bug, returned operation ids and their authors *)
| POkOpaque                              (* success without a bug in the payload *)
| PHttp (code : nat) (blob : N).         (* upload: status and which payload the returned hash names (0: none) *)
Record step := mkstep { s_req : request; s_resp : response; s_post : ostate }.
Record case := mkcase { c_ids : list text;         (* id number k names the k-th text (from 1) *)
                        c_nongraphic : list N;     (* the code points in use that unicode.IsGraphic rejects *)
                        c_keeps : bool;            (* CreateOperation.Apply copies the files into the first comment *)
                        c_init : ostate; c_steps : list step }.

(* ---- equality tests ---- *)
Fixpoint list_eqb {A} (e : A -> A -> bool) (a b : list A) : bool :=
  match a, b with [], [] => true | x :: a', y :: b' => e x y && list_eqb e a' b' | _, _ => false end.
Fixpoint list_eqb2 {A B} (e : A -> B -> bool) (a : list A) (b : list B) : bool :=
  match a, b with [], [] => true | x :: a', y :: b' => e x y && list_eqb2 e a' b' | _, _ => false end.
Definition lN_eqb := list_eqb N.eqb.
Definition lT_eqb := list_eqb text_eqb.
Definition op_eqb (a b : op) : bool :=
  match a, b with
  | OCreate i u t m f, OCreate i' u' t' m' f' => (i =? i') && (u =? u') && text_eqb t t' && text_eqb m m' && lN_eqb f f'
  | OComment i u m f, OComment i' u' m' f' => (i =? i') && (u =? u') && text_eqb m m' && lN_eqb f f'
  | OEdit i u t m f, OEdit i' u' t' m' f' => (i =? i') && (u =? u') && (t =? t') && text_eqb m m' && lN_eqb f f'
  | OTitle i u t w, OTitle i' u' t' w' => (i =? i') && (u =? u') && text_eqb t t' && text_eqb w w'
  | OStatus i u c, OStatus i' u' c' => (i =? i') && (u =? u') && Bool.eqb c c'
  | OLabels i u x y, OLabels i' u' x' y' => (i =? i') && (u =? u') && lT_eqb x x' && lT_eqb y y'
  | OOther i u, OOther i' u' => (i =? i') && (u =? u')
  | _, _ => false
  end.
Definition ops_eqb := list_eqb op_eqb.
Definition comment_eqb (a b : comment) : bool :=
  (cm_id a =? cm_id b) && (cm_au a =? cm_au b) && text_eqb (cm_msg a) (cm_msg b) && lN_eqb (cm_files a) (cm_files b).
Definition snap_eqb (a b : snap) : bool :=
  Bool.eqb (sn_closed a) (sn_closed b) && text_eqb (sn_title a) (sn_title b) && lT_eqb (sn_labels a) (sn_labels b) &&
  list_eqb comment_eqb (sn_comments a) (sn_comments b) && Nat.eqb (sn_nops a) (sn_nops b) &&
  lN_eqb (sn_actors a) (sn_actors b) && lN_eqb (sn_parts a) (sn_parts b).
Definition gbug_eqb (a b : gbug) : bool := (g_id a =? g_id b) && ops_eqb (g_ops a) (g_ops b) && snap_eqb (g_snap a) (g_snap b).
Definition cbug_eqb (a b : cbug) : bool :=
  (cb_id a =? cb_id b) && lN_eqb (cb_opids a) (cb_opids b) && snap_eqb (cb_snap a) (cb_snap b) &&
  Bool.eqb (cb_ex_closed a) (cb_ex_closed b) && text_eqb (cb_ex_title a) (cb_ex_title b) &&
  lT_eqb (cb_ex_labels a) (cb_ex_labels b) && Nat.eqb (cb_ex_ncom a) (cb_ex_ncom b).
Definition pair_nat_eqb (a b : nat * nat) := Nat.eqb (fst a) (fst b) && Nat.eqb (snd a) (snd b).
Definition clock_eqb (a b : nat * N) := Nat.eqb (fst a) (fst b) && (snd a =? snd b).
Definition err_eqb (a b : err) : bool :=
  match a, b with ENotAuth, ENotAuth | ENotFound, ENotFound | EMultiple, EMultiple | EOther, EOther => true | _, _ => false end.

Fixpoint index_filter {A} (f : A -> bool) (i : nat) (l : list A) : list nat :=
  match l with [] => [] | x :: t => if f x then index_filter f (S i) t else i :: index_filter f (S i) t end.

(* ---- from observation to model state ---- *)
Definition idents : list N := [1; 2].        (* alice, bob; 3 is an id that names no identity *)
Definition state_of (o : ostate) : state :=
  {| st_bugs := map (fun g => {| bg_id := g_id g; bg_ops := g_ops g |}) (os_git o); st_idents := idents; st_blobs := os_blobs o |}.
Definition idtext_of (ids : list text) (n : N) : text := if n =? 0 then [] else nth (N.to_nat n - 1) ids [].
Definition graphic_of (ng : list N) (r : N) : bool := negb (memN r ng).

Definition find_g (o : ostate) (b : N) : option gbug := find (fun g => g_id g =? b) (os_git o).
Definition find_c (o : ostate) (b : N) : option cbug := find (fun c => cb_id c =? b) (os_cache o).

(* the repository looks the same: git view, cache view, refs, object files, stored payloads *)
Definition same_repo (a b : ostate) : bool :=
  list_eqb gbug_eqb (os_git a) (os_git b) && list_eqb cbug_eqb (os_cache a) (os_cache b) &&
  list_eqb pair_nat_eqb (os_refs a) (os_refs b) && Nat.eqb (os_nobj a) (os_nobj b) && lN_eqb (os_blobs a) (os_blobs b).
Definition same_clocks (a b : ostate) : bool := list_eqb clock_eqb (os_clocks a) (os_clocks b).

(* the three views of one observation tell the same story: cache = git, excerpt = snapshot, query = git *)
Definition views_agree (o : ostate) : bool :=
  Nat.eqb (length (os_git o)) (length (os_cache o)) &&
  forallb (fun g => match find_c o (g_id g) with
                    | Some c => lN_eqb (cb_opids c) (map op_id (g_ops g)) && snap_eqb (cb_snap c) (g_snap g) &&
                                Bool.eqb (cb_ex_closed c) (sn_closed (g_snap g)) && text_eqb (cb_ex_title c) (sn_title (g_snap g)) &&
                                lT_eqb (cb_ex_labels c) (sn_labels (g_snap g)) && Nat.eqb (cb_ex_ncom c) (length (sn_comments (g_snap g)))
                    | None => false end) (os_git o).
Definition query_agrees (o : ostate) : bool :=
  match os_query o with
  | Some q => list_eqb2 (fun x g => (fst x =? g_id g) && snap_eqb (snd x) (g_snap g)) q (os_git o)
  | None => false
  end.

(* ================================================================== correspondence *)

Definition bugs_match (bs : list bug) (o : ostate) : bool :=
  Nat.eqb (length bs) (length (os_git o)) &&
  forallb (fun b => match find_g o (bg_id b) with Some g => ops_eqb (bg_ops b) (g_ops g) | None => false end) bs.

Definition set_eqb (a b : list N) : bool := forallb (fun x => memN x b) a && forallb (fun x => memN x a) b.

Definition agrees_step (c : case) (pre : ostate) (s : step) : bool :=
  let post := s_post s in
  let keeps := c_keeps c in let idt := idtext_of (c_ids c) in let gr := graphic_of (c_nongraphic c) in
  (* the model's compile is the real Compile, on every bug present *)
  forallb (fun g => snap_eqb (compile keeps (g_ops g)) (g_snap g)) (os_git post) &&
  views_agree post && query_agrees post &&
  match s_req s with
  | RMut m a u =>
      let '(st', r) := mutation_step keeps idt gr m (state_of pre) a u in
      bugs_match (st_bugs st') post && lN_eqb (os_blobs post) (os_blobs pre) &&
      match r, s_resp s with
      | Err e, PErr e' => err_eqb e e' && same_repo pre post && same_clocks pre post
      | Ok p, POk p' au => (p_bug p =? p_bug p') && snap_eqb (p_snap p) (p_snap p') && lN_eqb (p_ops p) (p_ops p') &&
                           forallb (fun x => match u with Some v => x =? v | None => false end) au &&
                           Nat.eqb (length au) (length (p_ops p)) && Nat.ltb (os_nobj pre) (os_nobj post)
      | _, _ => false
      end
  | RUnknown u =>
      (* no model of its effect: only the gate is predicted *)
      match u, s_resp s with
      | None, PErr _ => same_repo pre post && same_clocks pre post
      | _, _ => false
      end
  | RUpload a u =>
      let '(st', r) := upload_step (state_of pre) a u in
      set_eqb (st_blobs st') (os_blobs post) &&
      list_eqb gbug_eqb (os_git pre) (os_git post) && list_eqb cbug_eqb (os_cache pre) (os_cache post) &&
      list_eqb pair_nat_eqb (os_refs pre) (os_refs post) && same_clocks pre post &&
      Nat.eqb (os_nobj post) (os_nobj pre + (length (os_blobs post) - length (os_blobs pre))) &&
      match s_resp s with
      | PHttp code b => Nat.eqb code (upload_status (state_of pre) a u) &&
                        match r with Ok cnt => b =? cnt | Err _ => b =? 0 end
      | _ => false
      end
  end.

Fixpoint walk {R} (f : ostate -> step -> R) (pre : ostate) (l : list step) : list R :=
  match l with [] => [] | s :: t => f pre s :: walk f (s_post s) t end.

Definition agrees (c : case) : bool :=
  forallb (fun g => snap_eqb (compile (c_keeps c) (g_ops g)) (g_snap g)) (os_git (c_init c)) &&
  forallb (fun b => b) (walk (agrees_step c) (c_init c) (c_steps c)).
Definition mismatches (cs : list case) : list nat := index_filter agrees 0 cs.

(* ================================================================== the property on the implementation *)

(* comparison of texts up to the cleanup policy: control characters and white space do not count *)
Definition squash (t : text) : text := filter (fun r => negb (is_control r || is_space r)) t.
Definition sim (a b : text) : bool := text_eqb (squash a) (squash b).
Definition memS (x : text) (l : list text) : bool := existsb (sim x) l.

(* a text nobody could object to: printable ASCII, not blank, no space at either end *)
Definition plain (t : text) : bool :=
  forallb (fun r => (32 <=? r) && (r <=? 126)) t &&
  match t with [] => false | r :: _ => negb (r =? 32) end &&
  match rev t with [] => false | r :: _ => negb (r =? 32) end.

Definition labels_of (o : ostate) (b : N) : list text := match find_g o b with Some g => sn_labels (g_snap g) | None => [] end.

(* a request that must succeed: known user, well-formed, every attached file stored, unique target, plain texts, an
   effective label change *)
Definition plainly_valid (c : case) (pre : ostate) (m : mutk) (a : args) (u : N) : bool :=
  memN u idents && a_files_ok a &&
  match resolve_m (c_keeps c) (idtext_of (c_ids c)) m (state_of pre) a with
  | Ok tgt =>
      match m with
      | MNewBug => plain (a_title a) && (plain (a_msg a) || match a_msg a with [] => true | _ => false end)
      | MSetTitle => plain (a_title a)
      | MChangeLabels =>
          match tgt with
          | TBug b => forallb plain (a_added a) && forallb plain (a_removed a) &&
                      (existsb (fun x => negb (memT x (labels_of pre b))) (a_added a) || existsb (fun x => memT x (labels_of pre b)) (a_removed a))
          | _ => false
          end
      | _ => plain (a_msg a) || match a_msg a with [] => true | _ => false end
      end
  | Err _ => false
  end.

Definition subsetS (a b : list text) : bool := forallb (fun x => memS x b) a.

(* the new operations are what was asked for *)
Definition matches_request (c : case) (m : mutk) (a : args) (b : N) (new : list op) : bool :=
  match m, new with
  | MNewBug, [OCreate _ _ t msg f] => sim t (a_title a) && sim msg (a_msg a) && lN_eqb f (a_files a)
  | MAddComment, [OComment _ _ msg f] => sim msg (a_msg a) && lN_eqb f (a_files a)
  | MAddCommentAndClose, [OComment _ _ msg f; OStatus _ _ true] => sim msg (a_msg a) && lN_eqb f (a_files a)
  | MAddCommentAndReopen, [OComment _ _ msg f; OStatus _ _ false] => sim msg (a_msg a) && lN_eqb f (a_files a)
  | MEditComment, [OEdit _ _ t msg f] =>
      is_prefix (a_prefix a) (combined (idtext_of (c_ids c)) b t) && sim msg (a_msg a) && lN_eqb f (a_files a)
  | MChangeLabels, [OLabels _ _ ad rm] => subsetS ad (a_added a) && subsetS rm (a_removed a) && negb (Nat.eqb (length ad + length rm) 0)
  | MOpenBug, [OStatus _ _ false] => true
  | MCloseBug, [OStatus _ _ true] => true
  | MSetTitle, [OTitle _ _ t _] => sim t (a_title a)
  | _, _ => false
  end.

Fixpoint strip_prefix (old now : list op) : option (list op) :=
  match old, now with
  | [], _ => Some now
  | x :: old', y :: now' => if op_eqb x y then strip_prefix old' now' else None
  | _ :: _, [] => None
  end.

(* every bug of [pre] other than b is identical in [post] (git and cache views) *)
Definition others_same (pre post : ostate) (b : N) : bool :=
  forallb (fun g => (g_id g =? b) || match find_g post (g_id g) with Some g' => gbug_eqb g g' | None => false end) (os_git pre) &&
  forallb (fun x => (cb_id x =? b) || match find_c post (cb_id x) with Some x' => cbug_eqb x x' | None => false end) (os_cache pre).

Definition recorded_exactly (c : case) (pre post : ostate) (m : mutk) (a : args) (u : N) (p : payload) (authors : list N) : bool :=
  let b := p_bug p in
  memN u idents && others_same pre post b && lN_eqb (os_blobs pre) (os_blobs post) &&
  match find_g post b, find_c post b with
  | Some g, Some cb =>
      let old := match m with MNewBug => Some [] | _ => option_map g_ops (find_g pre b) end in
      Nat.eqb (length (os_git post)) (length (os_git pre) + match m with MNewBug => 1 | _ => 0 end)%nat &&
      match m with MNewBug => match find_g pre b with None => true | Some _ => false end
                 | MEditComment => true
                 | _ => is_prefix (a_prefix a) (idtext_of (c_ids c) b) end &&
      match old with
      | Some old =>
          match strip_prefix old (g_ops g) with
          | Some new =>
              matches_request c m a b new && all_authored u new && forallb (fun x => x =? u) authors &&
              lN_eqb (p_ops p) (map op_id new) &&
              (* the returned bug is the bug as it now is: in git (fresh read and real Compile) and in the cache *)
              snap_eqb (p_snap p) (g_snap g) && snap_eqb (p_snap p) (cb_snap cb) && lN_eqb (cb_opids cb) (map op_id (g_ops g))
          | None => false
          end
      | None => false
      end
  | _, _ => false
  end.

(* without a model of the mutation: whatever was added to any bug is authored by the user, histories only grow *)
Definition growth_authored (pre post : ostate) (u : N) : bool :=
  forallb (fun g => match find_g pre (g_id g) with
                    | Some g0 => match strip_prefix (g_ops g0) (g_ops g) with Some new => all_authored u new | None => false end
                    | None => all_authored u (g_ops g)
                    end) (os_git post) &&
  forallb (fun g0 => match find_g post (g_id g0) with Some _ => true | None => false end) (os_git pre).

Definition C17_step_ok (c : case) (pre : ostate) (s : step) : bool :=
  let post := s_post s in
  (* queries keep working, with or without a user, and tell what the repository holds *)
  query_agrees post &&
  match s_req s, s_resp s with
  (* no user: refused, and nothing changed *)
  | RMut _ _ None, PErr _ | RUnknown None, PErr _ => same_repo pre post
  | RUpload _ None, PHttp code _ => Nat.leb 400 code && same_repo pre post
  (* a user: an error leaves everything as it was; a success records exactly the request *)
  | RMut m a (Some u), PErr _ => same_repo pre post && negb (plainly_valid c pre m a u)
  | RMut m a (Some u), POk p au => recorded_exactly c pre post m a u p au
  | RUnknown (Some _), PErr _ => same_repo pre post
  | RUnknown (Some u), POkOpaque => memN u idents && growth_authored pre post u
  | RUnknown (Some u), POk p au =>
      memN u idents && growth_authored pre post u && forallb (fun x => x =? u) au &&
      match find_g post (p_bug p) with Some g => snap_eqb (p_snap p) (g_snap g) | None => false end
  | RUpload a (Some u), PHttp code b =>
      if Nat.eqb code 200
      then memN u idents && u_repo_ok a &&
           match u_form a with FFile cnt true => (b =? cnt) && memN cnt (os_blobs post) | _ => false end &&
           list_eqb gbug_eqb (os_git pre) (os_git post) && list_eqb cbug_eqb (os_cache pre) (os_cache post) &&
           list_eqb pair_nat_eqb (os_refs pre) (os_refs post) && Nat.leb (os_nobj post) (S (os_nobj pre)) &&
           forallb (fun x => memN x (os_blobs post)) (os_blobs pre) && Nat.leb (length (os_blobs post)) (S (length (os_blobs pre)))
      else Nat.leb 400 code && same_repo pre post
  | _, _ => false
  end.

Definition C17_ok (c : case) : bool := forallb (fun b => b) (walk (C17_step_ok c) (c_init c) (c_steps c)).
Definition failing (cs : list case) : list nat := index_filter C17_ok 0 cs.

(* per step: (model agrees, property holds) *)
Definition explain (c : case) := combine (walk (agrees_step c) (c_init c) (c_steps c)) (walk (C17_step_ok c) (c_init c) (c_steps c)).
