(* Backward paging (last/before), window and bad-input facts about Page.paginate. *)
From Coq Require Import List Arith Lia Bool ZArith.
Import ListNotations.
From GB Require Import Page.

Definition bwd (n k : nat) (before : option nat) : result :=
  paginate n {| i_after := None; i_before := option_map Off before; i_first := None; i_last := Some (Z.of_nat k) |}.

Lemma take_until_seq b a len : a <= b < a + len -> take_until (Off b) (seq a len) = (seq a (b - a), true).
Proof. revert a. induction len as [|len IH]; intros a H; [lia|]. cbn [seq take_until cur_eqb].
  destruct (Nat.eqb_spec b a) as [->|Hne]; [now rewrite Nat.sub_diag|].
  rewrite IH by lia. replace (b - a) with (S (b - S a)) by lia. reflexivity. Qed.

Lemma lastn_seq k a len : k <= len -> lastn k (seq a len) = seq (a + (len - k)) k.
Proof. intros H. unfold lastn. rewrite seq_length, skipn_seq. f_equal. lia. Qed.

(* one backward page from "everything from offset b on has been seen" (b = n: nothing seen yet) *)
Theorem bwd_page n k b : 0 < k -> b <= n ->
  bwd n k (if Nat.ltb b n then Some b else None) =
  Ok {| p_items := seq (b - Nat.min k b) (Nat.min k b); p_hasnext := Nat.ltb b n; p_hasprev := Nat.ltb k b; p_total := n |}.
Proof. intros Hk Hb. unfold bwd, paginate. rewrite !ew_no_after. cbn [i_after i_before i_first i_last orb].
  assert (Hz : (Z.of_nat k <? 0)%Z = false) by (apply Z.ltb_ge; lia).
  destruct (Nat.ltb_spec b n) as [Hlt|Hge]; cbn [option_map].
  - rewrite take_until_seq by lia. rewrite ?orb_false_r. rewrite Hz, Nat2Z.id, seq_length, Nat.sub_0_r.
    destruct (Nat.ltb_spec k b) as [Hkb|Hkb].
    + rewrite lastn_seq by lia. replace (Nat.min k b) with k by lia. cbn. reflexivity.
    + replace (Nat.min k b) with b by lia. now rewrite Nat.sub_diag.
  - assert (b = n) as -> by lia. rewrite ?orb_false_r. rewrite Hz, Nat2Z.id, seq_length.
    destruct (Nat.ltb_spec k n) as [Hkn|Hkn].
    + rewrite lastn_seq by lia. replace (Nat.min k n) with k by lia. cbn. reflexivity.
    + replace (Nat.min k n) with n by lia. now rewrite Nat.sub_diag. Qed.

(* a client paging backward: follow the start cursor while hasPreviousPage; pages are collected in list order *)
Fixpoint walk_back (fuel n k : nat) (before : option nat) : option (list nat) :=
  match fuel with
  | 0 => None
  | S f =>
    match bwd n k before with
    | Ok p => if p_hasprev p
              then match p_items p with
                   | e :: _ => option_map (fun l => l ++ p_items p) (walk_back f n k (Some e))
                   | [] => None
                   end
              else Some (p_items p)
    | _ => None
    end
  end.

Definition cursor_at (n b : nat) : option nat := if Nat.ltb b n then Some b else None.

Lemma walk_back_from : forall fuel n k b, 0 < k -> b <= n -> b < fuel ->
  walk_back fuel n k (cursor_at n b) = Some (seq 0 b).
Proof. induction fuel as [|f IH]; intros n k b Hk Hb Hf; [lia|]. cbn [walk_back]. unfold cursor_at at 1.
  rewrite (bwd_page n k b Hk Hb). cbn [p_hasprev p_items].
  destruct (Nat.ltb_spec k b) as [Hlt|Hge].
  - replace (Nat.min k b) with k by lia. destruct k as [|k']; [lia|]. cbn [seq].
    replace (Some (b - S k')) with (cursor_at n (b - S k')) by (unfold cursor_at; destruct (Nat.ltb_spec (b - S k') n); [reflexivity|lia]).
    rewrite IH by lia. cbn [option_map]. f_equal.
    change (b - S k' :: seq (S (b - S k')) k') with (seq (b - S k') (S k')). rewrite <- seq_app. f_equal. lia.
  - replace (Nat.min k b) with b by lia. now rewrite Nat.sub_diag. Qed.

Theorem backward_walk n k : 0 < k -> walk_back (S n) n k None = Some (seq 0 n).
Proof. intros Hk. replace None with (cursor_at n n) by (unfold cursor_at; now rewrite Nat.ltb_irrefl).
  apply walk_back_from; lia. Qed.

(* negative sizes are rejected, whatever else is asked *)
Theorem bad_first n i f : i_first i = Some f -> (f < 0)%Z -> paginate n i = ErrFirst.
Proof. intros H Hf. unfold paginate. rewrite H. apply Z.ltb_lt in Hf. rewrite Hf.
  destruct (i_after i) as [c|]; [destruct (find_after c (seq 0 n))|]; destruct (empty_window n i); destruct (i_before i); try destruct (take_until _ _); reflexivity. Qed.

(* a cursor that designates no element (foreign, undecodable, or an offset beyond the list) is ignored *)
Lemma find_after_foreign l : find_after Foreign l = None.
Proof. induction l; cbn; auto. Qed.
Lemma take_until_foreign l : take_until Foreign l = (l, false).
Proof. induction l as [|x t IH]; cbn; [reflexivity|]. now rewrite IH. Qed.

Theorem foreign_cursors_ignored n f l :
  paginate n {| i_after := Some Foreign; i_before := Some Foreign; i_first := f; i_last := l |} =
  paginate n {| i_after := None; i_before := None; i_first := f; i_last := l |}.
Proof. unfold paginate. rewrite ew_no_after.
  assert (E : empty_window n {| i_after := Some Foreign; i_before := Some Foreign; i_first := f; i_last := l |} = false).
  { unfold empty_window. cbn [i_after i_before]. now rewrite find_after_foreign. }
  rewrite E. cbn [i_after i_before i_first i_last]. now rewrite find_after_foreign, take_until_foreign. Qed.

(* the total count is the list length on every successful page *)
Theorem total_is_length n i p : paginate n i = Ok p -> p_total p = n.
Proof. unfold paginate.
  destruct (match i_after i with Some c => match find_after c (seq 0 n) with Some o => _ | None => _ end | None => _ end) as [src0 hp].
  destruct (match i_before i with Some c => take_until c _ | None => _ end) as [e1 hn].
  destruct (match i_first i with Some f => _ | None => _ end) as [[e2 hn2]|]; [|discriminate].
  destruct (match i_last i with Some l => _ | None => _ end) as [[e3 hp3]|]; [|discriminate].
  intros H. inversion H. reflexivity. Qed.
