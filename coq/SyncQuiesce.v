(* One synchronisation round between two replicas makes them agree (C01):
     a pulls (fetch, merge every entity) and pushes; b pulls and pushes; a pulls.
   Afterwards, for EVERY entity, the local ref of a and the local ref of b are the same commit -- both absent only when
   nobody knew the entity -- and this head descends from every head the two replicas and the remote held before. *)
From Coq Require Import List Arith NArith Lia Bool.
Import ListNotations.
From GB Require Import Reach Sort Read Good Snoc Mono World Sync SyncProps Locals KMap SyncFrame SyncInv SyncMerge SyncPush.
Local Open Scope N_scope.

Local Notation loc sw r e := (alookup e (locals (ww sw) r)).

(* ---------------- generic facts about runs of events ---------------- *)
Lemma srun_app a : forall sw b sw', srun sw (a ++ b) = Some sw' -> exists m, srun sw a = Some m /\ srun m b = Some sw'.
Proof. induction a as [|ev t IH]; intros sw b sw' H; cbn [app srun] in *; [eauto|].
  destruct (sstep sw ev) as [[sw1 o]|]; [|discriminate]. now apply IH. Qed.

Lemma srun_app_intro a : forall sw b m sw', srun sw a = Some m -> srun m b = Some sw' -> srun sw (a ++ b) = Some sw'.
Proof. induction a as [|ev t IH]; intros sw b m sw' H1 H2; cbn [app srun] in *; [inversion H1; subst; exact H2|].
  destruct (sstep sw ev) as [[sw1 o]|]; [|discriminate]. eapply IH; eauto. Qed.

Lemma sstep_len_reps sw ev sw' o : sstep sw ev = Some (sw', o) -> length (reps (ww sw')) = length (reps (ww sw)).
Proof. intros H. destruct (sstep_runs _ _ _ _ H) as (acts & R & _). exact (run_len_reps _ _ _ R). Qed.

Lemma loc_lt sw r e h : sinv sw -> loc sw r e = Some h -> (h < length (st (ww sw)))%nat.
Proof. intros I H. now destruct (sinv_local_ref sw r e h I H). Qed.
Lemma trk_lt sw r e t : sinv sw -> alookup e (track_of sw r) = Some t -> (t < length (st (ww sw)))%nat.
Proof. intros I H. now destruct (sinv_track_ref sw r e t I H). Qed.
Lemma rem_lt sw e t : sinv sw -> alookup e (remote sw) = Some t -> (t < length (st (ww sw)))%nat.
Proof. intros I H. now destruct (sinv_remote_ref sw e t I H). Qed.

Lemma orelse_none a b : orelse a b = None -> a = None /\ b = None.
Proof. destruct a; cbn; [discriminate|auto]. Qed.

(* ---------------- what a merge guarantees about the local ref, in terms of the tracking ref t it merges ---------------- *)
(* lo / lo': local ref of the entity before / after.  No tracking ref: nothing happens.  Otherwise the new local head
   exists, descends from t and from the old local head, stays the old head if that already contained t, and is t itself
   if t contained the old head (fast-forward). *)
Definition mpost (s' : store) (t lo lo' : option nat) : Prop :=
  match t with
  | None => lo' = lo
  | Some t => exists h', lo' = Some h' /\ reach s' h' t /\
       match lo with
       | None => h' = t
       | Some h => reach s' h' h /\ (reach s' h t -> h' = h) /\ (reach s' t h -> h' = t)
       end
  end.

Lemma mpost_none s t lo : mpost s t lo None -> t = None /\ lo = None.
Proof. unfold mpost. destruct t as [t|]; [intros (h' & E & _); discriminate|auto]. Qed.

Lemma mpost_some s t lo lo' : mpost s t lo lo' -> lo <> None \/ t <> None -> lo' <> None.
Proof. unfold mpost. destruct t as [t|]; [intros (h' & -> & _) _; discriminate|intros -> [H|H]; congruence]. Qed.

Lemma mpost_lift s1 s2 t lo lo' : wf_store s1 -> extends s1 s2 ->
  (forall x, t = Some x -> (x < length s1)%nat) -> (forall x, lo = Some x -> (x < length s1)%nat) ->
  (forall x, lo' = Some x -> (x < length s1)%nat) ->
  mpost s1 t lo lo' -> mpost s2 t lo lo'.
Proof. intros W X Bt Bl Bl'. unfold mpost. destruct t as [t|]; [|auto]. intros (h' & E & R & M).
  pose proof (Bt t eq_refl) as Lt. pose proof (Bl' h' E) as Lh'.
  exists h'. split; [exact E|]. split; [now apply (reach_extends s1 s2)|].
  destruct lo as [h|]; [|exact M]. pose proof (Bl h eq_refl) as Lh. destruct M as (R1 & M1 & M2).
  split; [now apply (reach_extends s1 s2)|]. split; intros R'; [apply M1|apply M2]; now apply (reach_extends s1 s2) in R'. Qed.

Lemma merge_post1 sw r e mid mau sw' o : sinv sw -> sstep sw (EMerge r e mid mau) = Some (sw', o) ->
  mpost (st (ww sw')) (alookup e (track_of sw r)) (loc sw r e) (loc sw' r e).
Proof. intros I H. pose proof (merge_analysis _ _ _ _ _ _ _ I H) as A. pose proof (sinv_wf sw I) as Wf.
  rewrite !locals_lh. unfold mpost. destruct (alookup e (track_of sw r)) as [t|] eqn:Et.
  2:{ destruct A as [-> _]. reflexivity. }
  pose proof (trk_lt sw r e t I Et) as Lt.
  destruct (lh (ww sw) r e) as [h|] eqn:El.
  - destruct (lh_eid _ _ _ _ El) as [Hin _]. pose proof (rep_of_heads_lt _ _ _ (sinv_WW sw I) Hin) as Lh.
    destruct A as [(R & _ & L' & Es)|[(N1 & R & _ & L' & Es)|(N1 & N2 & c & Es & Ec & _ & L')]]; rewrite L'.
    + exists h. rewrite Es. split; [reflexivity|]. split; [exact R|]. split; [constructor|]. split; [auto|].
      intros R2. eapply reach_antisym; eauto.
    + exists t. rewrite Es. split; [reflexivity|]. split; [constructor|]. split; [exact R|]. split; [intros R1; contradiction|auto].
    + exists (length (st (ww sw))). split; [reflexivity|].
      split; [eapply reach_step; [constructor|]; rewrite Es, parents_app_new, Ec; right; now left|].
      split; [eapply reach_step; [constructor|]; rewrite Es, parents_app_new, Ec; now left|].
      split; intros R'; exfalso; rewrite Es in R'; apply reach_app_back in R'; auto.
  - destruct A as (_ & L' & Es). rewrite L'. exists t. rewrite Es. split; [reflexivity|]. split; [constructor|reflexivity].
Qed.

(* ---------------- merging a list of entities ---------------- *)
Definition merges (r : nat) (es : list nat) (ids : nat -> N * N) : list event :=
  map (fun e => EMerge r e (fst (ids e)) (snd (ids e))) es.

Lemma merges_post es : forall sw sw' r ids, sinv sw -> budget (ww sw) + N.of_nat (3 * length es) + 1 <= jump_limit ->
  srun sw (merges r es ids) = Some sw' ->
  sinv sw' /\ tracks sw' = tracks sw /\ remote sw' = remote sw /\ extends (st (ww sw)) (st (ww sw')) /\
  budget (ww sw') <= budget (ww sw) + N.of_nat (3 * length es) /\
  length (reps (ww sw')) = length (reps (ww sw)) /\
  (forall r' e', r' <> r \/ ~ In e' es -> loc sw' r' e' = loc sw r' e') /\
  (forall e, In e es -> mpost (st (ww sw')) (alookup e (track_of sw r)) (loc sw r e) (loc sw' r e)).
Proof.
  induction es as [|e0 t IH]; intros sw sw' r ids I B H.
  - cbn in H. inversion H; subst. split; [exact I|]. split; [reflexivity|]. split; [reflexivity|]. split; [apply extends_refl|].
    split; [cbn; lia|]. split; [reflexivity|]. split; [reflexivity|intros e []].
  - cbn [merges map srun] in H. fold (merges r t ids) in H.
    destruct (sstep sw (EMerge r e0 (fst (ids e0)) (snd (ids e0)))) as [[sw1 o]|] eqn:E; [|discriminate].
    cbn [length] in B.
    assert (I1 : sinv sw1) by (eapply sstep_sinv; [exact I| |exact E]; cbn [cost]; lia).
    pose proof (sstep_budget _ _ _ _ E) as B1. cbn [cost] in B1.
    destruct (merge_frame _ _ _ _ _ _ _ I E) as (T1 & R1 & F1).
    pose proof (merge_post1 _ _ _ _ _ _ _ I E) as P1. pose proof (sstep_extends _ _ _ _ E) as X1.
    pose proof (sstep_len_reps _ _ _ _ E) as L1.
    destruct (IH sw1 sw' r ids I1 ltac:(lia) H) as (I' & T' & R' & X' & B' & L' & F' & P').
    assert (Etr : track_of sw1 r = track_of sw r) by (unfold track_of; now rewrite T1).
    split; [exact I'|]. split; [congruence|]. split; [congruence|]. split; [eapply extends_trans; eauto|].
    split; [cbn [length]; lia|]. split; [congruence|]. split.
    + intros r' e' Hd. rewrite F'; [apply F1|]; destruct Hd as [Hd|Hd]; auto; right; intros Hx; apply Hd; [now left|now right].
    + intros e Hin. destruct (Nat.eq_dec e e0) as [->|Hne].
      * (* later merges of other entities, or a repeated merge of e0, leave the ref of e0 where the first merge put it *)
        assert (Eq : loc sw' r e0 = loc sw1 r e0).
        { destruct (in_dec Nat.eq_dec e0 t) as [Hi|Hn]; [|apply F'; now right].
          specialize (P' e0 Hi). rewrite Etr in P'. unfold mpost in P', P1.
          destruct (alookup e0 (track_of sw r)) as [tt|] eqn:Ett; [|exact P'].
          destruct P1 as (h1 & E1 & Rh1 & _). rewrite E1 in P'. destruct P' as (h2 & E2 & _ & _ & M & _).
          rewrite E2, E1. f_equal. apply M. apply (reach_extends (st (ww sw1)) (st (ww sw'))); auto using sinv_wf.
          now apply (loc_lt sw1 r e0). }
        rewrite Eq. apply (mpost_lift (st (ww sw1))); auto using sinv_wf.
        -- intros x Hx. rewrite <- Etr in Hx. now apply (trk_lt sw1 r e0).
        -- intros x Hx. pose proof (loc_lt sw r e0 x I Hx). pose proof (extends_len _ _ X1). lia.
        -- intros x Hx. now apply (loc_lt sw1 r e0).
      * destruct Hin as [Hin|Hin]; [congruence|]. specialize (P' e Hin). rewrite Etr, (F1 r e) in P' by (right; exact Hne). exact P'.
Qed.

(* ---------------- pull = fetch, then merge every entity of the list ---------------- *)
Definition pull (r : nat) (es : list nat) (ids : nat -> N * N) : list event := EFetch r :: merges r es ids.

Lemma pull_post sw sw' r es ids : sinv sw -> (r < length (reps (ww sw)))%nat ->
  budget (ww sw) + N.of_nat (3 * length es) + 2 <= jump_limit ->
  srun sw (pull r es ids) = Some sw' ->
  sinv sw' /\ remote sw' = remote sw /\ extends (st (ww sw)) (st (ww sw')) /\
  budget (ww sw') <= budget (ww sw) + N.of_nat (3 * length es) /\
  length (reps (ww sw')) = length (reps (ww sw)) /\
  (forall r', r' <> r -> track_of sw' r' = track_of sw r') /\
  (forall e, alookup e (track_of sw' r) = orelse (alookup e (remote sw)) (alookup e (track_of sw r))) /\
  (forall r' e', r' <> r \/ ~ In e' es -> loc sw' r' e' = loc sw r' e') /\
  (forall e, In e es -> mpost (st (ww sw')) (orelse (alookup e (remote sw)) (alookup e (track_of sw r))) (loc sw r e) (loc sw' r e)).
Proof.
  intros I Lr B H. cbn [pull srun] in H. destruct (sstep sw (EFetch r)) as [[sw1 o]|] eqn:E; [|discriminate].
  assert (I1 : sinv sw1) by (eapply sstep_sinv; [exact I| |exact E]; cbn [cost]; lia).
  destruct (fetch_spec sw r sw1 o I Lr E) as (_ & Ew & Er & Et & Eo).
  destruct (merges_post es sw1 sw' r ids I1 ltac:(rewrite Ew; lia) H) as (I' & T' & R' & X' & B' & L' & F' & P').
  rewrite Ew in *.
  assert (Etr : forall r', track_of sw' r' = track_of sw1 r') by (intros r'; unfold track_of; now rewrite T').
  split; [exact I'|]. split; [congruence|]. split; [exact X'|]. split; [exact B'|]. split; [exact L'|].
  split; [intros r' Hne; rewrite Etr; now apply Eo|]. split; [intros e; rewrite Etr; apply Et|].
  split; [exact F'|]. intros e Hin. rewrite <- Et. now apply P'.
Qed.

(* a push after a pull that merged every entity of the remote is a fast-forward, hence succeeds *)
Lemma push_after sw r sw' o : sinv sw -> (r < length (reps (ww sw)))%nat ->
  (forall e rh, alookup e (remote sw) = Some rh -> exists h, loc sw r e = Some h /\ reach (st (ww sw)) h rh) ->
  sstep sw (EPush r) = Some (sw', o) ->
  o = ODone /\ ww sw' = ww sw /\
  (forall e, alookup e (remote sw') = orelse (loc sw r e) (alookup e (remote sw))) /\
  (forall e, alookup e (track_of sw' r) = orelse (loc sw r e) (alookup e (track_of sw r))) /\
  (forall r', r' <> r -> track_of sw' r' = track_of sw r').
Proof. intros I Lr FF H. destruct (push_spec sw r sw' o I Lr H) as (Ew & [(Eo & _ & A & B & C)|(_ & N & _)]); [auto|].
  exfalso. apply N. intros e h rh El Er. destruct (FF e rh Er) as (h0 & E0 & R). congruence. Qed.

(* ---------------- half a round: pull, then push ---------------- *)
Lemma half_post sw sw' r es ids : sinv sw -> (r < length (reps (ww sw)))%nat ->
  budget (ww sw) + N.of_nat (3 * length es) + 2 <= jump_limit ->
  (forall e, alookup e (remote sw) <> None -> In e es) ->
  srun sw (pull r es ids ++ [EPush r]) = Some sw' ->
  sinv sw' /\ extends (st (ww sw)) (st (ww sw')) /\
  budget (ww sw') <= budget (ww sw) + N.of_nat (3 * length es) /\
  length (reps (ww sw')) = length (reps (ww sw)) /\
  (forall r', r' <> r -> track_of sw' r' = track_of sw r') /\
  (forall e, alookup e (track_of sw' r) = orelse (loc sw' r e) (orelse (alookup e (remote sw)) (alookup e (track_of sw r)))) /\
  (forall e, alookup e (remote sw') = orelse (loc sw' r e) (alookup e (remote sw))) /\
  (forall r' e', r' <> r \/ ~ In e' es -> loc sw' r' e' = loc sw r' e') /\
  (forall e, In e es -> mpost (st (ww sw')) (orelse (alookup e (remote sw)) (alookup e (track_of sw r))) (loc sw r e) (loc sw' r e)).
Proof.
  intros I Lr B Cov H. apply srun_app in H as (sw1 & H1 & H2).
  destruct (pull_post sw sw1 r es ids I Lr B H1) as (I1 & R1 & X1 & B1 & L1 & To1 & T1 & F1 & P1).
  cbn [srun] in H2. destruct (sstep sw1 (EPush r)) as [[sw2 o]|] eqn:E; [|discriminate]. inversion H2; subst sw2; clear H2.
  assert (Lr1 : (r < length (reps (ww sw1)))%nat) by lia.
  assert (I' : sinv sw') by (eapply sstep_sinv; [exact I1| |exact E]; cbn [cost]; lia).
  assert (FF : forall e rh, alookup e (remote sw1) = Some rh -> exists h, loc sw1 r e = Some h /\ reach (st (ww sw1)) h rh).
  { intros e rh Er. rewrite R1 in Er. assert (Hin : In e es) by (apply Cov; congruence).
    specialize (P1 e Hin). rewrite Er in P1. cbn [orelse mpost] in P1. destruct P1 as (h' & E1 & Rh & _). eauto. }
  destruct (push_after sw1 r sw' o I1 Lr1 FF E) as (_ & Ew & Rm & Tr & To).
  rewrite Ew. split; [exact I'|]. split; [exact X1|]. split; [exact B1|]. split; [exact L1|].
  split; [intros r' Hne; rewrite To by exact Hne; now apply To1|].
  split; [intros e; rewrite Tr, T1; reflexivity|]. split; [intros e; rewrite Rm, R1; reflexivity|]. split; [exact F1|exact P1].
Qed.

(* ---------------- the round ---------------- *)
Definition round (a b : nat) (es : list nat) (i1 i2 i3 : nat -> N * N) : list event :=
  EFetch a :: merges a es i1 ++ EPush a :: EFetch b :: merges b es i2 ++ EPush b :: EFetch a :: merges a es i3.

Lemma round_phases a b es i1 i2 i3 :
  round a b es i1 i2 i3 = (pull a es i1 ++ [EPush a]) ++ (pull b es i2 ++ [EPush b]) ++ pull a es i3.
Proof. unfold round, pull. cbn [app]. rewrite <- !app_assoc. reflexivity. Qed.

(* e is known somewhere: one of the two replicas or the remote has a ref for it *)
Definition known (sw : sworld) (a b e : nat) : Prop :=
  loc sw a e <> None \/ loc sw b e <> None \/ alookup e (remote sw) <> None.

Lemma option_dec (o : option nat) : o = None \/ o <> None.
Proof. destruct o; [right; discriminate|now left]. Qed.

(* the heart: per entity, the final refs in terms of the initial ones *)
Lemma round_analysis sw sw' a b es i1 i2 i3 : sinv sw -> a <> b ->
  (a < length (reps (ww sw)))%nat -> (b < length (reps (ww sw)))%nat ->
  budget (ww sw) + N.of_nat (9 * length es) + 2 <= jump_limit ->
  (forall e, known sw a b e -> In e es) ->
  srun sw (round a b es i1 i2 i3) = Some sw' ->
  sinv sw' /\ extends (st (ww sw)) (st (ww sw')) /\ forall e,
  loc sw' a e = loc sw' b e /\
  (known sw a b e -> exists h, loc sw' b e = Some h /\
     (forall x, loc sw a e = Some x \/ loc sw b e = Some x \/ alookup e (remote sw) = Some x -> reach (st (ww sw')) h x)).
Proof.
  intros I Hab La Lb B Cov H.
  rewrite round_phases in H. apply srun_app in H as (sw2 & H2 & H'). apply srun_app in H' as (sw4 & H4 & H5).
  assert (Cr : forall e, alookup e (remote sw) <> None -> In e es) by (intros e He; apply Cov; right; now right).
  destruct (half_post sw sw2 a es i1 I La ltac:(lia) Cr H2) as (I2 & X2 & B2 & L2 & To2 & T2 & R2 & F2 & P2).
  (* everything a and the remote know after a's half round is in es *)
  assert (NotIn : forall e r, ~ In e es -> loc sw r e = None \/ (r <> a /\ r <> b)).
  { intros e r Hn. destruct (Nat.eq_dec r a) as [->|Ha]; [left|destruct (Nat.eq_dec r b) as [->|Hb]; [left|right; auto]].
    - destruct (option_dec (loc sw a e)) as [E|E]; [exact E|]. exfalso. apply Hn, Cov. now left.
    - destruct (option_dec (loc sw b e)) as [E|E]; [exact E|]. exfalso. apply Hn, Cov. right. now left. }
  assert (Cr2 : forall e, alookup e (remote sw2) <> None -> In e es).
  { intros e He. destruct (in_dec Nat.eq_dec e es) as [Hi|Hn]; [exact Hi|]. exfalso. rewrite R2, (F2 a e) in He by (right; exact Hn).
    destruct (NotIn e a Hn) as [E|[E _]]; [|congruence]. rewrite E in He. cbn [orelse] in He. apply Hn, Cr, He. }
  destruct (half_post sw2 sw4 b es i2 I2 ltac:(lia) ltac:(lia) Cr2 H4) as (I4 & X4 & B4 & L4 & To4 & T4 & R4 & F4 & P4).
  destruct (pull_post sw4 sw' a es i3 I4 ltac:(lia) ltac:(lia) H5) as (I5 & R5 & X5 & B5 & L5 & To5 & T5 & F5 & P5).
  pose proof (sinv_wf sw I) as Wf0. pose proof (sinv_wf sw2 I2) as Wf2. pose proof (sinv_wf sw4 I4) as Wf4.
  assert (X04 : extends (st (ww sw)) (st (ww sw4))) by (eapply extends_trans; eauto).
  assert (X25 : extends (st (ww sw2)) (st (ww sw'))) by (eapply extends_trans; eauto).
  split; [exact I5|]. split; [eapply extends_trans; eauto|]. intros e.
  (* the refs that do not move *)
  assert (Eb5 : loc sw' b e = loc sw4 b e) by (apply F5; left; auto).
  assert (Ea4 : loc sw4 a e = loc sw2 a e) by (apply F4; left; auto).
  assert (Eb2 : loc sw2 b e = loc sw b e) by (apply F2; left; auto).
  destruct (in_dec Nat.eq_dec e es) as [Hin|Hn].
  2:{ (* an entity outside es is unknown, and stays so *)
    assert (E1 : loc sw' a e = None).
    { rewrite (F5 a e), Ea4, (F2 a e) by (right; exact Hn). destruct (NotIn e a Hn) as [E|[E _]]; [exact E|congruence]. }
    assert (E2 : loc sw' b e = None).
    { rewrite Eb5, (F4 b e), Eb2 by (right; exact Hn). destruct (NotIn e b Hn) as [E|[_ E]]; [exact E|congruence]. }
    split; [congruence|]. intros K. exfalso. apply Hn, Cov, K. }
  specialize (P2 e Hin). specialize (P4 e Hin). specialize (P5 e Hin).
  rewrite Ea4 in P5. rewrite Eb2 in P4. rewrite <- Eb5 in P4.
  (* the tracking ref a merges at the end *)
  assert (ET : orelse (alookup e (remote sw4)) (alookup e (track_of sw4 a)) =
               orelse (orelse (loc sw' b e) (alookup e (remote sw2))) (alookup e (track_of sw2 a))).
  { rewrite R4, <- Eb5, (To4 a) by auto. reflexivity. }
  rewrite ET in P5. clear ET.
  destruct (loc sw' b e) as [hb|] eqn:LB.
  - (* b ends with a head hb *)
    cbn [orelse mpost] in P5. destruct P5 as (h' & E5 & _ & M5).
    assert (Lhb : (hb < length (st (ww sw4)))%nat) by (apply (loc_lt sw4 b e hb I4); congruence).
    assert (Ra : forall ha, loc sw2 a e = Some ha -> reach (st (ww sw4)) hb ha).
    { intros ha Ea. rewrite R2, Ea in P4. cbn [orelse mpost] in P4. destruct P4 as (h'' & E4 & R & _). inversion E4; subst h''. exact R. }
    assert (Eh : h' = hb).
    { destruct (loc sw2 a e) as [ha|] eqn:LA; [|exact M5]. destruct M5 as (_ & _ & M). apply M.
      apply (reach_extends (st (ww sw4)) (st (ww sw'))); auto. }
    subst h'. split; [exact E5|]. intros _. exists hb. split; [reflexivity|].
    (* nothing lost *)
    assert (Lift4 : forall x, reach (st (ww sw4)) hb x -> reach (st (ww sw')) hb x).
    { intros x R. apply (reach_extends (st (ww sw4)) (st (ww sw'))); auto. }
    assert (Rb : forall x, loc sw b e = Some x -> reach (st (ww sw4)) hb x).
    { intros x Ex. rewrite Ex in P4. unfold mpost in P4. destruct (orelse (alookup e (remote sw2)) (alookup e (track_of sw2 b))) as [tb|].
      - destruct P4 as (h'' & E4 & _ & R & _). inversion E4; subst h''. exact R.
      - inversion P4; subst. constructor. }
    assert (Ra0 : forall ha x, loc sw2 a e = Some ha -> loc sw a e = Some x \/ alookup e (remote sw) = Some x -> reach (st (ww sw2)) ha x).
    { intros ha x Ea Hx. rewrite Ea in P2. unfold mpost in P2. destruct Hx as [Hx|Hx]; rewrite Hx in P2.
      - destruct (orelse (alookup e (remote sw)) (alookup e (track_of sw a))) as [ta|].
        + destruct P2 as (h'' & E2 & _ & R & _). inversion E2; subst h''. exact R.
        + inversion P2; subst. constructor.
      - cbn [orelse] in P2. destruct P2 as (h'' & E2 & R & _). inversion E2; subst h''. exact R. }
    assert (KA : forall x, loc sw a e = Some x \/ alookup e (remote sw) = Some x -> exists ha, loc sw2 a e = Some ha).
    { intros x Hx. destruct (loc sw2 a e) as [ha|] eqn:LA; [eauto|]. exfalso. apply mpost_none in P2 as [Et El].
      destruct Hx as [Hx|Hx]; [congruence|]. rewrite Hx in Et. discriminate. }
    intros x [Hx|[Hx|Hx]]; [|apply Lift4, Rb, Hx|].
    + destruct (KA x (or_introl Hx)) as (ha & Ea). apply Lift4. eapply reach_trans; [apply (Ra ha Ea)|].
      apply (proj2 (reach_extends (st (ww sw2)) (st (ww sw4)) ha x Wf2 X4 (loc_lt sw2 a e ha I2 Ea))). apply (Ra0 ha x Ea). now left.
    + destruct (KA x (or_intror Hx)) as (ha & Ea). apply Lift4. eapply reach_trans; [apply (Ra ha Ea)|].
      apply (proj2 (reach_extends (st (ww sw2)) (st (ww sw4)) ha x Wf2 X4 (loc_lt sw2 a e ha I2 Ea))). apply (Ra0 ha x Ea). now right.
  - (* b ends without the entity: then nobody ever had it *)
    apply mpost_none in P4 as [Et4 Eb0]. apply orelse_none in Et4 as [Er2 _].
    rewrite R2 in Er2. apply orelse_none in Er2 as [Ea2 Er0].
    rewrite Ea2 in P2. apply mpost_none in P2 as [Et2 Ea0].
    assert (Er2' : alookup e (remote sw2) = None) by (rewrite R2, Ea2, Er0; reflexivity).
    assert (Et2' : alookup e (track_of sw2 a) = None) by (rewrite T2, Ea2, Et2; reflexivity).
    rewrite Er2', Et2', Ea2 in P5. cbn [orelse mpost] in P5. split; [exact P5|].
    intros [K|[K|K]]; congruence.
Qed.

(* ---------------- the round never gets stuck ---------------- *)
Lemma step_witness_some w r t rp : nth_error (reps w) r = Some rp -> (t < length (st w))%nat ->
  exists w1 rp1, step w (AWitness r t) = Some w1 /\ st w1 = st w /\ eidf w1 = eidf w /\
                 nth_error (reps w1) r = Some rp1 /\ heads rp1 = heads rp.
Proof. intros Er Lt. cbn [step]. rewrite Er. apply Nat.ltb_lt in Lt. rewrite Lt. cbn [negb].
  eexists _, _. split; [reflexivity|]. cbn [st eidf reps]. split; [reflexivity|]. split; [reflexivity|].
  split; [eapply nth_error_set_nth_same; exact Er|reflexivity]. Qed.

Lemma merge_progress sw r e mid mau : sinv sw -> (r < length (reps (ww sw)))%nat ->
  exists sw' o, sstep sw (EMerge r e mid mau) = Some (sw', o).
Proof.
  intros I Lr. destruct (nth_error (reps (ww sw)) r) as [rp|] eqn:Er; [|apply nth_error_None in Er; lia].
  cbn [sstep]. destruct (alookup e (track_of sw r)) as [t|] eqn:Et; [|eauto].
  destruct (sinv_track_ref sw r e t I Et) as (Lt & Ee & Vt). rewrite Vt. cbn [negb].
  destruct (step_witness_some _ r t rp Er Lt) as (w1 & rp1 & S1 & Es1 & Ee1 & Er1 & Hh1). rewrite S1.
  destruct (alookup e (locals (ww sw) r)) as [h|] eqn:El.
  - destruct (sinv_local_ref sw r e h I El) as (Lh & Eh & Hin & _). rewrite (rep_of_some _ _ _ Er) in Hin.
    destruct (Nat.eqb h t) eqn:Eht; [eauto|]. destruct (is_anc (st (ww sw)) t h); [eauto|].
    destruct (is_anc (st (ww sw)) h t).
    + cbn [step]. rewrite Er1, Es1. apply Nat.ltb_lt in Lt. rewrite Lt. cbn [negb]. eauto.
    + rewrite <- Es1 in Lh. destruct (step_witness_some _ r h rp1 Er1 Lh) as (w2 & rp2 & S2 & Es2 & Ee2 & Er2 & Hh2). rewrite S2.
      cbn [step]. rewrite Er2, Es2, Es1, Ee2, Ee1, Ee, Eh, Nat.eqb_refl, Eht.
      assert (G1 : existsb (Nat.eqb h) (heads rp2) = true).
      { apply existsb_exists. exists h. split; [now rewrite Hh2, Hh1|apply Nat.eqb_refl]. }
      apply Nat.ltb_lt in Lt. rewrite G1, Lt. cbn [andb negb]. eauto.
  - cbn [step]. rewrite Er1, Es1. apply Nat.ltb_lt in Lt. rewrite Lt. cbn [negb]. eauto.
Qed.

Definition sync_event (n : nat) (ev : event) : Prop :=
  match ev with EFetch r | EPush r | EMerge r _ _ _ => (r < n)%nat | _ => False end.

Lemma sync_progress evs : forall sw, sinv sw -> Forall (sync_event (length (reps (ww sw)))) evs ->
  budget (ww sw) + N.of_nat (total_cost evs) + 1 <= jump_limit -> exists sw', srun sw evs = Some sw'.
Proof. induction evs as [|ev t IH]; intros sw I F B; [cbn; eauto|]. inversion F as [|? ? Hev Ft]; subst.
  cbn [total_cost fold_right] in B. fold (total_cost t) in B.
  assert (S : exists sw1 o, sstep sw ev = Some (sw1, o)).
  { destruct ev; cbn [sync_event] in Hev; try contradiction.
    - cbn [sstep]. destruct (push_ok _ _ _); eauto.
    - cbn [sstep]. eauto.
    - now apply merge_progress. }
  destruct S as (sw1 & o & S). cbn [srun]. rewrite S. apply IH.
  - eapply sstep_sinv; [exact I| |exact S]. lia.
  - now rewrite (sstep_len_reps _ _ _ _ S).
  - pose proof (sstep_budget _ _ _ _ S). lia. Qed.

Lemma total_cost_app a b : total_cost (a ++ b) = (total_cost a + total_cost b)%nat.
Proof. induction a as [|x t IH]; [reflexivity|]. cbn [app total_cost fold_right]. fold (total_cost (t ++ b)). fold (total_cost t). lia. Qed.

Lemma total_cost_merges r es ids : total_cost (merges r es ids) = (3 * length es)%nat.
Proof. induction es as [|e t IH]; [reflexivity|]. cbn [merges map total_cost fold_right cost length]. fold (merges r t ids). fold (total_cost (merges r t ids)). lia. Qed.

Lemma total_cost_cons ev t : total_cost (ev :: t) = (cost ev + total_cost t)%nat.
Proof. reflexivity. Qed.

Lemma total_cost_round a b es i1 i2 i3 : total_cost (round a b es i1 i2 i3) = (9 * length es + 5)%nat.
Proof. unfold round. repeat (rewrite ?total_cost_cons, ?total_cost_app). rewrite !total_cost_merges. cbn [cost]. lia. Qed.

Lemma Forall_merges n r es ids : (r < n)%nat -> Forall (sync_event n) (merges r es ids).
Proof. intros L. unfold merges. apply Forall_forall. intros ev Hin. apply in_map_iff in Hin as (e & <- & _). exact L. Qed.

Lemma round_progress sw a b es i1 i2 i3 : sinv sw -> (a < length (reps (ww sw)))%nat -> (b < length (reps (ww sw)))%nat ->
  budget (ww sw) + N.of_nat (9 * length es) + 6 <= jump_limit -> exists sw', srun sw (round a b es i1 i2 i3) = Some sw'.
Proof. intros I La Lb B. apply sync_progress; [exact I| |rewrite total_cost_round; lia].
  unfold round. constructor; [exact La|]. apply Forall_app. split; [now apply Forall_merges|].
  constructor; [exact La|]. constructor; [exact Lb|]. apply Forall_app. split; [now apply Forall_merges|].
  constructor; [exact Lb|]. constructor; [exact La|]. now apply Forall_merges. Qed.

(* ---------------- C01: one round makes the two replicas agree ---------------- *)
Definition initial_head (sw : sworld) (a b e x : nat) : Prop :=
  loc sw a e = Some x \/ loc sw b e = Some x \/ alookup e (remote sw) = Some x.

Theorem sync_quiesces sw a b es i1 i2 i3 : sinv sw -> a <> b ->
  (a < length (reps (ww sw)))%nat -> (b < length (reps (ww sw)))%nat ->
  budget (ww sw) + N.of_nat (9 * length es) + 6 <= jump_limit ->
  (forall e, known sw a b e -> In e es) ->
  exists sw', srun sw (round a b es i1 i2 i3) = Some sw' /\ sinv sw' /\
    (* the two replicas have the same local refs: same entities, same heads *)
    locals (ww sw') a = locals (ww sw') b /\
    (* and every entity known anywhere before is there, with everything that was known about it *)
    forall e, known sw a b e ->
      exists h ops, loc sw' a e = Some h /\ loc sw' b e = Some h /\ read (st (ww sw')) h = Some ops /\
        forall x, initial_head sw a b e x ->
          reach (st (ww sw')) h x /\ forall ox, read (st (ww sw)) x = Some ox -> sublist ox ops.
Proof.
  intros I Hab La Lb B Cov. destruct (round_progress sw a b es i1 i2 i3 I La Lb B) as (sw' & H). exists sw'. split; [exact H|].
  destruct (round_analysis sw sw' a b es i1 i2 i3 I Hab La Lb ltac:(lia) Cov H) as (I' & X & A).
  split; [exact I'|]. split.
  - apply amap_ext; [apply ksorted_locals|apply ksorted_locals|]. intros e. apply (A e).
  - intros e K. destruct (A e) as (E & Kn). destruct (Kn K) as (h & Eh & Rh). rewrite Eh in E.
    destruct (sinv_read sw' h I' (loc_lt sw' b e h I' Eh)) as (ops & Ro). exists h, ops. repeat split; auto.
    intros ox Rx. eapply C02_monotone; [apply (sinv_wf sw' I')|apply (Rh x H0)| |exact Ro].
    assert (Lx : (x < length (st (ww sw)))%nat).
    { destruct H0 as [Hx|[Hx|Hx]]; [eapply loc_lt|eapply loc_lt|eapply rem_lt]; eauto. }
    rewrite (read_extends (st (ww sw)) (st (ww sw')) x (sinv_wf sw I) X Lx). exact Rx.
Qed.
Print Assumptions sync_quiesces.

(* a list covering every known entity always exists: the keys of the three maps *)
Definition known_list (sw : sworld) (a b : nat) : list nat :=
  map fst (locals (ww sw) a) ++ map fst (locals (ww sw) b) ++ map fst (remote sw).

Lemma known_list_covers sw a b e : known sw a b e -> In e (known_list sw a b).
Proof. unfold known, known_list. rewrite !in_app_iff, <- !alookup_keys. tauto. Qed.

(* afterwards both replicas show the same bug for every entity: the read events give the same outcome *)
Theorem sync_same_reads sw a b : sinv sw -> (a < length (reps (ww sw)))%nat -> (b < length (reps (ww sw)))%nat ->
  locals (ww sw) a = locals (ww sw) b ->
  forall e, exists o swa swb, sstep sw (ERead a e) = Some (swa, o) /\ sstep sw (ERead b e) = Some (swb, o).
Proof. intros I La Lb E e. cbn [sstep]. rewrite <- E. destruct (alookup e (locals (ww sw) a)) as [h|] eqn:El; [|eauto].
  destruct (sinv_local_ref sw a e h I El) as (Lh & _ & _ & V). rewrite V. cbn [negb].
  destruct (nth_error (reps (ww sw)) a) as [rpa|] eqn:Ea; [|apply nth_error_None in Ea; lia].
  destruct (nth_error (reps (ww sw)) b) as [rpb|] eqn:Eb; [|apply nth_error_None in Eb; lia].
  destruct (step_witness_some _ a h rpa Ea Lh) as (wa & ? & Sa & _). destruct (step_witness_some _ b h rpb Eb Lh) as (wb & ? & Sb & _).
  rewrite Sa, Sb. eauto. Qed.
Print Assumptions sync_same_reads.

(* ---------------- a concrete session (used by the Example of P_C01.v) ---------------- *)
(* replica 0 creates entity 0 and publishes it, replica 1 adopts it; both then edit it concurrently, and each creates an
   entity the other has never seen *)
Definition ex_prefix : list event :=
  [ECommit 0 None [Pk 5 1 [100]]; EPush 0; EFetch 1; EMerge 1 0 0 0;
   ECommit 0 (Some 0%nat) [Pk 9 1 [101]]; ECommit 1 (Some 0%nat) [Pk 3 2 [201]; Pk 4 2 [202]];
   ECommit 1 None [Pk 6 2 [300]]; ECommit 0 None [Pk 8 1 [400]]].
Definition ex_ids (e : nat) : N * N := (N.of_nat e + 50, 7).
