(* A run in which no request fails reports no error (and therefore stores the cursor) when nothing in the tracker is beyond
   the importer: every event is of a known kind, every user that is referred to can be had, the ids of an issue are not
   shared. Whatever the texts are: this is where the repairs of the texts (titles, labels, users) and of the deleted
   users show. Proofs over the model of Import.v, on top of ImportProofs.v. *)
From Coq Require Import List Arith NArith Bool Lia.
Import ListNotations.
From GB Require Import Import ImportText ImportProofs.
Local Open Scope N_scope.

(* the text repairs are in, and the placeholder title is itself a valid title (a fact about unicode.IsGraphic) *)
Definition texts_repaired (c : cfg) : Prop :=
  c_dedupe_labels c = true /\ c_clean_title c = true /\ c_empty_text c = true /\ title_valid c placeholder = true.

(* an event the importer knows what to do with: not of an unknown kind, and when it is a title change, the note holds a
   new title of which something is left *)
Definition known_event (e : event) : Prop :=
  ev_kind e <> KUnknown /\ (ev_kind e = KTitle -> exists t, new_title (note_body e) = Some t /\ cleanup1 t <> []).

(* invariant: the operation that carries the id of a comment note created a comment *)
Definition comment_ids_ok (iss : issue) (ops : list op) : Prop :=
  forall n p, In n (i_notes iss) -> n_system n = false -> resolve (n_id n) ops = LOne p -> comment_text ops p <> None.
Definition comments_ok (iss : issue) (bugs : list bug) : Prop :=
  forall b, find_bug (i_iid iss) bugs = Some b -> comment_ids_ok iss (b_ops b).

(* ------------------------------------------------------------------ the lookup never finds an id twice *)

Lemma positions_count g ops i : length (positions g ops i) = count_occ N.eq_dec (gids ops) g.
Proof. revert i. induction ops as [|o t IH]; intros i; cbn; [reflexivity|].
  unfold gid_is. destruct (o_gid o) as [x|]; cbn; [|apply IH].
  destruct (N.eqb_spec x g) as [->|Ne].
  - cbn. destruct (N.eq_dec g g); [|congruence]. now rewrite IH.
  - destruct (N.eq_dec x g); [congruence|]. apply IH. Qed.

Lemma nodup_not_many g ops : NoDup (gids ops) -> resolve g ops <> LMany.
Proof. intros ND R. pose proof (positions_count g ops 0) as L.
  rewrite NoDup_count_occ with (decA := N.eq_dec) in ND. specialize (ND g).
  unfold resolve in R. destruct (positions g ops 0) as [|a [|b l]]; try discriminate. cbn in L. lia. Qed.

(* ------------------------------------------------------------------ kinds *)

Lemma note_kind_comment n : note_kind n = KComment <-> n_system n = false.
Proof. unfold note_kind. destruct (n_system n); cbn [negb]; [|tauto]. split; [|discriminate].
  repeat match goal with |- context [if ?b then _ else _] => destruct b end; discriminate. Qed.

Lemma ee_unfold c us iss ops s e : e <> EError ->
  ensure_event c us iss (ops, s) e =
  match resolve (ev_id e) ops with
  | LMany => (ops, emit RError s)
  | _ => let '(s1, ok) := ensure_person c us (ev_user e) s in
         (step c iss ok ops e,
          if ok then match decide c iss ops e with
                     | ANone => s1
                     | AError => emit RError s1
                     | AAppend o r => if op_valid c o then match r with Some x => emit x s1 | None => s1 end
                                      else emit RError s1
                     end
          else emit RError s1)
  end.
Proof. destruct e; [reflexivity|reflexivity|reflexivity|congruence]. Qed.

(* ------------------------------------------------------------------ the invariant is kept *)

Lemma comment_ids_step c iss ok ops e : c_dedupe_labels c = true -> inv_ops c iss ops -> ids_disjoint iss -> In_ev iss e ->
  comment_ids_ok iss ops -> comment_ids_ok iss (step c iss ok ops e).
Proof. intros Dd I Dj He CI. destruct (step_cases c iss ok ops e) as [->|[o [r [-> [D [V [_ [NM NE]]]]]]]]; [exact CI|].
  intros n p Hn Sys R. rewrite resolve_app in R.
  destruct (gid_is (n_id n) o) eqn:G.
  - apply gid_is_spec in G.
    destruct (decide_append c iss ops e o r Dd D) as [[Go [_ [NoOne Hk]]]|[q [cur [Go _]]]]; [|rewrite Go in G; discriminate].
    rewrite Go in G. inversion G as [Eid].
    assert (Ee : e = ENote n) by (apply (ev_id_inj iss e (ENote n) Dj He); cbn; auto; discriminate).
    subst e. cbn [ev_kind] in Hk. rewrite (proj2 (note_kind_comment n) Sys) in Hk.
    destruct (resolve (n_id n) ops) eqn:R0; try discriminate. inversion R; subst p.
    unfold comment_text. rewrite nth_error_app2 by lia. rewrite Nat.sub_diag. cbn. unfold creates_comment. rewrite Hk. discriminate.
  - pose proof (resolve_one _ _ _ R) as [L _]. rewrite comment_text_app by exact L. specialize (CI n p Hn Sys R).
    destruct (comment_text ops p); [discriminate|contradiction]. Qed.

(* ------------------------------------------------------------------ one event *)

Lemma decide_fine c iss ops e : texts_repaired c -> inv_ops c iss ops -> comment_ids_ok iss ops -> In_ev iss e -> e <> EError ->
  known_event e -> resolve (ev_id e) ops <> LMany ->
  decide c iss ops e = ANone \/ exists o r, decide c iss ops e = AAppend o r /\ op_valid c o = true /\ r <> Some RError.
Proof. intros [Dd [Ct [Ce Pv]]] I CI He NE [NU KT] NM. unfold decide.
  destruct I as [[o0 [rest [Eops [G0 C0]]]] [Va _]].
  destruct (ev_kind e) eqn:K.
  - (* comment *) destruct (kcomment_is_note e K) as [n ->]. cbn in He. cbn [ev_kind] in K. apply note_kind_comment in K.
    destruct (resolve (ev_id (ENote n)) ops) as [|p|] eqn:R; [|specialize (CI n p He K R)|congruence].
    + right. eexists. eexists. split; [reflexivity|]. split; [apply op_valid_comment|discriminate].
    + destruct (comment_text ops p) as [cur|]; [|contradiction].
      destruct (text_eqb cur (cleanup (note_body (ENote n)))); [now left|].
      right. eexists. eexists. split; [reflexivity|]. split; [apply op_valid_edit|discriminate].
  - (* title *) destruct (KT eq_refl) as [t [NT Ne]].
    destruct (resolve (ev_id e) ops) as [|p|] eqn:R; [|now left|congruence].
    unfold new_title_c. rewrite NT. right. eexists. eexists. split; [reflexivity|]. split; [|discriminate].
    cbn. rewrite (note_title_valid c t Ct Ce Pv Ne). cbn. apply (cur_title_safe c ops [] Va eq_refl).
  - (* description *) assert (T0 : exists first, comment_text ops 0 = Some first).
    { unfold comment_text. rewrite Eops. cbn. destruct (creates_comment o0) as [m|]; [eauto|congruence]. }
    destruct T0 as [first ->].
    destruct (resolve (ev_id e) ops) as [|p|]; cbn [negb andb]; try (now left).
    destruct (text_eqb (cleanup (i_desc iss)) first); cbn [negb]; [now left|].
    right. eexists. eexists. split; [reflexivity|]. split; [apply op_valid_edit|discriminate].
  - destruct (resolve (ev_id e) ops); try (now left). right. eexists. eexists. split; [reflexivity|]. split; [reflexivity|discriminate].
  - destruct (resolve (ev_id e) ops); try (now left). right. eexists. eexists. split; [reflexivity|]. split; [reflexivity|discriminate].
  - rewrite Dd. cbn [andb]. destruct (resolve (ev_id e) ops); try (now left);
    (destruct (label_skipped_or_valid c e Ce) as [NL|LV]; [rewrite NL; now left|]);
    (destruct (no_label c e); [now left|]); right; eexists; eexists; (split; [reflexivity|]); (split; [exact LV|discriminate]).
  - rewrite Dd. cbn [andb]. destruct (resolve (ev_id e) ops); try (now left);
    (destruct (label_skipped_or_valid c e Ce) as [NL|LV]; [rewrite NL; now left|]);
    (destruct (no_label c e); [now left|]); right; eexists; eexists; (split; [reflexivity|]); (split; [exact LV|discriminate]).
  - now left.
  - congruence. Qed.

Lemma errs_emit r s : r <> RError -> errs (emit r s) = errs s.
Proof. intros H. unfold errs. cbn. rewrite has_error_app. cbn. destruct r; now rewrite ?orb_false_r. Qed.

Lemma ee_no_error c us iss ops s e : texts_repaired c -> rs_fault s = None -> inv_ops c iss ops -> comment_ids_ok iss ops ->
  In_ev iss e -> e <> EError -> known_event e -> person_ok c us (rs_idents s) (ev_user e) = true ->
  errs (snd (ensure_event c us iss (ops, s) e)) = errs s.
Proof. intros TR F I CI He NE KE P. rewrite ee_unfold by exact NE.
  assert (NM : resolve (ev_id e) ops <> LMany) by (apply nodup_not_many; apply I).
  destruct (ep_clean c us (ev_user e) s F) as [_ [B _]]. pose proof (ep_facts c us (ev_user e) s) as H. cbn zeta in H.
  destruct H as [_ [_ [Er _]]].
  assert (Body : errs (snd (let '(s1, ok) := ensure_person c us (ev_user e) s in
         (step c iss ok ops e,
          if ok then match decide c iss ops e with
                     | ANone => s1
                     | AError => emit RError s1
                     | AAppend o r => if op_valid c o then match r with Some x => emit x s1 | None => s1 end
                                      else emit RError s1
                     end
          else emit RError s1))) = errs s).
  { destruct (ensure_person c us (ev_user e) s) as [s1 ok]. cbn [fst snd] in *. rewrite B, P. cbn [snd].
    destruct (decide_fine c iss ops e TR I CI He NE KE NM) as [->|[o [r [-> [V Nr]]]]]; [exact Er|].
    rewrite V. destruct r as [x|]; [|exact Er]. rewrite errs_emit; [exact Er|]. intros ->. now apply Nr. }
  destruct (resolve (ev_id e) ops); [exact Body|exact Body|contradiction]. Qed.

(* ------------------------------------------------------------------ the events of an issue *)

Lemma events_no_error c us iss base : texts_repaired c -> ids_disjoint iss -> forall evs ops s,
  rs_fault s = None -> inv_ops c iss ops -> comment_ids_ok iss ops -> grown c us base (rs_idents s) -> Forall (In_ev iss) evs ->
  (forall e, In e evs -> e <> EError /\ known_event e /\ person_ok c us base (ev_user e) = true) ->
  let r := fold_left (ensure_event c us iss) evs (ops, s) in
  errs (snd r) = errs s /\ comment_ids_ok iss (fst r) /\ rs_bugs (snd r) = rs_bugs s.
Proof. intros TR Dj. pose proof TR as [Dd _]. induction evs as [|e t IH]; intros ops s F I CI G Hev Hyp; cbn zeta; [cbn; auto|].
  cbn [fold_left]. inversion Hev as [|? ? He Ht]; subst.
  destruct (Hyp e (or_introl eq_refl)) as [NE [KE P]].
  assert (P' : person_ok c us (rs_idents s) (ev_user e) = true) by now rewrite (grown_ok c us base _ _ G).
  pose proof (ee_no_error c us iss ops s e TR F I CI He NE KE P') as Er.
  destruct (ee_clean c us iss ops s e F) as [E1 [E2 [E3 E4]]].
  destruct (ensure_event c us iss (ops, s) e) as [ops1 s1]. cbn [fst snd] in *.
  assert (I1 : inv_ops c iss ops1) by (subst ops1; now apply inv_ops_step).
  assert (C1 : comment_ids_ok iss ops1) by (subst ops1; now apply comment_ids_step).
  assert (G1 : grown c us base (rs_idents s1)) by (rewrite E4; now apply grown_after_event).
  specialize (IH ops1 s1 E3 I1 C1 G1 Ht (fun e' H => Hyp e' (or_intror H))). cbn zeta in IH.
  destruct IH as [J1 [J2 J3]]. split; [congruence|]. split; [exact J2|congruence]. Qed.

Lemma evs_of_no_error iss e : In e (evs_of iss) -> e <> EError.
Proof. unfold evs_of, sorted_events. intros H. apply merge3_in in H. intros ->.
  destruct H as [H|[H|H]]; apply in_map_iff in H as [x [E _]]; discriminate. Qed.

Lemma evs_of_in iss e : In e (evs_of iss) -> In_ev iss e.
Proof. pose proof (evs_of_in_ev iss) as H. rewrite Forall_forall in H. apply H. Qed.

(* ------------------------------------------------------------------ one issue *)

Lemma import_issue_errs c us p iss s : paging_ok c p -> rs_fault s = None -> person_ok c us (rs_idents s) (i_author iss) = true ->
  match find_bug (i_iid iss) (rs_bugs s) with Some _ => True | None => op_valid c (create_op c iss) = true end ->
  exists s2, import_issue c us p iss s =
             finish c us iss (match find_bug (i_iid iss) (rs_bugs s) with Some b => b_ops b | None => [create_op c iss] end) s2 /\
    errs s2 = errs s /\ rs_fault s2 = None /\ rs_idents s2 = idents_after c us (rs_idents s) (i_author iss) /\
    rs_bugs s2 = match find_bug (i_iid iss) (rs_bugs s) with Some _ => rs_bugs s
                 | None => put_bug (mkbug (i_iid iss) [create_op c iss]) (rs_bugs s) end.
Proof. intros Hp F P Cr. unfold import_issue.
  destruct (ep_clean c us (i_author iss) s F) as [A [B [C D]]].
  pose proof (ep_facts c us (i_author iss) s) as H. cbn zeta in H. destruct H as [_ [_ [Er _]]].
  destruct (ensure_person c us (i_author iss) s) as [s1 ok]. cbn [fst snd] in *. subst ok. rewrite P. cbn [negb].
  rewrite C. fold (create_op c iss).
  assert (Fin : forall ops0 s2, rs_fault s2 = None ->
            exists s5, same_core s2 s5 /\
            (let '(s3, ns, fn) := fetch_all c (QNotes (i_iid iss)) p (i_notes iss) s2 in
             let '(s4, ls, fl) := fetch_all c (QLabels (i_iid iss)) p (i_labels iss) s3 in
             let '(s5, ss, fs) := fetch_all c (QStates (i_iid iss)) p (i_states iss) s4 in
             let evs := sorted_events (with_error (map ENote ns) fn) (with_error (map ELabel ls) fl) (with_error (map EState ss) fs) in
             let '(ops1, s6) := fold_left (ensure_event c us iss) evs (ops0, s5) in
             if Nat.eqb (length ops1) (length ops0) then (emit (RNothing (i_iid iss)) s6, true)
             else (set_bugs (put_bug (mkbug (i_iid iss) ops1) (rs_bugs s6)) s6, true)) = finish c us iss ops0 s5).
  { intros ops0 s2 F2.
    destruct (fetch_all_clean c (QNotes (i_iid iss)) p (i_notes iss) s2 Hp F2) as [s3 [E3 C3]]. rewrite E3.
    assert (F3 : rs_fault s3 = None) by (destruct C3 as [_ [_ [_ X]]]; congruence).
    destruct (fetch_all_clean c (QLabels (i_iid iss)) p (i_labels iss) s3 Hp F3) as [s4 [E4 C4]]. rewrite E4.
    assert (F4 : rs_fault s4 = None) by (destruct C4 as [_ [_ [_ X]]]; congruence).
    destruct (fetch_all_clean c (QStates (i_iid iss)) p (i_states iss) s4 Hp F4) as [s5 [E5 C5]]. rewrite E5.
    exists s5. split; [eapply same_core_trans; [eapply same_core_trans|]; eauto|]. reflexivity. }
  destruct (find_bug (i_iid iss) (rs_bugs s)) as [b|] eqn:FB.
  - destruct (Fin (b_ops b) s1 D) as [s5 [[X1 [X2 [X3 X4]]] E]]. exists s5. split; [exact E|].
    split; [unfold errs in *; now rewrite X3|]. split; [congruence|]. split; congruence.
  - rewrite Cr. set (s2 := emit (RBug (i_iid iss)) (set_bugs (put_bug (mkbug (i_iid iss) [create_op c iss]) (rs_bugs s)) s1)).
    destruct (Fin [create_op c iss] s2 D) as [s5 [[X1 [X2 [X3 X4]]] E]]. exists s5. split; [exact E|].
    split; [|split; [|split]].
    + unfold errs in *. rewrite X3. subst s2. cbn. rewrite has_error_app. cbn. now rewrite orb_false_r.
    + rewrite X4. exact D.
    + rewrite X1. subst s2. cbn. exact A.
    + rewrite X2. reflexivity. Qed.

Definition issue_fine (c : cfg) (us : list user) (idents : list N) (iss : issue) : Prop :=
  person_ok c us idents (i_author iss) = true /\
  forall e, In_ev iss e -> e <> EError -> known_event e /\ person_ok c us idents (ev_user e) = true.

Lemma issue_no_error c us p iss s : texts_repaired c -> paging_ok c p -> ids_disjoint iss -> rs_fault s = None ->
  bug_ok c iss (rs_bugs s) -> comments_ok iss (rs_bugs s) -> issue_fine c us (rs_idents s) iss ->
  let r := import_issue c us p iss s in
  snd r = true /\ errs (fst r) = errs s /\ comments_ok iss (rs_bugs (fst r)).
Proof. intros TR Hp Dj F BO CO [Pa Pe]. cbn zeta. pose proof TR as [_ [_ [Ce Pv]]].
  assert (Cr : match find_bug (i_iid iss) (rs_bugs s) with Some _ => True | None => op_valid c (create_op c iss) = true end)
    by (destruct (find_bug (i_iid iss) (rs_bugs s)); [exact I|now apply issue_title_valid]).
  destruct (import_issue_errs c us p iss s Hp F Pa Cr) as [s2 [-> [Er [F2 [Id2 B2]]]]].
  set (ops0 := match find_bug (i_iid iss) (rs_bugs s) with Some b => b_ops b | None => [create_op c iss] end) in *.
  assert (I0 : inv_ops c iss ops0).
  { subst ops0. destruct (find_bug (i_iid iss) (rs_bugs s)) as [b|] eqn:FB; [now apply BO|apply inv_ops_create; exact Cr]. }
  assert (C0 : comment_ids_ok iss ops0).
  { subst ops0. destruct (find_bug (i_iid iss) (rs_bugs s)) as [b|] eqn:FB; [now apply CO|].
    intros n q Hn Sys R. apply resolve_one in R as [L _]. cbn in L. assert (q = 0%nat) by lia. subst q. cbn. discriminate. }
  assert (Fb : forall b, find_bug (i_iid iss) (rs_bugs s2) = Some b -> b_ops b = ops0).
  { intros b Hb. rewrite B2 in Hb. subst ops0. destruct (find_bug (i_iid iss) (rs_bugs s)) as [b0|] eqn:FB.
    - rewrite FB in Hb. now inversion Hb.
    - rewrite (find_put_same (mkbug (i_iid iss) [create_op c iss])) in Hb. now inversion Hb. }
  assert (G2 : grown c us (rs_idents s) (rs_idents s2)) by (rewrite Id2; apply grown_after, grown_refl).
  unfold finish.
  pose proof (events_no_error c us iss (rs_idents s) TR Dj (evs_of iss) ops0 s2 F2 I0 C0 G2 (evs_of_in_ev iss)) as X. cbn zeta in X.
  destruct (fold_left (ensure_event c us iss) (evs_of iss) (ops0, s2)) as [ops1 s6]. cbn [fst snd] in X.
  destruct X as [X1 [X2 X3]].
  { intros e He. pose proof (evs_of_no_error iss e He) as NE. destruct (Pe e (evs_of_in iss e He) NE) as [KE P]. auto. }
  destruct (Nat.eqb_spec (length ops1) (length ops0)) as [L|L]; cbn [fst snd].
  - split; [reflexivity|]. split; [rewrite errs_emit by discriminate; congruence|].
    intros b Hb. cbn in Hb. rewrite X3 in Hb. now rewrite (Fb b Hb).
  - split; [reflexivity|]. split; [rewrite errs_set_bugs; congruence|].
    intros b Hb. cbn in Hb. rewrite (find_put_same (mkbug (i_iid iss) ops1)) in Hb. inversion Hb. exact X2. Qed.

(* ------------------------------------------------------------------ the listed issues *)

Lemma issue_fine_grown c us base cur iss : grown c us base cur -> issue_fine c us base iss -> issue_fine c us cur iss.
Proof. intros G [A B]. split; [now rewrite (grown_ok c us base cur _ G)|].
  intros e He NE. destruct (B e He NE) as [K P]. split; [exact K|now rewrite (grown_ok c us base cur _ G)]. Qed.

Lemma issues_no_error c us p : texts_repaired c -> paging_ok c p -> forall l s,
  (forall i, In i l -> ids_disjoint i) -> NoDup (map i_iid l) -> rs_fault s = None ->
  (forall i, In i l -> bug_ok c i (rs_bugs s) /\ comments_ok i (rs_bugs s) /\ issue_fine c us (rs_idents s) i) ->
  let r := import_issues c us p l s in
  snd r = true /\ errs (fst r) = errs s /\ (forall i, In i l -> comments_ok i (rs_bugs (fst r))).
Proof. intros TR Hp. pose proof TR as [Dd _]. induction l as [|i t IH]; intros s Dj ND F Hyp; cbn zeta.
  - cbn. split; [reflexivity|]. split; [reflexivity|]. intros ? [].
  - cbn [import_issues]. cbn in ND. inversion ND as [|? ? Ni NDt]; subst.
    destruct (Hyp i (or_introl eq_refl)) as [BOi [COi Fi]].
    pose proof (Dj i (or_introl eq_refl)) as Dji.
    pose proof (issue_first c us p i s Dd Hp (ids_disjoint_wf i Dji) F BOi) as X. cbn zeta in X.
    pose proof (issue_no_error c us p i s TR Hp Dji F BOi COi Fi) as Y. cbn zeta in Y.
    destruct (import_issue c us p i s) as [s1 go]. cbn [fst snd] in *.
    destruct X as [X1 [X2 [X3 _]]]. destruct Y as [-> [Y2 Y3]].
    assert (Neq : forall j, In j t -> i_iid j <> i_iid i) by (intros j Hj Eq; apply Ni; rewrite <- Eq; now apply in_map).
    assert (Hyp1 : forall j, In j t -> bug_ok c j (rs_bugs s1) /\ comments_ok j (rs_bugs s1) /\ issue_fine c us (rs_idents s1) j).
    { intros j Hj. destruct (Hyp j (or_intror Hj)) as [A [B C]]. split; [|split].
      - intros b Hb. apply A. rewrite <- Hb. symmetry. apply X3. now apply Neq.
      - intros b Hb. apply B. rewrite <- Hb. symmetry. apply X3. now apply Neq.
      - now apply (issue_fine_grown c us (rs_idents s)). }
    assert (Wt : Forall wf_issue t) by (apply Forall_forall; intros j Hj; apply ids_disjoint_wf, Dj; now right).
    pose proof (issues_first c us p Dd Hp t s1 Wt NDt X1 (fun j Hj => proj1 (Hyp1 j Hj))) as Z. cbn zeta in Z.
    specialize (IH s1 (fun j Hj => Dj j (or_intror Hj)) NDt X1 Hyp1). cbn zeta in IH.
    destruct (import_issues c us p t s1) as [s2 go2]. cbn [fst snd] in *.
    destruct IH as [-> [I2 I3]]. destruct Z as [_ [_ [Z3 _]]].
    split; [reflexivity|]. split; [congruence|].
    intros j [<-|Hj]; [|now apply I3]. intros b Hb. apply Y3. rewrite <- Hb. symmetry. apply Z3. exact Ni. Qed.

(* ------------------------------------------------------------------ the run *)

Definition tracker_comments_ok (t : tracker) (bugs : list bug) : Prop := forall i, In i (t_issues t) -> comments_ok i bugs.

Lemma clean_run_no_error c t p since s : texts_repaired c -> paging_ok c p -> wf_tracker t ->
  (forall i, In i (listed t since) -> ids_disjoint i) -> rs_fault s = None ->
  bugs_ok c t (rs_bugs s) -> tracker_comments_ok t (rs_bugs s) ->
  (forall i, In i (listed t since) -> issue_fine c (t_users t) (rs_idents s) i) ->
  let r := import_all c t p since s in
  snd r = true /\ has_error (rs_res (fst r)) = has_error (rs_res s) /\ tracker_comments_ok t (rs_bugs (fst r)).
Proof. intros TR Hp W Dj F BO CO Fine. cbn zeta. pose proof TR as [Dd _].
  destruct (import_all_clean c t p since s Hp F) as [s1 [[A1 [A2 [A3 A4]]] E1]]. rewrite E1.
  destruct (listed_wf t since W) as [Wl Nl]. destruct W as [_ Nt].
  assert (F1 : rs_fault s1 = None) by congruence.
  assert (Hyp : forall i, In i (listed t since) -> bug_ok c i (rs_bugs s1) /\ comments_ok i (rs_bugs s1) /\ issue_fine c (t_users t) (rs_idents s1) i).
  { intros i Hi. rewrite A1, A2. split; [apply BO; now apply (listed_in t since)|]. split; [apply CO; now apply (listed_in t since)|now apply Fine]. }
  pose proof (issues_no_error c (t_users t) p TR Hp (listed t since) s1 Dj Nl F1 Hyp) as X. cbn zeta in X.
  pose proof (issues_first c (t_users t) p Dd Hp (listed t since) s1 Wl Nl F1 (fun i Hi => proj1 (Hyp i Hi))) as Z. cbn zeta in Z.
  destruct (import_issues c (t_users t) p (listed t since) s1) as [s2 go]. cbn [fst snd] in *.
  destruct X as [-> [X2 X3]]. destruct Z as [_ [_ [Z3 _]]].
  split; [reflexivity|]. split; [unfold errs in X2; congruence|].
  intros i Hi. destruct (in_dec N.eq_dec (i_iid i) (map i_iid (listed t since))) as [Y|Y].
  - apply in_map_iff in Y as [j [Ej Hj]].
    assert (j = i) by (apply (NoDup_map_inj i_iid (t_issues t) j i Nt (listed_in t since j Hj) Hi Ej)). subst j. now apply X3.
  - intros b Hb. apply (CO i Hi). rewrite <- A2, <- Hb. symmetry. now apply Z3. Qed.

(* for Bridge.ImportAll: no error result, the cursor is stored *)
Lemma clean_round_stores_cursor c t p (full : bool) now idents bugs (cursor : option N) : texts_repaired c -> paging_ok c p -> wf_tracker t ->
  (forall i, In i (listed t (if full then None else cursor)) -> ids_disjoint i) ->
  bugs_ok c t bugs -> tracker_comments_ok t bugs ->
  (forall i, In i (listed t (if full then None else cursor)) -> issue_fine c (t_users t) idents i) ->
  let o := run_round c t p full now None idents bugs cursor in
  has_error (out_res o) = false /\ out_stored o = true /\ out_cursor o = Some (now - 5) /\ out_completed o = true /\
  tracker_comments_ok t (out_bugs o).
Proof. intros TR Hp W Dj BO CO Fine. cbn zeta. unfold run_round.
  pose proof (clean_run_no_error c t p (if full then None else cursor) (mkrs idents bugs [] [] None) TR Hp W Dj eq_refl BO CO Fine) as H.
  cbn zeta in H. destruct (import_all c t p (if full then None else cursor) (mkrs idents bugs [] [] None)) as [s done]. cbn [fst snd] in H. destruct H as [-> [H2 H3]]. cbn in H2.
  cbn [out_res out_stored out_cursor out_completed out_bugs]. rewrite H2. cbn. auto. Qed.

(* nothing was imported yet: the invariant holds *)
Lemma comments_ok_nil t : tracker_comments_ok t [].
Proof. intros i _ b H. discriminate. Qed.
