(* What a session-level merge (Sync.sstep on EMerge) does, in every state satisfying the session invariant:
   the reported status agrees with what changed, the entity handed back is the merged result, nothing of the local
   or of the fetched history is lost, and nothing else moves (C02). *)
From Coq Require Import List Arith NArith Lia Bool.
Import ListNotations.
From GB Require Import Reach Sort Read Good Snoc Ext Mono World Sync SyncProps Locals KMap SyncFrame MergeProps Append SyncInv.
Local Open Scope N_scope.

(* ---------------- is_anc decides reach ---------------- *)
Lemma is_anc_iff s a h : wf_store s -> (is_anc s a h = true <-> reach s h a).
Proof. intros W. unfold is_anc. now rewrite memb_In, reachl_spec. Qed.

Lemma is_anc_false s a h : wf_store s -> (is_anc s a h = false <-> ~ reach s h a).
Proof. intros W. rewrite <- (is_anc_iff s a h W). destruct (is_anc s a h); split; congruence. Qed.

Lemma reach_antisym s a b : wf_store s -> reach s a b -> reach s b a -> a = b.
Proof. intros W R1 R2. apply reach_le in R1, R2; auto. lia. Qed.

(* ---------------- the store only grows ---------------- *)
Definition extends (s s' : store) : Prop := exists ext, s' = s ++ ext.

Lemma extends_refl s : extends s s.
Proof. exists []. now rewrite app_nil_r. Qed.
Lemma extends_trans a b c : extends a b -> extends b c -> extends a c.
Proof. intros [x ->] [y ->]. exists (x ++ y). now rewrite app_assoc. Qed.
Lemma extends_len s s' : extends s s' -> (length s <= length s')%nat.
Proof. intros [x ->]. rewrite app_length. lia. Qed.

Lemma reach_app_old s ext h i : wf_store s -> (h < length s)%nat -> reach s h i -> reach (s ++ ext) h i.
Proof. intros W Hh R. induction R as [|i p R IH Hp]; [constructor|]. eapply reach_step; [exact IH|].
  rewrite parents_app_old'; [exact Hp|]. apply reach_le in R; auto. lia. Qed.

Lemma reach_app_back s ext h i : wf_store s -> (h < length s)%nat -> reach (s ++ ext) h i -> reach s h i.
Proof. intros W Hh R. induction R as [|i p R IH Hp]; [constructor|]. eapply reach_step; [exact IH|].
  rewrite parents_app_old' in Hp; [exact Hp|]. apply reach_le in IH; auto. lia. Qed.

Lemma reach_extends s s' h i : wf_store s -> extends s s' -> (h < length s)%nat -> (reach s' h i <-> reach s h i).
Proof. intros W [x ->] Hh. split; [now apply reach_app_back|now apply reach_app_old]. Qed.

Lemma read_extends s s' h : wf_store s -> extends s s' -> (h < length s)%nat -> read s' h = read s h.
Proof. intros W [x ->] Hh. now apply read_app_old. Qed.

Lemma step_extends w a w' : step w a = Some w' -> extends (st w) (st w').
Proof. intros S. destruct a; cbn [step] in S; destruct (nth_error (reps w) r) as [rp|]; try discriminate;
  repeat match type of S with context [if ?b then _ else _] => destruct b end; try discriminate;
  inversion S; subst; cbn [st]; try apply extends_refl; eexists; reflexivity. Qed.

Lemma run_extends acts : forall w w', run w acts = Some w' -> extends (st w) (st w').
Proof. induction acts as [|a t IH]; intros w w' H; cbn [run] in H; [inversion H; subst; apply extends_refl|].
  destruct (step w a) as [w1|] eqn:E; [|discriminate]. eapply extends_trans; [exact (step_extends _ _ _ E)|exact (IH _ _ H)]. Qed.

Lemma sstep_extends sw ev sw' o : sstep sw ev = Some (sw', o) -> extends (st (ww sw)) (st (ww sw')).
Proof. intros H. destruct (sstep_runs _ _ _ _ H) as (acts & R & _). exact (run_extends _ _ _ R). Qed.

Lemma srun_extends evs : forall sw sw', srun sw evs = Some sw' -> extends (st (ww sw)) (st (ww sw')).
Proof. induction evs as [|ev t IH]; intros sw sw' H; cbn [srun] in H; [inversion H; subst; apply extends_refl|].
  destruct (sstep sw ev) as [[sw1 o]|] eqn:E; [|discriminate]. eapply extends_trans; [exact (sstep_extends _ _ _ _ E)|exact (IH _ _ H)]. Qed.

(* ---------------- frame: what a merge cannot touch ---------------- *)
Lemma gfb_eq_lookup sw sw' r e : gfb sw' r e = gfb sw r e ->
  alookup e (locals (ww sw') r) = alookup e (locals (ww sw) r).
Proof. unfold gfb. destruct (alookup e (locals (ww sw') r)), (alookup e (locals (ww sw) r)); cbn; intros H; inversion H; reflexivity. Qed.

Lemma merge_maps sw r e mid mau sw' o : sstep sw (EMerge r e mid mau) = Some (sw', o) ->
  tracks sw' = tracks sw /\ remote sw' = remote sw.
Proof. intros H. cbn [sstep] in H.
  destruct (alookup e (track_of sw r)) as [t|]; [|inversion H; subst; auto].
  destruct (negb (valid (st (ww sw)) t)); [inversion H; subst; auto|].
  destruct (step (ww sw) (AWitness r t)) as [w1|]; [|discriminate].
  destruct (alookup e (locals (ww sw) r)) as [h|].
  - destruct (Nat.eqb h t); [inversion H; subst; auto|].
    destruct (is_anc (st (ww sw)) t h); [inversion H; subst; auto|].
    destruct (is_anc (st (ww sw)) h t).
    + destruct (step w1 (AFF r h t)) as [w2|]; [|discriminate]. inversion H; subst. auto.
    + destruct (step w1 (AWitness r h)) as [w2|]; [|discriminate].
      destruct (step w2 (AMerge r h t mid mau)) as [w3|]; [|discriminate]. inversion H; subst. auto.
  - destruct (step w1 (AAdopt r t)) as [w2|]; [|discriminate]. inversion H; subst. auto. Qed.

Lemma merge_frame sw r e mid mau sw' o : sinv sw -> sstep sw (EMerge r e mid mau) = Some (sw', o) ->
  tracks sw' = tracks sw /\ remote sw' = remote sw /\
  (forall r' e', r' <> r \/ e' <> e -> alookup e' (locals (ww sw') r') = alookup e' (locals (ww sw) r')).
Proof. intros I H. destruct (merge_maps _ _ _ _ _ _ _ H) as [E1 E2]. split; [exact E1|split; [exact E2|]].
  destruct (sstep_frame sw (EMerge r e mid mau) sw' o (si_wi sw I) Logic.I H) as (_ & F1 & F2 & _). cbn [erep ev_ent] in F1, F2.
  intros r' e' Hd. apply gfb_eq_lookup. destruct (Nat.eq_dec r' r) as [->|Hr]; [|now apply F1].
  destruct Hd as [Hd|Hd]; [congruence|now apply F2]. Qed.

(* ---------------- the scenarios of a merge ---------------- *)
(* under the invariant, the outcome, the new local ref of e and the new store are determined by how the local head h
   and the tracking head t are related *)
Lemma merge_analysis sw r e mid mau sw' o : sinv sw ->
  sstep sw (EMerge r e mid mau) = Some (sw', o) ->
  match alookup e (track_of sw r) with
  | None => sw' = sw /\ o = OFail
  | Some t =>
     match lh (ww sw) r e with
     | None => o = OMerge MNew (read (st (ww sw)) t) /\ lh (ww sw') r e = Some t /\ st (ww sw') = st (ww sw)
     | Some h =>
        (reach (st (ww sw)) h t /\ o = OMerge MNothing None /\ lh (ww sw') r e = Some h /\ st (ww sw') = st (ww sw)) \/
        (~ reach (st (ww sw)) h t /\ reach (st (ww sw)) t h /\ o = OMerge MUpdated (read (st (ww sw)) t) /\
           lh (ww sw') r e = Some t /\ st (ww sw') = st (ww sw)) \/
        (~ reach (st (ww sw)) h t /\ ~ reach (st (ww sw)) t h /\
           exists c, st (ww sw') = st (ww sw) ++ [c] /\ c_parents c = [h; t] /\
                     o = OMerge MUpdated (read (st (ww sw')) (length (st (ww sw)))) /\ lh (ww sw') r e = Some (length (st (ww sw))))
     end
  end.
Proof.
  intros I H. pose proof (si_wi sw I) as W. pose proof (sinv_WW sw I) as WWw. pose proof (sinv_wf sw I) as Wf.
  cbn [sstep] in H. destruct (alookup e (track_of sw r)) as [t|] eqn:Et; [|inversion H; subst; auto].
  destruct (sinv_track_ref sw r e t I Et) as (Lt & Ee & Vt). rewrite Vt in H. cbn [negb] in H.
  destruct (step (ww sw) (AWitness r t)) as [w1|] eqn:S1; [|discriminate].
  pose proof (WI_step sw (AWitness r t) w1 W Logic.I S1) as W1. pose proof (wi_ww _ W1) as WW1. cbn [ww with_ww] in WW1.
  destruct (step_same_store _ _ _ WWw S1 Logic.I) as [Es1 Ee1].
  rewrite locals_lh in H. destruct (lh (ww sw) r e) as [h|] eqn:El.
  - assert (El1 : lh w1 r e = Some h) by (rewrite (step_lh_witness _ _ _ _ r e WWw S1); exact El).
    destruct (lh_eid _ _ _ _ El) as [Hin Eh]. pose proof (rep_of_heads_lt _ _ _ WWw Hin) as Lh.
    destruct (Nat.eqb_spec h t) as [Eht|Hne].
    { inversion H; subst. left. cbn [ww with_ww]. rewrite El1, Es1. repeat split; auto. constructor. }
    destruct (is_anc (st (ww sw)) t h) eqn:A1.
    { apply (is_anc_iff _ _ _ Wf) in A1. inversion H; subst. left. cbn [ww with_ww]. rewrite El1, Es1. repeat split; auto. }
    apply (is_anc_false _ _ _ Wf) in A1.
    destruct (is_anc (st (ww sw)) h t) eqn:A2.
    + (* fast-forward *)
      apply (is_anc_iff _ _ _ Wf) in A2.
      destruct (step w1 (AFF r h t)) as [w2|] eqn:S2; [|discriminate]. inversion H; subst. right. left. cbn [ww with_ww].
      destruct (step_same_store _ _ _ WW1 S2 Logic.I) as [Es2 _].
      assert (Et1 : eidf w1 t = eidf (ww sw) t) by now rewrite Ee1.
      rewrite (step_lh_ff w1 r h t w2 (eidf (ww sw) t) (eidf (ww sw) t) WW1 S2 El1 Et1), Nat.eqb_refl, Es2, Es1. repeat split; auto.
    + (* merge commit *)
      apply (is_anc_false _ _ _ Wf) in A2.
      destruct (step w1 (AWitness r h)) as [w2|] eqn:S2; [|discriminate].
      destruct (step w2 (AMerge r h t mid mau)) as [w3|] eqn:S3; [|discriminate]. inversion H; subst. right. right. cbn [ww with_ww].
      assert (W2 : WI (with_ww sw w2)).
      { change (with_ww sw w2) with (with_ww (with_ww sw w1) w2). apply (WI_step (with_ww sw w1) (AWitness r h) w2 W1 Logic.I S2). }
      pose proof (wi_ww _ W2) as WW2. cbn [ww with_ww] in WW2.
      destruct (step_same_store _ _ _ WW1 S2 Logic.I) as [Es2 _].
      assert (El2 : lh w2 r (eidf (ww sw) t) = Some h) by (rewrite (step_lh_witness _ _ _ _ r _ WW1 S2); exact El1).
      rewrite (step_lh_merge w2 r h t mid mau w3 (eidf (ww sw) t) (eidf (ww sw) t) WW2 S3 El2), Nat.eqb_refl, Es2, Es1.
      split; [exact A1|split; [exact A2|]].
      cbn [step] in S3. destruct (nth_error (reps w2) r) as [rp|]; [|discriminate].
      destruct (negb _); [discriminate|]. inversion S3; subst. cbn [st]. rewrite Es2, Es1.
      eexists. split; [reflexivity|]. split; [reflexivity|]. split; reflexivity.
  - (* the entity is new on this replica *)
    destruct (step w1 (AAdopt r t)) as [w2|] eqn:S2; [|discriminate]. inversion H; subst. cbn [ww with_ww].
    destruct (step_same_store _ _ _ WW1 S2 Logic.I) as [Es2 _].
    assert (El1 : lh w1 r (eidf w1 t) = None) by (rewrite Ee1, (step_lh_witness _ _ _ _ r _ WWw S1); exact El).
    rewrite (step_lh_adopt w1 r t w2 (eidf (ww sw) t) WW1 S2 El1), Ee1, Nat.eqb_refl, Es2, Es1. repeat split; auto.
Qed.

Lemma sinv_read sw h : sinv sw -> (h < length (st (ww sw)))%nat -> exists ops, read (st (ww sw)) h = Some ops.
Proof. intros I L. unfold read. rewrite (sinv_valid sw h I L). eauto. Qed.

(* ---------------- C02: the merge report is truthful ---------------- *)
Theorem merge_spec sw r e mid mau sw' ms ent : sinv sw -> budget (ww sw) + 4 <= jump_limit ->
  sstep sw (EMerge r e mid mau) = Some (sw', OMerge ms ent) ->
  let s := st (ww sw) in let s' := st (ww sw') in
  let loc := alookup e (locals (ww sw) r) in let loc' := alookup e (locals (ww sw') r) in
  (* nothing else moves: tracking refs, the remote, the other entities of r, every ref of the other replicas *)
  tracks sw' = tracks sw /\ remote sw' = remote sw /\
  (forall r' e', r' <> r \/ e' <> e -> alookup e' (locals (ww sw') r') = alookup e' (locals (ww sw) r')) /\
  exists t, alookup e (track_of sw r) = Some t /\
  match ms with
  | MInvalid => sw' = sw
  | MNew => loc = None /\ loc' = Some t /\ ent = read s t
  | MNothing => exists h, loc = Some h /\ loc' = Some h /\ reach s h t /\ ent = None /\ s' = s
  | MUpdated => exists h h', loc = Some h /\ loc' = Some h' /\ h' <> h /\
      reach s' h' h /\ reach s' h' t /\ ent = read s' h' /\
      exists oh ot on, read s h = Some oh /\ read s t = Some ot /\ read s' h' = Some on /\ sublist oh on /\ sublist ot on
  end.
Proof.
  intros I B H s s' loc loc'. subst s s' loc loc'.
  assert (I' : sinv sw') by (eapply sstep_sinv; [exact I| |exact H]; cbn [cost]; lia).
  destruct (merge_frame _ _ _ _ _ _ _ I H) as (F1 & F2 & F3). split; [exact F1|split; [exact F2|split; [exact F3|]]].
  pose proof (merge_analysis _ _ _ _ _ _ _ I H) as A. pose proof (sinv_wf sw I) as Wf. pose proof (sinv_wf sw' I') as Wf'.
  destruct (alookup e (track_of sw r)) as [t|] eqn:Et; [|destruct A as [_ A]; discriminate].
  destruct (sinv_track_ref sw r e t I Et) as (Lt & Ee & Vt).
  exists t. split; [reflexivity|]. rewrite !locals_lh.
  destruct (lh (ww sw) r e) as [h|] eqn:El.
  - destruct (lh_eid _ _ _ _ El) as [Hin Eh]. pose proof (rep_of_heads_lt _ _ _ (sinv_WW sw I) Hin) as Lh.
    destruct (sinv_read sw h I Lh) as (oh & Roh). destruct (sinv_read sw t I Lt) as (ot & Rot).
    destruct A as [(R & Eo & L' & Es)|[(N1 & R & Eo & L' & Es)|(N1 & N2 & c & Es & Ec & Eo & L')]]; inversion Eo; subst ms ent; clear Eo.
    + exists h. repeat split; auto.
    + exists h, t. rewrite Es. split; [reflexivity|]. split; [exact L'|]. split; [intros ->; apply N1; constructor|].
      split; [exact R|]. split; [constructor|]. split; [reflexivity|].
      exists oh, ot, ot. repeat split; auto; [|apply sublist_refl]. eapply C02_monotone; [exact Wf|exact R|exact Roh|exact Rot].
    + exists h, (length (st (ww sw))). split; [reflexivity|]. split; [exact L'|]. split; [lia|].
      assert (Rh : reach (st (ww sw')) (length (st (ww sw))) h).
      { eapply reach_step; [constructor|]. rewrite Es, parents_app_new, Ec. now left. }
      assert (Rt : reach (st (ww sw')) (length (st (ww sw))) t).
      { eapply reach_step; [constructor|]. rewrite Es, parents_app_new, Ec. right. now left. }
      split; [exact Rh|]. split; [exact Rt|]. split; [reflexivity|].
      assert (Ln : (length (st (ww sw)) < length (st (ww sw')))%nat) by (rewrite Es, app_length; cbn; lia).
      destruct (sinv_read sw' _ I' Ln) as (on & Ron). exists oh, ot, on. split; [exact Roh|]. split; [exact Rot|]. split; [exact Ron|].
      split.
      * eapply C02_monotone; [exact Wf'|exact Rh| |exact Ron]. rewrite Es, read_app_old; assumption.
      * eapply C02_monotone; [exact Wf'|exact Rt| |exact Ron]. rewrite Es, read_app_old; assumption.
  - destruct A as (Eo & L' & Es). inversion Eo; subst ms ent. auto.
Qed.
Print Assumptions merge_spec.
