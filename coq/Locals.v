(* Association-map facts for Sync.locals: under "one local head per entity", looking an entity up in the sorted
   map is membership in the heads list. *)
From Coq Require Import List Arith NArith Lia Bool.
Import ListNotations.
From GB Require Import Reach Sort Read Good Snoc World Sync.

Lemma alookup_cons e k v t : alookup e ((k, v) :: t) = if Nat.eqb k e then Some v else alookup e t.
Proof. unfold alookup. cbn [find fst]. destruct (Nat.eqb k e); reflexivity. Qed.

Lemma alookup_ainsert_same e h m : alookup e (ainsert e h m) = Some h.
Proof. induction m as [|[e' h'] t IH]; cbn [ainsert].
  - now rewrite alookup_cons, Nat.eqb_refl.
  - destruct (Nat.ltb_spec e e'); [now rewrite alookup_cons, Nat.eqb_refl|].
    destruct (Nat.eqb_spec e e'); [now rewrite alookup_cons, Nat.eqb_refl|].
    rewrite alookup_cons. destruct (Nat.eqb_spec e' e); [lia|]. exact IH. Qed.

Lemma alookup_ainsert_other e e' h m : e <> e' -> alookup e (ainsert e' h m) = alookup e m.
Proof. intros Hne. induction m as [|[k v] t IH]; cbn [ainsert].
  - rewrite alookup_cons. destruct (Nat.eqb_spec e' e); [lia|reflexivity].
  - destruct (Nat.ltb_spec e' k).
    + rewrite alookup_cons. destruct (Nat.eqb_spec e' e); [lia|reflexivity].
    + destruct (Nat.eqb_spec e' k).
      * subst k. rewrite !alookup_cons. destruct (Nat.eqb_spec e' e); [lia|reflexivity].
      * rewrite !alookup_cons. destruct (Nat.eqb_spec k e); [reflexivity|exact IH]. Qed.

(* lookup in the sorted map = first binding of the key, scanning from the left... asort folds from the right, so the
   LAST inserted (leftmost) binding wins; with distinct keys it does not matter *)
Lemma alookup_asort_in m e h : NoDup (map fst m) -> (alookup e (asort m) = Some h <-> In (e, h) m).
Proof. induction m as [|[k v] t IH]; intros ND; cbn [asort fold_right fst snd].
  - unfold alookup; cbn. split; [discriminate|intros []].
  - inversion ND as [|? ? Hk ND']; subst. fold (asort t). destruct (Nat.eq_dec e k) as [->|Hne].
    + rewrite alookup_ainsert_same. split.
      * intros H. inversion H. now left.
      * intros [H|H]; [inversion H; reflexivity|]. exfalso. apply Hk. change k with (fst (k, h)). now apply in_map.
    + rewrite alookup_ainsert_other by exact Hne. rewrite (IH ND'). split; [now right|].
      intros [H|H]; [inversion H; congruence|exact H]. Qed.

Lemma alookup_asort_none m e : alookup e (asort m) = None <-> ~ In e (map fst m).
Proof. induction m as [|[k v] t IH]; cbn [asort fold_right fst snd map].
  - unfold alookup; cbn. split; [intros _ []|reflexivity].
  - fold (asort t). destruct (Nat.eq_dec e k) as [->|Hne].
    + rewrite alookup_ainsert_same. split; [discriminate|]. intros H. exfalso. apply H. now left.
    + rewrite alookup_ainsert_other by exact Hne. rewrite IH. cbn. split; [intros H [E|E]; [congruence|auto]|intros H E; apply H; now right]. Qed.

Definition one_head_per_entity (w : world) (r : nat) : Prop := NoDup (map (eidf w) (heads (rep_of w r))).

Lemma locals_spec w r e h : one_head_per_entity w r ->
  (alookup e (locals w r) = Some h <-> In h (heads (rep_of w r)) /\ eidf w h = e).
Proof. intros ND. unfold locals. rewrite alookup_asort_in.
  - rewrite in_map_iff. split.
    + intros (x & E & Hx). inversion E; subst. auto.
    + intros [Hh <-]. exists h. auto.
  - rewrite map_map. exact ND. Qed.

Lemma locals_none w r e : alookup e (locals w r) = None <-> forall h, In h (heads (rep_of w r)) -> eidf w h <> e.
Proof. unfold locals. rewrite alookup_asort_none, map_map. split.
  - intros H h Hh E. apply H. apply in_map_iff. exists h. auto.
  - intros H E. apply in_map_iff in E as (h & E & Hh). exact (H h Hh E). Qed.
