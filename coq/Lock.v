From Coq Require Import List Arith Bool Lia.
Import ListNotations.

(* processes are numbers; the lock file holds a pid or is absent *)
Record st := { lockf : option nat; dead : list nat; holders : list nat; ready : list nat (* passed the test, not yet written *) }.
Definition st0 := {| lockf := None; dead := []; holders := []; ready := [] |}.
Definition mem (p : nat) (l : list nat) := existsb (Nat.eqb p) l.
Definition rm (p : nat) (l : list nat) := filter (fun x => negb (Nat.eqb x p)) l.

Inductive ev := Test (p : nat) | Write (p : nat) | Close (p : nat) | Kill (p : nat).
Inductive out := Granted | Refused (holder : nat) | Done | Ignored.

(* repoIsAvailable (Test) followed by the lock write (Write), as two separate steps like in repo_cache.go *)
Definition step (s : st) (e : ev) : st * out :=
  match e with
  | Test p =>
      match lockf s with
      | None => ({| lockf := None; dead := dead s; holders := holders s; ready := p :: ready s |}, Granted)
      | Some q => if mem q (dead s)
                  then ({| lockf := None; dead := dead s; holders := holders s; ready := p :: ready s |}, Granted) (* stale lock cleaned *)
                  else (s, Refused q)
      end
  | Write p => if mem p (ready s)
               then ({| lockf := Some p; dead := dead s; holders := p :: holders s; ready := rm p (ready s) |}, Done)
               else (s, Ignored)
  | Close p => if mem p (holders s)
               then ({| lockf := None; dead := dead s; holders := rm p (holders s); ready := ready s |}, Done)
               else (s, Ignored)
  | Kill p => ({| lockf := lockf s; dead := p :: dead s; holders := rm p (holders s); ready := rm p (ready s) |}, Done)
  end.

(* the atomic open: test and write with nothing in between *)
Definition open_atomic (s : st) (p : nat) : st * out :=
  match snd (step s (Test p)) with
  | Granted => (fst (step (fst (step s (Test p))) (Write p)), Granted)
  | o => (fst (step s (Test p)), o)
  end.
Definition granted (s : st) (p : nat) := {| lockf := Some p; dead := dead s; holders := p :: holders s; ready := [] |}.

Inductive aev := AOpen (p : nat) | AClose (p : nat) | AKill (p : nat).
Definition astep (s : st) (e : aev) : st :=
  match e with AOpen p => fst (open_atomic s p) | AClose p => fst (step s (Close p)) | AKill p => fst (step s (Kill p)) end.

(* invariant of the atomic protocol: every holder is alive and is the one named in the lock file *)
Definition inv (s : st) := ready s = [] /\ forall p, In p (holders s) -> lockf s = Some p /\ mem p (dead s) = false.

Lemma mem_In p l : mem p l = true <-> In p l.
Proof. unfold mem. rewrite existsb_exists. split; [intros (x & H & E); apply Nat.eqb_eq in E; now subst|intros H; exists p; split; auto; apply Nat.eqb_refl]. Qed.
Lemma In_rm x p l : In x (rm p l) <-> In x l /\ x <> p.
Proof. unfold rm. rewrite filter_In, negb_true_iff, Nat.eqb_neq. tauto. Qed.

Lemma open_atomic_cases s p : ready s = [] ->
  open_atomic s p = match lockf s with
                    | Some q => if mem q (dead s) then (granted s p, Granted) else (s, Refused q)
                    | None => (granted s p, Granted)
                    end.
Proof. intros R. unfold open_atomic, granted. cbn [step]. destruct (lockf s) as [q|]; [destruct (mem q (dead s))|]; cbn; rewrite ?R; unfold mem, rm; cbn; rewrite ?Nat.eqb_refl; cbn; reflexivity. Qed.

Lemma inv_astep s e : (forall p, e = AOpen p -> mem p (dead s) = false) -> inv s -> inv (astep s e).
Proof. intros Hlive [R H]. destruct e as [p|p|p]; cbn [astep].
  - specialize (Hlive p eq_refl). rewrite (open_atomic_cases s p R). destruct (lockf s) as [q|] eqn:L.
    + destruct (mem q (dead s)) eqn:D; cbn [fst]; [|split; [exact R|intros x Hx; rewrite L; now apply H]].
      split; [reflexivity|]. cbn [holders lockf dead granted].
      intros x [<-|Hx]; [split; auto|]. destruct (H x Hx) as [E E']. inversion E; subst. congruence.
    + cbn [fst]. split; [reflexivity|]. cbn [holders lockf dead granted].
      intros x [<-|Hx]; [split; auto|]. destruct (H x Hx) as [E _]. discriminate.
  - cbn [step]. destruct (mem p (holders s)) eqn:M; cbn; [|now split]. split; [exact R|].
    intros x Hx. apply In_rm in Hx as [Hx Hne]. destruct (H x Hx) as [E _]. apply mem_In in M. destruct (H p M) as [E' _]. congruence.
  - cbn [step fst]. split; [cbn [ready]; rewrite R; reflexivity|]. cbn [holders lockf dead]. intros x Hx. apply In_rm in Hx as [Hx Hne]. destruct (H x Hx) as [E D]. split; [exact E|].
    unfold mem in *. cbn [existsb]. apply Nat.eqb_neq in Hne. rewrite Hne. exact D. Qed.

(* mutual exclusion: at most one holder (as a set) *)
Theorem C19_mutex s p q : inv s -> In p (holders s) -> In q (holders s) -> p = q.
Proof. intros [_ H] Hp Hq. destruct (H p Hp) as [E _], (H q Hq) as [E' _]. congruence. Qed.

Theorem C19_refuse s p q : lockf s = Some q -> mem q (dead s) = false -> open_atomic s p = (s, Refused q).
Proof. intros L D. unfold open_atomic. cbn [step]. rewrite L, D. reflexivity. Qed.

Theorem C19_stale s p q : inv s -> lockf s = Some q -> mem q (dead s) = true ->
  snd (open_atomic s p) = Granted /\ lockf (fst (open_atomic s p)) = Some p.
Proof. intros [R _] L D. rewrite (open_atomic_cases s p R), L, D. cbn. auto. Qed.

(* the two-step open of the code allows a schedule with two simultaneous holders *)
Definition run (es : list ev) := fold_left (fun s e => fst (step s e)) es st0.
Theorem C19_toctou_refuted : exists es, holders (run es) = [2; 1] /\ dead (run es) = [].
Proof. exists [Test 1; Test 2; Write 1; Write 2]. vm_compute. auto. Qed.
(* ... after which a clean close by one removes the lock of the other, still live, process *)
Theorem C19_removes_live_lock_refuted : exists es, holders (run es) = [2] /\ lockf (run es) = None /\ dead (run es) = [].
Proof. exists [Test 1; Test 2; Write 1; Write 2; Close 1]. vm_compute. auto. Qed.
Print Assumptions C19_mutex.
