(* C19 — the lock-file protocol of the repository cache.
   Transcribes cache/repo_cache.go (lock = repoIsAvailable ; Create ; Write, Close), util/process.IsRunning,
   and the command wrapper of commands/execenv/loading.go (LoadBackend / LoadBackendEnsureUser / CloseBackend),
   the interrupt cleaner (util/interrupt) and the webui command's own teardown.
   Processes are numbers. The lock file is absent, holds a pid, or is "torn": created but still empty.
   The code writes the pid to a temporary file and renames it (Create, then Write = rename), so no step of the
   protocol produces a torn lock; an empty lock file found on disk is cleaned like a stale one. The pinned tree
   created the lock file in place and wrote the pid in a second step, and took an empty file for an error: those
   two steps are kept as TestPinned / CreatePinned for the refutations.
   The temporary files lock.<pid> are part of the state ([tmpf]): Create leaves one, the rename of Write takes it
   away, nobody else touches it. The web UI's shutdown (commands/webui.go: wait for the requests being served,
   then close the cache, then exit) is [ask] / [finish] at the end of the file. *)
From Coq Require Import List Arith Bool Lia.
Import ListNotations.

Inductive lockc := LPid (p : nat) | LTorn.

Record st := mkst {
  lockf : option lockc;     (* .git/git-bug/lock *)
  dead : list nat;          (* processes that are gone (exited, killed); a pid is never reused *)
  holders : list nat;       (* processes whose RepoCache is open (lock() returned nil, Close not yet run) *)
  ready : list nat;         (* passed repoIsAvailable, file not yet created *)
  created : list nat;       (* wrote the temporary file, not yet renamed (pinned: created the empty lock file) *)
  tmpf : list nat           (* temporary files .git/git-bug/lock.<pid> on disk, by owner *)
}.
Definition st0 := mkst None [] [] [] [] [].
Definition mem (p : nat) (l : list nat) := existsb (Nat.eqb p) l.
Definition rm (p : nat) (l : list nat) := filter (fun x => negb (Nat.eqb x p)) l.

Inductive ev := Test (p : nat) | Create (p : nat) | Write (p : nat) | Close (p : nat) | Kill (p : nat) | Fail (p : nat)
              | TestPinned (p : nat) | CreatePinned (p : nat).
Inductive out := Granted | Refused (holder : nat) | Corrupt | Done | Ignored.

(* RepoCache.Close as called by a process that holds the cache: the lock file is removed *)
Definition close1 (s : st) (p : nat) : st * out :=
  if mem p (holders s) then (mkst None (dead s) (rm p (holders s)) (ready s) (created s) (tmpf s), Done) else (s, Ignored).
(* the process is gone without running any cleanup (SIGKILL, crash, or os.Exit on a path that does not close) *)
Definition kill1 (s : st) (p : nat) : st * out :=
  (mkst (lockf s) (p :: dead s) (rm p (holders s)) (rm p (ready s)) (rm p (created s)) (tmpf s), Done).
(* RepoCache.Close as written in the code, called by a process that does NOT hold: the file is removed unconditionally *)
Definition unlink (s : st) : st := mkst None (dead s) (holders s) (ready s) (created s) (tmpf s).

(* repoIsAvailable (Test), then Create (temporary file), then Write (rename): three separate steps, as in repo_cache.go *)
Definition test_free (s : st) (p : nat) : st * out := (mkst None (dead s) (holders s) (p :: ready s) (created s) (tmpf s), Granted).
Definition step (s : st) (e : ev) : st * out :=
  match e with
  | Test p =>
      match lockf s with
      | None => test_free s p
      | Some (LPid q) => if mem q (dead s) then test_free s p (* stale lock cleaned *) else (s, Refused q)
      | Some LTorn => test_free s p                            (* empty lock file: nobody holds it, cleaned *)
      end
  | Create p => if mem p (ready s)
                then (mkst (lockf s) (dead s) (holders s) (rm p (ready s)) (p :: created s) (p :: tmpf s), Done)
                else (s, Ignored)
  | Write p => if mem p (created s)
               then (mkst (Some (LPid p)) (dead s) (p :: holders s) (ready s) (rm p (created s)) (rm p (tmpf s)), Done)
               else (s, Ignored)
  | Close p => close1 s p
  | Kill p => kill1 s p
  | Fail p => kill1 (fst (close1 s p)) p      (* an error path that cleans up: close if open, then exit *)
  | TestPinned p =>
      match lockf s with
      | None => test_free s p
      | Some (LPid q) => if mem q (dead s) then test_free s p else (s, Refused q)
      | Some LTorn => (s, Corrupt)                              (* strconv.Atoi("") fails *)
      end
  | CreatePinned p => if mem p (ready s)
                then (mkst (Some LTorn) (dead s) (holders s) (rm p (ready s)) (p :: created s) (tmpf s), Done)
                else (s, Ignored)
  end.
Definition fixed_ev (e : ev) : bool := match e with TestPinned _ | CreatePinned _ => false | _ => true end.

Definition run_from (s : st) (es : list ev) := fold_left (fun s e => fst (step s e)) es s.
Definition run (es : list ev) := run_from st0 es.

(* ---------- the atomic open: the three steps with nothing in between ---------- *)
Definition open_atomic (s : st) (p : nat) : st * out :=
  match step s (Test p) with
  | (s1, Granted) => (fst (step (fst (step s1 (Create p))) (Write p)), Granted)
  | (s1, o) => (s1, o)
  end.
Definition granted (s : st) (p : nat) := mkst (Some (LPid p)) (dead s) (p :: holders s) [] [] (rm p (tmpf s)).

(* p performs the first k sub-steps of its open and dies there (k >= 3: dies while holding) *)
Definition crash (s : st) (p k : nat) : st :=
  match k with
  | 0 => fst (kill1 s p)
  | 1 => fst (kill1 (fst (step s (Test p))) p)
  | 2 => match step s (Test p) with
         | (s1, Granted) => fst (kill1 (fst (step s1 (Create p))) p)
         | (s1, _) => fst (kill1 s1 p)
         end
  | _ => fst (kill1 (fst (open_atomic s p)) p)
  end.

Inductive aev := AOpen (p : nat) | AClose (p : nat) | AKill (p : nat) | AFail (p : nat) | ACrash (p k : nat).
Definition astep (s : st) (e : aev) : st :=
  match e with
  | AOpen p => fst (open_atomic s p)
  | AClose p => fst (close1 s p)
  | AKill p => fst (kill1 s p)
  | AFail p => fst (step s (Fail p))
  | ACrash p k => crash s p k
  end.
Definition actor (e : aev) : nat := match e with AOpen p | AClose p | AKill p | AFail p | ACrash p _ => p end.
Definition opens (e : aev) : bool := match e with AOpen _ | ACrash _ _ => true | _ => false end.
(* a pid is not reused: a process that is gone does not open again *)
Definition aok (s : st) (e : aev) : bool := negb (opens e) || negb (mem (actor e) (dead s)).
Fixpoint arun (s : st) (es : list aev) : st := match es with [] => s | e :: t => arun (astep s e) t end.
Fixpoint aoks (s : st) (es : list aev) : bool := match es with [] => true | e :: t => aok s e && aoks (astep s e) t end.
Inductive areach : st -> Prop :=
| ar0 : areach st0
| ar_step s e : areach s -> aok s e = true -> areach (astep s e).

(* invariant of the atomic protocol: nobody is half-way through an open, every holder is alive and is the one
   named in the lock file, and there is at most one *)
Definition inv (s : st) :=
  ready s = [] /\ created s = [] /\
  (forall p, In p (holders s) -> lockf s = Some (LPid p) /\ mem p (dead s) = false) /\
  length (holders s) <= 1.

Lemma mem_In p l : mem p l = true <-> In p l.
Proof. unfold mem. rewrite existsb_exists. split; [intros (x & H & E); apply Nat.eqb_eq in E; now subst|intros H; exists p; split; auto; apply Nat.eqb_refl]. Qed.
Lemma mem_cons p x l : mem p (x :: l) = Nat.eqb p x || mem p l.
Proof. reflexivity. Qed.
Lemma In_rm x p l : In x (rm p l) <-> In x l /\ x <> p.
Proof. unfold rm. rewrite filter_In, negb_true_iff, Nat.eqb_neq. tauto. Qed.
Lemma rm_nil p : rm p [] = [].
Proof. reflexivity. Qed.
Lemma mem_nil p : mem p [] = false.
Proof. reflexivity. Qed.
Lemma rm_self p : rm p [p] = [].
Proof. unfold rm. cbn. rewrite Nat.eqb_refl. reflexivity. Qed.
Lemma rm_one p h : rm p [h] = if Nat.eqb h p then [] else [h].
Proof. unfold rm. cbn. destruct (Nat.eqb h p); reflexivity. Qed.
Lemma mem_self p : mem p [p] = true.
Proof. unfold mem. cbn. rewrite Nat.eqb_refl. reflexivity. Qed.
Lemma rm_cons_self p l : rm p (p :: l) = rm p l.
Proof. unfold rm. cbn. rewrite Nat.eqb_refl. reflexivity. Qed.

Arguments mem : simpl never.
Arguments rm : simpl never.
Ltac norm := repeat (cbn; rewrite ?mem_self, ?mem_nil, ?rm_self, ?rm_nil, ?rm_cons_self, ?Nat.eqb_refl).

(* under the invariant the state has one of two shapes *)
Lemma inv_shape l d hs r c tf : inv (mkst l d hs r c tf) ->
  r = [] /\ c = [] /\ (hs = [] \/ exists h, hs = [h] /\ l = Some (LPid h) /\ mem h d = false).
Proof.
  intros (R & C & H & N). cbn in *. subst r c. split; [reflexivity|]. split; [reflexivity|].
  destruct hs as [|h [|h2 t]]; cbn in N; [left; auto| |lia].
  right. exists h. destruct (H h (or_introl eq_refl)) as [E D]. subst l. auto.
Qed.

Lemma inv_free d l t : inv (mkst l d [] [] [] t).
Proof. unfold inv. cbn. split; [reflexivity|]. split; [reflexivity|]. split; [intros p []|lia]. Qed.
Lemma inv_held d h t : mem h d = false -> inv (mkst (Some (LPid h)) d [h] [] [] t).
Proof. intros D. unfold inv. cbn. split; [reflexivity|]. split; [reflexivity|]. split; [intros p [<-|[]]; auto|lia]. Qed.

Lemma open_atomic_cases s p : ready s = [] -> created s = [] ->
  open_atomic s p = match lockf s with
                    | Some (LPid q) => if mem q (dead s) then (granted s p, Granted) else (s, Refused q)
                    | Some LTorn => (granted s p, Granted)
                    | None => (granted s p, Granted)
                    end.
Proof.
  intros R C. unfold open_atomic, granted. cbn [step].
  destruct (lockf s) as [[q|]|]; [destruct (mem q (dead s))| |]; cbn; rewrite ?R, ?C; norm; reflexivity.
Qed.

Ltac shape s H := let l := fresh "l" in let d := fresh "d" in let hs := fresh "hs" in let r := fresh "r" in let c := fresh "c" in
  let t := fresh "t" in let h := fresh "h" in let D := fresh "D" in
  destruct s as [l d hs r c t]; apply inv_shape in H as (-> & -> & [-> | (h & -> & -> & D)]).
Lemma kill_held d h p t : mem h d = false -> inv (mkst (Some (LPid h)) (p :: d) (rm p [h]) [] [] t).
Proof.
  intros D. rewrite rm_one. destruct (Nat.eqb h p) eqn:Q; [apply inv_free|].
  apply inv_held. rewrite mem_cons, D, Q. reflexivity.
Qed.
Lemma inv_kill s p : inv s -> inv (fst (kill1 s p)).
Proof. intros I. shape s I; cbn; [apply inv_free|now apply kill_held]. Qed.
Lemma inv_close s p : inv s -> inv (fst (close1 s p)).
Proof.
  intros I. shape s I; unfold close1; cbn; [apply inv_free|].
  rewrite mem_cons, mem_nil, orb_false_r. destruct (Nat.eqb p h) eqn:Q; cbn; [|apply inv_held; auto].
  apply Nat.eqb_eq in Q. subst. rewrite rm_self. apply inv_free.
Qed.
Lemma inv_open s p : mem p (dead s) = false -> inv s -> inv (fst (open_atomic s p)).
Proof.
  intros A I. assert (I' := I). destruct I' as (R & C & _). rewrite (open_atomic_cases s p R C). shape s I; cbn in *.
  - destruct l as [[q|]|]; [destruct (mem q d)| |]; cbn; try (apply inv_held; exact A); apply inv_free.
  - rewrite D. cbn. apply inv_held; auto.
Qed.
Lemma inv_crash s p k : mem p (dead s) = false -> inv s -> inv (crash s p k).
Proof.
  intros A I. destruct k as [|[|[|k]]]; unfold crash.
  - now apply inv_kill.
  - shape s I; cbn in *.
    + destruct l as [[q|]|]; [destruct (mem q d)| |]; norm; apply inv_free.
    + rewrite D. cbn. now apply kill_held.
  - shape s I; cbn in *.
    + destruct l as [[q|]|]; [destruct (mem q d)| |]; norm; apply inv_free.
    + rewrite D. cbn. now apply kill_held.
  - apply inv_kill. now apply inv_open.
Qed.

Lemma inv_astep s e : aok s e = true -> inv s -> inv (astep s e).
Proof.
  intros A I. destruct e as [p|p|p|p|p k]; cbn [astep].
  - apply inv_open; auto. unfold aok in A. cbn in A. now apply negb_true_iff in A.
  - now apply inv_close.
  - now apply inv_kill.
  - cbn [step]. apply inv_kill. now apply inv_close.
  - apply inv_crash; auto. unfold aok in A. cbn in A. now apply negb_true_iff in A.
Qed.

Lemma inv_st0 : inv st0.
Proof. apply inv_free. Qed.
Lemma inv_areach s : areach s -> inv s.
Proof. induction 1; [apply inv_st0|now apply inv_astep]. Qed.
Lemma inv_arun es : forall s, aoks s es = true -> inv s -> inv (arun s es).
Proof. induction es as [|e t IH]; intros s A I; cbn in *; auto. apply andb_true_iff in A as [A1 A2]. apply IH; auto. now apply inv_astep. Qed.

(* ---------- mutual exclusion ---------- *)
Lemma mutex_inv s p q : inv s -> In p (holders s) -> In q (holders s) -> p = q.
Proof. intros (_ & _ & H & _) Hp Hq. destruct (H p Hp) as [E _], (H q Hq) as [E' _]. congruence. Qed.
Lemma mutex_reach s p q : areach s -> In p (holders s) -> In q (holders s) -> p = q.
Proof. intros R. apply mutex_inv. now apply inv_areach. Qed.
Lemma mutex_count s : areach s -> length (holders s) <= 1.
Proof. intros R. apply inv_areach in R. apply R. Qed.

(* ---------- refusal ---------- *)
Lemma refuse_open s p q : lockf s = Some (LPid q) -> mem q (dead s) = false -> open_atomic s p = (s, Refused q).
Proof. intros L D. unfold open_atomic. cbn [step]. rewrite L, D. reflexivity. Qed.

(* ---------- stale lock, clean close ---------- *)
Lemma stale_open s p q : inv s -> lockf s = Some (LPid q) -> mem q (dead s) = true ->
  snd (open_atomic s p) = Granted /\ lockf (fst (open_atomic s p)) = Some (LPid p) /\ In p (holders (fst (open_atomic s p))).
Proof. intros (R & C & _) L D. rewrite (open_atomic_cases s p R C), L, D. cbn. auto. Qed.

Lemma free_after_close s p q : inv s -> In q (holders s) ->
  let s1 := astep s (AClose q) in
  snd (open_atomic s1 p) = Granted /\ lockf (fst (open_atomic s1 p)) = Some (LPid p) /\ holders (fst (open_atomic s1 p)) = [p].
Proof.
  intros I Hq. shape s I; cbn in Hq; [tauto|]. destruct Hq as [<-|[]].
  cbn. unfold close1. cbn. rewrite mem_self. cbn. rewrite rm_self. unfold open_atomic. cbn.
  rewrite ?mem_self, ?Nat.eqb_refl. cbn. rewrite ?Nat.eqb_refl. cbn. auto.
Qed.
(* the same when the holder ends through an error path or the signal cleaner *)
Lemma free_after_fail s p q : inv s -> In q (holders s) ->
  let s1 := astep s (AFail q) in
  snd (open_atomic s1 p) = Granted /\ lockf (fst (open_atomic s1 p)) = Some (LPid p) /\ holders (fst (open_atomic s1 p)) = [p].
Proof.
  intros I Hq. shape s I; cbn in Hq; [tauto|]. destruct Hq as [<-|[]].
  cbn. unfold close1. cbn. rewrite mem_self. cbn. rewrite rm_self. unfold open_atomic. cbn.
  rewrite ?mem_self, ?Nat.eqb_refl. cbn. rewrite ?Nat.eqb_refl. cbn. auto.
Qed.

(* an empty lock file (left by the pinned tree's two-step write) is cleaned like a stale one *)
Lemma torn_open s p : inv s -> lockf s = Some LTorn ->
  snd (open_atomic s p) = Granted /\ lockf (fst (open_atomic s p)) = Some (LPid p) /\ In p (holders (fst (open_atomic s p))).
Proof. intros (R & C & _) L. rewrite (open_atomic_cases s p R C), L. cbn. auto. Qed.

(* no step of the protocol, in any interleaving, produces a lock file without a pid *)
Lemma no_torn_step s e : fixed_ev e = true -> lockf (fst (step s e)) = Some LTorn -> lockf s = Some LTorn.
Proof.
  Ltac fin := cbn; intros H; first [discriminate H | exact H | reflexivity].
  destruct e as [p|p|p|p|p|p|p|p]; cbn; try discriminate; intros _.
  - destruct (lockf s) as [[q|]|] eqn:L; [destruct (mem q (dead s))| |]; unfold test_free; cbn; intros H;
      first [discriminate H | reflexivity | rewrite L in H; discriminate H].
  - destruct (mem p (ready s)); fin.
  - destruct (mem p (created s)); fin.
  - unfold close1. destruct (mem p (holders s)); fin.
  - auto.
  - unfold close1. destruct (mem p (holders s)); fin.
Qed.
Lemma no_torn_run es : forall s, forallb fixed_ev es = true -> lockf (run_from s es) = Some LTorn -> lockf s = Some LTorn.
Proof.
  induction es as [|e t IH]; intros s F H; cbn in *; auto.
  apply andb_true_iff in F as [F1 F2]. apply (no_torn_step s e F1). apply IH; auto.
Qed.
Lemma no_torn es : forallb fixed_ev es = true -> lockf (run es) <> Some LTorn.
Proof. intros F H. apply (no_torn_run es st0 F) in H. discriminate. Qed.

(* ---------- the lock of a live process is never removed by anybody else ---------- *)
Lemma dead_kill s p : dead (fst (kill1 s p)) = p :: dead s.
Proof. reflexivity. Qed.
Lemma dead_close s p : dead (fst (close1 s p)) = dead s.
Proof. unfold close1. destruct (mem p (holders s)); reflexivity. Qed.
Lemma dead_test s p : dead (fst (step s (Test p))) = dead s.
Proof. cbn. destruct (lockf s) as [[q|]|]; [destruct (mem q (dead s))| |]; reflexivity. Qed.
Lemma dead_create s p : dead (fst (step s (Create p))) = dead s.
Proof. cbn. destruct (mem p (ready s)); reflexivity. Qed.
Lemma dead_write s p : dead (fst (step s (Write p))) = dead s.
Proof. cbn. destruct (mem p (created s)); reflexivity. Qed.
Lemma dead_open s p : dead (fst (open_atomic s p)) = dead s.
Proof.
  unfold open_atomic. destruct (step s (Test p)) as [s1 o] eqn:E.
  assert (D1 : dead s1 = dead s) by (rewrite <- (dead_test s p), E; reflexivity).
  destruct o; cbn [fst]; rewrite ?dead_write, ?dead_create; exact D1.
Qed.
Lemma mem_cons_true x p d : mem x (p :: d) = true -> x = p \/ mem x d = true.
Proof. rewrite mem_cons. destruct (Nat.eqb x p) eqn:Q; [apply Nat.eqb_eq in Q; auto|auto]. Qed.

Lemma dead_astep s e x : mem x (dead (astep s e)) = true -> x = actor e \/ mem x (dead s) = true.
Proof.
  destruct e as [p|p|p|p|p k]; cbn [astep actor].
  - rewrite dead_open. auto.
  - rewrite dead_close. auto.
  - rewrite dead_kill. apply mem_cons_true.
  - cbn [step]. rewrite dead_kill, dead_close. apply mem_cons_true.
  - destruct k as [|[|[|k]]]; unfold crash.
    + rewrite dead_kill. apply mem_cons_true.
    + rewrite dead_kill, dead_test. apply mem_cons_true.
    + destruct (step s (Test p)) as [s1 o] eqn:E.
      assert (D1 : dead s1 = dead s) by (rewrite <- (dead_test s p), E; reflexivity).
      destruct o; rewrite dead_kill, ?dead_create, D1; apply mem_cons_true.
    + rewrite dead_kill, dead_open. apply mem_cons_true.
Qed.

Lemma live_lock_step s e q : inv s -> aok s e = true -> lockf s = Some (LPid q) -> mem q (dead s) = false ->
  actor e <> q -> lockf (astep s e) = Some (LPid q).
Proof.
  intros I A L D Ne. assert (I' := I). destruct I' as (R & C & H & _).
  destruct e as [p|p|p|p|p k]; cbn [astep actor] in *.
  - rewrite (refuse_open s p q L D). exact L.
  - unfold close1. destruct (mem p (holders s)) eqn:M; cbn; auto.
    apply mem_In in M. destruct (H p M) as [E _]. congruence.
  - exact L.
  - cbn. unfold close1. destruct (mem p (holders s)) eqn:M; cbn; auto.
    apply mem_In in M. destruct (H p M) as [E _]. congruence.
  - destruct k as [|[|[|k]]]; unfold crash; cbn [step]; rewrite ?(refuse_open s p q L D); rewrite ?L, ?D; cbn; auto.
Qed.

Lemma live_lock_run es : forall s q, inv s -> aoks s es = true -> lockf s = Some (LPid q) -> mem q (dead s) = false ->
  (forall e, In e es -> actor e <> q) -> lockf (arun s es) = Some (LPid q).
Proof.
  induction es as [|e t IH]; intros s q I A L D N; cbn in *; auto.
  apply andb_true_iff in A as [A1 A2]. apply IH; auto.
  - now apply inv_astep.
  - apply (live_lock_step s e q); auto.
  - destruct (mem q (dead (astep s e))) eqn:M; auto. apply dead_astep in M as [M|M]; [|congruence].
    exfalso. apply (N e); auto.
Qed.

(* ---------- several processes starting at the same moment ----------
   repoIsAvailable itself is two steps: read the lock file and decide, then (stale or empty) remove it; the
   temporary file of Create touches nothing shared, so Create ; Write is one step here. A member whose open is
   refused, or whose Remove finds the file already gone, exits. *)
Inductive bout := BGo | BRefused (q : nat) | BRemoveErr.
Record bm := mkbm { b_id : nat; b_pc : nat; b_out : bout }.   (* pc 0: read; 1: remove; 2: write; 3: holds; 4: exited with b_out *)
Definition badvance (s : st) (m : bm) : st * bm :=
  let id := b_id m in
  match b_pc m with
  | 0 => match lockf s with
         | None => (s, mkbm id 2 BGo)
         | Some (LPid q) => if mem q (dead s) then (s, mkbm id 1 BGo) else (fst (kill1 s id), mkbm id 4 (BRefused q))
         | Some LTorn => (s, mkbm id 1 BGo)
         end
  | 1 => match lockf s with
         | None => (fst (kill1 s id), mkbm id 4 BRemoveErr)       (* somebody else removed it in between *)
         | Some _ => (unlink s, mkbm id 2 BGo)                     (* removes whatever is there now *)
         end
  | 2 => (mkst (Some (LPid id)) (dead s) (id :: holders s) (ready s) (created s) (rm id (tmpf s)), mkbm id 3 BGo)
  | _ => (s, m)
  end.
Definition badv3 (s : st) (p : nat) : st * bm :=
  let '(s1, m1) := badvance s (mkbm p 0 BGo) in let '(s2, m2) := badvance s1 m1 in badvance s2 m2.

(* a member running alone does exactly the atomic open (and is gone if refused) *)
Lemma badv3_alone s p : ready s = [] -> created s = [] ->
  match open_atomic s p with
  | (s', Granted) => fst (badv3 s p) = s' /\ b_pc (snd (badv3 s p)) = 3
  | (s', Refused q) => fst (badv3 s p) = fst (kill1 s' p) /\ b_out (snd (badv3 s p)) = BRefused q /\ b_pc (snd (badv3 s p)) = 4
  | _ => True
  end.
Proof.
  intros R C. rewrite (open_atomic_cases s p R C). unfold badv3, granted. destruct s as [l d hs r c t]. cbn in R, C. subst r c.
  destruct l as [[q|]|]; cbn; [destruct (mem q d) eqn:D; cbn; rewrite ?D; cbn| |]; auto.
Qed.

(* ---------- the command wrapper ---------- *)
Inductive family := FBackend      (* PreRunE LoadBackend, RunE CloseBackend(...) *)
                  | FEnsureUser   (* PreRunE LoadBackendEnsureUser, RunE CloseBackend(...) *)
                  | FWebui.       (* PreRunE LoadRepo; runWebUI opens and closes the cache itself *)
Inductive path := EarlyErr     (* fails before the cache is opened: flag parsing, not a repository, webui without identity *)
                | PreErr       (* fails after the lock was taken, before the command body: cache build error, no identity *)
                | RunErr       (* the command body fails (for webui: the server cannot listen) *)
                | Success
                | Signalled.   (* SIGINT / SIGTERM once running: interrupt cleaner, webui teardown *)

(* which exit paths call RepoCache.Close; [on_refused]: Close is also called when the open itself was refused *)
Record wrapper := mkw { closes : family -> path -> bool; on_refused : bool }.
(* the wrapper as it should be, and as it is once the fixes/C19-*.patch repairs are applied *)
Definition fixed : wrapper := mkw (fun _ _ => true) false.
(* the pinned tree: three error paths return without closing *)
Definition pinned : wrapper :=
  mkw (fun f pa => match f, pa with
                   | _, PreErr => false              (* LoadBackend on a cache build error; LoadBackendEnsureUser without identity; webui on a build error *)
                   | FWebui, RunErr => false         (* ListenAndServe fails *)
                   | _, _ => true end) false.
(* a tempting repair: close the backend whenever LoadBackend fails, including when the lock was refused *)
Definition close_always : wrapper := mkw (fun _ _ => true) true.

Definition command (w : wrapper) (f : family) (pa : path) (s : st) (p : nat) : st * out :=
  match pa with
  | EarlyErr => (fst (kill1 s p), Done)
  | _ => match open_atomic s p with
         | (s1, Granted) => if closes w f pa then (fst (step s1 (Fail p)), Granted) else (fst (kill1 s1 p), Granted)
         | (s1, o) => (fst (kill1 (if on_refused w then unlink s1 else s1) p), o)
         end
  end.

Lemma command_fixed_asteps f pa s p : inv s ->
  fst (command fixed f pa s p) = match pa with EarlyErr => astep s (AKill p) | _ =>
     match snd (open_atomic s p) with Granted => astep (astep s (AOpen p)) (AFail p) | _ => astep (astep s (AOpen p)) (AKill p) end end.
Proof.
  intros I. unfold command. destruct pa; try reflexivity; cbn [astep closes fixed on_refused];
  destruct (open_atomic s p) as [s1 o]; destruct o; reflexivity.
Qed.

Lemma kill_not_holder s p : ~ In p (holders (fst (kill1 s p))).
Proof. cbn. intros H. apply In_rm in H. tauto. Qed.

Lemma release_all_paths f pa s p : inv s -> mem p (dead s) = false -> ~ In p (holders s) -> lockf s <> Some (LPid p) ->
  let s' := fst (command fixed f pa s p) in
  inv s' /\ ~ In p (holders s') /\ lockf s' <> Some (LPid p) /\ mem p (dead s') = true.
Proof.
  intros I A NH NL s'. split.
  { subst s'. rewrite (command_fixed_asteps f pa s p I).
    assert (O : aok s (AOpen p) = true) by (unfold aok; cbn; rewrite A; reflexivity).
    destruct pa; try (apply inv_astep; [reflexivity|exact I]);
      destruct (snd (open_atomic s p)); (apply inv_astep; [reflexivity|]; apply inv_astep; [exact O|exact I]). }
  assert (I' := I). destruct I' as (R & C & _). subst s'. unfold command.
  assert (E : forall s1 : st, lockf s1 = lockf s ->
             ~ In p (holders (fst (kill1 s1 p))) /\ lockf (fst (kill1 s1 p)) <> Some (LPid p) /\ mem p (dead (fst (kill1 s1 p))) = true).
  { intros s1 L. split; [apply kill_not_holder|]. split; [cbn; congruence|]. cbn. rewrite mem_cons, Nat.eqb_refl. reflexivity. }
  assert (G : ~ In p (holders (fst (step (granted s p) (Fail p)))) /\ lockf (fst (step (granted s p) (Fail p))) <> Some (LPid p) /\
              mem p (dead (fst (step (granted s p) (Fail p)))) = true).
  { cbn [step]. split; [apply kill_not_holder|]. unfold close1, granted. cbn. rewrite mem_cons, Nat.eqb_refl. cbn.
    split; [discriminate|]. rewrite mem_cons, Nat.eqb_refl. reflexivity. }
  destruct pa; cbn [closes fixed on_refused]; try (apply E; reflexivity);
    rewrite (open_atomic_cases s p R C); destruct (lockf s) as [[q|]|] eqn:L; try destruct (mem q (dead s)); cbn [fst]; try exact G; apply E; exact L.
Qed.

(* a refused command leaves everything as it was, except that the process is gone *)
Lemma refuse_command f pa s p q : pa <> EarlyErr -> lockf s = Some (LPid q) -> mem q (dead s) = false -> p <> q ->
  let r := command fixed f pa s p in
  snd r = Refused q /\ lockf (fst r) = Some (LPid q) /\ mem q (dead (fst r)) = false /\
  (In q (holders s) -> In q (holders (fst r))).
Proof.
  intros NE L D Npq. unfold command. destruct pa; try congruence; rewrite (refuse_open s p q L D); cbn [fst snd on_refused fixed kill1 lockf dead holders];
  (split; [reflexivity|]; split; [exact L|]; split;
   [rewrite mem_cons, D; apply Nat.eqb_neq in Npq; rewrite Nat.eqb_sym, Npq; reflexivity|intros Hq; apply In_rm; auto]).
Qed.

(* ---------- what the faithful models of the defective variants do ---------- *)
Lemma toctou_refuted : exists es, forallb fixed_ev es = true /\ holders (run es) = [2; 1] /\ dead (run es) = [].
Proof. exists [Test 1; Test 2; Create 1; Write 1; Create 2; Write 2]. vm_compute. auto. Qed.
Lemma removes_live_lock_refuted : exists es, holders (run es) = [2] /\ lockf (run es) = None /\ dead (run es) = [].
Proof. exists [Test 1; Test 2; Create 1; Write 1; Create 2; Write 2; Close 1]. vm_compute. auto. Qed.
(* the pinned tree: a process that dies between creating the lock file and writing its pid leaves a lock
   that refuses everybody, for ever (the state does not change) *)
Lemma torn_lock_refuted : exists es, dead (run es) = [1] /\ holders (run es) = [] /\ lockf (run es) = Some LTorn /\
  forall p, step (run es) (TestPinned p) = (run es, Corrupt).
Proof. exists [TestPinned 1; CreatePinned 1; Kill 1]. vm_compute. auto. Qed.
(* the pinned wrapper leaves the lock of a finished command behind on three paths *)
Lemma pinned_leaks_refuted :
  lockf (fst (command pinned FEnsureUser PreErr st0 1)) = Some (LPid 1) /\
  lockf (fst (command pinned FBackend PreErr st0 1)) = Some (LPid 1) /\
  lockf (fst (command pinned FWebui RunErr st0 1)) = Some (LPid 1) /\
  mem 1 (dead (fst (command pinned FWebui RunErr st0 1))) = true.
Proof. vm_compute. auto. Qed.
(* closing the backend when the open was refused removes the lock of the live holder *)
Lemma close_on_refusal_refuted : exists s, inv s /\ lockf s = Some (LPid 1) /\ In 1 (holders s) /\
  let s' := fst (command close_always FBackend Success s 2) in
  lockf s' = None /\ In 1 (holders s') /\ mem 1 (dead s') = false.
Proof.
  exists (fst (open_atomic st0 1)). split; [apply (inv_held [] 1); reflexivity|]. vm_compute. repeat split; auto.
Qed.

(* ---------- temporary files ----------
   lock() writes the pid to lock.<pid> and renames it onto lock, and only after repoIsAvailable has let it through:
   a refused open creates nothing, a completed open leaves nothing; only a process that dies between the two steps
   leaves its temporary file behind. *)
Lemma tmpf_kill s p : tmpf (fst (kill1 s p)) = tmpf s.
Proof. reflexivity. Qed.
Lemma tmpf_close s p : tmpf (fst (close1 s p)) = tmpf s.
Proof. unfold close1. destruct (mem p (holders s)); reflexivity. Qed.
Lemma tmpf_test s p : tmpf (fst (step s (Test p))) = tmpf s.
Proof. cbn. destruct (lockf s) as [[q|]|]; [destruct (mem q (dead s))| |]; reflexivity. Qed.
Lemma tmpf_open s p : tmpf (fst (open_atomic s p)) = tmpf s \/ tmpf (fst (open_atomic s p)) = rm p (tmpf s).
Proof.
  unfold open_atomic. cbn [step].
  destruct (lockf s) as [[q|]|]; [destruct (mem q (dead s))| |]; unfold test_free; repeat (norm; rewrite ?mem_cons); norm; auto.
Qed.
Lemma rm_nil_eq p l : l = [] -> rm p l = [].
Proof. intros ->. reflexivity. Qed.
Lemma tmpf_open_nil s p : tmpf s = [] -> tmpf (fst (open_atomic s p)) = [].
Proof. intros E. destruct (tmpf_open s p) as [H|H]; rewrite H, E; reflexivity. Qed.

Definition crashes (e : aev) : bool := match e with ACrash _ _ => true | _ => false end.
Lemma tmpf_astep s e : crashes e = false -> tmpf s = [] -> tmpf (astep s e) = [].
Proof.
  destruct e as [p|p|p|p|p k]; cbn [astep crashes]; intros C E; try discriminate.
  - now apply tmpf_open_nil.
  - now rewrite tmpf_close.
  - exact E.
  - cbn [step]. now rewrite tmpf_kill, tmpf_close.
Qed.
Lemma no_stray_tmp es : forall s, forallb (fun e => negb (crashes e)) es = true -> tmpf s = [] -> tmpf (arun s es) = [].
Proof.
  induction es as [|e t IH]; intros s F E; cbn in *; auto.
  apply andb_true_iff in F as [F1 F2]. apply IH; auto. apply tmpf_astep; auto. now apply negb_true_iff in F1.
Qed.
Lemma command_no_tmp f pa s p : tmpf s = [] -> tmpf (fst (command fixed f pa s p)) = [].
Proof.
  intros E. unfold command. destruct pa; try exact E; cbn [closes fixed on_refused];
  assert (O := tmpf_open_nil s p E); destruct (open_atomic s p) as [s1 o]; cbn [fst] in O;
  destruct o; cbn [fst step]; rewrite ?tmpf_kill, ?tmpf_close; exact O.
Qed.

(* a temporary file on disk belongs to a process that is gone *)
Lemma In_rm_sub x p l : In x (rm p l) -> In x l.
Proof. intros H. apply In_rm in H. tauto. Qed.
Lemma mem_cons_mono x p d : mem x d = true -> mem x (p :: d) = true.
Proof. intros H. rewrite mem_cons, H. apply orb_true_r. Qed.
Definition tinv (s : st) := forall x, In x (tmpf s) -> mem x (dead s) = true.
Lemma tinv_open s p : tinv s -> tinv (fst (open_atomic s p)).
Proof.
  intros T x H. rewrite dead_open. apply T. destruct (tmpf_open s p) as [E|E]; rewrite E in H; auto. now apply In_rm_sub in H.
Qed.
Lemma tinv_kill s p : tinv s -> tinv (fst (kill1 s p)).
Proof. intros T x H. cbn in *. apply mem_cons_mono. now apply T. Qed.
Lemma tinv_close s p : tinv s -> tinv (fst (close1 s p)).
Proof. intros T x H. rewrite dead_close. rewrite tmpf_close in H. now apply T. Qed.
Lemma tinv_crash s p k : tinv s -> tinv (crash s p k).
Proof.
  intros T. destruct k as [|[|[|k]]]; unfold crash.
  - now apply tinv_kill.
  - apply tinv_kill. intros x H. rewrite dead_test. rewrite tmpf_test in H. now apply T.
  - assert (T1 : tinv (fst (step s (Test p)))) by (intros x H; rewrite dead_test; rewrite tmpf_test in H; now apply T).
    destruct (step s (Test p)) as [s1 o]. cbn [fst] in T1. destruct o; try (now apply tinv_kill).
    intros x H. cbn [kill1 fst tmpf dead step] in *. destruct (mem p (ready s1)); cbn [fst tmpf dead] in *.
    + destruct H as [<-|H]; [rewrite mem_cons, Nat.eqb_refl; reflexivity|apply mem_cons_mono; now apply T1].
    + apply mem_cons_mono. now apply T1.
  - apply tinv_kill. now apply tinv_open.
Qed.
Lemma tinv_astep s e : tinv s -> tinv (astep s e).
Proof.
  destruct e as [p|p|p|p|p k]; cbn [astep]; intros T.
  - now apply tinv_open.
  - now apply tinv_close.
  - now apply tinv_kill.
  - cbn [step]. apply tinv_kill. now apply tinv_close.
  - now apply tinv_crash.
Qed.
Lemma tinv_areach s : areach s -> tinv s.
Proof. induction 1; [intros x []|now apply tinv_astep]. Qed.

(* a refused command leaves the whole state as it was (lock file, temporary files, the others' caches), except that it is gone *)
Lemma refuse_command_frame f pa s p q : pa <> EarlyErr -> lockf s = Some (LPid q) -> mem q (dead s) = false ->
  let s' := fst (command fixed f pa s p) in
  s' = fst (kill1 s p) /\ lockf s' = lockf s /\ tmpf s' = tmpf s /\ holders s' = rm p (holders s).
Proof.
  intros NE L D. unfold command. destruct pa; try congruence; rewrite (refuse_open s p q L D); cbn; auto.
Qed.

(* ---------- the web UI's orderly shutdown ----------
   On SIGINT / SIGTERM the server stops accepting and waits for the requests being served (which work on the cache),
   then the cache is closed and the process exits: [ask] is the moment the signal arrives with a request in flight,
   [finish] the end of that request. CloseThenWait is the other order: the lock is removed first. *)
Inductive sdorder := WaitThenClose | CloseThenWait.
Definition ask (o : sdorder) (s : st) (p : nat) : st :=
  match o with WaitThenClose => s | CloseThenWait => if mem p (holders s) then unlink s else s end.
Definition finish (o : sdorder) (s : st) (p : nat) : st :=
  match o with WaitThenClose => fst (step s (Fail p)) | CloseThenWait => fst (kill1 s p) end.

Lemma asked_keeps_lock s p q : inv s -> In p (holders s) ->
  let s1 := ask WaitThenClose s p in
  In p (holders s1) /\ lockf s1 = Some (LPid p) /\ open_atomic s1 q = (s1, Refused p) /\ inv (finish WaitThenClose s1 p) /\
  lockf (finish WaitThenClose s1 p) = None.
Proof.
  intros I Hp. assert (I' := I). destruct I' as (_ & _ & H & _). destruct (H p Hp) as [L D]. cbn.
  split; [exact Hp|]. split; [exact L|]. split; [now apply refuse_open|]. split; [apply inv_kill; now apply inv_close|].
  unfold close1. apply mem_In in Hp. rewrite Hp. reflexivity.
Qed.
Lemma early_release_refuted : exists s, inv s /\ In 1 (holders s) /\
  let s1 := ask CloseThenWait s 1 in
  lockf s1 = None /\ mem 1 (dead s1) = false /\
  snd (open_atomic s1 2) = Granted /\ holders (fst (open_atomic s1 2)) = [2; 1] /\ dead (fst (open_atomic s1 2)) = [].
Proof.
  exists (fst (open_atomic st0 1)). split; [apply (inv_held [] 1); reflexivity|]. vm_compute. repeat split; auto.
Qed.

(* ---------- processes of several users ----------
   process.IsRunning asks the kernel with kill(pid, 0). Three answers: no error — the process exists; ESRCH — there is
   no such process; EPERM — the process EXISTS but the caller may not signal it: it belongs to another user and the
   caller is not root. [own p] is the user of process p, 0 is root. The code reads "alive" as "exists" (EPERM = alive);
   the other reading, "alive = I can signal it" (`Signal(0) == nil`), takes the holder of another user for dead.
   [dead] is about existence only, so the steps above ARE the [Exists] reading, whoever owns the processes
   (open_u_exists): every theorem of this file holds for holders and openers of different users. *)
Inductive probe := POk | PNoSuch | PNotPermitted.
Definition kill0 (own : nat -> nat) (s : st) (p q : nat) : probe :=
  if mem q (dead s) then PNoSuch
  else if Nat.eqb (own p) 0 || Nat.eqb (own p) (own q) then POk else PNotPermitted.
Inductive reading := Exists | Signalable.
Definition is_running (r : reading) (a : probe) : bool :=
  match a with
  | POk => true
  | PNoSuch => false
  | PNotPermitted => match r with Exists => true | Signalable => false end
  end.
Definition test_u (r : reading) (own : nat -> nat) (s : st) (p : nat) : st * out :=
  match lockf s with
  | None => test_free s p
  | Some (LPid q) => if is_running r (kill0 own s p q) then (s, Refused q) else test_free s p
  | Some LTorn => test_free s p
  end.
Definition open_u (r : reading) (own : nat -> nat) (s : st) (p : nat) : st * out :=
  match test_u r own s p with
  | (s1, Granted) => (fst (step (fst (step s1 (Create p))) (Write p)), Granted)
  | (s1, o) => (s1, o)
  end.

Lemma exists_is_alive own s p q : is_running Exists (kill0 own s p q) = negb (mem q (dead s)).
Proof. unfold kill0. destruct (mem q (dead s)); [reflexivity|]. destruct (Nat.eqb (own p) 0 || Nat.eqb (own p) (own q)); reflexivity. Qed.
Lemma test_u_exists own s p : test_u Exists own s p = step s (Test p).
Proof.
  unfold test_u. cbn [step]. destruct (lockf s) as [[q|]|]; try reflexivity.
  rewrite exists_is_alive. destruct (mem q (dead s)); reflexivity.
Qed.
Lemma open_u_exists own s p : open_u Exists own s p = open_atomic s p.
Proof. unfold open_u, open_atomic. rewrite test_u_exists. reflexivity. Qed.

(* the holder is alive: whoever it belongs to and whoever asks, the open is refused, names it and changes nothing *)
Lemma other_user_refused own s p q : lockf s = Some (LPid q) -> mem q (dead s) = false -> open_u Exists own s p = (s, Refused q).
Proof. intros L D. rewrite open_u_exists. now apply refuse_open. Qed.
(* the holder is gone and left its lock: whoever it belonged to, the next open succeeds *)
Lemma other_user_stale own s p q : inv s -> lockf s = Some (LPid q) -> mem q (dead s) = true ->
  snd (open_u Exists own s p) = Granted /\ lockf (fst (open_u Exists own s p)) = Some (LPid p) /\ In p (holders (fst (open_u Exists own s p))).
Proof. intros I L D. rewrite open_u_exists. now apply (stale_open s p q). Qed.

(* "alive = signalable": root's process 1 holds and is alive; process 2 of user 1 is let in next to it *)
Lemma signalable_refuted : exists own s, inv s /\ In 1 (holders s) /\ lockf s = Some (LPid 1) /\ mem 1 (dead s) = false /\
  own 2 <> 0 /\ own 2 <> own 1 /\
  kill0 own s 2 1 = PNotPermitted /\
  snd (open_u Signalable own s 2) = Granted /\ lockf (fst (open_u Signalable own s 2)) = Some (LPid 2) /\
  holders (fst (open_u Signalable own s 2)) = [2; 1] /\ dead (fst (open_u Signalable own s 2)) = [].
Proof.
  exists (fun p => if Nat.eqb p 1 then 0 else 1), (fst (open_atomic st0 1)).
  split; [apply (inv_held [] 1); reflexivity|]. vm_compute. repeat split; auto; discriminate.
Qed.
(* ... which no schedule of processes that may signal each other (one user, or root asking) can show: there the two
   readings coincide *)
Lemma signalable_blind own s p : (forall q, own p = 0 \/ own p = own q) -> open_u Signalable own s p = open_atomic s p.
Proof.
  intros S. rewrite <- (open_u_exists own s p). unfold open_u, test_u. destruct (lockf s) as [[q|]|]; try reflexivity.
  unfold kill0. destruct (mem q (dead s)); [reflexivity|].
  destruct (S q) as [E|E]; rewrite E; [|rewrite Nat.eqb_refl, orb_true_r]; reflexivity.
Qed.

(* ---------- suspended processes, and processes that have exited but are not yet reaped ----------
   A process is running (R, S or D in /proc/<pid>/stat), stopped (T: SIGSTOP, SIGTSTP = ctrl-z; t: under a debugger),
   a zombie (Z: it has exited — every file, lock and socket it had is released — but its parent has not collected it
   yet), or gone. A STOPPED process is alive for the property: its cache is open, it goes on where it was when it is
   continued. kill(pid, 0) answers "no error" for the first three and ESRCH for the last: process.IsRunning = "the pid
   exists". So the protocol above does not see suspension at all (open_x_kill0), a stopped holder is as protected as a
   running one, and a zombie's lock blocks until the parent reaps it (the documented assumption "a killed process is
   reaped"). [base] is the state of the protocol; [stopped], [zombies] say which processes that are not gone are in
   which condition. *)
Inductive pstate := PRunning | PStopped | PZombie | PGone.
Record xst := mkx { base : st; stopped : list nat; zombies : list nat }.
Definition pstate_of (x : xst) (p : nat) : pstate :=
  if mem p (dead (base x)) then PGone
  else if mem p (zombies x) then PZombie
  else if mem p (stopped x) then PStopped else PRunning.
(* the property's notion: the process still has what it had and will go on *)
Definition lives (a : pstate) : bool := match a with PRunning | PStopped => true | _ => false end.
(* kill(pid, 0), asked by somebody who may signal the process *)
Definition kill0_ps (a : pstate) : probe := match a with PGone => PNoSuch | _ => POk end.
(* third field of /proc/<pid>/stat; none once the process is gone *)
Inductive letter := LetRSD | LetT | LetZ.
Definition stat_of (a : pstate) : option letter :=
  match a with PRunning => Some LetRSD | PStopped => Some LetT | PZombie => Some LetZ | PGone => None end.
(* readings of "is running": the code's (the pid exists); exists and is in one of the states R, S, D; exists and is not Z *)
Inductive preading := Kill0 | StatRSD | NotZombie.
Definition answers (r : preading) (a : pstate) : bool :=
  is_running Exists (kill0_ps a) &&
  match r, stat_of a with
  | Kill0, _ => true
  | _, None => true                      (* /proc unreadable: assumed to run *)
  | StatRSD, Some LetRSD => true
  | StatRSD, Some _ => false
  | NotZombie, Some LetZ => false
  | NotZombie, Some _ => true
  end.
Definition test_x (r : preading) (x : xst) (p : nat) : st * out :=
  let s := base x in
  match lockf s with
  | None => test_free s p
  | Some (LPid q) => if answers r (pstate_of x q) then (s, Refused q) else test_free s p
  | Some LTorn => test_free s p
  end.
Definition open_x (r : preading) (x : xst) (p : nat) : xst * out :=
  match test_x r x p with
  | (s1, Granted) => (mkx (fst (step (fst (step s1 (Create p))) (Write p))) (stopped x) (zombies x), Granted)
  | (s1, o) => (mkx s1 (stopped x) (zombies x), o)
  end.

(* the process has exited (killed, or by itself without cleaning up) and nobody has collected it: it holds nothing, it
   is not among the dead yet; then the parent reaps it. The two together are [kill1]. *)
Definition zombify (s : st) (p : nat) : st := mkst (lockf s) (dead s) (rm p (holders s)) (rm p (ready s)) (rm p (created s)) (tmpf s).
Definition reap (s : st) (p : nat) : st := mkst (lockf s) (p :: dead s) (holders s) (ready s) (created s) (tmpf s).
Lemma kill_is_exit_then_reap s p : fst (kill1 s p) = reap (zombify s p) p.
Proof. reflexivity. Qed.
Definition xexit (x : xst) (p : nat) : xst := mkx (zombify (base x) p) (rm p (stopped x)) (p :: zombies x).
Definition xreap (x : xst) (p : nat) : xst := mkx (reap (base x) p) (stopped x) (rm p (zombies x)).

Lemma answers_kill0 a : answers Kill0 a = negb (match a with PGone => true | _ => false end).
Proof. destruct a; reflexivity. Qed.
Lemma pstate_gone x q : mem q (dead (base x)) = true -> pstate_of x q = PGone.
Proof. unfold pstate_of. now intros ->. Qed.
Lemma pstate_not_gone x q : mem q (dead (base x)) = false -> pstate_of x q <> PGone.
Proof. unfold pstate_of. intros ->. destruct (mem q (zombies x)); [discriminate|]. destruct (mem q (stopped x)); discriminate. Qed.
Lemma answers_kill0_dead x q : answers Kill0 (pstate_of x q) = negb (mem q (dead (base x))).
Proof.
  destruct (mem q (dead (base x))) eqn:D; [rewrite (pstate_gone x q D); reflexivity|].
  apply pstate_not_gone in D. rewrite answers_kill0. destruct (pstate_of x q); try reflexivity. congruence.
Qed.
Lemma test_x_kill0 x p : test_x Kill0 x p = step (base x) (Test p).
Proof.
  unfold test_x. cbn [step]. destruct (lockf (base x)) as [[q|]|]; try reflexivity.
  rewrite answers_kill0_dead. destruct (mem q (dead (base x))); reflexivity.
Qed.
(* the code's liveness test does not see who is stopped or unreaped: the open is the open of the protocol above *)
Lemma open_x_kill0 x p :
  open_x Kill0 x p = (mkx (fst (open_atomic (base x) p)) (stopped x) (zombies x), snd (open_atomic (base x) p)).
Proof.
  unfold open_x, open_atomic. rewrite test_x_kill0. destruct (step (base x) (Test p)) as [s1 o]. destruct o; reflexivity.
Qed.

(* a holder that is not gone — running, stopped, or even an unreaped zombie — has every open refused, naming it,
   and nothing changes *)
Lemma not_gone_refused x p q : lockf (base x) = Some (LPid q) -> mem q (dead (base x)) = false -> open_x Kill0 x p = (x, Refused q).
Proof. intros L D. rewrite open_x_kill0, (refuse_open (base x) p q L D). destruct x; reflexivity. Qed.
Lemma pstate_stopped_alive x q : pstate_of x q = PStopped -> mem q (dead (base x)) = false.
Proof. unfold pstate_of. destruct (mem q (dead (base x))); [discriminate|reflexivity]. Qed.
Lemma stopped_refused x p q : lockf (base x) = Some (LPid q) -> pstate_of x q = PStopped ->
  lives (pstate_of x q) = true /\ open_x Kill0 x p = (x, Refused q).
Proof. intros L S. split; [rewrite S; reflexivity|]. apply not_gone_refused; auto. now apply pstate_stopped_alive. Qed.

(* any schedule: the others open, close, fail, are killed, crash inside their open; anybody — the holder too — is
   stopped and continued any number of times *)
Inductive xev := XA (e : aev) | XStop (p : nat) | XCont (p : nat).
Definition xstep (x : xst) (e : xev) : xst :=
  match e with
  | XA a => mkx (astep (base x) a) (stopped x) (zombies x)       (* (AOpen under Kill0 = open_atomic on the base: open_x_kill0) *)
  | XStop p => mkx (base x) (p :: stopped x) (zombies x)
  | XCont p => mkx (base x) (rm p (stopped x)) (zombies x)
  end.
Fixpoint xrun (x : xst) (es : list xev) : xst := match es with [] => x | e :: t => xrun (xstep x e) t end.
Fixpoint proj (es : list xev) : list aev := match es with [] => [] | XA a :: t => a :: proj t | _ :: t => proj t end.
Lemma base_xrun es : forall x, base (xrun x es) = arun (base x) (proj es).
Proof. induction es as [|e t IH]; intros x; cbn; auto. destruct e; rewrite IH; reflexivity. Qed.
Lemma xstep_open_is_open_x x p : xstep x (XA (AOpen p)) = fst (open_x Kill0 x p).
Proof. rewrite open_x_kill0. reflexivity. Qed.
Lemma In_proj a es : In a (proj es) -> In (XA a) es.
Proof. induction es as [|e t IH]; cbn; [tauto|]. destruct e; cbn; intros H; auto. destruct H as [<-|H]; auto. Qed.

Lemma live_stays_alive es : forall s q, inv s -> aoks s es = true -> lockf s = Some (LPid q) -> mem q (dead s) = false ->
  (forall e, In e es -> actor e <> q) -> mem q (dead (arun s es)) = false.
Proof.
  induction es as [|e t IH]; intros s q I A L D N; cbn in *; auto.
  apply andb_true_iff in A as [A1 A2].
  assert (D1 : mem q (dead (astep s e)) = false).
  { destruct (mem q (dead (astep s e))) eqn:M; auto. apply dead_astep in M as [M|M]; [|congruence]. exfalso. apply (N e); auto. }
  apply IH; auto. now apply inv_astep. apply (live_lock_step s e q); auto.
Qed.
Lemma stopped_lock_stays es x q : inv (base x) -> aoks (base x) (proj es) = true ->
  lockf (base x) = Some (LPid q) -> mem q (dead (base x)) = false ->
  (forall a, In (XA a) es -> actor a <> q) ->
  let x' := xrun x es in
  lockf (base x') = Some (LPid q) /\ mem q (dead (base x')) = false /\ forall p, open_x Kill0 x' p = (x', Refused q).
Proof.
  intros I A L D N x'. subst x'.
  assert (N' : forall e, In e (proj es) -> actor e <> q) by (intros e He; apply N; now apply In_proj).
  assert (L' : lockf (base (xrun x es)) = Some (LPid q)) by (rewrite base_xrun; apply live_lock_run; auto).
  assert (D' : mem q (dead (base (xrun x es))) = false) by (rewrite base_xrun; apply live_stays_alive; auto).
  split; [exact L'|]. split; [exact D'|]. intros p. now apply not_gone_refused.
Qed.

(* "alive = in state R, S or D": the holder, stopped (ctrl-z), is alive and holds; process 2 is let in next to it *)
Lemma statRSD_refuted : exists x, inv (base x) /\ In 1 (holders (base x)) /\ lockf (base x) = Some (LPid 1) /\
  pstate_of x 1 = PStopped /\ lives (pstate_of x 1) = true /\
  snd (open_x StatRSD x 2) = Granted /\ lockf (base (fst (open_x StatRSD x 2))) = Some (LPid 2) /\
  holders (base (fst (open_x StatRSD x 2))) = [2; 1] /\ dead (base (fst (open_x StatRSD x 2))) = [].
Proof.
  exists (xstep (mkx (fst (open_atomic st0 1)) [] []) (XStop 1)). split; [apply (inv_held [] 1); reflexivity|].
  vm_compute. repeat split; auto.
Qed.
(* ... which no schedule without a suspended or unreaped process can show: there the readings coincide *)
Lemma readings_blind r x p : stopped x = [] -> zombies x = [] -> open_x r x p = open_x Kill0 x p.
Proof.
  intros S Z. unfold open_x, test_x. destruct (lockf (base x)) as [[q|]|]; try reflexivity.
  unfold pstate_of. rewrite S, Z, !mem_nil. destruct (mem q (dead (base x))); destruct r; reflexivity.
Qed.
(* the test the seed was after — exists and is not a zombie — keeps a stopped or running holder protected ... *)
Lemma notzombie_protects x p q : lockf (base x) = Some (LPid q) -> lives (pstate_of x q) = true -> open_x NotZombie x p = (x, Refused q).
Proof.
  intros L A. unfold open_x, test_x. rewrite L. destruct (pstate_of x q); try discriminate; cbn; destruct x; reflexivity.
Qed.

(* What the code does with an unreaped holder: 1 held and was killed, its parent has not collected it. Nobody holds
   the cache, and still the open is refused — until the parent reaps: then the lock is stale and the open succeeds. *)
Lemma zombie_blocks_refuted : exists x, inv (base x) /\ holders (base x) = [] /\ lockf (base x) = Some (LPid 1) /\
  pstate_of x 1 = PZombie /\ lives (pstate_of x 1) = false /\
  open_x Kill0 x 2 = (x, Refused 1) /\
  snd (open_x NotZombie x 2) = Granted /\
  snd (open_x Kill0 (xreap x 1) 2) = Granted /\ holders (base (fst (open_x Kill0 (xreap x 1) 2))) = [2].
Proof.
  exists (xexit (mkx (fst (open_atomic st0 1)) [] []) 1). split; [apply inv_free|]. vm_compute. repeat split; auto.
Qed.
