(* The session-level invariant: what is true of every state of every session (Sync.sstep), on top of the
   commit-level invariant World.inv:
     - every replica has at most one local head per entity;
     - every local / tracking / remote ref maps an entity e to a commit of the store that belongs to e;
     - the keys of every ref map are pairwise distinct (the maps are strictly sorted by key);
     - every ref heads a history that read accepts.
   Also the lookup lemmas for the ref-map operations of Sync (aoverride, aremove, set_nth). *)
From Coq Require Import List Arith NArith Lia Bool Sorting.Sorted.
Import ListNotations.
From GB Require Import Reach Sort Read Good Snoc World Sync SyncProps Locals KMap SyncFrame.
Local Open Scope N_scope.

(* ---------------- ref maps ---------------- *)
Lemma ksorted_NoDup_keys (m : amap) : ksorted m -> NoDup (map fst m).
Proof. unfold ksorted. induction 1 as [|p t S IH F]; cbn [map]; [constructor|]. constructor; [|exact IH].
  intros Hin. apply in_map_iff in Hin as (q & E & Hq). rewrite Forall_forall in F. specialize (F q Hq). unfold klt in F. lia. Qed.

Lemma alookup_notin e (m : amap) : ~ In e (map fst m) -> alookup e m = None.
Proof. induction m as [|[k v] t IH]; intros H; [reflexivity|]. rewrite alookup_cons. cbn [map fst] in H.
  destruct (Nat.eqb_spec k e) as [->|Hne]; [exfalso; apply H; now left|]. apply IH. intros Hin. apply H. now right. Qed.

Lemma alookup_In e h (m : amap) : alookup e m = Some h -> In (e, h) m.
Proof. apply kget_In. Qed.

Lemma In_alookup e h (m : amap) : NoDup (map fst m) -> In (e, h) m -> alookup e m = Some h.
Proof. induction m as [|[k v] t IH]; intros ND Hin; [destruct Hin|]. cbn [map fst] in ND. inversion ND as [|? ? Hk ND']; subst.
  rewrite alookup_cons. destruct Hin as [E|Hin].
  - inversion E; subst. now rewrite Nat.eqb_refl.
  - destruct (Nat.eqb_spec k e) as [->|Hne]; [|now apply IH]. exfalso. apply Hk. change e with (fst (e, h)). now apply in_map. Qed.

Lemma alookup_keys e (m : amap) : alookup e m <> None <-> In e (map fst m).
Proof. split.
  - intros H. destruct (in_dec Nat.eq_dec e (map fst m)) as [Hin|Hn]; [exact Hin|]. now apply alookup_notin in Hn.
  - intros Hin E. apply (kget_None_notin e m E). exact Hin. Qed.

(* inserting all bindings of upd, left to right *)
Definition ins_all (upd acc : amap) : amap := fold_left (fun acc p => ainsert (fst p) (snd p) acc) upd acc.

Lemma aoverride_ins_all base upd : aoverride base upd = ins_all upd (asort base).
Proof. reflexivity. Qed.

Lemma alookup_ins_all upd : NoDup (map fst upd) -> forall acc e,
  alookup e (ins_all upd acc) = match alookup e upd with Some h => Some h | None => alookup e acc end.
Proof. induction upd as [|[k v] t IH]; intros ND acc e; [reflexivity|]. cbn [map fst] in ND. inversion ND as [|? ? Hk ND']; subst.
  unfold ins_all. cbn [fold_left fst snd]. fold (ins_all t (ainsert k v acc)). rewrite (IH ND'), alookup_cons, alookup_ainsert.
  destruct (Nat.eqb_spec k e) as [->|Hne].
  - rewrite (alookup_notin e t Hk), Nat.eqb_refl. reflexivity.
  - destruct (Nat.eqb_spec e k); [congruence|reflexivity]. Qed.

Lemma ksorted_ins_all upd : forall acc, ksorted acc -> ksorted (ins_all upd acc).
Proof. induction upd as [|[k v] t IH]; intros acc S; [exact S|]. unfold ins_all. cbn [fold_left fst snd]. fold (ins_all t (ainsert k v acc)).
  apply IH. rewrite ainsert_kins. now apply ksorted_kins. Qed.

(* the map produced by a push or a fetch: the update wins, everything else is kept *)
Lemma alookup_aoverride base upd e : NoDup (map fst upd) ->
  alookup e (aoverride base upd) = match alookup e upd with Some h => Some h | None => alookup e base end.
Proof. intros ND. rewrite aoverride_ins_all, (alookup_ins_all upd ND), alookup_asort. reflexivity. Qed.

Lemma ksorted_aoverride base upd : ksorted (aoverride base upd).
Proof. rewrite aoverride_ins_all. apply ksorted_ins_all, ksorted_asort. Qed.

Lemma alookup_aremove e' e (m : amap) : alookup e' (aremove e m) = if Nat.eqb e' e then None else alookup e' m.
Proof. apply (kget_kdel e' e m). Qed.

Lemma ksorted_aremove e (m : amap) : ksorted m -> ksorted (aremove e m).
Proof. apply ksorted_kdel. Qed.

Lemma ksorted_locals w r : ksorted (locals w r).
Proof. apply ksorted_asort. Qed.

Lemma NoDup_keys_locals w r : NoDup (map fst (locals w r)).
Proof. apply ksorted_NoDup_keys, ksorted_locals. Qed.

(* two sorted ref maps are equal as soon as they agree on every entity *)
Lemma amap_ext (m1 m2 : amap) : ksorted m1 -> ksorted m2 -> (forall e, alookup e m1 = alookup e m2) -> m1 = m2.
Proof. apply ksorted_ext. Qed.

(* ---------------- set_nth / nth ---------------- *)
Lemma nth_nth_error {A} (l : list A) n d : nth n l d = match nth_error l n with Some x => x | None => d end.
Proof. revert n. induction l as [|x t IH]; intros [|n]; cbn; auto. Qed.

Lemma nth_set_nth_same {A} r (x d : A) l : (r < length l)%nat -> nth r (set_nth r x l) d = x.
Proof. intros L. rewrite nth_nth_error. destruct (nth_error l r) as [y|] eqn:E; [|apply nth_error_None in E; lia].
  now rewrite (nth_error_set_nth_same r x l y E). Qed.

Lemma nth_set_nth_other {A} r r' (x d : A) l : r' <> r -> (r < length l)%nat -> nth r' (set_nth r x l) d = nth r' l d.
Proof. intros Hne L. rewrite !nth_nth_error, nth_error_set_nth_other; auto. Qed.

Lemma length_set_nth_ge {A} r (x : A) l : (length l <= length (set_nth r x l))%nat.
Proof. unfold set_nth. rewrite app_length. cbn [length]. rewrite firstn_length, skipn_length. lia. Qed.

(* ---------------- the commit-level steps keep the number of replicas ---------------- *)
Lemma step_len_reps w a w' : step w a = Some w' -> length (reps w') = length (reps w).
Proof. destruct a; cbn [step]; destruct (nth_error (reps w) r) as [rp|] eqn:Er; try discriminate;
  assert (L : (r < length (reps w))%nat) by (apply nth_error_Some; congruence);
  repeat match goal with |- context [if ?b then _ else _] => destruct b end; try discriminate;
  intros H; inversion H; cbn [reps]; now apply length_set_nth. Qed.

Lemma run_len_reps acts : forall w w', run w acts = Some w' -> length (reps w') = length (reps w).
Proof. induction acts as [|a t IH]; intros w w' H; cbn [run] in H; [now inversion H|].
  destruct (step w a) as [w1|] eqn:E; [|discriminate]. rewrite (IH _ _ H). exact (step_len_reps _ _ _ E). Qed.

Lemma run_budget acts : forall w w', run w acts = Some w' -> budget w' <= budget w + N.of_nat (length acts).
Proof. induction acts as [|a t IH]; intros w w' H; cbn [run] in H; [inversion H; subst; cbn; lia|].
  destruct (step w a) as [w1|] eqn:E; [|discriminate]. pose proof (IH _ _ H). pose proof (budget_step _ _ _ E). cbn [length]. lia. Qed.

Lemma sstep_budget sw ev sw' o : sstep sw ev = Some (sw', o) -> budget (ww sw') <= budget (ww sw) + N.of_nat (cost ev).
Proof. intros H. destruct (sstep_runs _ _ _ _ H) as (acts & R & L). pose proof (run_budget _ _ _ R). lia. Qed.

(* ---------------- the invariant ---------------- *)
Record sinv (sw : sworld) : Prop := {
  si_inv : inv (ww sw);                                           (* World.inv: good store, clocks dominate *)
  si_wi  : WI sw;                                                 (* one head per entity; refs point into the store, key = entity *)
  si_trk : forall m, In m (tracks sw) -> ksorted m;               (* distinct keys *)
  si_rem : ksorted (remote sw);
  si_len : (length (reps (ww sw)) <= length (tracks sw))%nat }.   (* every replica has a tracking map *)

Lemma sinv_sw0 n : sinv (sw0 n).
Proof. split; cbn [sw0 ww tracks remote].
  - apply inv_w0.
  - apply WI_sw0.
  - intros m H. apply repeat_spec in H. subst. apply ksorted_nil.
  - apply ksorted_nil.
  - cbn. now rewrite !repeat_length. Qed.

Lemma sinv_WW sw : sinv sw -> WW (ww sw).
Proof. intros I. exact (wi_ww sw (si_wi sw I)). Qed.

Lemma sinv_wf sw : sinv sw -> wf_store (st (ww sw)).
Proof. intros I. exact (ww_wf _ (sinv_WW sw I)). Qed.

Lemma sinv_good sw : sinv sw -> good_store (st (ww sw)) (eidf (ww sw)).
Proof. intros I. exact (proj1 (si_inv sw I)). Qed.

Lemma sinv_valid sw h : sinv sw -> (h < length (st (ww sw)))%nat -> valid (st (ww sw)) h = true.
Proof. intros I H. eapply good_valid; [apply (sinv_good sw I)|exact H]. Qed.

Lemma sinv_track_sorted sw r : sinv sw -> ksorted (track_of sw r).
Proof. intros I. unfold track_of. destruct (nth_in_or_default r (tracks sw) []) as [H|H]; [now apply (si_trk sw I)|rewrite H; apply ksorted_nil]. Qed.

(* -- the content of the invariant, in the terms of the session model -- *)
Theorem sinv_one_head sw r : sinv sw -> one_head_per_entity (ww sw) r.
Proof. intros I. apply rep_of_nodup, (sinv_WW sw I). Qed.

Theorem sinv_local_ref sw r e h : sinv sw -> alookup e (locals (ww sw) r) = Some h ->
  (h < length (st (ww sw)))%nat /\ eidf (ww sw) h = e /\ In h (heads (rep_of (ww sw) r)) /\ valid (st (ww sw)) h = true.
Proof. intros I H. apply (locals_spec _ _ _ _ (sinv_one_head sw r I)) in H as [Hin E].
  pose proof (rep_of_heads_lt _ _ _ (sinv_WW sw I) Hin) as L. repeat split; auto. now apply sinv_valid. Qed.

Theorem sinv_track_ref sw r e t : sinv sw -> alookup e (track_of sw r) = Some t ->
  (t < length (st (ww sw)))%nat /\ eidf (ww sw) t = e /\ valid (st (ww sw)) t = true.
Proof. intros I H. destruct (track_of_ok sw r (si_wi sw I) e t (alookup_In _ _ _ H)) as [L E]. repeat split; auto. now apply sinv_valid. Qed.

Theorem sinv_remote_ref sw e t : sinv sw -> alookup e (remote sw) = Some t ->
  (t < length (st (ww sw)))%nat /\ eidf (ww sw) t = e /\ valid (st (ww sw)) t = true.
Proof. intros I H. destruct (wi_rem sw (si_wi sw I) e t (alookup_In _ _ _ H)) as [L E]. repeat split; auto. now apply sinv_valid. Qed.

Theorem sinv_keys_distinct sw r : sinv sw ->
  NoDup (map fst (locals (ww sw) r)) /\ NoDup (map fst (track_of sw r)) /\ NoDup (map fst (remote sw)).
Proof. intros I. split; [apply NoDup_keys_locals|]. split; apply ksorted_NoDup_keys; [now apply sinv_track_sorted|apply (si_rem sw I)]. Qed.

(* ---------------- preservation ---------------- *)
Lemma commit_packs_WI ps : forall sw r h w', WI sw -> commit_packs (ww sw) r h ps = Some w' -> WI (with_ww sw w').
Proof. induction ps as [|[id au ops] t IH]; intros sw r h w' W H; cbn [commit_packs] in H.
  - inversion H; subst. now rewrite with_ww_id.
  - destruct h as [h'|].
    + destruct (step (ww sw) (AEdit r h' id au ops)) as [w1|] eqn:E; [|discriminate].
      pose proof (WI_step sw (AEdit r h' id au ops) w1 W I E) as W1. exact (IH (with_ww sw w1) r _ w' W1 H).
    + destruct (step (ww sw) (ACreate r id au ops)) as [w1|] eqn:E; [|discriminate].
      pose proof (WI_step sw (ACreate r id au ops) w1 W I E) as W1. exact (IH (with_ww sw w1) r _ w' W1 H). Qed.

Lemma sstep_WI sw ev sw' o : WI sw -> sstep sw ev = Some (sw', o) -> WI sw'.
Proof. intros W H.
  destruct ev as [r tgt ps|r e|r|r|r e mid mau|r e|r lost];
    [ | | exact (proj1 (sstep_frame sw (EPush r) sw' o W I H)) | exact (proj1 (sstep_frame sw (EFetch r) sw' o W I H))
    | exact (proj1 (sstep_frame sw (EMerge r e mid mau) sw' o W I H)) | exact (proj1 (sstep_frame sw (ERemove r e) sw' o W I H)) | ];
    cbn [sstep] in H.
  - (* commit, any number of packs *)
    destruct tgt as [e|].
    + destruct (alookup e (locals (ww sw) r)) as [h|]; [|inversion H; subst; exact W].
      destruct (negb (valid (st (ww sw)) h)); [inversion H; subst; exact W|].
      destruct ps as [|p t]; [inversion H; subst; exact W|].
      destruct (step (ww sw) (AWitness r h)) as [w1|] eqn:E1; [|discriminate].
      destruct (commit_packs w1 r (Some h) (p :: t)) as [w'|] eqn:E2; [|discriminate]. inversion H; subst.
      pose proof (WI_step sw (AWitness r h) w1 W I E1) as W1. exact (commit_packs_WI _ (with_ww sw w1) r _ w' W1 E2).
    + destruct ps as [|p t]; [inversion H; subst; exact W|].
      destruct (commit_packs (ww sw) r None (p :: t)) as [w'|] eqn:E2; [|discriminate]. inversion H; subst.
      exact (commit_packs_WI _ sw r _ w' W E2).
  - (* read *)
    destruct (alookup e (locals (ww sw) r)) as [h|]; [|inversion H; subst; exact W].
    destruct (negb (valid (st (ww sw)) h)); [inversion H; subst; exact W|].
    destruct (step (ww sw) (AWitness r h)) as [w1|] eqn:E1; [|discriminate]. inversion H; subst.
    exact (WI_step sw (AWitness r h) w1 W I E1).
  - (* reopen *)
    destruct lost; [|inversion H; subst; exact W].
    destruct (step (ww sw) (AResetClock r)) as [w1|] eqn:E1; [|discriminate]. inversion H; subst.
    exact (WI_step sw (AResetClock r) w1 W I E1).
Qed.

(* how an event changes the tracking maps and the remote *)
Lemma sstep_maps sw ev sw' o : sstep sw ev = Some (sw', o) ->
  (tracks sw' = tracks sw /\ remote sw' = remote sw) \/
  (exists r m, tracks sw' = set_nth r m (tracks sw) /\
     (m = aoverride (track_of sw r) (locals (ww sw) r) \/ m = aoverride (track_of sw r) (remote sw) \/ exists e, m = aremove e (track_of sw r)) /\
     (remote sw' = remote sw \/ remote sw' = aoverride (remote sw) (locals (ww sw) r))).
Proof. intros H. destruct ev as [r tgt ps|r e|r|r|r e mid mau|r e|r lost]; cbn [sstep] in H.
  - left. destruct tgt as [e|].
    + destruct (alookup e (locals (ww sw) r)) as [h|]; [|inversion H; subst; auto].
      destruct (negb (valid (st (ww sw)) h)); [inversion H; subst; auto|].
      destruct ps as [|p t]; [inversion H; subst; auto|].
      destruct (step (ww sw) (AWitness r h)) as [w1|]; [|discriminate].
      destruct (commit_packs w1 r (Some h) (p :: t)) as [w'|]; [|discriminate]. inversion H; subst. auto.
    + destruct ps as [|p t]; [inversion H; subst; auto|].
      destruct (commit_packs (ww sw) r None (p :: t)) as [w'|]; [|discriminate]. inversion H; subst. auto.
  - left. destruct (alookup e (locals (ww sw) r)) as [h|]; [|inversion H; subst; auto].
    destruct (negb (valid (st (ww sw)) h)); [inversion H; subst; auto|].
    destruct (step (ww sw) (AWitness r h)) as [w1|]; [|discriminate]. inversion H; subst. auto.
  - destruct (push_ok _ _ _); inversion H; subst; [|left; auto]. right. exists r, (aoverride (track_of sw r) (locals (ww sw) r)). cbn. auto.
  - inversion H; subst. right. exists r, (aoverride (track_of sw r) (remote sw)). cbn. auto.
  - left. destruct (alookup e (track_of sw r)) as [t|]; [|inversion H; subst; auto].
    destruct (negb (valid (st (ww sw)) t)); [inversion H; subst; auto|].
    destruct (step (ww sw) (AWitness r t)) as [w1|]; [|discriminate].
    destruct (alookup e (locals (ww sw) r)) as [h|].
    + destruct (Nat.eqb h t); [inversion H; subst; auto|].
      destruct (is_anc (st (ww sw)) t h); [inversion H; subst; auto|].
      destruct (is_anc (st (ww sw)) h t).
      * destruct (step w1 (AFF r h t)) as [w2|]; [|discriminate]. inversion H; subst. auto.
      * destruct (step w1 (AWitness r h)) as [w2|]; [|discriminate].
        destruct (step w2 (AMerge r h t mid mau)) as [w3|]; [|discriminate]. inversion H; subst. auto.
    + destruct (step w1 (AAdopt r t)) as [w2|]; [|discriminate]. inversion H; subst. auto.
  - right. exists r, (aremove e (track_of sw r)). destruct (alookup e (locals (ww sw) r)) as [h|].
    + destruct (step (ww sw) (ARemove r h)) as [w1|]; [|discriminate]. inversion H; subst. cbn. (split; [reflexivity|split; [right; right; now exists e|now left]]).
    + inversion H; subst. cbn. (split; [reflexivity|split; [right; right; now exists e|now left]]).
  - left. destruct lost; [|inversion H; subst; auto].
    destruct (step (ww sw) (AResetClock r)) as [w1|]; [|discriminate]. inversion H; subst. auto.
Qed.

Theorem sstep_sinv sw ev sw' o : sinv sw -> budget (ww sw) + N.of_nat (cost ev) + 1 <= jump_limit ->
  sstep sw ev = Some (sw', o) -> sinv sw'.
Proof. intros I B H. destruct (sstep_runs _ _ _ _ H) as (acts & R & L).
  assert (Hr : length (reps (ww sw')) = length (reps (ww sw))) by exact (run_len_reps _ _ _ R).
  split.
  - eapply run_inv; [apply (si_inv sw I)| |exact R]. lia.
  - exact (sstep_WI _ _ _ _ (si_wi sw I) H).
  - destruct (sstep_maps _ _ _ _ H) as [[E _]|(r & m & E & Hm & _)]; rewrite E; [apply (si_trk sw I)|].
    intros m' Hin. apply In_set_nth in Hin as [->|Hin]; [|now apply (si_trk sw I)].
    destruct Hm as [->|[->|(e & ->)]]; [apply ksorted_aoverride|apply ksorted_aoverride|].
    apply ksorted_aremove. now apply sinv_track_sorted.
  - destruct (sstep_maps _ _ _ _ H) as [[_ E]|(r & m & _ & _ & [E|E])]; rewrite E; try apply (si_rem sw I). apply ksorted_aoverride.
  - rewrite Hr. pose proof (si_len sw I). destruct (sstep_maps _ _ _ _ H) as [[E _]|(r & m & E & _)]; rewrite E; [exact H0|].
    pose proof (length_set_nth_ge r m (tracks sw)). lia.
Qed.
Print Assumptions sstep_sinv.

Theorem srun_sinv evs : forall sw sw', sinv sw -> budget (ww sw) + N.of_nat (total_cost evs) + 1 <= jump_limit ->
  srun sw evs = Some sw' -> sinv sw'.
Proof. induction evs as [|ev t IH]; intros sw sw' I B H; cbn [srun] in H; [now inversion H; subst|].
  destruct (sstep sw ev) as [[sw1 o]|] eqn:E; [|discriminate]. cbn [total_cost fold_right] in B. fold (total_cost t) in B.
  apply (IH sw1 sw'); [eapply sstep_sinv; [exact I| |exact E]; lia| |exact H].
  pose proof (sstep_budget _ _ _ _ E). lia. Qed.
Print Assumptions srun_sinv.

(* every state of every session satisfies the invariant *)
Theorem session_sinv n evs sw : srun (sw0 n) evs = Some sw -> N.of_nat (total_cost evs) + 1 <= jump_limit -> sinv sw.
Proof. intros H B. eapply srun_sinv; [apply sinv_sw0| |exact H]. cbn. lia. Qed.
Print Assumptions session_sinv.
