From Coq Require Import List Arith NArith Lia Bool Sorting.Sorted Sorting.Permutation.
Import ListNotations.
Local Open Scope N_scope.

From GB Require Import Reach.

(* key order *)
Definition key_le (a b : pack) : bool :=
  if N.eqb (p_edit a) (p_edit b) then N.leb (p_id a) (p_id b) else N.ltb (p_edit a) (p_edit b).

Fixpoint insert (x : pack) (l : list pack) : list pack :=
  match l with
  | [] => [x]
  | y :: t => if key_le x y then x :: l else y :: insert x t
  end.
Definition isort (l : list pack) := fold_right insert [] l.

Definition key_eq (a b : pack) := p_edit a = p_edit b /\ p_id a = p_id b.

Lemma key_le_total a b : key_le a b = true \/ key_le b a = true.
Proof. unfold key_le. rewrite (N.eqb_sym (p_edit b)). destruct (N.eqb_spec (p_edit a) (p_edit b)); [destruct (N.leb_spec (p_id a) (p_id b)), (N.leb_spec (p_id b) (p_id a)); auto; lia|].
  destruct (N.ltb_spec (p_edit a) (p_edit b)), (N.ltb_spec (p_edit b) (p_edit a)); auto; lia. Qed.

Lemma key_le_trans a b c : key_le a b = true -> key_le b c = true -> key_le a c = true.
Proof. unfold key_le.
  destruct (N.eqb_spec (p_edit a) (p_edit b)), (N.eqb_spec (p_edit b) (p_edit c)), (N.eqb_spec (p_edit a) (p_edit c));
  rewrite ?N.leb_le, ?N.ltb_lt; lia. Qed.

Lemma key_le_antisym a b : key_le a b = true -> key_le b a = true -> key_eq a b.
Proof. unfold key_le, key_eq. rewrite (N.eqb_sym (p_edit b)).
  destruct (N.eqb_spec (p_edit a) (p_edit b)); rewrite ?N.leb_le, ?N.ltb_lt; lia. Qed.

Definition sorted := Sorted (fun a b => key_le a b = true).

Lemma insert_perm x l : Permutation (x :: l) (insert x l).
Proof. induction l as [|y t IH]; cbn; [reflexivity|]. destruct (key_le x y); [reflexivity|].
  rewrite perm_swap. now constructor. Qed.

Lemma isort_perm l : Permutation l (isort l).
Proof. induction l as [|x t IH]; cbn; [constructor|]. rewrite <- insert_perm. now constructor. Qed.

Lemma insert_sorted x l : sorted l -> sorted (insert x l).
Proof. induction 1 as [|y t Hs IH Hh]; cbn; [repeat constructor|].
  destruct (key_le x y) eqn:E.
  - constructor; [now constructor|now constructor].
  - constructor; [exact IH|]. destruct (key_le_total x y) as [H|H]; [congruence|].
    destruct t as [|z t']; cbn; [now constructor|]. destruct (key_le x z); constructor; auto. now inversion Hh. Qed.

Lemma isort_sorted l : sorted (isort l).
Proof. induction l; cbn; [constructor|]. now apply insert_sorted. Qed.

(* uniqueness: sorted permutations with keys determining content are equal *)
Definition key_inj (l : list pack) := forall a b, In a l -> In b l -> key_eq a b -> a = b.

Lemma sorted_hd_min x l : sorted (x :: l) -> forall y, In y l -> key_le x y = true.
Proof. intros H. apply Sorted_StronglySorted in H; [|intros a b c; apply key_le_trans].
  inversion H as [|? ? _ Hall]; subst. rewrite Forall_forall in Hall. auto. Qed.

Lemma sorted_perm_unique l1 : forall l2, sorted l1 -> sorted l2 -> Permutation l1 l2 -> key_inj l1 -> l1 = l2.
Proof. induction l1 as [|x t IH]; intros l2 H1 H2 HP Hinj.
  - apply Permutation_nil in HP. now subst.
  - destruct l2 as [|y u]; [apply Permutation_sym, Permutation_nil in HP; discriminate|].
    assert (x = y) as ->.
    { assert (In y (x :: t)) as Hy by (eapply Permutation_in; [symmetry; exact HP|now left]).
      assert (In x (y :: u)) as Hx by (eapply Permutation_in; [exact HP|now left]).
      destruct Hy as [->|Hy]; [reflexivity|]. destruct Hx as [->|Hx]; [reflexivity|].
      apply Hinj; [now left|now right|]. apply key_le_antisym; [eapply sorted_hd_min; eauto|eapply sorted_hd_min; eauto]. }
    f_equal. apply IH; [now inversion H1|now inversion H2|eapply Permutation_cons_inv; eauto|].
    intros a b Ha Hb. apply Hinj; now right. Qed.

Theorem isort_order_independent l1 l2 : Permutation l1 l2 -> key_inj l1 -> isort l1 = isort l2.
Proof. intros HP Hinj. apply sorted_perm_unique; try apply isort_sorted.
  - rewrite <- (isort_perm l1), <- (isort_perm l2). exact HP.
  - intros a b Ha Hb. apply Hinj; eapply Permutation_in; try (symmetry; apply isort_perm); auto. Qed.
Print Assumptions isort_order_independent.
