(* C16 — correspondence (Import.run_round = bridge/gitlab importer behind core.Bridge.ImportAll, against a simulated GitLab)
   and the property evaluated on what the implementation did. *)
From Coq Require Import List Arith NArith Bool.
Import ListNotations.
From GB Require Export Import.
Local Open Scope N_scope.

(* unicode.IsGraphic restricted to the harness alphabet (the harness re-validates this table, is_control and is_space
   against Go's unicode package on every run) *)
Definition graphic_tbl (r : N) : bool := negb (is_control r) && negb (memN r [173; 8203; 8206; 8207; 8232; 8233; 65279]).
(* the repaired importer; whether the simulated GitLab sends X-Total-Pages is part of the case *)
Definition cfg_of (totals : bool) : cfg := fixed graphic_tbl totals.
(* for the text rules only (validity of operations and identities), which do not depend on the paging *)
Definition the_cfg : cfg := cfg_of true.

(* ---- what is observed of one import run ---- *)
Record robs := mkrobs { r_res : list res;              (* ImportResult stream without the error results *)
                        r_nerr : nat;                   (* number of error results *)
                        r_stored : bool;                (* the run stored the cursor *)
                        r_idents : list N;              (* gitlab ids of the identities created by the run *)
                        r_delta : list (N * list op);   (* per bug (gitlab iid): operations appended by the run *)
                        r_reqs : list req;              (* set of requests received by the simulated GitLab *)
                        r_invalid : nat }.              (* appended operations on which the real Validate() fails *)
Record fexp := mkfexp { f_round : nat; f_req : req; f_fault : robs; f_recover : robs }.
Record round := mkround { rd_snap : nat; rd_full : bool; rd_now : N }.
Record case := mkcase { c_page : nat; c_snaps : list tracker; c_rounds : list round;
                        c_clean : list robs;            (* one observation per round, no failure injected *)
                        c_faults : list fexp;           (* rounds < f_round clean, round f_round with f_req failing, then the same round again *)
                        c_sends_totals : bool;          (* the simulated GitLab sends X-Total and X-Total-Pages *)
                        c_stable : bool }.              (* operations already stored were never changed; replaying the prefix gave the same observations *)

(* ---- equality tests ---- *)
Definition opt_eqb {A} (f : A -> A -> bool) (a b : option A) : bool :=
  match a, b with Some x, Some y => f x y | None, None => true | _, _ => false end.
Definition opk_eqb (a b : opk) : bool :=
  match a, b with
  | OCreate t m, OCreate t' m' => text_eqb t t' && text_eqb m m'
  | OComment m, OComment m' => text_eqb m m'
  | OEdit p m, OEdit p' m' => Nat.eqb p p' && text_eqb m m'
  | OTitle t w, OTitle t' w' => text_eqb t t' && text_eqb w w'
  | OStatus x, OStatus y => Bool.eqb x y
  | OLabel x n, OLabel y n' => Bool.eqb x y && text_eqb n n'
  | _, _ => false
  end.
Definition op_eqb (a b : op) : bool :=
  opt_eqb N.eqb (o_gid a) (o_gid b) && (o_author a =? o_author b) && (o_time a =? o_time b) && opk_eqb (o_k a) (o_k b).
Fixpoint list_eqb {A} (f : A -> A -> bool) (a b : list A) : bool :=
  match a, b with [] , [] => true | x :: a', y :: b' => f x y && list_eqb f a' b' | _, _ => false end.
Definition res_eqb (a b : res) : bool :=
  match a, b with
  | RBug x, RBug y | RIdent x, RIdent y | RComment x, RComment y | RCommentEdit x, RCommentEdit y
  | RStatus x, RStatus y | RTitle x, RTitle y | RNothing x, RNothing y => x =? y
  | RError, RError => true
  | _, _ => false
  end.
Definition subset {A} (f : A -> A -> bool) (a b : list A) : bool := forallb (fun x => existsb (f x) b) a.
Definition set_eqb {A} (f : A -> A -> bool) (a b : list A) : bool := subset f a b && subset f b a.
Definition count {A} (f : A -> A -> bool) (x : A) (l : list A) : nat := length (filter (f x) l).
Definition bag_eqb {A} (f : A -> A -> bool) (a b : list A) : bool :=
  Nat.eqb (length a) (length b) && forallb (fun x => Nat.eqb (count f x a) (count f x b)) a.

(* ---- from a model outcome to an observation ---- *)
Definition is_error (r : res) : bool := match r with RError => true | _ => false end.
Definition ops_of (iid : N) (bs : list bug) : list op := match find_bug iid bs with Some b => b_ops b | None => [] end.
Definition delta_of (before after : list bug) : list (N * list op) :=
  flat_map (fun b => let old := length (ops_of (b_iid b) before) in
                     let d := skipn old (b_ops b) in
                     match d with [] => [] | _ => [(b_iid b, d)] end) after.
Definition is_issues_req (q : req) : bool := match q with QIssues _ => true | _ => false end.

Definition obs_of (idents : list N) (bugs : list bug) (o : outcome) : robs :=
  mkrobs (filter (fun r => negb (is_error r)) (out_res o)) (length (filter is_error (out_res o))) (out_stored o)
         (filter (fun u => negb (memN u idents)) (out_idents o)) (delta_of bugs (out_bugs o)) (out_reqs o) 0.

Definition delta_eqb (a b : list (N * list op)) : bool :=
  set_eqb (fun x y => (fst x =? fst y) && list_eqb op_eqb (snd x) (snd y)) a b && Nat.eqb (length a) (length b).

(* completed = false: ImportAll returned in the middle of the listing; whether the listing goroutine had already asked for
   the next page is a race, so the issue-listing requests are then left out of the comparison *)
Definition robs_agree (completed : bool) (m i : robs) : bool :=
  list_eqb res_eqb (r_res m) (r_res i) && Nat.eqb (r_nerr m) (r_nerr i) && Bool.eqb (r_stored m) (r_stored i) &&
  set_eqb N.eqb (r_idents m) (r_idents i) && Nat.eqb (length (r_idents m)) (length (r_idents i)) &&
  delta_eqb (r_delta m) (r_delta i) &&
  (if completed then set_eqb req_eqb (r_reqs m) (r_reqs i)
   else set_eqb req_eqb (filter (fun q => negb (is_issues_req q)) (r_reqs m)) (filter (fun q => negb (is_issues_req q)) (r_reqs i))).

(* ---- the model on a whole case ---- *)
Definition mstate := (list N * list bug * option N)%type.
Definition empty_tracker : tracker := mktracker [] [].
Definition snap_of (c : case) (k : nat) : tracker := nth k (c_snaps c) empty_tracker.

Definition model_round (c : case) (rd : round) (fault : option req) (st : mstate) : outcome :=
  let '(idents, bugs, cur) := st in
  run_round (cfg_of (c_sends_totals c)) (snap_of c (rd_snap rd)) (c_page c) (rd_full rd) (rd_now rd) fault idents bugs cur.
Definition next_state (o : outcome) : mstate := (out_idents o, out_bugs o, out_cursor o).

(* states before each round (and after the last one), with the observations of the clean rounds *)
Fixpoint model_clean (c : case) (rds : list round) (st : mstate) : list (mstate * robs * bool) :=
  match rds with
  | [] => []
  | rd :: t => let o := model_round c rd None st in
               let '(idents, bugs, _) := st in
               (st, obs_of idents bugs o, out_completed o) :: model_clean c t (next_state o)
  end.

Definition clean_agrees (c : case) (mc : list (mstate * robs * bool)) : bool :=
  Nat.eqb (length mc) (length (c_clean c)) &&
  forallb (fun p => let '((_, m, completed), i) := p in robs_agree completed m i) (combine mc (c_clean c)).

Definition fault_agrees (c : case) (mc : list (mstate * robs * bool)) (f : fexp) : bool :=
  match nth_error mc (f_round f), nth_error (c_rounds c) (f_round f) with
  | Some (st, _, _), Some rd =>
      let o1 := model_round c rd (Some (f_req f)) st in
      let '(idents, bugs, _) := st in
      let st1 := next_state o1 in
      let o2 := model_round c rd None st1 in
      let '(idents1, bugs1, _) := st1 in
      robs_agree (out_completed o1) (obs_of idents bugs o1) (f_fault f) &&
      robs_agree (out_completed o2) (obs_of idents1 bugs1 o2) (f_recover f)
  | _, _ => false
  end.

Definition agrees (c : case) : bool :=
  let mc := model_clean c (c_rounds c) ([], [], None) in
  clean_agrees c mc && forallb (fault_agrees c mc) (c_faults c).

Fixpoint index_filter {A} (f : A -> bool) (i : nat) (l : list A) : list nat :=
  match l with [] => [] | x :: t => if f x then index_filter f (S i) t else i :: index_filter f (S i) t end.
Definition mismatches (cs : list case) : list nat := index_filter agrees 0 cs.

(* ------------------------------------------------------------------ the property, on the implementation's observations *)

(* the implementation's local state, rebuilt from the observed appended operations *)
Definition istate := (list N * list bug)%type.
Definition apply_delta (bs : list bug) (d : list (N * list op)) : list bug :=
  fold_left (fun acc x => put_bug (mkbug (fst x) (ops_of (fst x) acc ++ snd x)) acc) d bs.
Definition after_obs (st : istate) (o : robs) : istate := (fst st ++ r_idents o, apply_delta (snd st) (r_delta o)).
(* states before each clean round, then the final one *)
Fixpoint istates (st : istate) (os : list robs) : list istate :=
  match os with [] => [st] | o :: t => st :: istates (after_obs st o) t end.
(* the cursor in front of each clean round *)
Fixpoint icursors (cur : option N) (rds : list round) (os : list robs) : list (option N) :=
  match rds, os with
  | rd :: rt, o :: ot => cur :: icursors (if r_stored o then Some (rd_now rd - 5) else cur) rt ot
  | _, _ => [cur]
  end.

(* (1) every appended operation is valid: the real Validate() accepted it and its text satisfies the rules *)
Definition obs_valid (o : robs) : bool :=
  Nat.eqb (r_invalid o) 0 && forallb (fun d => forallb (op_valid the_cfg) (snd d)) (r_delta o).

(* (2) cursor: a run that relayed an error did not store the cursor *)
Definition obs_cursor (o : robs) : bool := negb (Nat.ltb 0 (r_nerr o)) || negb (r_stored o).

Definition obs_nothing_new (o : robs) : bool :=
  match r_delta o, r_idents o with [], [] => true | _, _ => false end.

(* (3) idempotent: a clean round on the tracker state of the previous clean round adds nothing *)
Fixpoint idempotent_ok (rds : list round) (os : list robs) (prev : option nat) : bool :=
  match rds, os with
  | rd :: rt, o :: ot =>
      (match prev with Some k => if Nat.eqb k (rd_snap rd) then obs_nothing_new o else true | None => true end) &&
      idempotent_ok rt ot (Some (rd_snap rd))
  | _, _ => true
  end.

(* (4) incremental *)
Definition find_issue (iid : N) (t : tracker) : option issue :=
  find (fun i => i_iid i =? iid) (t_issues t).
Definition notes_of (i : option issue) := match i with Some x => i_notes x | None => [] end.
Definition labels_of (i : option issue) := match i with Some x => i_labels x | None => [] end.
Definition states_of (i : option issue) := match i with Some x => i_states x | None => [] end.

Definition kclass (k : evkind) : option N :=
  match k with KComment => Some 1 | KTitle => Some 2 | KClosed => Some 3 | KReopened => Some 4
             | KAddLabel => Some 5 | KRemoveLabel => Some 6 | _ => None end.
Definition opclass (o : op) : option N :=
  match o_k o with OComment _ => Some 1 | OTitle _ _ => Some 2 | OStatus true => Some 3 | OStatus false => Some 4
                 | OLabel true _ => Some 5 | OLabel false _ => Some 6 | _ => None end.
Definition triple_eqb (a b : N * N * N) : bool :=
  let '(x, y, z) := a in let '(x', y', z') := b in (x =? x') && (y =? y') && (z =? z').

(* a label event whose label was deleted ("label": null) or has a name without any visible character: there is no label
   that an operation could carry *)
Definition names_no_label (e : event) : bool :=
  match e with ELabel _ => text_empty graphic_tbl (label_name e) | _ => false end.

(* events of t that t0 does not have, of the kinds the importer turns into an operation carrying their id *)
Definition new_events (t0 t : tracker) : list (N * N * N) :=
  flat_map (fun i =>
    let i0 := find_issue (i_iid i) t0 in
    let evs := map ENote (filter (fun n => negb (memN (n_id n) (map n_id (notes_of i0)))) (i_notes i)) ++
               map ELabel (filter (fun l => negb (memN (l_id l) (map l_id (labels_of i0)))) (i_labels i)) ++
               map EState (filter (fun s => negb (memN (s_id s) (map s_id (states_of i0)))) (i_states i)) in
    flat_map (fun e => match kclass (ev_kind e) with
                       | Some k => if names_no_label e then [] else [(i_iid i, ev_id e, k)]
                       | None => [] end) evs) (t_issues t).
Definition new_ops (d : list (N * list op)) : list (N * N * N) :=
  flat_map (fun x => flat_map (fun o => match o_gid o, opclass o with Some g, Some k => [(fst x, g, k)] | _, _ => [] end) (snd x)) d.
Definition new_bugs (d : list (N * list op)) : list N :=
  flat_map (fun x => flat_map (fun o => match o_k o with OCreate _ _ => [fst x] | _ => [] end) (snd x)) d.
Definition new_issues (t0 t : tracker) : list N :=
  flat_map (fun i => match find_issue (i_iid i) t0 with Some _ => [] | None => [i_iid i] end) (t_issues t).

(* every edit appended by the run changes a comment, to the text the tracker now has for it *)
Definition tracker_text (i : issue) (o : op) : option text :=
  match o_k o, o_gid o with
  | OCreate _ _, _ => Some (cleanup (i_desc i))
  | OComment _, Some g => match find (fun n => n_id n =? g) (i_notes i) with Some n => Some (cleanup (n_body n)) | None => None end
  | _, _ => None
  end.
Fixpoint edits_ok (i : issue) (all : list op) (pos : nat) (fuel : nat) : bool :=
  match fuel with
  | O => true
  | S f =>
      (match nth_error all pos with
       | Some o => match o_k o with
                   | OEdit p m =>
                       match nth_error all p with
                       | Some target => opt_eqb text_eqb (tracker_text i target) (Some m) &&
                                        negb (opt_eqb text_eqb (comment_text (firstn pos all) p) (Some m))
                       | None => false
                       end
                   | _ => true
                   end
       | None => true
       end) && edits_ok i all (S pos) f
  end.
(* after the run, the imported comments and the description carry the tracker's text *)
Definition texts_ok (i : issue) (ops : list op) : bool :=
  forallb (fun n => if n_system n then true
                    else match resolve (n_id n) ops with
                         | LOne p => opt_eqb text_eqb (comment_text ops p) (Some (cleanup (n_body n)))
                         | _ => true
                         end) (i_notes i) &&
  (if existsb (fun n => match note_kind n with KDesc => true | _ => false end) (i_notes i)
   then opt_eqb text_eqb (comment_text ops 0) (Some (cleanup (i_desc i))) else true).

Definition ids_subset (t0 t : tracker) : bool :=
  forallb (fun i0 => match find_issue (i_iid i0) t with
                     | Some i => subset N.eqb (map n_id (i_notes i0)) (map n_id (i_notes i)) &&
                                 subset N.eqb (map l_id (i_labels i0)) (map l_id (i_labels i)) &&
                                 subset N.eqb (map s_id (i_states i0)) (map s_id (i_states i))
                     | None => false end) (t_issues t0).
(* every issue is listed by the run (a precondition on the generated history, not on the implementation) *)
Definition covered (since : option N) (t : tracker) : bool :=
  match since with None => true | Some x => forallb (fun i => x <=? i_updated i) (t_issues t) end.

Definition incr_round (t0 t : tracker) (before after : istate) (o : robs) : bool :=
  bag_eqb triple_eqb (new_ops (r_delta o)) (new_events t0 t) &&
  bag_eqb N.eqb (new_bugs (r_delta o)) (new_issues t0 t) &&
  forallb (fun i => let all := ops_of (i_iid i) (snd after) in
                    let old := length (ops_of (i_iid i) (snd before)) in
                    edits_ok i all old (length all - old) && texts_ok i all) (t_issues t).

(* A tracker is plain when nothing in it excuses an import error of a run in which no request failed: every user that is
   referred to can be fetched and has a visible name or login (the id 0, "user": null, stands for a deleted user and needs
   no fetching), every event is of a kind the importer knows, every title-change note holds a new title of which something
   is left, and the ids of an issue are not shared (the known finding F-C16-shared-id). Whatever the texts are. *)
Definition user_fine (u : user) : bool := negb (u_gone u) && ident_valid the_cfg u.
Definition uid_fine (t : tracker) (uid : N) : bool :=
  (uid =? 0) || match find_user (t_users t) uid with Some u => user_fine u | None => false end.
Definition event_plain (t : tracker) (e : event) : bool :=
  uid_fine t (ev_user e) &&
  match ev_kind e with
  | KUnknown => false
  | KTitle => match new_title (note_body e) with Some x => negb (text_eqb (cleanup1 x) []) | None => false end
  | _ => true
  end.
Fixpoint nodupN (l : list N) : bool := match l with [] => true | x :: t => negb (memN x t) && nodupN t end.
Definition issue_plain (t : tracker) (i : issue) : bool :=
  negb (i_author i =? 0) && uid_fine t (i_author i) &&
  forallb (event_plain t) (map ENote (i_notes i) ++ map ELabel (i_labels i) ++ map EState (i_states i)) &&
  nodupN (i_iid i :: map n_id (i_notes i) ++ map l_id (i_labels i) ++ map s_id (i_states i)).
Definition plain_tracker (t : tracker) : bool := forallb (issue_plain t) (t_issues t).

(* demanded of the rounds up to the first one that relayed an error, that one included when its tracker is plain: whatever
   text the tracker holds, exactly the new events are imported. (On a tracker that is not plain - unknown system notes,
   users that cannot be fetched - the importer reports errors at every run: such histories are left to the idempotence
   and resume clauses.) *)
Fixpoint incremental_ok (c : case) (rds : list round) (os : list robs) (sts : list istate) (curs : list (option N)) (prev : tracker) : bool :=
  match rds, os, sts, curs with
  | rd :: rt, o :: ot, before :: ((after :: _) as st'), cur :: ct =>
      let t := snap_of c (rd_snap rd) in
      let this := if ids_subset prev t && covered (if rd_full rd then None else cur) t
                  then incr_round prev t before after o else true in
      if Nat.ltb 0 (r_nerr o) then (if plain_tracker t then this else true)
      else this && incremental_ok c rt ot st' ct t
  | _, _, _, _ => true
  end.

(* (5) resume: the failed run followed by a clean run ends in the same bugs as the run that never failed *)
(* the operations compared up to what depends on the order of insertion: edits are replaced by their effect (the final
   text of each comment), a title change does not say which title it replaced *)
Definition canon_at (ops : list op) (p : nat) (o : op) : list op :=
  match o_k o with
  | OEdit _ _ => []
  | OCreate t m => [mkop (o_gid o) (o_author o) (o_time o) (OCreate t (last_edit p ops m))]
  | OComment m => [mkop (o_gid o) (o_author o) (o_time o) (OComment (last_edit p ops m))]
  | OTitle t _ => [mkop (o_gid o) (o_author o) (o_time o) (OTitle t [])]
  | _ => [o]
  end.
Definition canon_ops (ops : list op) : list op :=
  flat_map (fun x => canon_at ops (fst x) (snd x)) (combine (seq 0 (length ops)) ops).
Definition status_of (ops : list op) : bool :=
  fold_left (fun acc o => match o_k o with OStatus x => x | _ => acc end) ops false.
Definition labels_now (ops : list op) : list text :=
  fold_left (fun acc o => match o_k o with
                          | OLabel true n => if existsb (text_eqb n) acc then acc else acc ++ [n]
                          | OLabel false n => filter (fun x => negb (text_eqb n x)) acc
                          | _ => acc end) ops [].
Definition same_events (a b : istate) : bool :=
  set_eqb N.eqb (fst a) (fst b) &&
  Nat.eqb (length (snd a)) (length (snd b)) &&
  forallb (fun x => match find_bug (b_iid x) (snd b) with
                    | Some y => bag_eqb op_eqb (canon_ops (b_ops x)) (canon_ops (b_ops y))
                    | None => false end) (snd a).
Definition same_view (a b : istate) : bool :=
  forallb (fun x => match find_bug (b_iid x) (snd b) with
                    | Some y => text_eqb (cur_title (b_ops x) []) (cur_title (b_ops y) []) &&
                                Bool.eqb (status_of (b_ops x)) (status_of (b_ops y)) &&
                                set_eqb text_eqb (labels_now (b_ops x)) (labels_now (b_ops y))
                    | None => true end) (snd a).
Definition resume_one (sts : list istate) (f : fexp) : bool :=
  match nth_error sts (f_round f), nth_error sts (S (f_round f)) with
  | Some before, Some clean =>
      let got := after_obs (after_obs before (f_fault f)) (f_recover f) in
      same_events got clean && same_view got clean
  | _, _ => false
  end.

Definition C16_ok (c : case) : bool :=
  let sts := istates ([], []) (c_clean c) in
  let curs := icursors None (c_rounds c) (c_clean c) in
  c_stable c &&
  forallb obs_valid (c_clean c) && forallb (fun f => obs_valid (f_fault f) && obs_valid (f_recover f)) (c_faults c) &&
  forallb obs_cursor (c_clean c) && forallb (fun f => obs_cursor (f_fault f) && obs_cursor (f_recover f)) (c_faults c) &&
  idempotent_ok (c_rounds c) (c_clean c) None &&
  incremental_ok c (c_rounds c) (c_clean c) sts curs empty_tracker &&
  forallb (resume_one sts) (c_faults c).

Definition failing (cs : list case) : list nat := index_filter C16_ok 0 cs.

(* printed by --replay: which clause fails, and where the model disagrees *)
From Coq Require Import String.
Definition explain (c : case) :=
  let sts := istates ([], []) (c_clean c) in
  let curs := icursors None (c_rounds c) (c_clean c) in
  let mc := model_clean c (c_rounds c) ([], [], None) in
  (("stable"%string, c_stable c), ("valid"%string, forallb obs_valid (c_clean c) && forallb (fun f => obs_valid (f_fault f) && obs_valid (f_recover f)) (c_faults c)),
   ("cursor"%string, forallb obs_cursor (c_clean c) && forallb (fun f => obs_cursor (f_fault f) && obs_cursor (f_recover f)) (c_faults c)),
   ("idempotent"%string, idempotent_ok (c_rounds c) (c_clean c) None),
   ("incremental"%string, incremental_ok c (c_rounds c) (c_clean c) sts curs empty_tracker),
   ("plain_snapshots"%string, map plain_tracker (c_snaps c)),
   ("resume"%string, map (resume_one sts) (c_faults c)),
   ("model_clean_agrees"%string, map (fun p => let '((_, m, completed), i) := p in robs_agree completed m i) (combine mc (c_clean c))),
   ("model_fault_agrees"%string, map (fault_agrees c mc) (c_faults c)),
   ("model_clean"%string, map (fun p => snd (fst p)) mc)).
