(* C15 — git-bug never disturbs the host repository and writes only valid git data. Property theorems only. *)
From Coq Require Import List Arith NArith Bool String Sorting.Permutation.
Local Open Scope string_scope.
Import ListNotations.
From GB Require Import Frame.
Local Open Scope N_scope.

(* whatever actions are run, in whatever order and with whatever arguments (ids, remote names, bridge names,
   storage paths: arbitrary text), everything outside refs/{bugs,identities}, their refs/remotes/<remote>/ mirrors,
   the git-bug configuration section and <gitdir>/git-bug is as it was: references, HEAD, index, work tree,
   configuration keys and comments, every other file of the git directory *)
Theorem C15_frame acts st : foreign (run acts st) = foreign st.
Proof. exact (frame acts st). Qed.
Print Assumptions C15_frame.

(* the reference names built from a validated id (64 x [a-z0-9]) and a remote name git accepts designate exactly
   <gitdir>/refs/<ns>/<id> and <gitdir>/refs/remotes/<remote>/<ns>/<id>: no '/' or '..' can lead elsewhere *)
Theorem C15_names_in_namespace n id r : valid_id id = true -> tail_okb r = true ->
  resolve (ref_local n id) = Some [s_refs; ns_str n; id] /\ in_ns [s_refs; ns_str n; id] = true /\
  resolve (ref_remote r n id) = Some (s_refs :: s_remotes :: split slash r ++ [ns_str n; id]) /\
  in_ns (s_refs :: s_remotes :: split slash r ++ [ns_str n; id]) = true.
Proof. exact (names_in_namespace n id r). Qed.
Print Assumptions C15_names_in_namespace.

(* every tree git-bug builds — version-N / ops / edit-clock-N / create-clock-N / extra, extra/file0.., the identity
   tree — comes out of StoreTree strictly ascending in git's order (directories compared with a trailing '/'),
   with pairwise distinct, fsck-acceptable names; for all format versions, clock values and numbers of files *)
Theorem C15_tree_git_sorted p blob :
  git_tree_ok (store_tree (pack_tree p)) /\ git_tree_ok (store_tree (extra_tree p)) /\ git_tree_ok (store_tree (identity_tree blob)).
Proof. exact (tree_git_sorted p blob). Qed.
Print Assumptions C15_tree_git_sorted.

(* StoreTree on any entry list: ascending in git's order, same entries; strictly ascending when the keys are distinct *)
Theorem C15_store_tree_sorts l : sorted_le (store_tree l) /\ Permutation l (store_tree l) /\
  (NoDup (map ekey l) -> sorted_lt (store_tree l)).
Proof. exact (store_tree_generic l). Qed.
Print Assumptions C15_store_tree_sorts.

(* every configuration key git-bug stores or removes lies in its own section, whatever the bridge name and option are *)
Theorem C15_config_keys_in_section name k :
  gb_key identity_key = true /\ gb_key (bridge_key name k) = true /\ gb_key (bridge_prefix name) = true /\
  (forall prefix key, gb_key prefix = true -> cfg_below prefix key = true -> gb_key key = true).
Proof. exact (config_keys_in_section name k). Qed.
Print Assumptions C15_config_keys_in_section.

(* every tree object written by any action is well formed; objects are only added *)
Theorem C15_objects_wellformed a o : In (WObj o) (compile a) -> wf_obj o.
Proof. exact (objects_wellformed a o). Qed.
Print Assumptions C15_objects_wellformed.

Theorem C15_objects_kept acts st o : In o (r_objs st) -> In o (r_objs (run acts st)).
Proof. exact (objects_kept acts st o). Qed.
Print Assumptions C15_objects_kept.

(* finer than the frame: a reference location that no write of the session targets keeps its value
   (this is what the correspondence check evaluates per reference) *)
Theorem C15_untouched_ref ps st loc : ~ In loc (ref_targets ps) -> lookup loc (r_refs (run_prims ps st)) = lookup loc (r_refs st).
Proof. exact (untouched_ref ps st loc). Qed.
Print Assumptions C15_untouched_ref.

(* the boolean tree test evaluated on the implementation's trees is sound, and a tree git accepts is a fixpoint of StoreTree *)
Theorem C15_tree_test_sound l : git_tree_okb l = true -> git_tree_ok l.
Proof. exact (git_tree_okb_sound l). Qed.
Print Assumptions C15_tree_test_sound.

(* a commit made of several operations (what the web and terminal interfaces and the bridges do): whatever files the
   operations bring — shared between operations, repeated inside one, none — makeExtraTree followed by StoreTree yields
   a tree git accepts, named file0 .. file<n-1> like the tree of one operation with n files, that references every file
   of every operation exactly once *)
Theorem C15_extra_tree_of_operations ops :
  git_tree_ok (store_tree (make_extra ops)) /\
  map e_name (make_extra ops) = map file_name (seq 0 (List.length (make_extra ops))) /\
  (forall p, ps_nfiles p = List.length (make_extra ops) -> map e_name (extra_tree p) = map e_name (make_extra ops)) /\
  NoDup (map e_hash (make_extra ops)) /\
  (forall f, In f (List.concat ops) <-> In f (map e_hash (make_extra ops))).
Proof. exact (extra_tree_of_ops ops). Qed.
Print Assumptions C15_extra_tree_of_operations.

(* whatever the repository's configuration says about the author and the committer (any text: angle brackets, line
   feeds, nothing at all), the author and committer lines of a commit written by StoreSignedCommit are lines git fsck
   accepts, given the date and time zone go-git appends are well formed *)
Theorem C15_commit_lines_wellformed cfg d : date_tail_okb d = true ->
  fsck_identb (author_prefix cfg ++ d)%list = true /\ fsck_identb (committer_prefix cfg ++ d)%list = true.
Proof. exact (commit_lines_wellformed cfg d). Qed.
Print Assumptions C15_commit_lines_wellformed.

(* the reference store under git-bug's writes and stock git's maintenance, interleaved in any order and any number of
   times (fetches of any updates below any prefix, reference writes and removals by git-bug or by the host's user,
   git pack-refs --all / git gc at any moment): if no reference file was without a value at the start, none ever is
   — git never sees a broken reference, in a process that lives as long as one likes *)
Theorem C15_refs_never_broken steps rs : no_broken rs -> no_broken (rs_run steps rs) /\ forall loc, rs_view (rs_run steps rs) loc <> RBroken.
Proof. exact (fun NB => conj (ref_session_no_broken steps rs NB) (fun loc => no_broken_view _ loc (ref_session_no_broken steps rs NB))). Qed.
Print Assumptions C15_refs_never_broken.

(* a fetch gives the tracking reference it updates the new value, wherever the old one was kept (loose file,
   packed-refs, both, nowhere) *)
Theorem C15_fetch_updates_tracking_ref inside loc new rs : inside loc = true -> no_broken rs ->
  rs_view (rs_fetch inside [(loc, new)] rs) loc = RPoints new.
Proof. exact (fetch_updates_ref inside loc new rs). Qed.
Print Assumptions C15_fetch_updates_tracking_ref.

(* packed-refs belongs to stock git: whatever fetches, reference writes and removals git-bug performs — any number of
   them, on a store of any size, in a process that lives as long as one likes — every entry of packed-refs afterwards
   was already there; only git pack-refs / git gc of the host's user ever add one (and they leave symbolic references
   such as refs/remotes/origin/HEAD loose) *)
Theorem C15_gitbug_never_packs steps rs : forallb (fun s => negb (is_pack s)) steps = true ->
  incl (rs_packed (rs_run steps rs)) (rs_packed rs).
Proof. exact (gitbug_never_packs steps rs). Qed.
Print Assumptions C15_gitbug_never_packs.

(* ---- non-vacuity ---- *)

(* the lines git accepts in packed-refs; the line go-git's PackRefs writes for a symbolic reference is not one of them *)
Example C15_packed_refs_lines :
  packed_line_okb (lit "# pack-refs with: peeled fully-peeled sorted ") = true /\
  packed_line_okb (lit "5f2d3a0c9b8e7d6c5b4a39281706f5e4d3c2b1a0 refs/remotes/origin/main") = true /\
  packed_line_okb (lit "^5f2d3a0c9b8e7d6c5b4a39281706f5e4d3c2b1a0") = true /\
  packed_line_okb (lit "ref: refs/remotes/origin/main refs/remotes/origin/HEAD") = false /\
  packed_line_okb (lit "5f2d3a0c9b8e7d6c5b4a39281706f5e4d3c2b1a0 refs/heads/with blank") = false /\
  packed_line_okb (lit "5f2d3a0c9b8e7d6c5b4a39281706f5e4d3c2b1a0") = false.
Proof. exact packed_line_examples. Qed.

(* the packed references have to be made loose before every fetch, not once per opened repository: pull, git gc, pull
   without the unpacking leaves refs/remotes/origin/bugs/b1 broken; with it (FetchRefs) the reference gets its new value *)
Example C15_fetch_unpack_every_time :
  (rs_view (rs_pack_all (rs_fetch ex_inside [(ex_loc, 1)] (mkrs [] []))) ex_loc = RPoints 1) /\
  (rs_view (rs_updates ex_inside [(ex_loc, 2)] (rs_pack_all (rs_fetch ex_inside [(ex_loc, 1)] (mkrs [] [])))) ex_loc = RBroken) /\
  (rs_view (rs_fetch ex_inside [(ex_loc, 2)] (rs_pack_all (rs_fetch ex_inside [(ex_loc, 1)] (mkrs [] [])))) ex_loc = RPoints 2).
Proof. exact fetch_without_unpack_breaks. Qed.

Definition id1 : Frame.str := repeat 97 64.
Definition host : repo :=
  mkrepo [([s_refs; lit "heads"; lit "main"], 7); ([s_refs; lit "tags"; lit "v1"], 7)] (lit "ref: refs/heads/main") 3 [(lit "a.txt", 1)]
         [(lit "user.name", 1); (lit "url.x.insteadof", 2); (lit "url.x.insteadof", 3)] [9] [] [([lit "hooks"; lit "pre-commit"], 5)].
Definition session : list action :=
  [ANewIdentity id1 1; ASetUser; ACommit Bugs id1 [mkpack 4 1 1 12 1 2 3 4]; APush (lit "origin") [(Bugs, id1); (Identities, id1)];
   ABridgeConf (lit "gh") [(lit "token", 5)]; AStorage [[lit "cache"; lit "bugs"]] []; ARemove Bugs id1 [lit "origin"]].

(* the hypotheses are satisfiable and the session does write: three references, two keys, files and eight objects appear *)
Example C15_session_writes :
  valid_id id1 = true /\ tail_okb (lit "origin") = true /\
  List.length (r_refs (run session host)) = 4%nat /\ List.length (r_cfg (run session host)) = 5%nat /\
  List.length (r_files (run session host)) = 6%nat /\ List.length (r_objs (run session host)) = 8%nat /\
  foreign (run session host) = foreign host.
Proof. vm_compute. repeat split; reflexivity. Qed.

(* a pack with 12 attachments: "extra" sorts as "extra/" (after "edit-clock-1", before "ops"); file10, file11 precede file2 *)
Example C15_tree_example :
  map e_name (store_tree (pack_tree (mkpack 4 1 1 12 1 2 3 4))) = [lit "create-clock-1"; lit "edit-clock-1"; lit "extra"; lit "ops"; lit "version-4"] /\
  map e_name (store_tree (extra_tree (mkpack 4 1 1 12 1 2 3 4))) =
    [lit "file0"; lit "file1"; lit "file10"; lit "file11"; lit "file2"; lit "file3"; lit "file4"; lit "file5"; lit "file6"; lit "file7"; lit "file8"; lit "file9"] /\
  git_tree_okb (store_tree (pack_tree (mkpack 4 1 1 12 1 2 3 4))) = true.
Proof. vm_compute. repeat split; reflexivity. Qed.

(* git's rule differs from plain name order: a directory "a" sorts after the file "a.b" *)
Example C15_dir_slash_rule :
  map e_name (store_tree [mkentry true (lit "a") 1; mkentry false (lit "a.b") 2; mkentry false (lit "a0") 3]) = [lit "a.b"; lit "a"; lit "a0"].
Proof. vm_compute. reflexivity. Qed.

(* the id check is necessary: an unchecked id leaves the namespace and a removal through it deletes a branch
   (dag.Remove before the repair fixes/C15-remove-validates-id.patch; the model checks the id) *)
Example C15_unvalidated_id_escapes :
  valid_id hostile_id = false /\
  resolve (ref_local Bugs hostile_id) = Some [s_refs; lit "heads"; lit "main"] /\ in_ns [s_refs; lit "heads"; lit "main"] = false /\
  foreign (apply_prim host (DRef (ref_local Bugs hostile_id))) <> foreign host /\
  foreign (run [ARemove Bugs hostile_id [lit "origin"]] host) = foreign host.
Proof. repeat split; try (vm_compute; reflexivity). vm_compute. discriminate. Qed.

(* two operations bring a, b and b, c, a: the second "file0" a per-operation counter would produce does not exist *)
Example C15_extra_tree_example :
  map (fun e => (e_name e, e_hash e)) (store_tree (make_extra [[7; 8]; []; [8; 9; 7]])) = [(lit "file0", 7); (lit "file1", 8); (lit "file2", 9)].
Proof. vm_compute. reflexivity. Qed.

(* the cleaning is necessary: the common configuration mistake of an address typed into the name, copied as it is,
   gives a line git refuses (badDate); cleaned, and with nothing configured at all, the lines are accepted *)
Example C15_commit_line_examples :
  fsck_identb (ident_prefix (lit "Jane Doe <jane@acme.com>") (lit "jane@acme.com") ++ lit "1700000000 +0000")%list = false /\
  fsck_identb (ident_prefix (lit "Jane Doe") (lit "<jane@acme.com>") ++ lit "1700000000 +0000")%list = false /\
  author_prefix [(lit "user.name", lit "Host User"); (lit "author.name", lit "Jane Doe <jane@acme.com>")] = lit "Jane Doe jane@acme.com <> " /\
  fsck_identb (lit "Jane Doe jane@acme.com <> 1700000000 +0000") = true /\
  committer_prefix [(lit "user.name", lit "Host User")] = lit " <> " /\ fsck_identb (lit " <> 0 -0130") = true /\
  date_tail_okb (lit "1700000000 +0000") = true /\ date_tail_okb (lit "01 +0000") = false /\ date_tail_okb (lit "1700000000 +000") = false.
Proof. vm_compute. repeat split; reflexivity. Qed.
