(* C02 — a pull never loses operations nor breaks an entity. Property theorems only. *)
From Coq Require Import List Arith NArith Lia Bool.
Import ListNotations.
From GB Require Import Reach Sort Read Mono World Sync MergeProps SyncInv SyncMerge SyncPush SyncQuiesce.

Theorem C02_monotone s h h' ops ops' : wf_store s -> reach s h' h ->
  read s h = Some ops -> read s h' = Some ops' -> sublist ops ops'.
Proof. exact (Mono.C02_monotone s h h' ops ops'). Qed.
Print Assumptions C02_monotone.

(* fast-forward merge: every operation of the local history, in order, is in the fetched history it adopts *)
Theorem C02_fast_forward_keeps_everything w h t oh ot : inv w -> is_anc (st w) h t = true ->
  read (st w) h = Some oh -> read (st w) t = Some ot -> sublist oh ot.
Proof. exact (ff_keeps_everything w h t oh ot). Qed.
Print Assumptions C02_fast_forward_keeps_everything.

(* merge commit (both sides have new commits), in every reachable world: the new head is readable and its operations
   contain those of the local AND of the fetched history, each in its order *)
Theorem C02_merge_contains_both w r h t id au w' oh ot : inv w -> (budget w + 2 <= jump_limit)%N ->
  step w (AMerge r h t id au) = Some w' ->
  read (st w) h = Some oh -> read (st w) t = Some ot ->
  exists on, read (st w') (length (st w)) = Some on /\ sublist oh on /\ sublist ot on.
Proof. exact (merge_contains_both w r h t id au w' oh ot). Qed.
Print Assumptions C02_merge_contains_both.

(* whatever the step (commit, adopt, fast-forward, merge commit, ...), every other history reads as before *)
Theorem C02_others_untouched w a w' x : inv w -> step w a = Some w' -> (x < length (st w))%nat ->
  read (st w') x = read (st w) x.
Proof. exact (merge_leaves_others w a w' x). Qed.
Print Assumptions C02_others_untouched.

(* ---- session level: in every state satisfying the session invariant SyncInv.sinv (every state of every session does:
   SyncInv.session_sinv) ---- *)

(* the per-entity merge report agrees with what actually changed, and the entity handed back is the merged result:
   New = the local ref did not exist and now is the fetched head; Nothing = the ref is unchanged (it already contained the
   fetched head); Updated = the ref moved to a head that descends from BOTH the old local head and the fetched head, the
   entity handed back is what that head reads as, and the operations read before (locally and on the fetched side) are
   sublists of it; Invalid = nothing changed.  In every case no other ref of any replica, no tracking ref and no remote
   ref moves. *)
Theorem C02_report_truthful sw r e mid mau sw' ms ent : sinv sw -> (budget (ww sw) + 4 <= jump_limit)%N ->
  sstep sw (EMerge r e mid mau) = Some (sw', OMerge ms ent) ->
  let s := st (ww sw) in let s' := st (ww sw') in
  let loc := alookup e (locals (ww sw) r) in let loc' := alookup e (locals (ww sw') r) in
  tracks sw' = tracks sw /\ remote sw' = remote sw /\
  (forall r' e', r' <> r \/ e' <> e -> alookup e' (locals (ww sw') r') = alookup e' (locals (ww sw) r')) /\
  exists t, alookup e (track_of sw r) = Some t /\
  match ms with
  | MInvalid => sw' = sw
  | MNew => loc = None /\ loc' = Some t /\ ent = read s t
  | MNothing => exists h, loc = Some h /\ loc' = Some h /\ reach s h t /\ ent = None /\ s' = s
  | MUpdated => exists h h', loc = Some h /\ loc' = Some h' /\ h' <> h /\
      reach s' h' h /\ reach s' h' t /\ ent = read s' h' /\
      exists oh ot on, read s h = Some oh /\ read s t = Some ot /\ read s' h' = Some on /\ sublist oh on /\ sublist ot on
  end.
Proof. exact (merge_spec sw r e mid mau sw' ms ent). Qed.
Print Assumptions C02_report_truthful.

(* a push succeeds exactly when every local head descends from (or equals) the remote head of its entity; then the remote
   and the pusher's tracking refs of those entities become the local heads and nothing else changes; a refused push
   changes nothing at all *)
Theorem C02_push_spec sw r sw' o : sinv sw -> (r < length (reps (ww sw)))%nat -> sstep sw (EPush r) = Some (sw', o) ->
  ww sw' = ww sw /\
  ((o = ODone /\ ff_only sw r /\
    (forall e, alookup e (remote sw') = orelse (alookup e (locals (ww sw) r)) (alookup e (remote sw))) /\
    (forall e, alookup e (track_of sw' r) = orelse (alookup e (locals (ww sw) r)) (alookup e (track_of sw r))) /\
    (forall r', r' <> r -> track_of sw' r' = track_of sw r'))
   \/ (o = OFail /\ ~ ff_only sw r /\ sw' = sw)).
Proof. exact (push_spec sw r sw' o). Qed.
Print Assumptions C02_push_spec.

(* a fetch makes the tracking ref of every entity the remote has equal to the remote's; nothing else changes *)
Theorem C02_fetch_spec sw r sw' o : sinv sw -> (r < length (reps (ww sw)))%nat -> sstep sw (EFetch r) = Some (sw', o) ->
  o = ODone /\ ww sw' = ww sw /\ remote sw' = remote sw /\
  (forall e, alookup e (track_of sw' r) = orelse (alookup e (remote sw)) (alookup e (track_of sw r))) /\
  (forall r', r' <> r -> track_of sw' r' = track_of sw r').
Proof. exact (fetch_spec sw r sw' o). Qed.
Print Assumptions C02_fetch_spec.

(* non-vacuity: in a reachable session where replica 1 has two local commits on entity 0 and has fetched a concurrent commit
   of replica 0, the hypotheses of C02_report_truthful hold and the merge reports Updated with the merged operations *)
Example C02_report_example :
  exists sw sw', srun (sw0 2) (SyncQuiesce.ex_prefix ++ [EPush 0; EFetch 1]) = Some sw /\
    sinv sw /\ (budget (ww sw) + 4 <= jump_limit)%N /\
    alookup 0 (locals (ww sw) 1) = Some 3 /\ alookup 0 (track_of sw 1) = Some 1 /\
    sstep sw (EMerge 1 0 60 7) = Some (sw', OMerge MUpdated (Some [100; 201; 101; 202]%N)) /\
    alookup 0 (locals (ww sw') 1) = Some 6.
Proof. eexists. eexists. split; [vm_compute; reflexivity|].
  split; [eapply (session_sinv 2 (SyncQuiesce.ex_prefix ++ [EPush 0; EFetch 1])); [vm_compute; reflexivity|vm_compute; discriminate]|].
  split; [vm_compute; discriminate|]. repeat (split; [vm_compute; reflexivity|]). vm_compute; reflexivity. Qed.
