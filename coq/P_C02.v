(* C02 — a pull never loses operations nor breaks an entity. Property theorems only. *)
From Coq Require Import List Arith NArith Lia Bool.
Import ListNotations.
From GB Require Import Reach Sort Read Mono.

Theorem C02_monotone s h h' ops ops' : wf_store s -> reach s h' h ->
  read s h = Some ops -> read s h' = Some ops' -> sublist ops ops'.
Proof. exact (Mono.C02_monotone s h h' ops ops'). Qed.
Print Assumptions C02_monotone.
