(* C02 — a pull never loses operations nor breaks an entity. Property theorems only. *)
From Coq Require Import List Arith NArith Lia Bool.
Import ListNotations.
From GB Require Import Reach Sort Read Mono World Sync MergeProps.

Theorem C02_monotone s h h' ops ops' : wf_store s -> reach s h' h ->
  read s h = Some ops -> read s h' = Some ops' -> sublist ops ops'.
Proof. exact (Mono.C02_monotone s h h' ops ops'). Qed.
Print Assumptions C02_monotone.

(* fast-forward merge: every operation of the local history, in order, is in the fetched history it adopts *)
Theorem C02_fast_forward_keeps_everything w h t oh ot : inv w -> is_anc (st w) h t = true ->
  read (st w) h = Some oh -> read (st w) t = Some ot -> sublist oh ot.
Proof. exact (ff_keeps_everything w h t oh ot). Qed.
Print Assumptions C02_fast_forward_keeps_everything.

(* merge commit (both sides have new commits), in every reachable world: the new head is readable and its operations
   contain those of the local AND of the fetched history, each in its order *)
Theorem C02_merge_contains_both w r h t id au w' oh ot : inv w -> (budget w + 2 <= jump_limit)%N ->
  step w (AMerge r h t id au) = Some w' ->
  read (st w) h = Some oh -> read (st w) t = Some ot ->
  exists on, read (st w') (length (st w)) = Some on /\ sublist oh on /\ sublist ot on.
Proof. exact (merge_contains_both w r h t id au w' oh ot). Qed.
Print Assumptions C02_merge_contains_both.

(* whatever the step (commit, adopt, fast-forward, merge commit, ...), every other history reads as before *)
Theorem C02_others_untouched w a w' x : inv w -> step w a = Some w' -> (x < length (st w))%nat ->
  read (st w') x = read (st w) x.
Proof. exact (merge_leaves_others w a w' x). Qed.
Print Assumptions C02_others_untouched.
