From Coq Require Import List Arith NArith Lia Bool Sorting.Sorted Sorting.Permutation.
Import ListNotations.
From GB Require Import Reach Sort Read.

Inductive sublist {A} : list A -> list A -> Prop :=
| sl_nil l : sublist [] l
| sl_skip x l l' : sublist l l' -> sublist l (x :: l')
| sl_take x l l' : sublist l l' -> sublist (x :: l) (x :: l').

Lemma sublist_refl {A} (l : list A) : sublist l l.
Proof. induction l as [|x t IH]; [constructor|now apply sl_take]. Qed.
Lemma sublist_trans {A} (a b c : list A) : sublist a b -> sublist b c -> sublist a c.
Proof. intros H1 H2. revert a H1. induction H2 as [l|x l l' H2 IH|x l l' H2 IH]; intros a H1.
  - inversion H1. constructor.
  - constructor. now apply IH.
  - inversion H1; subst; [constructor|constructor; now apply IH|constructor; now apply IH]. Qed.
Lemma sublist_app {A} (a a' b b' : list A) : sublist a a' -> sublist b b' -> sublist (a ++ b) (a' ++ b').
Proof. intros H1 H2. induction H1 as [l|x l l' H1 IH|x l l' H1 IH]; cbn.
  - induction l; cbn; [exact H2|now constructor].
  - now constructor.
  - now constructor. Qed.
Lemma sublist_filter2 {A} (f g : A -> bool) l : (forall x, In x l -> f x = true -> g x = true) -> sublist (filter f l) (filter g l).
Proof. induction l as [|x t IH]; intros H; cbn; [constructor|].
  assert (IH' : sublist (filter f t) (filter g t)) by (apply IH; intros y Hy; apply H; now right).
  destruct (f x) eqn:F.
  - rewrite (H x (or_introl eq_refl) F). now constructor.
  - destruct (g x); [now constructor|exact IH']. Qed.
Lemma sublist_filter {A} (f : A -> bool) l l' : sublist l l' -> sublist (filter f l) (filter f l').
Proof. induction 1 as [l|x l l' H IH|x l l' H IH]; cbn; [constructor| |]; destruct (f x); [now apply sl_skip|exact IH|now apply sl_take|exact IH]. Qed.
Lemma sublist_flat_map {A B} (f : A -> list B) l l' : sublist l l' -> sublist (flat_map f l) (flat_map f l').
Proof. induction 1 as [l|x l l' H IH|x l l' H IH]; cbn; [constructor| |].
  - change (flat_map f l) with ([] ++ flat_map f l). apply sublist_app; [constructor|exact IH].
  - apply sublist_app; [apply sublist_refl|exact IH]. Qed.
Lemma sublist_concat_map {A B} (f : A -> list B) l l' : sublist l l' -> sublist (concat (map f l)) (concat (map f l')).
Proof. rewrite <- !flat_map_concat_map. apply sublist_flat_map. Qed.

(* insertion into a sorted list splits it at the first element that is >= x *)
Lemma insert_split x l : sorted l ->
  insert x l = filter (fun y => negb (key_le x y)) l ++ x :: filter (fun y => key_le x y) l.
Proof. intros S. apply Sorted_StronglySorted in S; [|intros a b c; apply key_le_trans].
  induction S as [|y t S IH Hall]; cbn; [reflexivity|]. destruct (key_le x y) eqn:E; cbn.
  - (* every later element is also >= x *)
    rewrite Forall_forall in Hall.
    assert (F : forall z, In z t -> key_le x z = true) by (intros z Hz; eapply key_le_trans; [exact E|now apply Hall]).
    assert (filter (fun y0 => negb (key_le x y0)) t = []) as ->.
    { clear - F. induction t as [|z u IHu]; cbn; [reflexivity|]. rewrite (F z (or_introl eq_refl)). cbn. apply IHu. intros w Hw. apply F. now right. }
    assert (filter (fun y0 => key_le x y0) t = t) as ->.
    { clear - F. induction t as [|z u IHu]; cbn; [reflexivity|]. rewrite (F z (or_introl eq_refl)). f_equal. apply IHu. intros w Hw. apply F. now right. }
    reflexivity.
  - now rewrite IH. Qed.

Lemma insert_sublist x a b : sorted a -> sorted b -> sublist a b -> sublist (insert x a) (insert x b).
Proof. intros Sa Sb H. rewrite (insert_split x a Sa), (insert_split x b Sb).
  apply sublist_app; [now apply sublist_filter|]. apply sl_take. now apply sublist_filter. Qed.

Lemma insert_supers x b : sublist b (insert x b).
Proof. induction b as [|y t IH]; cbn; [constructor|]. destruct (key_le x y); [apply sl_skip; apply sublist_refl|now apply sl_take]. Qed.

Lemma isort_sublist a b : sublist a b -> sublist (isort a) (isort b).
Proof. induction 1 as [l|x l l' H IH|x l l' H IH]; cbn; [constructor| |].
  - eapply sublist_trans; [exact IH|apply insert_supers].
  - apply insert_sublist; auto using isort_sorted. Qed.

(* heads: a descendant reads a super-sequence *)
Lemma reach_trans s h' h i : reach s h' h -> reach s h i -> reach s h' i.
Proof. intros R1 R2. induction R2 as [|i p R2 IH Hp]; [exact R1|eapply reach_step; eauto]. Qed.

Lemma sublist_seq_prefix a n m : n <= m -> sublist (seq a n) (seq a m).
Proof. revert a m. induction n as [|n IH]; intros a m H; cbn; [constructor|]. destruct m; [lia|]. cbn. apply sl_take. apply IH. lia. Qed.

Lemma reachl_sublist s h h' : wf_store s -> reach s h' h -> sublist (reachl s h) (reachl s h').
Proof. intros W R. assert (Hle : h <= h') by (now apply reach_le in R).
  unfold reachl. eapply sublist_trans.
  - apply (sublist_filter2 _ (fun i => memb i (mark s (S h') [h']))). intros x Hx Hm.
    assert (In x (reachl s h)) by (unfold reachl; apply filter_In; auto).
    apply reachl_spec in H; [|exact W]. pose proof (reach_trans _ _ _ _ R H) as R'.
    apply reachl_spec in R'; [|exact W]. unfold reachl in R'. apply filter_In in R'. tauto.
  - apply sublist_filter. apply sublist_seq_prefix. lia. Qed.

Theorem C02_monotone s h h' ops ops' : wf_store s -> reach s h' h ->
  read s h = Some ops -> read s h' = Some ops' -> sublist ops ops'.
Proof. intros W R H H'. unfold read in *. destruct (valid s h); [|discriminate]. destruct (valid s h'); [|discriminate].
  inversion H; inversion H'; subst. apply sublist_concat_map, isort_sublist. unfold packs_of. apply sublist_flat_map.
  now apply reachl_sublist. Qed.
Print Assumptions C02_monotone.
