(* C07 — hostile or corrupt remote data: the tree-level decoder model predicts refusals; the property itself
   (no local damage, reported invalid) is checked on the implementation's observations. *)
From Coq Require Import List NArith Bool.
Import ListNotations.
From GB Require Export Decimal Tree.
Local Open Scope N_scope.

Inductive status := SNew | SNothing | SUpdated | SInvalid | SError | SMissing.
Definition is_invalid (s : status) : bool := match s with SInvalid => true | _ => false end.

Record case := mkcase7 {
  k_expect_invalid : bool;   (* the mutation is one of the catalogue items the property names as refused *)
  k_status : status;         (* merge status reported for the hostile entity *)
  k_refs_same : bool;        (* every local ref (bugs and identities) is exactly as before *)
  k_readable : bool;         (* every local entity is readable, valid, and is the entity its ref names *)
  k_others_ok : bool;        (* no other entity was reported invalid / in error *)
  k_has_tree : bool;
  k_tip : list entry         (* tree entries of the crafted commit *)
}.

(* the pack decoder refuses this tree *)
Definition tree_refused (l : list entry) : bool :=
  match read_entries 4 l with ROk _ true e _ => N.eqb e 0 | _ => true end.

Definition agrees (c : case) : bool :=
  if k_has_tree c && tree_refused (k_tip c) then is_invalid (k_status c) else true.

Definition C07_ok (c : case) : bool :=
  (if k_expect_invalid c then is_invalid (k_status c) else true) &&
  (match k_status c with SError | SMissing => false | _ => true end) &&
  (if is_invalid (k_status c) then k_refs_same c else true) &&
  k_readable c && k_others_ok c.

Fixpoint index_filter {A} (f : A -> bool) (i : nat) (l : list A) : list nat :=
  match l with [] => [] | x :: t => if f x then index_filter f (S i) t else i :: index_filter f (S i) t end.
Definition mismatches (cs : list case) : list nat := index_filter agrees 0 cs.
Definition failing (cs : list case) : list nat := index_filter C07_ok 0 cs.
Definition explain (c : case) := (read_entries 4 (k_tip c)).
