(* C06 — clock-file crash states under the observed write protocol. *)
From Coq Require Import List NArith Bool.
Import ListNotations.
From GB Require Export Decimal ClockFile.
Local Open Scope N_scope.

Record cstate := mkcstate { s_content : list N; s_loaded : option N; s_repo_opens : bool; s_repo_clock_ok : bool }.
Record case := mkcase6c { k_proto : proto; k_old : N; k_new : N; k_oldc : list N; k_newc : list N; k_states : list cstate }.

Fixpoint nl_eqb (a b : list N) : bool :=
  match a, b with [], [] => true | x :: a', y :: b' => N.eqb x y && nl_eqb a' b' | _, _ => false end.
Definition on_eqb (a b : option N) := match a, b with Some x, Some y => N.eqb x y | None, None => true | _, _ => false end.

(* model: contents written are the decimal forms; each state loads as the model says; the harness explored
   exactly the reachable states (plus the zero-length file) *)
Definition agrees (c : case) : bool :=
  nl_eqb (k_oldc c) (print_u64 (k_old c)) && nl_eqb (k_newc c) (print_u64 (k_new c)) &&
  N.eqb (k_new c) ((k_old c + 1) mod 2 ^ 64) &&
  forallb (fun s => on_eqb (load (s_content s)) (s_loaded s)) (k_states c) &&
  forallb (fun x => existsb (fun s => nl_eqb (s_content s) x) (k_states c)) (crash_states (k_proto c) (k_oldc c) (k_newc c)).

(* property: in every reachable crash state the repository opens and its clock is not lower than what is stored *)
Definition C06c_ok (c : case) : bool :=
  forallb (fun s => s_repo_opens s && s_repo_clock_ok s) (k_states c) &&
  match k_proto c with PRename => true | _ => false end.

Fixpoint index_filter {A} (f : A -> bool) (i : nat) (l : list A) : list nat :=
  match l with [] => [] | x :: t => if f x then index_filter f (S i) t else i :: index_filter f (S i) t end.
Definition mismatches (cs : list case) : list nat := index_filter agrees 0 cs.
Definition failing (cs : list case) : list nat := index_filter C06c_ok 0 cs.
Definition explain (c : case) := map (fun s => load (s_content s)) (k_states c).
