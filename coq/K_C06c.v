(* C06 — clock-file crash states under the observed write protocol, the files around the clock, and the crash
   points of the clock rebuild. *)
From Coq Require Import List NArith Bool Arith.
Import ListNotations.
From GB Require Export Decimal ClockFile ClockDir Rebuild.
Local Open Scope N_scope.

(* one crash state of a clock write, materialised in a real repository and reopened *)
Record cstate := mkcstate {
  s_content : list N;        (* content of the clock file *)
  s_extra : nat;             (* entries of the clocks directory that are not a clock of the repository *)
  s_loaded : option N;       (* lamport.LoadPersistedClock on that content *)
  s_repo_opens : bool;       (* OpenGoGitRepo with the clock loaders *)
  s_repo_clock_ok : bool;    (* the edit clock is not lower than the stored edit times *)
  s_usable : bool            (* AllClocks lists exactly the clocks; a new identity, an edit of the existing identity,
                                a comment and a second edit of the identity all succeed *)
}.
(* one crash point of the clock rebuild *)
Record rcase := mkrcase {
  r_init : list cfile;       (* clock files before the open: [create; edit] *)
  r_calls : list (nat * N);  (* the witnesses that reached the storage before the process died *)
  r_complete : bool;         (* the open ran to its end *)
  r_after : disk;            (* what is on disk afterwards *)
  r_reopen : bool;           (* the next open succeeds *)
  r_final : list cfile;      (* clock files after it *)
  r_stored : list N          (* highest stored time per clock *)
}.
Record case := mkcase6c {
  k_proto : proto; k_old : N; k_new : N; k_oldc : list N; k_newc : list N;
  k_events : list fsev; k_indir : list nat;
  k_states : list cstate; k_rebuild : list rcase }.

Fixpoint nl_eqb (a b : list N) : bool :=
  match a, b with [], [] => true | x :: a', y :: b' => N.eqb x y && nl_eqb a' b' | _, _ => false end.
Definition on_eqb (a b : option N) := match a, b with Some x, Some y => N.eqb x y | None, None => true | _, _ => false end.

Definition in_dirb (c : case) (p : nat) : bool := existsb (Nat.eqb p) (k_indir c).
Definition clock_of (s : fs) : list N := match fs_get 0 s with Some c => c | None => [] end.
Definition extra_of (c : case) (s : fs) : nat :=
  length (filter (fun pc => in_dirb c (fst pc) && negb (Nat.eqb (fst pc) 0)) s).

Definition rebuild_acts (r : rcase) : list act :=
  let d0 := mkdisk false (r_init r) in
  if need d0 then drops_from 0 (r_init r) ++ SetMarker :: flat_map tw (r_calls r) ++ (if r_complete r then [ClearMarker] else [])
  else [].

(* model: contents written are the decimal forms; each state loads as the model says; the harness explored
   every crash state of the observed file operations (plus the zero-length file); an interrupted rebuild leaves
   what the action model says *)
Definition agrees (c : case) : bool :=
  nl_eqb (k_oldc c) (print_u64 (k_old c)) && nl_eqb (k_newc c) (print_u64 (k_new c)) &&
  N.eqb (k_new c) ((k_old c + 1) mod 2 ^ 64) &&
  forallb (fun s => on_eqb (load (s_content s)) (s_loaded s)) (k_states c) &&
  forallb (fun x => existsb (fun s => nl_eqb (s_content s) x) (k_states c)) (crash_states (k_proto c) (k_oldc c) (k_newc c)) &&
  forallb (fun ms => existsb (fun s => nl_eqb (s_content s) (clock_of ms) && Nat.eqb (s_extra s) (extra_of c ms)) (k_states c))
          (fs_crashes [(0%nat, k_oldc c)] (k_events c)) &&
  forallb (fun r => disk_eqb (r_after r) (run (mkdisk false (r_init r)) (rebuild_acts r))) (k_rebuild c).

Fixpoint all_le (a : list N) (b : list cfile) : bool :=
  match a, b with [], _ => true | x :: a', y :: b' => N.leb x (valof y) && all_le a' b' | _ :: _, [] => false end.

(* property: in every reachable crash state the repository opens, stays usable and its clock is not lower than
   what is stored; the same after an open that died while rebuilding the clocks *)
Definition C06c_ok (c : case) : bool :=
  forallb (fun s => s_repo_opens s && s_repo_clock_ok s && s_usable s && Nat.eqb (s_extra s) 0) (k_states c) &&
  match k_proto c with PRename => true | _ => false end &&
  forallb (fun r => r_reopen r && all_le (r_stored r) (r_final r)) (k_rebuild c).

Fixpoint index_filter {A} (f : A -> bool) (i : nat) (l : list A) : list nat :=
  match l with [] => [] | x :: t => if f x then index_filter f (S i) t else i :: index_filter f (S i) t end.
Definition mismatches (cs : list case) : list nat := index_filter agrees 0 cs.
Definition failing (cs : list case) : list nat := index_filter C06c_ok 0 cs.
Definition explain (c : case) :=
  (map (fun s => load (s_content s)) (k_states c),
   map (fun ms => (clock_of ms, extra_of c ms)) (fs_crashes [(0%nat, k_oldc c)] (k_events c)),
   map (fun r => run (mkdisk false (r_init r)) (rebuild_acts r)) (k_rebuild c)).
