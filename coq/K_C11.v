(* C11 — cases observed on two real cache.RepoCache sharing a bare remote:
   replay against the Cache model (mismatches) and the property checker C11_ok (failing),
   which compares, at every quiescent point, what the live cache answered with what a cache
   rebuilt from a copy of the git data answered, and requires every commit made through the cache to
   descend from the head the user's ref had before (history_ok: edits build on the merged history).

   The Cache model stores, in place of an excerpt / index document / loaded entity, the in-memory
   entity it is a function of (head commit, operation ids, staged operation ids).  This file makes
   the functions explicit (`answers`): the excerpt fields, the index tokens, the resolved snapshot
   (Snap.compile over the operation table of the case), known labels, the query battery with
   full-text search, and the metadata lookups. *)
From Coq Require Import List Arith NArith Lia Bool.
Import ListNotations.
From GB Require Export Reach Sort Read World Sync KMap SubCache SyncFrame Cache.
From GB Require K_World Snap.
Local Open Scope N_scope.

Notation list_eqb := K_World.list_eqb.
Notation opt_eqb := K_World.opt_eqb.

(* ---------------- operation table ---------------- *)
Record oprow := mkop { r_op : Snap.op; r_time : N; r_meta : list (N * N) }.
Definition optab := list (N * oprow).
Definition oplook (t : optab) (i : N) : option oprow := option_map snd (find (fun p => N.eqb (fst p) i) t).
Definition rows (t : optab) (ids : list N) : list oprow := flat_map (fun i => match oplook t i with Some r => [r] | None => [] end) ids.

(* a text is a short list of words of the harness vocabulary, packed base 16 (first word most significant) *)
Fixpoint words (fuel : nat) (n : N) : list N :=
  match fuel with O => [] | S f => if N.eqb n 0 then [] else words f (n / 16) ++ [n mod 16 - 1] end.
Definition toks (n : N) : list N := words 8 n.

Definition mem_N (x : N) (l : list N) : bool := existsb (N.eqb x) l.
Definition pairN_eqb (a b : N * N) : bool := N.eqb (fst a) (fst b) && N.eqb (snd a) (snd b).

(* ---------------- what the cache serves, as observed / as predicted ---------------- *)
Record bexc := mkexc { x_e : nat; x_cl : N; x_el : N; x_ct : N; x_et : N; x_au : N; x_st : N; x_labels : list N; x_title : list N;
                       x_nc : nat; x_actors : list N; x_parts : list N; x_meta : list (N * N) }.
Record bsnap := mksnap { n_e : nat; n_state : N (* 0 served, 1 error, 2 the handle is locked for ever *); n_ops : list N; n_st : N;
                         n_title : list N; n_labels : list N; n_comments : list (N * list N); n_actors : list N; n_parts : list N; n_dirty : bool;
                         n_anames : list N (* names of the actors as displayed through the loaded bug; not predicted by the model *) }.
Record iexc := mkiexc { y_u : nat; y_name : N; y_meta : list (N * N) }.
Record ires := mkires { z_u : nat; z_err : bool; z_name : N; z_dirty : bool }.
Inductive lookres := LFound (e : nat) | LNone | LMany | LErr.
Record views := mkviews { w_exc : list bexc; w_idexc : list iexc; w_labels : list N; w_queries : list (option (list nat));
                          w_meta : list lookres; w_idmeta : list lookres; w_idres : list ires; w_snaps : list bsnap }.

Definition lN := list_eqb N.eqb.
Definition lKV := list_eqb pairN_eqb.
Definition bexc_eqb (a b : bexc) : bool :=
  Nat.eqb (x_e a) (x_e b) && N.eqb (x_cl a) (x_cl b) && N.eqb (x_el a) (x_el b) && N.eqb (x_ct a) (x_ct b) && N.eqb (x_et a) (x_et b) &&
  N.eqb (x_au a) (x_au b) && N.eqb (x_st a) (x_st b) && lN (x_labels a) (x_labels b) && lN (x_title a) (x_title b) && Nat.eqb (x_nc a) (x_nc b) &&
  lN (x_actors a) (x_actors b) && lN (x_parts a) (x_parts b) && lKV (x_meta a) (x_meta b).
Definition com_eqb (a b : N * list N) : bool := N.eqb (fst a) (fst b) && lN (snd a) (snd b).
Definition bsnap_eqb (a b : bsnap) : bool :=
  Nat.eqb (n_e a) (n_e b) && N.eqb (n_state a) (n_state b) && lN (n_ops a) (n_ops b) && N.eqb (n_st a) (n_st b) && lN (n_title a) (n_title b) &&
  lN (n_labels a) (n_labels b) && list_eqb com_eqb (n_comments a) (n_comments b) && lN (n_actors a) (n_actors b) && lN (n_parts a) (n_parts b) &&
  Bool.eqb (n_dirty a) (n_dirty b).
Definition bsnap_names_eqb (a b : bsnap) : bool := lN (n_anames a) (n_anames b).
Definition iexc_eqb (a b : iexc) : bool := Nat.eqb (y_u a) (y_u b) && N.eqb (y_name a) (y_name b) && lKV (y_meta a) (y_meta b).
Definition ires_eqb (a b : ires) : bool := Nat.eqb (z_u a) (z_u b) && Bool.eqb (z_err a) (z_err b) && N.eqb (z_name a) (z_name b) && Bool.eqb (z_dirty a) (z_dirty b).
Definition lookres_eqb (a b : lookres) : bool :=
  match a, b with LFound x, LFound y => Nat.eqb x y | LNone, LNone | LMany, LMany | LErr, LErr => true | _, _ => false end.

(* the first view on which two answer sheets differ: 1 excerpts, 2 identity excerpts, 3 labels, 4 queries (incl. search),
   5 metadata lookups, 6 resolved identities, 7 resolved bugs, 9 only the actor names shown through resolved bugs (when names = true); 0 = none *)
Definition views_diff_gen (names : bool) (a b : views) : N :=
  if negb (list_eqb bexc_eqb (w_exc a) (w_exc b)) then 1
  else if negb (list_eqb iexc_eqb (w_idexc a) (w_idexc b)) then 2
  else if negb (lN (w_labels a) (w_labels b)) then 3
  else if negb (list_eqb (opt_eqb (list_eqb Nat.eqb)) (w_queries a) (w_queries b)) then 4
  else if negb (list_eqb lookres_eqb (w_meta a) (w_meta b) && list_eqb lookres_eqb (w_idmeta a) (w_idmeta b)) then 5
  else if negb (list_eqb ires_eqb (w_idres a) (w_idres b)) then 6
  else if negb (list_eqb bsnap_eqb (w_snaps a) (w_snaps b)) then 7
  else if names && negb (list_eqb bsnap_names_eqb (w_snaps a) (w_snaps b)) then 9
  else 0.
Definition views_diff := views_diff_gen false.     (* model against implementation *)
Definition views_diff_full := views_diff_gen true. (* live against rebuilt *)

(* ---------------- the functions: from in-memory entities to answers ---------------- *)
Definition all_ops (m : ment bgit) : list N := snd (m_base m) ++ m_staged m.

Fixpoint insN (x : N) (l : list N) : list N := match l with [] => [x] | y :: t => if N.ltb x y then x :: l else if N.eqb x y then l else y :: insN x t end.
Fixpoint inskv (p : N * N) (l : list (N * N)) : list (N * N) :=
  match l with [] => [p] | q :: t => if N.ltb (fst p) (fst q) then p :: l else if N.eqb (fst p) (fst q) then l else q :: inskv p t end.

(* OpBase.AllMetadata of the first operation: its own metadata take precedence over what SetMetadata added *)
Definition create_meta (rs : list oprow) (sn : Snap.snapshot) : list (N * N) :=
  let own := match rs with r :: _ => r_meta r | [] => [] end in
  let extra := match Snap.s_extra sn with (_, kv) :: _ => kv | [] => [] end in
  fold_right inskv [] (extra ++ own).      (* fold_right inserts from the right end and inskv keeps the entry already there: own entries win *)

Definition exc_of (t : optab) (s : store) (e : nat) (m : ment bgit) : bexc :=
  let rs := rows t (all_ops m) in
  let sn := Snap.compile (map r_op rs) in
  {| x_e := e; x_cl := create_of s e; x_el := edit_of s (fst (m_base m));
     x_ct := match rs with r :: _ => r_time r | [] => 0 end;
     x_et := match rev rs with r :: _ => r_time r | [] => 0 end;
     x_au := match rs with r :: _ => Snap.op_author (r_op r) | [] => 0 end;
     x_st := Snap.s_status sn; x_labels := Snap.s_labels sn; x_title := toks (Snap.s_title sn); x_nc := length (Snap.s_comments sn);
     x_actors := Snap.s_actors sn; x_parts := Snap.s_parts sn; x_meta := create_meta rs sn |}.

(* the searchable text of a bug: every comment as it reads now, and the title *)
Definition doc_of (t : optab) (m : ment bgit) : list N :=
  let sn := Snap.compile (map r_op (rows t (all_ops m))) in
  flat_map (fun c => toks (Snap.c_msg c)) (Snap.s_comments sn) ++ toks (Snap.s_title sn).

Definition snap_of (t : optab) (e : nat) (m : ment bgit) : bsnap :=
  let sn := Snap.compile (map r_op (rows t (all_ops m))) in
  {| n_e := e; n_state := 0; n_ops := all_ops m; n_st := Snap.s_status sn; n_title := toks (Snap.s_title sn); n_labels := Snap.s_labels sn;
     n_comments := map (fun c => (Snap.c_author c, toks (Snap.c_msg c))) (Snap.s_comments sn);
     n_actors := Snap.s_actors sn; n_parts := Snap.s_parts sn; n_dirty := is_dirty m; n_anames := [] |}.

Definition iexc_of (u : nat) (m : ment igit) : iexc :=
  {| y_u := u; y_name := last (m_base m ++ m_staged m) 99; y_meta := [(0, N.of_nat u)] |}.

(* ---- queries ---- *)
Record qry := mkq { q_status : option N; q_author : option N; q_meta : option (N * N); q_part : option N; q_actor : option N;
                    q_label : option N; q_nolabel : bool; q_title : option N; q_search : list N; q_order : N (* 0 id, 1 creation, 2 edit *); q_desc : bool }.
Definition q0 : qry := {| q_status := None; q_author := None; q_meta := None; q_part := None; q_actor := None; q_label := None; q_nolabel := false;
                          q_title := None; q_search := []; q_order := 1; q_desc := true |}.
Definition set_order (q : qry) (o : N) (d : bool) : qry :=
  {| q_status := q_status q; q_author := q_author q; q_meta := q_meta q; q_part := q_part q; q_actor := q_actor q; q_label := q_label q;
     q_nolabel := q_nolabel q; q_title := q_title q; q_search := q_search q; q_order := o; q_desc := d |}.

(* the battery of harness/c11.go (c11Queries), in the same order; words and names by vocabulary index *)
Definition battery : list qry := [
  {| q_status := Some 1; q_author := None; q_meta := None; q_part := None; q_actor := None; q_label := None; q_nolabel := false; q_title := None; q_search := []; q_order := 1; q_desc := true |};
  {| q_status := Some 2; q_author := None; q_meta := None; q_part := None; q_actor := None; q_label := None; q_nolabel := false; q_title := None; q_search := []; q_order := 2; q_desc := false |};
  {| q_status := None; q_author := None; q_meta := None; q_part := None; q_actor := None; q_label := Some 1; q_nolabel := false; q_title := None; q_search := []; q_order := 1; q_desc := true |};
  {| q_status := None; q_author := None; q_meta := None; q_part := None; q_actor := None; q_label := None; q_nolabel := true; q_title := None; q_search := []; q_order := 0; q_desc := false |};
  {| q_status := None; q_author := None; q_meta := None; q_part := None; q_actor := None; q_label := None; q_nolabel := false; q_title := Some 0; q_search := []; q_order := 1; q_desc := true |};
  {| q_status := None; q_author := Some 0; q_meta := None; q_part := None; q_actor := None; q_label := None; q_nolabel := false; q_title := None; q_search := []; q_order := 1; q_desc := true |};
  {| q_status := None; q_author := None; q_meta := None; q_part := None; q_actor := Some 3; q_label := None; q_nolabel := false; q_title := None; q_search := []; q_order := 1; q_desc := true |};
  {| q_status := None; q_author := None; q_meta := None; q_part := Some 1; q_actor := None; q_label := None; q_nolabel := false; q_title := None; q_search := []; q_order := 1; q_desc := true |};
  {| q_status := None; q_author := None; q_meta := None; q_part := None; q_actor := None; q_label := None; q_nolabel := false; q_title := None; q_search := [1]; q_order := 1; q_desc := true |};
  {| q_status := Some 1; q_author := None; q_meta := None; q_part := None; q_actor := None; q_label := None; q_nolabel := false; q_title := None; q_search := [2]; q_order := 1; q_desc := false |};
  {| q_status := None; q_author := None; q_meta := Some (0, 1); q_part := None; q_actor := None; q_label := None; q_nolabel := false; q_title := None; q_search := []; q_order := 1; q_desc := true |};
  {| q_status := None; q_author := None; q_meta := None; q_part := None; q_actor := None; q_label := None; q_nolabel := false; q_title := None; q_search := []; q_order := 2; q_desc := true |};
  {| q_status := None; q_author := None; q_meta := None; q_part := None; q_actor := None; q_label := Some 0; q_nolabel := false; q_title := None; q_search := [3]; q_order := 0; q_desc := true |};
  {| q_status := None; q_author := None; q_meta := Some (1, 0); q_part := None; q_actor := None; q_label := None; q_nolabel := false; q_title := None; q_search := []; q_order := 0; q_desc := false |} ].

(* ResolveBugCreateMetadata lookups of the harness (c11Lookups): (key, value) *)
Definition lookups : list (N * N) := [(0, 0); (0, 1); (1, 0); (2, 1)].

Definition kvget (k : N) (l : list (N * N)) : option N := option_map snd (find (fun p => N.eqb (fst p) k) l).

(* IdentityExcerpt.Match on the name (an identity is user number au-1) *)
Definition name_of (ids : list iexc) (au : N) : option N := option_map y_name (find (fun y => Nat.eqb (y_u y) (N.to_nat au - 1)) ids).

(* a filter that resolves identity excerpts panics when one is missing: None *)
Fixpoint any_named (ids : list iexc) (q : N) (l : list N) : option bool :=
  match l with
  | [] => Some false
  | a :: t => match name_of ids a with None => None | Some n => if N.eqb n q then Some true else any_named ids q t end
  end.

Definition oand (a : option bool) (k : unit -> option bool) : option bool := match a with Some true => k tt | x => x end.

(* Matcher.Match, in its order: status, author, metadata, participant, actor, label, no-label, title *)
Definition qmatch (ids : list iexc) (q : qry) (x : bexc) : option bool :=
  oand (Some (match q_status q with None => true | Some s => N.eqb (x_st x) s end)) (fun _ =>
  oand (match q_author q with None => Some true | Some n => any_named ids n [x_au x] end) (fun _ =>
  oand (Some (match q_meta q with None => true | Some (k, v) => match kvget k (x_meta x) with Some v' => N.eqb v v' | None => false end end)) (fun _ =>
  oand (match q_part q with None => Some true | Some n => any_named ids n (x_parts x) end) (fun _ =>
  oand (match q_actor q with None => Some true | Some n => any_named ids n (x_actors x) end) (fun _ =>
  oand (Some (match q_label q with None => true | Some l => mem_N l (x_labels x) end)) (fun _ =>
  oand (Some (if q_nolabel q then match x_labels x with [] => true | _ => false end else true)) (fun _ =>
  Some (match q_title q with None => true | Some w => mem_N w (x_title x) end)))))))).

Definition key3 := (N * N * nat)%type.
Definition key_lt (a b : key3) : bool :=
  let '(a1, a2, _) := a in let '(b1, b2, _) := b in N.ltb a1 b1 || (N.eqb a1 b1 && N.ltb a2 b2).
Fixpoint ins3 (x : key3) (l : list key3) : list key3 := match l with [] => [x] | y :: t => if key_lt x y then x :: l else y :: ins3 x t end.

Definition idrank_of (ir : list (nat * N)) (e : nat) : N := match find (fun p => Nat.eqb (fst p) e) ir with Some p => snd p | None => 0 end.

Fixpoint filter_opt {A} (f : A -> option bool) (l : list A) : option (list A) :=
  match l with
  | [] => Some []
  | x :: t => match f x, filter_opt f t with
              | Some true, Some r => Some (x :: r)
              | Some false, Some r => Some r
              | _, _ => None
              end
  end.

(* Query: candidates are all excerpts, or the search hits (an index document without excerpt makes the filter crash) *)
Definition run_query (ir : list (nat * N)) (excs : list bexc) (docs : list (nat * list N)) (ids : list iexc) (q : qry) : option (list nat) :=
  let cand : option (list bexc) :=
    match q_search q with
    | [] => Some excs
    | terms =>
        let hits := filter (fun d => existsb (fun w => mem_N w (snd d)) terms) docs in
        fold_right (fun d acc => match acc, find (fun x => Nat.eqb (x_e x) (fst d)) excs with Some r, Some x => Some (x :: r) | _, _ => None end) (Some []) hits
    end in
  match cand with
  | None => None
  | Some c =>
      match filter_opt (qmatch ids q) c with
      | None => None
      | Some f =>
          let keyed := map (fun x => match q_order q with
                                     | 0 => (idrank_of ir (x_e x), 0, x_e x)
                                     | 1 => (x_cl x, x_ct x, x_e x)
                                     | _ => (x_el x, x_et x, x_e x) end) f in
          let sorted := map (fun k => snd k) (fold_right ins3 [] keyed) in
          Some (if q_desc q then rev sorted else sorted)
      end
  end.

Definition lookup_bug (excs : list bexc) (kv : N * N) : lookres :=
  match filter (fun x => match kvget (fst kv) (x_meta x) with Some v => N.eqb v (snd kv) | None => false end) excs with
  | [] => LNone | [x] => LFound (x_e x) | _ => LMany end.
Definition lookup_id (ids : list iexc) (kv : N * N) : lookres :=
  match filter (fun y => match kvget (fst kv) (y_meta y) with Some v => N.eqb v (snd kv) | None => false end) ids with
  | [] => LNone | [y] => LFound (y_u y) | _ => LMany end.

(* the static part of the answers: functions of the excerpts and index documents of both sub-caches *)
Record statics := { a_exc : list bexc; a_idexc : list iexc; a_labels : list N; a_queries : list (option (list nat));
                    a_meta : list lookres; a_idmeta : list lookres }.
Definition answers (t : optab) (ir : list (nat * N)) (s : store)
           (bx bi : kmap (ment bgit)) (ix ii : kmap (ment igit)) : statics :=
  let excs := map (fun p => exc_of t s (fst p) (snd p)) bx in
  let docs := map (fun p => (fst p, doc_of t (snd p))) bi in
  let ids := map (fun p => iexc_of (fst p) (snd p)) ix in
  {| a_exc := excs; a_idexc := ids;
     a_labels := fold_right insN [] (flat_map x_labels excs);
     a_queries := map (run_query ir excs docs ids) battery;
     a_meta := map (lookup_bug excs) lookups;
     a_idmeta := map (fun u => lookup_id ids (0, N.of_nat u)) [0%nat; 1%nat] |}.

(* ---------------- cases ---------------- *)
Record gobs := mkgobs { o_out : cout; o_loc : amap; o_trk : amap; o_rem : amap; o_clk : N; o_cclk : N; o_nst : nat;
                        o_iloc : list (nat * nat); o_itrk : list (nat * nat); o_irem : list (nat * nat) }.
Inductive hev :=
| HEv (ev : cev)
| HNop (r : nat)                            (* an action the implementation refused without touching anything *)
| HPull (ev : cev) (failed : bool)          (* RepoCache.Pull (ev = the VPull with the merge order read from the tracking refs): only the error is
                                               observed; repaired code: every result is read, the error is reported iff one entity was refused *)
| HStale (r k : nat) (failed : bool)        (* Mutate + Commit of identity k through an IdentityCache obtained before a pull replaced it in the
                                               cache: repaired code refuses the commit (entityUpdated has run for the loaded instance) *)
| HObserve (r : nat) (order : list nat) (live : views) (rebuilt : views).
Record case := mkcase { c_cap : nat; c_steps : list (hev * gobs); c_store : store; c_ops : optab; c_idrank : list (nat * N) }.

Definition cout_eqb (a b : cout) : bool :=
  match a, b with
  | CDone, CDone | CFail, CFail => true
  | CPulled i1 b1, CPulled i2 b2 => list_eqb K_World.mstatus_eqb i1 i2 && list_eqb K_World.mstatus_eqb b1 b2
  | _, _ => false
  end.
Definition pnn_eqb (a b : nat * nat) := Nat.eqb (fst a) (fst b) && Nat.eqb (snd a) (snd b).
Definition ilens (m : kmap igit) : list (nat * nat) := map (fun p => (fst p, length (snd p))) m.

Definition git_agrees (cw : cworld) (r : nat) (o : gobs) : bool :=
  let sw := gw cw in
  K_World.amap_eqb (locals (ww sw) r) (o_loc o) && K_World.amap_eqb (asort (track_of sw r)) (o_trk o) && K_World.amap_eqb (asort (remote sw)) (o_rem o) &&
  N.eqb (clk (rep_of (ww sw) r)) (o_clk o) && N.eqb (cclk (rep_of (ww sw) r)) (o_cclk o) && Nat.eqb (length (st (ww sw))) (o_nst o) &&
  list_eqb pnn_eqb (ilens (iloc (iw cw) r)) (o_iloc o) && list_eqb pnn_eqb (ilens (itrk (iw cw) r)) (o_itrk o) && list_eqb pnn_eqb (ilens (i_rem (iw cw))) (o_irem o).

(* Close with uncommitted operations (repaired code): every loaded entity that still needs a commit is read again from its ref and its
   excerpt and index document get the committed content (no ref: both are dropped); the staged operations die with the process *)
Definition forget_sub {G} (gf : nat -> option G) (c : sub G) : sub G :=
  fold_left (fun acc p => if is_dirty (snd p)
                          then match gf (fst p) with Some g => merged true g (fst p) acc | None => removed (fst p) acc end
                          else acc) (sl c) c.
Definition forget (cw : cworld) (r : nat) : cworld :=
  let u := ucache_of cw r in
  set_uc cw r {| cb := forget_sub (gfb (gw cw) r) (cb u); ci := forget_sub (gfi (iw cw) r) (ci u) |}.
Definition before_ev (cw : cworld) (ev : cev) : cworld := match ev with VReopen r _ => forget cw r | _ => cw end.
Definition is_invalid (s : mstatus) : bool := K_World.mstatus_eqb s MInvalid.

(* closing with an uncommitted operation (audit C11-A1): the model's reopen is undefined there; K_C11.forget (the repaired Close) first
   gives the excerpt and the index document of the dirty bug the committed content: the reopened cache equals the rebuilt one *)
Definition witness_close_staged : list cev :=
  [VIdNew 0 0 1%N; VNew 0 10%N 1%N [100%N]; VResolve 0 0; VStage 0 0 101%N].
Example close_staged_runs_fixed :
  exists cw, crun fixed 2 (cw0 2) witness_close_staged = Some cw /\ quiescentb_at cw 0 = false /\
  kget 0 (sx (cb (ucache_of cw 0))) = Some {| m_base := (0%nat, [100%N]); m_staged := [101%N] |} /\
  cstep fixed 2 cw (VReopen 0 0) = None /\
  exists cw', cstep fixed 2 (forget cw 0) (VReopen 0 0) = Some (cw', CDone) /\
              sx (cb (ucache_of cw' 0)) = rebuild (bug_git cw' 0) /\ si (cb (ucache_of cw' 0)) = rebuild (bug_git cw' 0) /\
              sl (cb (ucache_of cw' 0)) = [].
Proof. eexists. split; [vm_compute; reflexivity|]. repeat split; try (vm_compute; reflexivity).
  eexists. split; [vm_compute; reflexivity|]. repeat split; vm_compute; reflexivity. Qed.

Section Replay.
Variable V : variant.
Variable c : case.

Definition stp (cw : cworld) (ev : cev) : cworld := match cstep V (c_cap c) cw ev with Some (cw', _) => cw' | None => cw end.

(* the questionnaire: static answers, then the lookups (a hit loads the entity), the identities, every bug in the given order *)
Definition predict (cw : cworld) (r : nat) (order : list nat) : cworld * views :=
  let u := ucache_of cw r in
  let a := answers (c_ops c) (c_idrank c) (st (ww (gw cw))) (sx (cb u)) (si (cb u)) (sx (ci u)) (si (ci u)) in
  let cw1 := fold_left (fun w l => match l with LFound e => stp w (VResolve r e) | _ => w end) (a_meta a) cw in
  let cw2 := fold_left (fun w l => match l with LFound k => stp w (VIdResolve r k) | _ => w end) (a_idmeta a) cw1 in
  let '(cw3, idres) := fold_left (fun acc k => let '(w, out) := acc in
                          let w' := stp w (VIdResolve r k) in
                          match kget k (sl (ci (ucache_of w' r))) with
                          | Some m => (w', out ++ [{| z_u := k; z_err := false; z_name := last (m_base m ++ m_staged m) 99; z_dirty := is_dirty m |}])
                          | None => match kget k (sx (ci (ucache_of w' r))) with
                                    | Some _ => (w', out ++ [{| z_u := k; z_err := true; z_name := 0; z_dirty := false |}])
                                    | None => (w', out) end
                          end) [0%nat; 1%nat] (cw2, []) in
  let '(cw4, snaps) := fold_left (fun acc e => let '(w, out) := acc in
                          let w' := stp w (VResolve r e) in
                          match kget e (sl (cb (ucache_of w' r))) with
                          | Some m => (w', out ++ [snap_of (c_ops c) e m])
                          | None => (w', out ++ [{| n_e := e; n_state := match gfb (gw w') r e with Some _ => 2 | None => 1 end; n_ops := []; n_st := 0; n_title := [];
                                                     n_labels := []; n_comments := []; n_actors := []; n_parts := []; n_dirty := false; n_anames := [] |}])
                          end) order (cw3, []) in
  (cw4, {| w_exc := a_exc a; w_idexc := a_idexc a; w_labels := a_labels a; w_queries := a_queries a; w_meta := a_meta a; w_idmeta := a_idmeta a;
           w_idres := idres; w_snaps := snaps |}).

(* first step on which model and implementation differ, and where: 100 no transition, 101 outcome, 102 git level, 1..7 a view *)
Fixpoint replay (cw : cworld) (steps : list (hev * gobs)) (i : nat) : cworld * option (nat * N) :=
  match steps with
  | [] => (cw, None)
  | (h, o) :: t =>
      match h with
      | HEv ev =>
          match cstep V (c_cap c) (before_ev cw ev) ev with
          | None => (cw, Some (i, 100))
          | Some (cw', out) =>
              if negb (cout_eqb out (o_out o)) then (cw', Some (i, 101))
              else if negb (git_agrees cw' (rep_ev ev) o) then (cw', Some (i, 102))
              else replay cw' t (S i)
          end
      | HNop r => if git_agrees cw r o then replay cw t (S i) else (cw, Some (i, 102))
      | HPull ev failed =>
          match cstep V (c_cap c) cw ev with
          | Some (cw', CPulled is bs) =>
              if negb (Bool.eqb failed (existsb is_invalid (is ++ bs))) then (cw', Some (i, 101))
              else if negb (git_agrees cw' (rep_ev ev) o) then (cw', Some (i, 102))
              else replay cw' t (S i)
          | Some (cw', _) => (cw', Some (i, 101))
          | None => (cw, Some (i, 100))
          end
      | HStale r k failed =>
          let u := ucache_of cw r in
          let cw' := set_uc cw r {| cb := cb u; ci := updated k (ci u) |} in
          if negb failed then (cw', Some (i, 101))
          else if git_agrees cw' r o then replay cw' t (S i) else (cw', Some (i, 102))
      | HObserve r order live _ =>
          let '(cw', v) := predict cw r order in
          match views_diff v live with
          | 0 => if git_agrees cw' r o then replay cw' t (S i) else (cw', Some (i, 102))
          | d => (cw', Some (i, d))
          end
      end
  end.

Definition divergence : option (nat * N) :=
  match replay (cw0 2) (c_steps c) 0 with
  | (_, Some d) => Some d
  | (cw, None) => if K_World.store_eqb (st (ww (gw cw))) (c_store c) then None else Some (length (c_steps c), 103)
  end.
End Replay.

Definition agrees (c : case) : bool := match divergence fixed c with None => true | Some _ => false end.
Definition mismatches (cs : list case) : list nat := K_World.index_filter agrees 0 cs.

(* ---------------- the property on the implementation's observations ---------------- *)
Definition obs_quiescent (v : views) : bool := forallb (fun s => negb (n_dirty s)) (w_snaps v) && forallb (fun z => negb (z_dirty z)) (w_idres v).

(* at every quiescent point the live cache answers what a cache rebuilt from the git data answers;
   and Resolve never hands out an entity that is locked for ever (a rebuilt cache never does, whatever is staged on other bugs) *)
Definition step_ok (h : hev * gobs) : bool :=
  match fst h with
  | HObserve _ _ live rebuilt =>
      forallb (fun s => negb (N.eqb (n_state s) 2)) (w_snaps live) &&
      (negb (obs_quiescent live) || N.eqb (views_diff_full live rebuilt) 0)
  | _ => true
  end.
(* "later edits made through the cache build on the merged history": a Commit (or CommitAsNeeded) of bug e through the cache of user r
   that reports success leaves r's ref of e on a descendant of where it was after r's previous step (only r's own steps move r's refs; a pull
   in between has put the merged head there).  Evaluated on the refs and the commit graph as read through RepoData. *)
Definition hev_rep (h : hev) : nat := match h with HEv ev => rep_ev ev | HNop r => r | HPull ev _ => rep_ev ev | HStale r _ _ => r | HObserve r _ _ _ => r end.
Definition commit_builds_on (s : store) (prev : amap) (h : hev) (o : gobs) : bool :=
  match h, o_out o with
  | HEv (VCommit _ e _ _), CDone | HEv (VCommitAsNeeded _ e _ _), CDone =>
      match alookup e prev, alookup e (o_loc o) with
      | Some h0, Some h1 => is_anc s h0 h1
      | _, _ => true
      end
  | _, _ => true
  end.
(* steps whose commit does not build on the previous head of the bug; prev: every user's local refs after his last step *)
Fixpoint history_bad (s : store) (prev : list amap) (steps : list (hev * gobs)) (i : nat) : list nat :=
  match steps with
  | [] => []
  | (h, o) :: t =>
      let rest := history_bad s (set_nth (hev_rep h) (o_loc o) prev) t (S i) in
      if commit_builds_on s (nth (hev_rep h) prev []) h o then rest else i :: rest
  end.
Definition history_ok (c : case) : bool := match history_bad (c_store c) [[]; []] (c_steps c) 0 with [] => true | _ => false end.

Definition C11_ok (c : case) : bool := forallb step_ok (c_steps c) && history_ok c.
Definition failing (cs : list case) : list nat := K_World.index_filter C11_ok 0 cs.

(* replay diagnosis: (divergence from the repaired model; every observation where live <> rebuilt: step, first differing view (8: locked handle),
   then every commit that does not build on the previous head of its bug: (step, 10);
   which "code as found" variants reproduce the observations, if any: 1 index, 2 identity, 3 merge result, 4 eviction, 5-7 combinations) *)
Fixpoint all_bad (l : list (hev * gobs)) (i : nat) : list (nat * N) :=
  match l with
  | [] => []
  | h :: t => if step_ok h then all_bad t (S i)
              else match fst h with
                   | HObserve _ _ live rebuilt => (i, if forallb (fun s => negb (N.eqb (n_state s) 2)) (w_snaps live) then views_diff_full live rebuilt else 8) :: all_bad t (S i)
                   | _ => all_bad t (S i) end
  end.
Definition variants : list (N * variant) := [
  (1, {| v_index_merged := false; v_ident_updated := true; v_merge_result := true; v_keep_newest := true |});
  (2, {| v_index_merged := true; v_ident_updated := false; v_merge_result := true; v_keep_newest := true |});
  (3, {| v_index_merged := true; v_ident_updated := true; v_merge_result := false; v_keep_newest := true |});
  (4, {| v_index_merged := true; v_ident_updated := true; v_merge_result := true; v_keep_newest := false |});
  (5, {| v_index_merged := false; v_ident_updated := true; v_merge_result := true; v_keep_newest := false |});   (* 1 and 4 together *)
  (6, {| v_index_merged := false; v_ident_updated := false; v_merge_result := true; v_keep_newest := false |});  (* 1, 2 and 4 *)
  (7, {| v_index_merged := false; v_ident_updated := false; v_merge_result := false; v_keep_newest := false |})]. (* all four: the pinned tree *)
Definition explain (c : case) : option (nat * N) * list (nat * N) * list N :=
  (divergence fixed c, all_bad (c_steps c) 0 ++ map (fun i => (i, 10)) (history_bad (c_store c) [[]; []] (c_steps c) 0),
   map fst (filter (fun p => match divergence (snd p) c with None => true | Some _ => false end) variants)).
