(* C18 — the cache files: what SubCache.entityUpdated / SubCache.write (cache/subcache.go) leave on disk.

   The excerpts of a sub-cache are saved in .git/git-bug/cache/<namespace> after every change, by the goroutine
   that made the change, so that the next process loads them instead of reading every entity from git.
   entityUpdated(b) =  Lock; excerpts[b] := excerpt of the entity; (index); Unlock;        section PUpd
                       write():  RLock; serialise the excerpts into a buffer                section PSer
                                 create the file, write the buffer                          section PWr
                                 RUnlock                                                    section PRel
   A sync.RWMutex admits several readers: two goroutines can be inside write() at once; no PUpd runs while any
   of them holds the read lock. An entityUpdated that fails ('entity missing from cache') changes neither the
   excerpts nor the file and is not a step of this machine.

   Proved for every number of goroutines, every sequence of notifications per goroutine, every schedule:
   whenever every goroutine is done, the file holds the excerpts of the cache (saved_fresh_when_done); and at any
   time it does, unless some goroutine is still between its change and its write (saved_fresh).
   Refuted for a write() that gives the read lock back once the buffer is filled (PSerU; PWr): two
   notifications, everybody done, the file lacks the second change (unlocked_write_stale). *)
From Coq Require Import List Arith Bool Lia.
Import ListNotations.

Inductive psec :=
| PUpd (b v : nat)   (* under the write lock: the excerpt of bug b becomes v *)
| PSer               (* take the read lock, serialise the excerpts *)
| PWr                (* the buffer becomes the content of the file *)
| PRel               (* give the read lock back *)
| PSerU.             (* serialise under the read lock and give it back at once (NOT the code: refutation only) *)

Definition exc := nat -> nat.   (* excerpts: bug -> value *)
Definition xupd (m : exc) (b v : nat) : exc := fun x => if Nat.eqb x b then v else m x.

Record pthr := mkpthr { pcode : list psec; pbuf : exc; pholds : bool }.
Definition pcfg := (exc * exc * list pthr)%type.   (* memory, file, goroutines *)
Definition pmem (c : pcfg) := fst (fst c).
Definition pdisk (c : pcfg) := snd (fst c).
Definition pths (c : pcfg) := snd c.

Fixpoint pupd (l : list pthr) (t : nat) (x : pthr) : list pthr :=
  match l, t with
  | [], _ => []
  | _ :: r, 0 => x :: r
  | y :: r, S t' => y :: pupd r t' x
  end.

(* one step of goroutine t; None: it is done, or it has to wait for the lock *)
Definition pstep (c : pcfg) (t : nat) : option pcfg :=
  match nth_error (pths c) t with
  | None => None
  | Some th =>
    match pcode th with
    | [] => None
    | PUpd b v :: r =>
        if existsb pholds (pths c) then None
        else Some (xupd (pmem c) b v, pdisk c, pupd (pths c) t (mkpthr r (pbuf th) (pholds th)))
    | PSer :: r => Some (pmem c, pdisk c, pupd (pths c) t (mkpthr r (pmem c) true))
    | PSerU :: r => Some (pmem c, pdisk c, pupd (pths c) t (mkpthr r (pmem c) (pholds th)))
    | PWr :: r => Some (pmem c, pbuf th, pupd (pths c) t (mkpthr r (pbuf th) (pholds th)))
    | PRel :: r => Some (pmem c, pdisk c, pupd (pths c) t (mkpthr r (pbuf th) false))
    end
  end.

Fixpoint prun (sched : list nat) (c : pcfg) : pcfg :=
  match sched with
  | [] => c
  | t :: r => match pstep c t with Some c' => prun r c' | None => prun r c end
  end.

(* the code: one notification, a goroutine's sequence of notifications *)
Definition notify (p : nat * nat) : list psec := [PUpd (fst p) (snd p); PSer; PWr; PRel].
Definition pthread_of (ps : list (nat * nat)) : pthr := mkpthr (flat_map notify ps) (fun _ => 0) false.
(* a cache that was just opened: the excerpts are those of the file *)
Definition pinit (m : exc) (progs : list (list (nat * nat))) : pcfg := (m, m, map pthread_of progs).

(* where a goroutine can be *)
Inductive pshape : bool -> list psec -> Prop :=
| sh_calls ps : pshape false (flat_map notify ps)
| sh_ser ps : pshape false (PSer :: PWr :: PRel :: flat_map notify ps)
| sh_wr ps : pshape true (PWr :: PRel :: flat_map notify ps)
| sh_rel ps : pshape true (PRel :: flat_map notify ps).

(* between its change and its write *)
Definition powes (th : pthr) : Prop :=
  match pcode th with PSer :: _ => True | PWr :: _ => True | _ => False end.

Record PInv (c : pcfg) : Prop := {
  pi_shape : forall th, In th (pths c) -> pshape (pholds th) (pcode th);
  pi_buf : forall th, In th (pths c) -> pholds th = true -> forall b, pbuf th b = pmem c b;
  pi_disk : (forall b, pdisk c b = pmem c b) \/ exists th, In th (pths c) /\ powes th }.

Lemma in_pupd l t x y : In y (pupd l t x) -> y = x \/ In y l.
Proof.
  revert t; induction l as [|a l IH]; intros [|t] H; simpl in *; try tauto.
  - destruct H; auto.
  - destruct H as [H|H]; auto. apply IH in H. tauto.
Qed.

Lemma in_pupd_new l t x th : nth_error l t = Some th -> In x (pupd l t x).
Proof.
  revert t; induction l as [|a l IH]; intros [|t] H; simpl in *; try discriminate.
  - now left.
  - right. eauto.
Qed.

(* the other goroutines stay where they are *)
Lemma in_pupd_old l t x th y : nth_error l t = Some th -> In y l -> y = th \/ In y (pupd l t x).
Proof.
  revert t; induction l as [|a l IH]; intros [|t] H Hy; simpl in *; try discriminate.
  - injection H as <-. destruct Hy; auto.
  - destruct Hy as [->|Hy]; auto. destruct (IH _ H Hy); auto.
Qed.

Lemma existsb_false_in {A} (f : A -> bool) l x : existsb f l = false -> In x l -> f x = false.
Proof.
  intros H Hx. destruct (f x) eqn:E; auto.
  assert (existsb f l = true) by (apply existsb_exists; eauto). congruence.
Qed.

Lemma pstep_inv c t c' : PInv c -> pstep c t = Some c' -> PInv c'.
Proof.
  intros [Hs Hb Hd] H. unfold pstep in H.
  destruct (nth_error (pths c) t) as [th|] eqn:Ht; [|discriminate].
  assert (Hin : In th (pths c)) by (eapply nth_error_In; eauto).
  pose proof (Hs _ Hin) as Hsh.
  destruct (pcode th) as [|x r] eqn:Hc; [discriminate|].
  unfold pmem, pdisk, pths in *.
  destruct x.
  - (* PUpd: nobody holds the read lock *)
    destruct (existsb pholds (snd c)) eqn:Hh; [discriminate|]. injection H as <-.
    assert (Hth : pholds th = false) by (eapply existsb_false_in; eauto).
    inversion Hsh as [ps E1 E2|ps E1 E2|ps E1 E2|ps E1 E2]; try congruence.
    destruct ps as [|p ps]; simpl in E2; [discriminate|]. injection E2 as _ _ Er.
    split; unfold pmem, pdisk, pths in *; simpl in *.
    + intros y Hy. apply in_pupd in Hy as [->|Hy]; auto. simpl. try rewrite Hth. try rewrite <- Er. apply sh_ser.
    + intros y Hy Hy2. apply in_pupd in Hy as [->|Hy]; simpl in *; [congruence|].
      rewrite (existsb_false_in _ _ _ Hh Hy) in Hy2. discriminate.
    + right. eexists. split; [eapply in_pupd_new; eauto|].
      unfold powes; simpl. try rewrite <- Er. exact I.
  - (* PSer *)
    injection H as <-.
    inversion Hsh as [ps E1 E2|ps E1 E2|ps E1 E2|ps E1 E2]; try congruence.
    { destruct ps as [|p ps]; simpl in E2; discriminate. }
    rename E2 into Er.
    split; unfold pmem, pdisk, pths in *; simpl in *.
    + intros y Hy. apply in_pupd in Hy as [->|Hy]; auto. simpl. try rewrite <- Er. apply sh_wr.
    + intros y Hy Hy2. apply in_pupd in Hy as [->|Hy]; simpl in *; auto.
    + right. eexists. split; [eapply in_pupd_new; eauto|].
      unfold powes; simpl. try rewrite <- Er. exact I.
  - (* PWr: the buffer is the memory *)
    injection H as <-.
    inversion Hsh as [ps E1 E2|ps E1 E2|ps E1 E2|ps E1 E2]; try congruence.
    { destruct ps as [|p ps]; simpl in E2; discriminate. }
    rename E2 into Er.
    split; unfold pmem, pdisk, pths in *; simpl in *.
    + intros y Hy. apply in_pupd in Hy as [->|Hy]; auto. simpl. try rewrite <- E1. try rewrite <- Er. apply sh_rel.
    + intros y Hy Hy2. apply in_pupd in Hy as [->|Hy]; simpl in *; auto.
    + left. intros b. apply Hb; auto.
  - (* PRel *)
    injection H as <-.
    inversion Hsh as [ps E1 E2|ps E1 E2|ps E1 E2|ps E1 E2]; try congruence.
    { destruct ps as [|p ps]; simpl in E2; discriminate. }
    rename E2 into Er.
    split; unfold pmem, pdisk, pths in *; simpl in *.
    + intros y Hy. apply in_pupd in Hy as [->|Hy]; auto. simpl. try rewrite <- Er. apply sh_calls.
    + intros y Hy Hy2. apply in_pupd in Hy as [->|Hy]; simpl in *; [discriminate|auto].
    + destruct Hd as [Hd|[y [Hy Ho]]]; [now left|]. right.
      destruct (in_pupd_old _ t (mkpthr r (pbuf th) false) _ _ Ht Hy) as [->|Hy2].
      * unfold powes in Ho. rewrite Hc in Ho. destruct Ho.
      * try rewrite <- Er in Hy2. eauto.
  - (* PSerU is not part of the code *)
    inversion Hsh as [ps E1 E2|ps E1 E2|ps E1 E2|ps E1 E2]; try congruence.
    destruct ps as [|p ps]; simpl in E2; discriminate.
Qed.

Lemma prun_inv sched : forall c, PInv c -> PInv (prun sched c).
Proof.
  induction sched as [|t r IH]; intros c H; simpl; auto.
  destruct (pstep c t) eqn:E; auto. apply IH. eapply pstep_inv; eauto.
Qed.

Lemma pinit_inv m progs : PInv (pinit m progs).
Proof.
  split; simpl.
  - intros th H. apply in_map_iff in H as [ps [<- _]]. simpl. apply sh_calls.
  - intros th H. apply in_map_iff in H as [ps [<- _]]. simpl. discriminate.
  - now left.
Qed.

Theorem saved_fresh m progs sched : let c := prun sched (pinit m progs) in
  (forall b, pdisk c b = pmem c b) \/ exists th, In th (pths c) /\ powes th.
Proof. intros c. apply (pi_disk c). apply prun_inv, pinit_inv. Qed.

Theorem saved_fresh_when_done m progs sched : let c := prun sched (pinit m progs) in
  (forall th, In th (pths c) -> pcode th = []) -> forall b, pdisk c b = pmem c b.
Proof.
  intros c Hdone. destruct (saved_fresh m progs sched) as [H|[th [Hin Ho]]]; auto.
  unfold powes in Ho. fold c in Hin. rewrite (Hdone _ Hin) in Ho. destruct Ho.
Qed.

(* --- a write() that releases the read lock before the file is written --- *)
Definition notify_unlocked (p : nat * nat) : list psec := [PUpd (fst p) (snd p); PSerU; PWr].
Definition pdoneb (c : pcfg) : bool := forallb (fun th => match pcode th with [] => true | _ => false end) (pths c).
Definition pstaleb (c : pcfg) (b : nat) : bool := negb (Nat.eqb (pdisk c b) (pmem c b)).

(* goroutine 0 changes bug 1 and fills its buffer; goroutine 1 changes bug 2, fills its buffer and writes the
   file; then goroutine 0 writes: everybody is done and the file does not have the change of bug 2 *)
Lemma unlocked_write_stale : exists sched,
  let c := prun sched (fun _ => 0, fun _ => 0,
                       [mkpthr (notify_unlocked (1, 7)) (fun _ => 0) false; mkpthr (notify_unlocked (2, 9)) (fun _ => 0) false]) in
  pdoneb c && pstaleb c 2 = true.
Proof. exists [0; 0; 1; 1; 1; 0]. reflexivity. Qed.

(* the same schedule with the code as it is: goroutine 1 cannot change bug 2 while goroutine 0 holds the read lock *)
Example locked_write_same_schedule :
  let c := prun ([0; 0; 1; 1; 1; 0] ++ [0; 0; 1; 1; 1; 1])
                (pinit (fun _ => 0) [[(1, 7)]; [(2, 9)]]) in
  pdoneb c && negb (pstaleb c 1) && negb (pstaleb c 2) && Nat.eqb (pdisk c 2) 9 = true.
Proof. reflexivity. Qed.
