(* Auth.v — model of the write side of git-bug's web API:
     api/graphql/resolvers/mutation.go   (nine mutation resolvers, all of the shape
                                          resolve target -> auth.UserFromCtx -> mutate -> commit)
     api/http/git_file_upload_handler.go (resolve repo -> auth.UserFromCtx -> parse -> store blob)
     api/auth/context.go                 (UserFromCtx: no user => ErrNotAuthenticated, else Identities().Resolve)
     util/text/{transform,validate}.go   (Cleanup, CleanupOneLine, Empty, Safe, SafeOneLine)
     entities/bug/op_*.go                (the convenience functions Create/AddComment/... and the Apply functions)
   Text is a list of code points. Ids (bug, operation, identity, file) are abstract numbers; the
   hexadecimal text of an id, needed for prefix resolution, is given by [idtext]. Ids of newly
   created operations are environment choices and come with the request ([a_fresh]). *)
From Coq Require Import List Arith NArith Bool Lia.
Import ListNotations.
From GB Require Import Ids.
Local Open Scope N_scope.

Definition text := list N.

Fixpoint text_eqb (a b : text) : bool :=
  match a, b with [], [] => true | x :: a', y :: b' => N.eqb x y && text_eqb a' b' | _, _ => false end.
Fixpoint is_prefix (p t : text) : bool :=
  match p, t with [] , _ => true | x :: p', y :: t' => N.eqb x y && is_prefix p' t' | _ :: _, [] => false end.
Definition memN (x : N) (l : list N) : bool := existsb (N.eqb x) l.
Definition memT (x : text) (l : list text) : bool := existsb (text_eqb x) l.

Lemma text_eqb_refl a : text_eqb a a = true.
Proof. induction a; cbn; [reflexivity|]. now rewrite N.eqb_refl. Qed.
Lemma text_eqb_eq a : forall b, text_eqb a b = true -> a = b.
Proof. induction a as [|x a IH]; intros [|y b] H; cbn in H; try discriminate; [reflexivity|].
  apply andb_true_iff in H as [H1 H2]. apply N.eqb_eq in H1. subst. f_equal. now apply IH. Qed.

(* ------------------------------------------------------------------ util/text *)

(* unicode.IsControl *)
Definition is_control (r : N) : bool := (r <=? 31) || ((127 <=? r) && (r <=? 159)).
(* unicode.IsSpace *)
Definition is_space (r : N) : bool :=
  ((9 <=? r) && (r <=? 13)) || (r =? 32) || (r =? 133) || (r =? 160) || (r =? 5760) ||
  ((8192 <=? r) && (r <=? 8202)) || (r =? 8232) || (r =? 8233) || (r =? 8239) || (r =? 8287) || (r =? 12288).
Definition keep_ws (r : N) : bool := (r =? 9) || (r =? 10) || (r =? 13).    (* '\t' '\n' '\r' *)

(* strings.Replace(text, "\r\n", "\n", -1) *)
Fixpoint crlf (t : text) : text :=
  match t with
  | [] => []
  | a :: r => match r with
              | b :: _ => if (a =? 13) && (b =? 10) then crlf r else a :: crlf r
              | [] => [a]
              end
  end.
Fixpoint drop_space (t : text) : text :=
  match t with [] => [] | r :: t' => if is_space r then drop_space t' else t end.
(* strings.TrimSpace *)
Definition trim_space (t : text) : text := rev (drop_space (rev (drop_space t))).

(* text.Cleanup *)
Definition cleanup (t : text) : text :=
  trim_space (filter (fun r => keep_ws r || negb (is_control r)) (crlf t)).
(* text.CleanupOneLine *)
Definition cleanup1 (t : text) : text := trim_space (filter (fun r => negb (is_control r)) t).
(* text.Safe / text.SafeOneLine *)
Definition safe (t : text) : bool := forallb (fun r => keep_ws r || negb (is_control r)) t.
Definition safe1 (t : text) : bool := forallb (fun r => negb (is_control r)) t.

Lemma forallb_drop_space f t : forallb f t = true -> forallb f (drop_space t) = true.
Proof. induction t as [|r t IH]; cbn; [auto|]. intros H. destruct (is_space r); [|exact H].
  apply andb_true_iff in H as [_ H]. auto. Qed.
Lemma forallb_rev {A} (f : A -> bool) l : forallb f l = true -> forallb f (rev l) = true.
Proof. rewrite !forallb_forall. intros H x Hx. apply H. now apply in_rev. Qed.
Lemma forallb_trim f t : forallb f t = true -> forallb f (trim_space t) = true.
Proof. intros H. unfold trim_space. now apply forallb_rev, forallb_drop_space, forallb_rev, forallb_drop_space. Qed.
Lemma forallb_filter_self {A} (f : A -> bool) l : forallb f (filter f l) = true.
Proof. apply forallb_forall. intros x Hx. now apply filter_In in Hx as [_ Hx]. Qed.

(* the validation that follows the cleanup in every resolver can never reject on control characters *)
Lemma safe_cleanup t : safe (cleanup t) = true.
Proof. apply forallb_trim, forallb_filter_self. Qed.
Lemma safe1_cleanup1 t : safe1 (cleanup1 t) = true.
Proof. apply forallb_trim, forallb_filter_self. Qed.

(* ------------------------------------------------------------------ bug state *)

Inductive op :=
| OCreate (id au : N) (title msg : text) (files : list N)
| OComment (id au : N) (msg : text) (files : list N)
| OEdit (id au : N) (target : N) (msg : text) (files : list N)
| OTitle (id au : N) (title was : text)
| OStatus (id au : N) (closed : bool)
| OLabels (id au : N) (added removed : list text)
| OOther (id au : N).                                   (* set-metadata, no-op: never produced by the API *)

Definition op_id (o : op) : N := match o with
  | OCreate i _ _ _ _ | OComment i _ _ _ | OEdit i _ _ _ _ | OTitle i _ _ _ | OStatus i _ _ | OLabels i _ _ _ | OOther i _ => i end.
Definition op_author (o : op) : N := match o with
  | OCreate _ a _ _ _ | OComment _ a _ _ | OEdit _ a _ _ _ | OTitle _ a _ _ | OStatus _ a _ | OLabels _ a _ _ | OOther _ a => a end.

Record comment := { cm_id : N; cm_au : N; cm_msg : text; cm_files : list N }.
Record snap := { sn_closed : bool; sn_title : text; sn_labels : list text; sn_comments : list comment;
                 sn_nops : nat; sn_actors : list N; sn_parts : list N }.
Definition snap0 : snap :=
  {| sn_closed := false; sn_title := []; sn_labels := []; sn_comments := []; sn_nops := 0; sn_actors := []; sn_parts := [] |}.

Definition add_once (a : N) (l : list N) : list N := if memN a l then l else l ++ [a].

(* byte-wise string order = code point order *)
Fixpoint text_leb (a b : text) : bool :=
  match a, b with
  | [], _ => true
  | _ :: _, [] => false
  | x :: a', y :: b' => if x <? y then true else if y <? x then false else text_leb a' b'
  end.
Fixpoint insert_label (x : text) (l : list text) : list text :=
  match l with [] => [x] | y :: t => if text_leb x y then x :: l else y :: insert_label x t end.
Definition sort_labels (l : list text) : list text := fold_right insert_label [] l.

(* LabelChangeOperation.Apply on a duplicate-free label list (the API keeps it duplicate-free) *)
Definition apply_labels (labels added removed : list text) : list text :=
  let l1 := fold_left (fun l a => if memT a l then l else l ++ [a]) added labels in
  let l2 := filter (fun x => negb (memT x removed)) l1 in
  sort_labels l2.

Definition edit_comment (t : N) (msg : text) (files : list N) (cs : list comment) : list comment :=
  (fix go (cs : list comment) := match cs with
     | [] => []
     | c :: r => if cm_id c =? t then {| cm_id := cm_id c; cm_au := cm_au c; cm_msg := msg; cm_files := files |} :: r
                 else c :: go r end) cs.

(* ------------------------------------------------------------------ requests and responses *)

Inductive err := ENotAuth | ENotFound | EMultiple | EOther.
Inductive result (T : Type) := Ok (x : T) | Err (e : err).
Arguments Ok {T} _. Arguments Err {T} _.

(* ---- the shape shared by every resolver and by the upload handler ---- *)
Section Gate.
Variables (St Arg Tgt Usr Idn Pay : Type).
Variable resolve : St -> Arg -> result Tgt.          (* getRepo / getBug / ResolveComment; request decoding *)
Variable ident_of : St -> Usr -> result Idn.         (* r.Identities().Resolve(id) in auth.UserFromCtx *)
Variable effect : St -> Tgt -> Idn -> Arg -> St * result Pay.

Definition gated (st : St) (a : Arg) (user : option Usr) : St * result Pay :=
  match resolve st a with
  | Err e => (st, Err e)
  | Ok tgt =>
      match user with
      | None => (st, Err ENotAuth)                    (* auth.ErrNotAuthenticated *)
      | Some u =>
          match ident_of st u with
          | Err e => (st, Err e)
          | Ok idn => effect st tgt idn a
          end
      end
  end.

Definition is_err {T} (r : result T) : bool := match r with Err _ => true | Ok _ => false end.

Lemma gate st a : fst (gated st a None) = st /\ is_err (snd (gated st a None)) = true.
Proof. unfold gated. destruct (resolve st a); cbn; auto. Qed.

(* an effect that changes nothing when it fails gives an all-or-nothing step *)
Lemma gated_atomic :
  (forall st t i a, is_err (snd (effect st t i a)) = true -> fst (effect st t i a) = st) ->
  forall st a u, is_err (snd (gated st a u)) = true -> fst (gated st a u) = st.
Proof. intros H st a u. unfold gated. destruct (resolve st a); cbn; auto.
  destruct u as [u|]; cbn; auto. destruct (ident_of st u); cbn; auto. Qed.
End Gate.
Arguments gated {St Arg Tgt Usr Idn Pay} resolve ident_of effect st a user.
Arguments gate {St Arg Tgt Usr Idn Pay} resolve ident_of effect st a.
Arguments gated_atomic {St Arg Tgt Usr Idn Pay} resolve ident_of effect _ st a u _.

Section Model.
(* op_create.go of the pinned tree did not copy the files of the create operation into the first
   comment; the repair ("keep the files of the create operation in the first comment") changes that.
   The harness probes the linked code on every run and passes what it does. *)
Variable create_keeps_files : bool.

Definition apply (s : snap) (o : op) : snap :=
  let s' :=
    match o with
    | OCreate i au title msg files =>
        {| sn_closed := sn_closed s; sn_title := title; sn_labels := sn_labels s;
           sn_comments := [{| cm_id := i; cm_au := au; cm_msg := msg; cm_files := if create_keeps_files then files else [] |}];
           sn_nops := sn_nops s; sn_actors := add_once au (sn_actors s); sn_parts := add_once au (sn_parts s) |}
    | OComment i au msg files =>
        {| sn_closed := sn_closed s; sn_title := sn_title s; sn_labels := sn_labels s;
           sn_comments := sn_comments s ++ [{| cm_id := i; cm_au := au; cm_msg := msg; cm_files := files |}];
           sn_nops := sn_nops s; sn_actors := add_once au (sn_actors s); sn_parts := add_once au (sn_parts s) |}
    | OEdit _ au t msg files =>
        if existsb (fun c => cm_id c =? t) (sn_comments s)
        then {| sn_closed := sn_closed s; sn_title := sn_title s; sn_labels := sn_labels s;
                sn_comments := edit_comment t msg files (sn_comments s);
                sn_nops := sn_nops s; sn_actors := add_once au (sn_actors s); sn_parts := sn_parts s |}
        else s
    | OTitle _ au title _ =>
        {| sn_closed := sn_closed s; sn_title := title; sn_labels := sn_labels s; sn_comments := sn_comments s;
           sn_nops := sn_nops s; sn_actors := add_once au (sn_actors s); sn_parts := sn_parts s |}
    | OStatus _ au c =>
        {| sn_closed := c; sn_title := sn_title s; sn_labels := sn_labels s; sn_comments := sn_comments s;
           sn_nops := sn_nops s; sn_actors := add_once au (sn_actors s); sn_parts := sn_parts s |}
    | OLabels _ au added removed =>
        {| sn_closed := sn_closed s; sn_title := sn_title s; sn_labels := apply_labels (sn_labels s) added removed;
           sn_comments := sn_comments s;
           sn_nops := sn_nops s; sn_actors := add_once au (sn_actors s); sn_parts := sn_parts s |}
    | OOther _ _ => s
    end in
  {| sn_closed := sn_closed s'; sn_title := sn_title s'; sn_labels := sn_labels s'; sn_comments := sn_comments s';
     sn_nops := S (sn_nops s'); sn_actors := sn_actors s'; sn_parts := sn_parts s' |}.

(* Bug.Compile *)
Definition compile (ops : list op) : snap := fold_left apply ops snap0.

Lemma compile_app ops new : compile (ops ++ new) = fold_left apply new (compile ops).
Proof. unfold compile. apply fold_left_app. Qed.

Record bug := { bg_id : N; bg_ops : list op }.
(* the repository as the API sees it: bugs, identities, stored blobs (by content) *)
Record state := { st_bugs : list bug; st_idents : list N; st_blobs : list N }.

(* ---- GraphQL mutations ---- *)
Variable idtext : N -> text.      (* the 64 hexadecimal characters of an id *)
Variable graphic : N -> bool.     (* unicode.IsGraphic on the code points in use *)

(* text.Empty *)
Definition empty (t : text) : bool := forallb (fun r => is_space r || negb (graphic r)) t.

Inductive mutk := MNewBug | MAddComment | MAddCommentAndClose | MAddCommentAndReopen | MEditComment
                | MChangeLabels | MOpenBug | MCloseBug | MSetTitle.

Record args := { a_wf : bool;              (* the request passes gqlgen's decoding and schema validation *)
                 a_files_ok : bool;        (* every hash of `files` names a blob stored in the repository *)
                 a_repo_ok : bool;         (* repoRef absent, or names a registered repository *)
                 a_prefix : text;          (* prefix / targetPrefix *)
                 a_title : text; a_msg : text; a_files : list N;
                 a_added : list text; a_removed : list text;
                 a_fresh : list N }.       (* ids the new operations will get *)

Inductive target := TRepo | TBug (b : N) | TComment (b c : N).
Record payload := { p_bug : N; p_snap : snap; p_ops : list N }.

Definition combined (b c : N) : text := combine_ids N (idtext b) (idtext c).

Definition comments_of (b : bug) : list (N * N) :=
  map (fun c => (bg_id b, cm_id c)) (sn_comments (compile (bg_ops b))).

Definition resolve_m (m : mutk) (st : state) (a : args) : result target :=
  if negb (a_wf a) then Err EOther else
  if negb (a_repo_ok a) then Err EOther else
  match m with
  | MNewBug => Ok TRepo
  | MEditComment =>
      (* RepoCacheBug.ResolveComment: every comment whose combined id starts with the prefix counts *)
      match filter (fun bc => is_prefix (a_prefix a) (combined (fst bc) (snd bc))) (flat_map comments_of (st_bugs st)) with
      | [] => Err ENotFound
      | [bc] => Ok (TComment (fst bc) (snd bc))
      | _ => Err EMultiple
      end
  | _ =>
      (* SubCache.ResolvePrefix *)
      match filter (fun b => is_prefix (a_prefix a) (idtext (bg_id b))) (st_bugs st) with
      | [] => Err ENotFound
      | [b] => Ok (TBug (bg_id b))
      | _ => Err EMultiple
      end
  end.

Definition ident_m (st : state) (u : N) : result N := if memN u (st_idents st) then Ok u else Err ENotFound.

Definition fresh (a : args) (k : nat) : N := nth k (a_fresh a) 0.

Definition find_bug (st : state) (b : N) : option bug := find (fun x => bg_id x =? b) (st_bugs st).
Definition ops_of (st : state) (b : N) : list op := match find_bug st b with Some x => bg_ops x | None => [] end.

Definition append_ops (st : state) (b : N) (new : list op) : state :=
  {| st_bugs := map (fun x => if bg_id x =? b then {| bg_id := bg_id x; bg_ops := bg_ops x ++ new |} else x) (st_bugs st);
     st_idents := st_idents st; st_blobs := st_blobs st |}.

Definition commit (st : state) (b : N) (new : list op) : state * result payload :=
  (append_ops st b new, Ok {| p_bug := b; p_snap := compile (ops_of st b ++ new); p_ops := map op_id new |}).

(* bug.SetTitle: "was" is the title of the last set-title operation, else of the create operation *)
Definition title_was (ops : list op) : text :=
  let start := match ops with OCreate _ _ ti _ _ :: _ => ti | _ => [] end in
  fold_left (fun t o => match o with OTitle _ _ ti _ => ti | _ => t end) ops start.

(* bug.ChangeLabels: what survives the duplicate / already-set / doesn't-exist filtering *)
Fixpoint dedup_keep (keep : text -> bool) (l acc : list text) : list text :=
  match l with
  | [] => acc
  | x :: t => if memT x acc then dedup_keep keep t acc else if keep x then dedup_keep keep t (acc ++ [x]) else dedup_keep keep t acc
  end.

(* the requested operations of each mutation (after cleanup), or the reason for refusing *)
Definition requested (m : mutk) (st : state) (tgt : target) (u : N) (a : args) : result (N * list op) :=
  match m, tgt with
  | MNewBug, TRepo =>
      let title := cleanup1 (a_title a) in let msg := cleanup (a_msg a) in
      if empty title || negb (safe1 title) || negb (safe msg) || negb (a_files_ok a) then Err EOther
      else Ok (fresh a 0, [OCreate (fresh a 0) u title msg (a_files a)])
  | MAddComment, TBug b =>
      let msg := cleanup (a_msg a) in
      if negb (safe msg) || negb (a_files_ok a) then Err EOther else Ok (b, [OComment (fresh a 0) u msg (a_files a)])
  | MAddCommentAndClose, TBug b =>
      let msg := cleanup (a_msg a) in
      if negb (safe msg) || negb (a_files_ok a) then Err EOther else Ok (b, [OComment (fresh a 0) u msg (a_files a); OStatus (fresh a 1) u true])
  | MAddCommentAndReopen, TBug b =>
      let msg := cleanup (a_msg a) in
      if negb (safe msg) || negb (a_files_ok a) then Err EOther else Ok (b, [OComment (fresh a 0) u msg (a_files a); OStatus (fresh a 1) u false])
  | MEditComment, TComment b c =>
      let msg := cleanup (a_msg a) in
      if negb (safe msg) || negb (a_files_ok a) then Err EOther else Ok (b, [OEdit (fresh a 0) u c msg (a_files a)])
  | MChangeLabels, TBug b =>
      let cur := sn_labels (compile (ops_of st b)) in
      let added := dedup_keep (fun x => negb (memT x cur)) (map cleanup1 (a_added a)) [] in
      let removed := dedup_keep (fun x => memT x cur) (map cleanup1 (a_removed a)) [] in
      match added, removed with
      | [], [] => Err EOther                                    (* "no label added or removed" *)
      | _, _ => if existsb empty added || existsb empty removed || negb (forallb safe1 added) || negb (forallb safe1 removed)
                then Err EOther else Ok (b, [OLabels (fresh a 0) u added removed])
      end
  | MOpenBug, TBug b => Ok (b, [OStatus (fresh a 0) u false])
  | MCloseBug, TBug b => Ok (b, [OStatus (fresh a 0) u true])
  | MSetTitle, TBug b =>
      let title := cleanup1 (a_title a) in
      if empty title || negb (safe1 title) || negb (safe1 (title_was (ops_of st b))) then Err EOther
      else Ok (b, [OTitle (fresh a 0) u title (title_was (ops_of st b))])
  | _, _ => Err EOther
  end.

Definition effect_m (m : mutk) (st : state) (tgt : target) (u : N) (a : args) : state * result payload :=
  match requested m st tgt u a with
  | Err e => (st, Err e)
  | Ok (b, new) =>
      match m with
      | MNewBug =>   (* RepoCacheBug.NewRaw: a new entity *)
          ({| st_bugs := st_bugs st ++ [{| bg_id := b; bg_ops := new |}]; st_idents := st_idents st; st_blobs := st_blobs st |},
           Ok {| p_bug := b; p_snap := compile new; p_ops := map op_id new |})
      | _ => commit st b new
      end
  end.

Definition mutation_step (m : mutk) (st : state) (a : args) (user : option N) : state * result payload :=
  gated (resolve_m m) ident_m (effect_m m) st a user.

(* ---- the upload handler ---- *)
Inductive form := FBad                 (* not a multipart form / too big *)
                | FNoField             (* no "uploadfile" part *)
                | FFile (content : N) (image : bool).     (* image: http.DetectContentType says jpeg/gif/png *)
Record uargs := { u_repo_ok : bool; u_form : form }.

Definition resolve_u (st : state) (a : uargs) : result unit := if u_repo_ok a then Ok tt else Err EOther.
Definition effect_u (st : state) (_ : unit) (_ : N) (a : uargs) : state * result N :=
  match u_form a with
  | FFile c true => ({| st_bugs := st_bugs st; st_idents := st_idents st; st_blobs := if memN c (st_blobs st) then st_blobs st else st_blobs st ++ [c] |}, Ok c)
  | _ => (st, Err EOther)
  end.
Definition upload_step (st : state) (a : uargs) (user : option N) : state * result N :=
  gated resolve_u ident_m effect_u st a user.
(* HTTP status of the handler *)
Definition upload_status (st : state) (a : uargs) (user : option N) : nat :=
  match snd (upload_step st a user) with
  | Ok _ => 200
  | Err ENotAuth => 403
  | Err ENotFound => 500           (* "loading identity" *)
  | Err _ => 400
  end.

(* ---- queries ---- *)
Definition answer (st : state) : list (N * snap) := map (fun b => (bg_id b, compile (bg_ops b))) (st_bugs st).
Definition query_step (st : state) (user : option N) : state * list (N * snap) := (st, answer st).

(* ------------------------------------------------------------------ lemmas *)

Lemma mutation_gate m st a : fst (mutation_step m st a None) = st /\ is_err (snd (mutation_step m st a None)) = true.
Proof. apply gate. Qed.

Lemma upload_gate st a : fst (upload_step st a None) = st /\ upload_status st a None <> 200%nat.
Proof. split; [apply gate|]. unfold upload_status, upload_step, gated. destruct (resolve_u st a) as [|[]]; cbn; discriminate. Qed.

Lemma effect_m_atomic m st t i a : is_err (snd (effect_m m st t i a)) = true -> fst (effect_m m st t i a) = st.
Proof. unfold effect_m. destruct (requested m st t i a) as [[b new]|e]; [|reflexivity].
  destruct m; cbn; discriminate. Qed.

Lemma mutation_atomic m st a u : is_err (snd (mutation_step m st a u)) = true -> fst (mutation_step m st a u) = st.
Proof. apply gated_atomic. apply effect_m_atomic. Qed.

Lemma upload_atomic st a u : is_err (snd (upload_step st a u)) = true -> fst (upload_step st a u) = st.
Proof. apply gated_atomic. intros s t i x. unfold effect_u. destruct (u_form x) as [| |c [|]]; cbn; auto; discriminate. Qed.

(* what a successful step looks like *)
Lemma mutation_ok_inv m st a user st' p :
  mutation_step m st a user = (st', Ok p) ->
  exists u tgt b new, user = Some u /\ memN u (st_idents st) = true /\ resolve_m m st a = Ok tgt /\
    requested m st tgt u a = Ok (b, new) /\ effect_m m st tgt u a = (st', Ok p).
Proof. unfold mutation_step, gated. destruct (resolve_m m st a) as [tgt|e] eqn:R; [|discriminate].
  destruct user as [u|]; [|discriminate]. unfold ident_m. destruct (memN u (st_idents st)) eqn:I; [|discriminate].
  intros H. destruct (requested m st tgt u a) as [[b new]|e] eqn:Q.
  - exists u, tgt, b, new. auto.
  - unfold effect_m in H. rewrite Q in H. discriminate. Qed.

Definition all_authored (u : N) (new : list op) : bool := forallb (fun o => op_author o =? u) new.

(* every mutation except newBug: the target's history is extended by exactly the requested operations,
   they are authored by the user, nothing else changes, and the returned bug is the compiled new history *)
Lemma effect_existing m st a user st' p : m <> MNewBug ->
  mutation_step m st a user = (st', Ok p) ->
  exists u tgt new, user = Some u /\ resolve_m m st a = Ok tgt /\ requested m st tgt u a = Ok (p_bug p, new) /\
    st' = append_ops st (p_bug p) new /\
    p_snap p = compile (ops_of st (p_bug p) ++ new) /\ p_ops p = map op_id new.
Proof. intros Hm H. destruct (mutation_ok_inv _ _ _ _ _ _ H) as (u & tgt & b & new & -> & _ & R & Q & E).
  unfold effect_m in E. rewrite Q in E. exists u, tgt, new.
  destruct m; try contradiction; unfold commit in E; inversion E; subst; cbn; auto 10. Qed.

Lemma requested_authored m st tgt u a b new : requested m st tgt u a = Ok (b, new) -> all_authored u new = true.
Proof. unfold requested. intros H.
  destruct m, tgt; try discriminate;
  repeat match type of H with
         | (if ?c then _ else _) = _ => destruct c
         | match ?x with _ => _ end = _ => destruct x
         end; try discriminate; inversion H; subst; cbn; rewrite ?N.eqb_refl; reflexivity. Qed.

(* the target of a resolved request is the unique entity matching the prefix *)
Lemma resolve_bug_unique m st a b : m <> MNewBug -> m <> MEditComment -> resolve_m m st a = Ok (TBug b) ->
  exists x, filter (fun y => is_prefix (a_prefix a) (idtext (bg_id y))) (st_bugs st) = [x] /\ bg_id x = b.
Proof. intros H1 H2. unfold resolve_m. destruct (a_wf a); cbn; [|discriminate]. destruct (a_repo_ok a); cbn; [|discriminate].
  destruct m; try contradiction;
  (destruct (filter _ (st_bugs st)) as [|x [|y t]]; try discriminate; intros H; inversion H; eauto). Qed.

Lemma append_ops_other st b new x : In x (st_bugs st) -> bg_id x <> b -> In x (st_bugs (append_ops st b new)).
Proof. intros Hin Hne. cbn. apply in_map_iff. exists x. split; [|exact Hin].
  destruct (N.eqb_spec (bg_id x) b); [contradiction|reflexivity]. Qed.

Lemma append_ops_frame st b new : st_idents (append_ops st b new) = st_idents st /\ st_blobs (append_ops st b new) = st_blobs st /\
  map bg_id (st_bugs (append_ops st b new)) = map bg_id (st_bugs st).
Proof. cbn. repeat split. rewrite map_map. apply map_ext. intros x. destruct (bg_id x =? b); reflexivity. Qed.

(* ---- the effect of each current mutation, spelled out ---- *)

Lemma resolve_comment_unique st a b c : resolve_m MEditComment st a = Ok (TComment b c) ->
  filter (fun bc => is_prefix (a_prefix a) (combined (fst bc) (snd bc))) (flat_map comments_of (st_bugs st)) = [(b, c)].
Proof. unfold resolve_m. destruct (a_wf a); cbn; [|discriminate]. destruct (a_repo_ok a); cbn; [|discriminate].
  destruct (filter _ _) as [|[x y] [|z t]]; try discriminate. intros H. inversion H. reflexivity. Qed.

Ltac effect_tac H :=
  let u := fresh "u" in let tgt := fresh "tgt" in let b := fresh "b" in let new := fresh "new" in
  let I := fresh "I" in let R := fresh "R" in let Q := fresh "Q" in let E := fresh "E" in
  destruct (mutation_ok_inv _ _ _ _ _ _ H) as (u & tgt & b & new & -> & I & R & Q & E);
  unfold effect_m in E; rewrite Q in E; unfold commit in E;
  exists u; split; [reflexivity|]; split; [exact I|];
  unfold requested in Q; destruct tgt; try discriminate;
  rewrite ?safe_cleanup in Q; cbn [negb orb] in Q.

Lemma effect_addComment st a user st' p : mutation_step MAddComment st a user = (st', Ok p) ->
  exists u, user = Some u /\ memN u (st_idents st) = true /\ resolve_m MAddComment st a = Ok (TBug (p_bug p)) /\
    a_files_ok a = true /\
    let new := [OComment (fresh a 0) u (cleanup (a_msg a)) (a_files a)] in
    st' = append_ops st (p_bug p) new /\ p_snap p = compile (ops_of st (p_bug p) ++ new) /\ p_ops p = map op_id new.
Proof. intros H. effect_tac H. destruct (a_files_ok a) eqn:FK; cbn [negb] in Q; [|discriminate]. inversion Q; subst. inversion E; subst. cbn. auto 10. Qed.

Lemma effect_addCommentAndClose st a user st' p : mutation_step MAddCommentAndClose st a user = (st', Ok p) ->
  exists u, user = Some u /\ memN u (st_idents st) = true /\ resolve_m MAddCommentAndClose st a = Ok (TBug (p_bug p)) /\
    a_files_ok a = true /\
    let new := [OComment (fresh a 0) u (cleanup (a_msg a)) (a_files a); OStatus (fresh a 1) u true] in
    st' = append_ops st (p_bug p) new /\ p_snap p = compile (ops_of st (p_bug p) ++ new) /\ p_ops p = map op_id new.
Proof. intros H. effect_tac H. destruct (a_files_ok a) eqn:FK; cbn [negb] in Q; [|discriminate]. inversion Q; subst. inversion E; subst. cbn. auto 10. Qed.

Lemma effect_addCommentAndReopen st a user st' p : mutation_step MAddCommentAndReopen st a user = (st', Ok p) ->
  exists u, user = Some u /\ memN u (st_idents st) = true /\ resolve_m MAddCommentAndReopen st a = Ok (TBug (p_bug p)) /\
    a_files_ok a = true /\
    let new := [OComment (fresh a 0) u (cleanup (a_msg a)) (a_files a); OStatus (fresh a 1) u false] in
    st' = append_ops st (p_bug p) new /\ p_snap p = compile (ops_of st (p_bug p) ++ new) /\ p_ops p = map op_id new.
Proof. intros H. effect_tac H. destruct (a_files_ok a) eqn:FK; cbn [negb] in Q; [|discriminate]. inversion Q; subst. inversion E; subst. cbn. auto 10. Qed.

Lemma effect_editComment st a user st' p : mutation_step MEditComment st a user = (st', Ok p) ->
  exists u, user = Some u /\ memN u (st_idents st) = true /\ exists c, resolve_m MEditComment st a = Ok (TComment (p_bug p) c) /\
    a_files_ok a = true /\
    let new := [OEdit (fresh a 0) u c (cleanup (a_msg a)) (a_files a)] in
    st' = append_ops st (p_bug p) new /\ p_snap p = compile (ops_of st (p_bug p) ++ new) /\ p_ops p = map op_id new.
Proof. intros H. effect_tac H. destruct (a_files_ok a) eqn:FK; cbn [negb] in Q; [|discriminate]. inversion Q; subst. inversion E; subst. cbn. eauto 12. Qed.

Lemma effect_openBug st a user st' p : mutation_step MOpenBug st a user = (st', Ok p) ->
  exists u, user = Some u /\ memN u (st_idents st) = true /\ resolve_m MOpenBug st a = Ok (TBug (p_bug p)) /\
    let new := [OStatus (fresh a 0) u false] in
    st' = append_ops st (p_bug p) new /\ p_snap p = compile (ops_of st (p_bug p) ++ new) /\ p_ops p = map op_id new.
Proof. intros H. effect_tac H. inversion Q; subst. inversion E; subst. cbn. auto. Qed.

Lemma effect_closeBug st a user st' p : mutation_step MCloseBug st a user = (st', Ok p) ->
  exists u, user = Some u /\ memN u (st_idents st) = true /\ resolve_m MCloseBug st a = Ok (TBug (p_bug p)) /\
    let new := [OStatus (fresh a 0) u true] in
    st' = append_ops st (p_bug p) new /\ p_snap p = compile (ops_of st (p_bug p) ++ new) /\ p_ops p = map op_id new.
Proof. intros H. effect_tac H. inversion Q; subst. inversion E; subst. cbn. auto. Qed.

Lemma effect_setTitle st a user st' p : mutation_step MSetTitle st a user = (st', Ok p) ->
  exists u, user = Some u /\ memN u (st_idents st) = true /\ resolve_m MSetTitle st a = Ok (TBug (p_bug p)) /\
    empty (cleanup1 (a_title a)) = false /\
    let new := [OTitle (fresh a 0) u (cleanup1 (a_title a)) (title_was (ops_of st (p_bug p)))] in
    st' = append_ops st (p_bug p) new /\ p_snap p = compile (ops_of st (p_bug p) ++ new) /\ p_ops p = map op_id new.
Proof. intros H. effect_tac H. destruct (empty (cleanup1 (a_title a))) eqn:Em; cbn in Q; [discriminate|].
  destruct (negb (safe1 (cleanup1 (a_title a))) || negb (safe1 (title_was (ops_of st b0)))); [discriminate|].
  inversion Q; subst. inversion E; subst. cbn. auto 10. Qed.

Lemma effect_changeLabels st a user st' p : mutation_step MChangeLabels st a user = (st', Ok p) ->
  exists u, user = Some u /\ memN u (st_idents st) = true /\ resolve_m MChangeLabels st a = Ok (TBug (p_bug p)) /\
    let cur := sn_labels (compile (ops_of st (p_bug p))) in
    let added := dedup_keep (fun x => negb (memT x cur)) (map cleanup1 (a_added a)) [] in
    let removed := dedup_keep (fun x => memT x cur) (map cleanup1 (a_removed a)) [] in
    let new := [OLabels (fresh a 0) u added removed] in
    (added <> [] \/ removed <> []) /\ existsb empty added = false /\ existsb empty removed = false /\
    st' = append_ops st (p_bug p) new /\ p_snap p = compile (ops_of st (p_bug p) ++ new) /\ p_ops p = map op_id new.
Proof. intros H. effect_tac H.
  set (cur := sn_labels (compile (ops_of st b0))) in *.
  set (ad := dedup_keep (fun x => negb (memT x cur)) (map cleanup1 (a_added a)) []) in *.
  set (rm := dedup_keep (fun x => memT x cur) (map cleanup1 (a_removed a)) []) in *.
  assert (NE : ad <> [] \/ rm <> []).
  { destruct ad; [destruct rm; [discriminate|right; discriminate]|left; discriminate]. }
  assert (Q' : (if existsb empty ad || existsb empty rm || negb (forallb safe1 ad) || negb (forallb safe1 rm)
                then Err EOther else Ok (b0, [OLabels (fresh a 0) u ad rm])) = Ok (b, new)).
  { destruct ad; [destruct rm; [discriminate|exact Q]|exact Q]. }
  destruct (existsb empty ad) eqn:E1; [discriminate|]. destruct (existsb empty rm) eqn:E2; [discriminate|]. cbn in Q'.
  destruct (negb (forallb safe1 ad) || negb (forallb safe1 rm)); [discriminate|].
  inversion Q'; subst b new. inversion E; subst. cbn. subst cur ad rm. auto 10. Qed.

Lemma effect_newBug st a user st' p : mutation_step MNewBug st a user = (st', Ok p) ->
  exists u, user = Some u /\ memN u (st_idents st) = true /\ a_wf a = true /\ a_repo_ok a = true /\
    empty (cleanup1 (a_title a)) = false /\
    a_files_ok a = true /\
    let new := [OCreate (fresh a 0) u (cleanup1 (a_title a)) (cleanup (a_msg a)) (a_files a)] in
    p_bug p = fresh a 0 /\
    st' = {| st_bugs := st_bugs st ++ [{| bg_id := fresh a 0; bg_ops := new |}]; st_idents := st_idents st; st_blobs := st_blobs st |} /\
    p_snap p = compile new /\ p_ops p = map op_id new.
Proof. intros H. effect_tac H. rewrite ?safe1_cleanup1 in Q. cbn [negb] in Q. rewrite ?orb_false_r in Q.
  destruct (empty (cleanup1 (a_title a))) eqn:Em; [discriminate|]. cbn [orb] in Q.
  destruct (a_files_ok a) eqn:FK; cbn [negb] in Q; [|discriminate].
  inversion Q; subst. inversion E; subst. cbn.
  unfold resolve_m in R. destruct (a_wf a); [|discriminate]. destruct (a_repo_ok a); [|discriminate]. auto 12. Qed.

(* a request of a known user on a resolved target that passes validation is carried out *)
Lemma accepted m st a u tgt b new : memN u (st_idents st) = true -> resolve_m m st a = Ok tgt ->
  requested m st tgt u a = Ok (b, new) -> exists st' p, mutation_step m st a (Some u) = (st', Ok p) /\ p_bug p = b /\ p_ops p = map op_id new.
Proof. intros I R Q. unfold mutation_step, gated, ident_m. rewrite R, I. unfold effect_m. rewrite Q.
  destruct m; unfold commit; (eexists; eexists; split; [reflexivity|split; reflexivity]). Qed.

Lemma query_pure st u u' : query_step st u = (st, answer st) /\ query_step st u = query_step st u'.
Proof. split; reflexivity. Qed.

Lemma query_after_refusal m st a u : snd (query_step (fst (mutation_step m st a None)) u) = answer st.
Proof. destruct (mutation_gate m st a) as [-> _]. reflexivity. Qed.

End Model.

(* ---- a small concrete world used by the Examples of P_C17.v ---- *)
Definition ex_idt (n : N) : text := if n =? 1 then [97; 98; 99] else if n =? 2 then [97; 100] else if n =? 9 then [48] else [].
Definition ex_gr (r : N) : bool := negb (is_control r).
Definition ex_st : state :=
  {| st_bugs := [{| bg_id := 1; bg_ops := [OCreate 1 7 [116] [109] []] |}; {| bg_id := 2; bg_ops := [OCreate 2 8 [117] [] []] |}];
     st_idents := [7; 8]; st_blobs := [] |}.
Definition ex_args : args :=
  {| a_wf := true; a_files_ok := true; a_repo_ok := true; a_prefix := [97; 98]; a_title := [32; 104; 105; 1]; a_msg := [13; 10; 111; 107; 32];
     a_files := [5]; a_added := [[108]; [108]]; a_removed := []; a_fresh := [9; 10] |}.
