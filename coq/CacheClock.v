(* C18 — the table of lamport clocks of a repository (repository/gogit.go: GetOrCreateClock, getClock, Increment;
   util/lamport: MemClock starts at 1, Increment adds one and hands out the new value, atomically).

   Every commit of an entity asks the repository for the clock "<namespace>-edit" by name and increments it; the time
   is stored with the commit, and a history is only readable when each commit is later than its parent. The commits
   of one entity are made one after the other (entity lock), so what is needed is: an Increment that starts after
   another one has returned hands out a later time. That holds as long as there is ONE instance per name; the lock of
   the clock table, held from the lookup to the registration of a clock that had to be created, gives exactly that.
   Sections as steps, as in CacheConc: a lock-protected section is one step.                                          *)
From Coq Require Import List Arith Lia Bool.
Import ListNotations.
From GB Require Import Conc.

Record cstate := mkcs {
  table : option nat;     (* repo.clocks[name]: index of the registered instance *)
  vals : list nat;        (* the counter of every instance ever made *)
  trace : list nat }.     (* the times handed out, in the order of the Increments *)

Inductive csec :=
  | CGet     (* GetOrCreateClock of the code: clocksMutex { lookup; missing: create, register } *)
  | CLook    (* a GetOrCreateClock that is NOT the code's: clocksMutex { lookup } *)
  | CMake    (*   ... missing: create the instance (and its file), no lock held *)
  | CInst    (*   ... clocksMutex { register the instance just created } *)
  | CInc.    (* Increment of the instance the call got *)

Record cthr := mkct { ccode : list csec; creg : option nat; cmade : bool }.

Definition cexec (s : cstate) (th : cthr) : option (cstate * cthr) :=
  match ccode th with
  | [] => None
  | CGet :: rest =>
      match table s with
      | Some i => Some (s, mkct rest (Some i) false)
      | None => let i := length (vals s) in Some (mkcs (Some i) (vals s ++ [1]) (trace s), mkct rest (Some i) false)
      end
  | CLook :: rest => Some (s, mkct rest (table s) false)
  | CMake :: rest =>
      match creg th with
      | Some _ => Some (s, mkct rest (creg th) false)
      | None => let i := length (vals s) in Some (mkcs (table s) (vals s ++ [1]) (trace s), mkct rest (Some i) true)
      end
  | CInst :: rest =>
      if cmade th then Some (mkcs (creg th) (vals s) (trace s), mkct rest (creg th) false)
      else Some (s, mkct rest (creg th) false)
  | CInc :: rest =>
      match creg th with
      | Some i => match nth_error (vals s) i with
                  | Some v => Some (mkcs (table s) (upd (vals s) i (S v)) (trace s ++ [S v]), mkct rest None false)
                  | None => Some (s, mkct rest None false)
                  end
      | None => Some (s, mkct rest None false)
      end
  end.

Definition ccfg := (cstate * list cthr)%type.
Definition cstep (c : ccfg) (t : nat) : option ccfg :=
  match nth_error (snd c) t with
  | Some th => match cexec (fst c) th with Some (s', th') => Some (s', upd (snd c) t th') | None => None end
  | None => None
  end.
Fixpoint crun (sched : list nat) (c : ccfg) : ccfg :=
  match sched with [] => c | t :: r => crun r (match cstep c t with Some c' => c' | None => c end) end.

Definition cinit (progs : list (list csec)) : ccfg := (mkcs None [] [], map (fun p => mkct p None false) progs).

(* the calls of the code: any sequence of GetOrCreateClock / Increment *)
Definition code_sec (x : csec) : Prop := x = CGet \/ x = CInc.

(* each commit later than its parent (the form evaluated by K_C18 on the stored histories) *)
Fixpoint increasingb (l : list nat) : bool :=
  match l with
  | x :: ((y :: _) as t) => Nat.ltb x y && increasingb t
  | _ => true
  end.

(* ---- one instance per name ---- *)
Definition CInv (c : ccfg) : Prop :=
  (forall th, In th (snd c) -> Forall code_sec (ccode th)) /\
  ((table (fst c) = None /\ vals (fst c) = [] /\ trace (fst c) = [] /\ forall th, In th (snd c) -> creg th = None) \/
   (exists v, table (fst c) = Some 0 /\ vals (fst c) = [S v] /\ trace (fst c) = seq 2 v /\
              forall th, In th (snd c) -> creg th = None \/ creg th = Some 0)).

Lemma In_upd_c {A} (l : list A) i x y : In y (upd l i x) -> y = x \/ In y l.
Proof. revert i. induction l as [|a l IH]; intros i H; [destruct i; destruct H|].
  destruct i; cbn in H.
  - destruct H as [<-|H]; [now left|right; now right].
  - destruct H as [<-|H]; [right; now left|]. destruct (IH _ H); [now left|right; now right]. Qed.

Lemma cstep_inv c t c' : CInv c -> cstep c t = Some c' -> CInv c'.
Proof. intros (SH & I) H. unfold cstep in H. destruct (nth_error (snd c) t) as [th|] eqn:N; [|discriminate].
  destruct (cexec (fst c) th) as [[s' th']|] eqn:X; [|discriminate]. injection H as <-. cbn [fst snd].
  assert (In th (snd c)) as HT by (eapply nth_error_In; eauto).
  pose proof (SH th HT) as SHt. unfold cexec in X.
  destruct (ccode th) as [|x rest] eqn:CD; [discriminate|]. inversion SHt as [|? ? HX HR]; subst.
  assert (forall u, In u (upd (snd c) t th') -> u = th' \/ In u (snd c)) as IU by (intros u; apply In_upd_c).
  destruct HX as [->| ->].
  - (* CGet *)
    destruct I as [(T & V & TR & RG)|(v & T & V & TR & RG)]; rewrite T in X; [rewrite V in X|]; injection X as <- <-; cbn [fst snd].
    + split.
      * intros u Hu. destruct (IU u Hu) as [->|K]; [exact HR|now apply SH].
      * right. exists 0. cbn. rewrite TR. repeat split.
        intros u Hu. destruct (IU u Hu) as [->|K]; [now right|left; now apply RG].
    + split.
      * intros u Hu. destruct (IU u Hu) as [->|K]; [exact HR|now apply SH].
      * right. exists v. repeat split; auto.
        intros u Hu. destruct (IU u Hu) as [->|K]; [now right|now apply RG].
  - (* CInc *)
    destruct I as [(T & V & TR & RG)|(v & T & V & TR & RG)].
    + rewrite (RG th HT) in X. injection X as <- <-. split.
      * intros u Hu. destruct (IU u Hu) as [->|K]; [exact HR|now apply SH].
      * left. repeat split; auto. intros u Hu. destruct (IU u Hu) as [->|K]; [reflexivity|now apply RG].
    + destruct (RG th HT) as [R|R]; rewrite R in X.
      * injection X as <- <-. split.
        -- intros u Hu. destruct (IU u Hu) as [->|K]; [exact HR|now apply SH].
        -- right. exists v. repeat split; auto. intros u Hu. destruct (IU u Hu) as [->|K]; [now left|now apply RG].
      * rewrite V in X. cbn in X. injection X as <- <-. split.
        -- intros u Hu. destruct (IU u Hu) as [->|K]; [exact HR|now apply SH].
        -- right. exists (S v). cbn [fst snd table vals trace]. rewrite TR. repeat split; auto.
           ++ rewrite seq_S. reflexivity.
           ++ intros u Hu. destruct (IU u Hu) as [->|K]; [now left|now apply RG]. Qed.

Lemma crun_inv sched : forall c, CInv c -> CInv (crun sched c).
Proof. induction sched as [|t r IH]; intros c H; [exact H|]. cbn. apply IH.
  destruct (cstep c t) as [c'|] eqn:E; [eapply cstep_inv; eauto|exact H]. Qed.

Lemma cinit_inv progs : (forall p, In p progs -> Forall code_sec p) -> CInv (cinit progs).
Proof. intros H. split.
  - intros th Hth. apply in_map_iff in Hth as (p & <- & Hp). now apply H.
  - left. repeat split. intros th Hth. apply in_map_iff in Hth as (p & <- & _). reflexivity. Qed.

(* any goroutines, any sequences of GetOrCreateClock / Increment, any schedule: the times handed out are 2, 3, 4, ...
   in the order of the Increments *)
Lemma trace_is_seq progs sched : (forall p, In p progs -> Forall code_sec p) ->
  let s := fst (crun sched (cinit progs)) in trace s = seq 2 (length (trace s)).
Proof. intros H s. destruct (crun_inv sched _ (cinit_inv progs H)) as (_ & [(_ & _ & TR & _)|(v & _ & _ & TR & _)]);
  fold s in TR; rewrite TR; [reflexivity|]. now rewrite seq_length. Qed.

(* ... hence a later Increment hands out a later time: the commits of an entity, made one after the other, carry
   increasing edit times *)
Theorem times_increasing progs sched : (forall p, In p progs -> Forall code_sec p) ->
  let tr := trace (fst (crun sched (cinit progs))) in
  forall i j a b, i < j -> nth_error tr i = Some a -> nth_error tr j = Some b -> a < b.
Proof. intros H tr i j a b L A B. pose proof (trace_is_seq progs sched H) as E. cbn zeta in E. fold tr in E.
  assert (forall k x, nth_error tr k = Some x -> x = 2 + k) as K.
  { intros k x Hk. assert (k < length tr) as LK by (apply nth_error_Some; congruence).
    rewrite E in Hk. rewrite nth_error_nth' with (d := 0) in Hk by now rewrite seq_length.
    rewrite seq_nth in Hk by exact LK. now injection Hk as <-. }
  rewrite (K i a A), (K j b B). lia. Qed.

Lemma increasingb_seq n : forall a, increasingb (seq a n) = true.
Proof. induction n as [|n IH]; intros a; [reflexivity|]. cbn [seq]. destruct n as [|n]; [reflexivity|].
  cbn [seq increasingb]. rewrite (proj2 (Nat.ltb_lt a (S a))) by lia. exact (IH (S a)). Qed.

Theorem times_increasingb progs sched : (forall p, In p progs -> Forall code_sec p) ->
  increasingb (trace (fst (crun sched (cinit progs)))) = true.
Proof. intros H. pose proof (trace_is_seq progs sched H) as E. cbn zeta in E. rewrite E. apply increasingb_seq. Qed.

(* a GetOrCreateClock that gives the lock back between the lookup and the registration of the clock it creates:
   two goroutines use the clock for the first time at once; the second one registers its instance, makes two commits
   (times 2, 3), then the first one registers ITS instance: the next commit of the second goroutine gets time 3 again *)
Definition get_unlocked : list csec := [CLook; CMake; CInst].
Theorem times_increasing_refuted_unlocked_create : exists sched,
  let c := crun sched (cinit [get_unlocked ++ [CInc]; get_unlocked ++ [CInc] ++ get_unlocked ++ [CInc] ++ get_unlocked ++ [CInc]]) in
  forallb (fun th => match ccode th with [] => true | _ => false end) (snd c) && negb (increasingb (trace (fst c))) = true.
Proof. exists ([0; 0] ++ repeat 1 8 ++ [0; 0] ++ repeat 1 4). reflexivity. Qed.
