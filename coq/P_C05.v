(* C05 — logical clocks only move forward and dominate everything seen. Property theorems only. *)
From Coq Require Import List Arith NArith Lia Bool.
Import ListNotations.
From GB Require Import Reach Sort Read Good Snoc World.
Local Open Scope N_scope.

(* in every state reachable by any interleaving (including restarts with lost clock files), each replica's
   edit clock is at least the edit time of every local head, and every stored edit time is bounded by the
   number of increments: no wrap below 10^6 increments *)
Theorem C05_clock_dominates n acts w : run (w0 n) acts = Some w -> N.of_nat (length acts) + 1 <= jump_limit ->
  forall rp h, In rp (reps w) -> In h (heads rp) -> edit_of (st w) h <= clk rp.
Proof. intros H B rp h Hr Hh. assert (I : inv w) by (eapply run_inv; [apply inv_w0| |exact H]; cbn; lia).
  destruct I as (_ & I & _). now apply I. Qed.
Print Assumptions C05_clock_dominates.
