(* C05 — logical clocks only move forward and dominate everything seen. Property theorems only. *)
From Coq Require Import List Arith NArith Lia Bool.
Import ListNotations.
From GB Require Import Reach Sort Read Good Snoc World ClockWrap Sync SyncProps.
Local Open Scope N_scope.

(* in every state reachable by any interleaving (including restarts with lost clock files), each replica's
   edit clock is at least the edit time of every local head, and every stored edit time is bounded by the
   number of increments: no wrap below 10^6 increments *)
Theorem C05_clock_dominates n acts w : run (w0 n) acts = Some w -> N.of_nat (length acts) + 1 <= Read.jump_limit ->
  forall rp h, In rp (reps w) -> In h (heads rp) -> edit_of (st w) h <= clk rp.
Proof. exact (World.clock_dominates n acts w). Qed.
Print Assumptions C05_clock_dominates.

(* below the wrap and within the jump limit, a commit written at clock c on a parent with time p <= c reads back *)
Theorem C05_write_readable c p : p <= c -> c - p < ClockWrap.jump_limit -> c + 1 < wrap -> readable p (child_edit c) = true.
Proof. exact (write_readable c p). Qed.
Print Assumptions C05_write_readable.

Theorem C05_monotone c v : (c + 1 < wrap -> c < incr c) /\ c <= witness c v /\ v <= witness c v.
Proof. exact (conj (incr_monotone c) (witness_monotone c v)). Qed.
Print Assumptions C05_monotone.

(* finding F-clock: the full statement is false of the faithful model *)
Theorem C05_forged_jump_refuted : exists c p v, p <= c /\ snd (after_forged_root c p v) = false.
Proof. exact forged_jump_refuted. Qed.
Print Assumptions C05_forged_jump_refuted.

Theorem C05_wrap_refuted : exists c p, after_forged_root c p (wrap - 1) = (0, false).
Proof. exact forged_wrap_refuted. Qed.
Print Assumptions C05_wrap_refuted.

(* in every state of every session each replica's edit clock is at least the edit time of all its local heads *)
Theorem C05_session_clock_dominates n evs sw : srun (sw0 n) evs = Some sw -> N.of_nat (total_cost evs) + 1 <= Read.jump_limit ->
  forall rp h, In rp (reps (ww sw)) -> In h (heads rp) -> edit_of (st (ww sw)) h <= clk rp.
Proof. exact (session_clock_dominates n evs sw). Qed.
Print Assumptions C05_session_clock_dominates.
