(* C01 — replicas that exchanged everything show identical bugs. Property theorems only. *)
From Coq Require Import List Arith NArith Lia Bool Sorting.Permutation.
Import ListNotations.
From GB Require Import Reach Sort Read Good Snoc Mono World Sync SyncProps SyncInv SyncMerge SyncPush SyncQuiesce.

Theorem C01_dag_convergence s h1 h2 : valid s h1 = true -> valid s h2 = true ->
  let P1 := packs_of s (reachl s h1) in let P2 := packs_of s (reachl s h2) in
  key_inj (filter nonempty P1) ->
  Permutation (filter nonempty P1) (filter nonempty P2) ->
  read s h1 = read s h2.
Proof. exact (Read.C01_dag_convergence s h1 h2). Qed.
Print Assumptions C01_dag_convergence.

Theorem C01_reachable_valid n acts w : run (w0 n) acts = Some w -> (N.of_nat (length acts) + 1 <= jump_limit)%N ->
  forall h, (h < length (st w))%nat -> valid (st w) h = true.
Proof. exact (World.C01_reachable_valid n acts w). Qed.
Print Assumptions C01_reachable_valid.

(* the same at the level of user-visible sessions (commit, read, push, fetch, merge, remove, restart):
   every session step is a run of commit-level steps (SyncProps.sstep_runs), so every commit of every
   state of every session is accepted by read *)
Theorem C01_session_valid n evs sw : srun (sw0 n) evs = Some sw -> (N.of_nat (total_cost evs) + 1 <= jump_limit)%N ->
  forall h, (h < length (st (ww sw)))%nat -> valid (st (ww sw)) h = true.
Proof. exact (session_valid n evs sw). Qed.
Print Assumptions C01_session_valid.

(* every state of every session satisfies the session invariant (one local head per entity, every local / tracking /
   remote ref points to a readable commit of its entity, distinct keys) *)
Theorem C01_session_invariant n evs sw : srun (sw0 n) evs = Some sw -> (N.of_nat (total_cost evs) + 1 <= jump_limit)%N -> sinv sw.
Proof. exact (session_sinv n evs sw). Qed.
Print Assumptions C01_session_invariant.

(* one synchronisation round between two replicas a <> b -- for a list es covering every entity either of them or the
   remote knows:   fetch a; merge a e (all e); push a;  fetch b; merge b e (all e); push b;  fetch a; merge a e (all e)
   -- always runs to completion from any state satisfying the invariant (both pushes succeed), and afterwards the two
   replicas have the SAME local refs (same entities, same head commits, hence the same bugs); every entity known anywhere
   before is present, its head descends from every head a, b and the remote held for it, and what those heads read as
   are sublists of what it reads as now *)
Theorem C01_sync_quiesces sw a b es i1 i2 i3 : sinv sw -> a <> b ->
  (a < length (reps (ww sw)))%nat -> (b < length (reps (ww sw)))%nat ->
  (budget (ww sw) + N.of_nat (9 * length es) + 6 <= jump_limit)%N ->
  (forall e, known sw a b e -> In e es) ->
  exists sw', srun sw (round a b es i1 i2 i3) = Some sw' /\ sinv sw' /\
    locals (ww sw') a = locals (ww sw') b /\
    forall e, known sw a b e ->
      exists h ops, alookup e (locals (ww sw') a) = Some h /\ alookup e (locals (ww sw') b) = Some h /\
        read (st (ww sw')) h = Some ops /\
        forall x, initial_head sw a b e x ->
          reach (st (ww sw')) h x /\ forall ox, read (st (ww sw)) x = Some ox -> sublist ox ops.
Proof. exact (sync_quiesces sw a b es i1 i2 i3). Qed.
Print Assumptions C01_sync_quiesces.

(* such a list always exists: the keys of the three ref maps *)
Theorem C01_known_list_covers sw a b e : known sw a b e -> In e (known_list sw a b).
Proof. exact (known_list_covers sw a b e). Qed.
Print Assumptions C01_known_list_covers.

(* replicas with the same local refs answer every read identically *)
Theorem C01_same_refs_same_reads sw a b : sinv sw -> (a < length (reps (ww sw)))%nat -> (b < length (reps (ww sw)))%nat ->
  locals (ww sw) a = locals (ww sw) b ->
  forall e, exists o swa swb, sstep sw (ERead a e) = Some (swa, o) /\ sstep sw (ERead b e) = Some (swb, o).
Proof. exact (sync_same_reads sw a b). Qed.
Print Assumptions C01_same_refs_same_reads.

(* non-vacuity: a reachable session in which the two replicas have diverged on a shared entity and each knows an entity
   the other does not satisfies every hypothesis of C01_sync_quiesces; the round computes to identical refs *)
Example C01_sync_round_example :
  exists sw sw', srun (sw0 2) ex_prefix = Some sw /\
    sinv sw /\ (0 < length (reps (ww sw)))%nat /\ (1 < length (reps (ww sw)))%nat /\
    (budget (ww sw) + N.of_nat (9 * length (known_list sw 0 1)) + 6 <= jump_limit)%N /\
    (forall e, known sw 0 1 e -> In e (known_list sw 0 1)) /\
    locals (ww sw) 0 = [(0, 1); (5, 5)] /\ locals (ww sw) 1 = [(0, 3); (4, 4)] /\ remote sw = [(0, 0)] /\
    srun sw (round 0 1 (known_list sw 0 1) ex_ids ex_ids ex_ids) = Some sw' /\
    locals (ww sw') 0 = [(0, 6); (4, 4); (5, 5)] /\ locals (ww sw') 1 = [(0, 6); (4, 4); (5, 5)] /\
    read (st (ww sw')) 6 = Some [100; 201; 101; 202]%N.
Proof. eexists. eexists. split; [vm_compute; reflexivity|].
  split; [eapply (session_sinv 2 ex_prefix); [vm_compute; reflexivity|vm_compute; discriminate]|].
  split; [vm_compute; lia|]. split; [vm_compute; lia|]. split; [vm_compute; discriminate|].
  split; [intros e; apply known_list_covers|].
  repeat (split; [vm_compute; reflexivity|]). vm_compute; reflexivity. Qed.
