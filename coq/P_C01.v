(* C01 — replicas that exchanged everything show identical bugs. Property theorems only. *)
From Coq Require Import List Arith NArith Lia Bool Sorting.Permutation.
Import ListNotations.
From GB Require Import Reach Sort Read Good Snoc World Sync SyncProps.

Theorem C01_dag_convergence s h1 h2 : valid s h1 = true -> valid s h2 = true ->
  let P1 := packs_of s (reachl s h1) in let P2 := packs_of s (reachl s h2) in
  key_inj (filter nonempty P1) ->
  Permutation (filter nonempty P1) (filter nonempty P2) ->
  read s h1 = read s h2.
Proof. exact (Read.C01_dag_convergence s h1 h2). Qed.
Print Assumptions C01_dag_convergence.

Theorem C01_reachable_valid n acts w : run (w0 n) acts = Some w -> (N.of_nat (length acts) + 1 <= jump_limit)%N ->
  forall h, (h < length (st w))%nat -> valid (st w) h = true.
Proof. exact (World.C01_reachable_valid n acts w). Qed.
Print Assumptions C01_reachable_valid.

(* the same at the level of user-visible sessions (commit, read, push, fetch, merge, remove, restart):
   every session step is a run of commit-level steps (SyncProps.sstep_runs), so every commit of every
   state of every session is accepted by read *)
Theorem C01_session_valid n evs sw : srun (sw0 n) evs = Some sw -> (N.of_nat (total_cost evs) + 1 <= jump_limit)%N ->
  forall h, (h < length (st (ww sw)))%nat -> valid (st (ww sw)) h = true.
Proof. exact (session_valid n evs sw). Qed.
Print Assumptions C01_session_valid.
