(* C15 — sessions of git-bug actions on a populated host repository: the frame model against what stock git
   sees before and after (correspondence), and the property itself on the implementation's observations. *)
From Coq Require Import List Arith NArith Bool.
Import ListNotations.
From GB Require Export Frame.
Local Open Scope N_scope.

(* what stock git shows of a repository; digests are order-preserving ranks, lists are sorted by the harness *)
Record snap := mksnap {
  s_refs_ : list (str * N);     (* git for-each-ref: every reference name and its object *)
  s_head_ : str;                (* content of HEAD *)
  s_index_ : N;                 (* bytes of .git/index *)
  s_wt_ : list (str * N);       (* work tree: path, (mode, content) *)
  s_cfg_ : list (str * N);      (* git config --local --list -z: key, value *)
  s_aux_ : list N;              (* comment lines of .git/config *)
  s_files_ : list (str * N)     (* the other files below the git directory (not objects/, refs/, packed-refs, config, HEAD, index): path, content *)
}.

Record case := mkcase {
  k_before : snap;
  k_after : snap;
  k_actions : list action;          (* the session as model actions, with the ids the implementation reported *)
  k_trees : list (list entry);      (* every tree object written (or fetched) during the session, as stored *)
  k_fsck : bool;                    (* git fsck --strict --no-dangling is clean afterwards *)
  k_clone : bool;                   (* git clone --mirror with transfer.fsckObjects + gc + fsck: clean, every git-bug reference arrived *)
  k_push : bool;                    (* git push of the git-bug namespaces into a bare repository with receive.fsckObjects: accepted *)
  k_extras : list (list (list N) * list entry);  (* per commit of several staged operations: the files of each operation,
                                       the tree stored as "extra" ([] = none) *)
  k_commits : list (str * str);     (* the text after "author " and after "committer " of every commit written or fetched *)
  k_identcfg : list (str * str);    (* user.*, author.*, committer.* of the host's configuration: key, value *)
  k_peercfg : list (str * str);     (* the same for the repository of the second user *)
  k_breaks : list (snap * snap);    (* per command the host's user ran with stock git during the session (git pack-refs, git gc,
                                       git fetch): what stock git shows just before and just after it; not git-bug's doing *)
  k_broken : list str;              (* the references git for-each-ref reported as broken after some action of the session *)
  k_maint : bool;                   (* stock git completed every one of those commands of the host's user *)
  k_unreadable : list N;            (* the numbers of the actions after which git for-each-ref did not complete (exit status):
                                       stock git could not read the references of the repository at all *)
  k_packed_added : list str;        (* the lines of packed-refs found at the end of a stretch that were not there at its start *)
  k_probes : list (str * bool * N * N);  (* per stretch and per view stock git gives the host's user of his own work (every stash
                                       entry as a patch, the staged changes as a patch, the reflogs of his references walked):
                                       the command, whether it completed both times, its output at the start and at the end *)
  k_lost : list N;                  (* the objects that were in the object store at the start of a stretch and are not at its end *)
  k_commit : bool                   (* on a copy of the repository taken at the end, git commit of what is staged completes *)
}.

(* the stretches of the session in which only git-bug acted: from the start to the first command of the host's user,
   between two of them, from the last one to the end *)
Fixpoint segs (b : snap) (brs : list (snap * snap)) (a : snap) : list (snap * snap) :=
  match brs with [] => [(b, a)] | (pre, post) :: t => (b, pre) :: segs post t a end.
Definition segments (c : case) : list (snap * snap) := segs (k_before c) (k_breaks c) (k_after c).

Definition loc_of (name : str) : list str := match resolve name with Some l => l | None => [name] end.

Definition repo_of (s : snap) : repo :=
  mkrepo (map (fun e => (loc_of (fst e), snd e)) (s_refs_ s)) (s_head_ s) (s_index_ s) (s_wt_ s) (s_cfg_ s) (s_aux_ s) []
         (map (fun e => (split slash (fst e), snd e)) (s_files_ s)).

(* ---- equality tests ---- *)
Fixpoint list_eqb {A} (eqb : A -> A -> bool) (a b : list A) : bool :=
  match a, b with [], [] => true | x :: a', y :: b' => eqb x y && list_eqb eqb a' b' | _, _ => false end.
Definition pn_eqb (a b : list str * N) := path_eqb (fst a) (fst b) && N.eqb (snd a) (snd b).
Definition sn_eqb (a b : str * N) := str_eqb (fst a) (fst b) && N.eqb (snd a) (snd b).
Definition entry_eqb (a b : entry) := Bool.eqb (e_dir a) (e_dir b) && str_eqb (e_name a) (e_name b) && N.eqb (e_hash a) (e_hash b).

Definition fview_eqb (a b : fview) : bool :=
  list_eqb pn_eqb (f_refs a) (f_refs b) && str_eqb (f_head a) (f_head b) && N.eqb (f_index a) (f_index b) &&
  list_eqb sn_eqb (f_wt a) (f_wt b) && list_eqb sn_eqb (f_cfg a) (f_cfg b) && list_eqb N.eqb (f_cfgaux a) (f_cfgaux b) &&
  list_eqb pn_eqb (f_files a) (f_files b).

(* ---- the property on the implementation's observations ---- *)
Definition foreign_same (c : case) : bool :=
  forallb (fun sg => fview_eqb (foreign (repo_of (fst sg))) (foreign (repo_of (snd sg)))) (segments c).
(* no reference is ever left in a state stock git calls broken; stock git can pack, collect and fetch *)
Definition refs_valid (c : case) : bool := match k_broken c with [] => true | _ => false end.
(* every author / committer line is one git fsck accepts *)
Definition idents_ok (c : case) : bool := forallb (fun p => fsck_identb (fst p) && fsck_identb (snd p)) (k_commits c).
(* stock git can read the references after every action; whatever was written into packed-refs is a line git accepts *)
Definition nil_b {A} (l : list A) : bool := match l with [] => true | _ => false end.
Definition git_reads (c : case) : bool := nil_b (k_unreadable c) && forallb packed_line_okb (k_packed_added c).
(* the host's user finds his work as he left it: every stash entry, the staged changes, the reflogs; what he staged
   can be committed *)
Definition probe_same (p : str * bool * N * N) : bool := match p with (_, ok, b, a) => ok && N.eqb b a end.
Definition work_kept (c : case) : bool := forallb probe_same (k_probes c) && k_commit c.
Definition C15_ok (c : case) : bool :=
  foreign_same c && forallb git_tree_okb (k_trees c) && idents_ok c && k_fsck c && k_clone c && k_push c &&
  refs_valid c && k_maint c && git_reads c && work_kept c.

Fixpoint index_filter {A} (f : A -> bool) (i : nat) (l : list A) : list nat :=
  match l with [] => [] | x :: t => if f x then index_filter f (S i) t else i :: index_filter f (S i) t end.
Definition failing (cs : list case) : list nat := index_filter C15_ok 0 cs.

(* ---- correspondence: nothing changes that the model's writes do not target ---- *)
Fixpoint cfg_targets (ps : list prim) : list (bool * str) :=   (* (whole subtree?, key) *)
  match ps with
  | [] => []
  | WCfg k _ :: t => (false, k) :: cfg_targets t
  | DCfg p :: t => (true, p) :: cfg_targets t
  | _ :: t => cfg_targets t
  end.
Fixpoint file_targets (ps : list prim) : list (list str) :=    (* everything below these paths *)
  match ps with
  | [] => []
  | (WFile rel _ | DFile rel) :: t => match clean rel with Some q => (gb_root ++ q) :: file_targets t | None => file_targets t end
  | _ :: t => file_targets t
  end.

Definition values_of {K} (eqb : K -> K -> bool) (k : K) (l : list (K * N)) : list N :=
  map snd (filter (fun e => eqb (fst e) k) l).

(* keys of a or b whose values differ *)
Definition changed {K} (eqb : K -> K -> bool) (a b : list (K * N)) : list K :=
  filter (fun k => negb (list_eqb N.eqb (values_of eqb k a) (values_of eqb k b))) (map fst a ++ map fst b).

(* per stretch of the session; the targets are those of all the actions of the session *)
Definition untargeted_refs (c : case) : list (list str) :=
  let ps := List.concat (map compile (k_actions c)) in
  let ts := ref_targets ps in
  flat_map (fun sg => filter (fun l => negb (existsb (path_eqb l) ts))
                        (changed path_eqb (r_refs (repo_of (fst sg))) (r_refs (repo_of (snd sg))))) (segments c).
Definition untargeted_cfg (c : case) : list str :=
  let ps := List.concat (map compile (k_actions c)) in
  let ts := cfg_targets ps in
  flat_map (fun sg => filter (fun k => negb (existsb (fun t : bool * str => if fst t then cfg_below (snd t) k else str_eqb (snd t) k) ts))
                        (changed str_eqb (s_cfg_ (fst sg)) (s_cfg_ (snd sg)))) (segments c).
Definition untargeted_files (c : case) : list (list str) :=
  let ps := List.concat (map compile (k_actions c)) in
  let ts := file_targets ps in
  flat_map (fun sg => filter (fun l => negb (existsb (fun t => prefixb str_eqb t l) ts))
                        (changed path_eqb (r_files (repo_of (fst sg))) (r_files (repo_of (snd sg))))) (segments c).

Definition rest_same (c : case) : bool :=
  forallb (fun sg : snap * snap => let a := fst sg in let b := snd sg in
    str_eqb (s_head_ a) (s_head_ b) && N.eqb (s_index_ a) (s_index_ b) && list_eqb sn_eqb (s_wt_ a) (s_wt_ b) &&
    list_eqb N.eqb (s_aux_ a) (s_aux_ b)) (segments c).

(* StoreTree: the stored order of every tree is the model's order of the same entries *)
Definition trees_as_model (c : case) : bool := forallb (fun es => list_eqb entry_eqb (store_tree es) es) (k_trees c).

(* makeExtraTree: the stored "extra" tree of a commit of several operations is the model's tree of their files *)
Definition extras_as_model (c : case) : bool :=
  forallb (fun x => list_eqb entry_eqb (store_tree (make_extra (fst x))) (snd x)) (k_extras c).

(* StoreSignedCommit: every commit carries the names and addresses of the [author] / [committer] sections of the
   configuration of the repository that wrote it (the host's, or the second user's for what was fetched) *)
Definition commit_as_model (cfg : list (str * str)) (p : str * str) : bool :=
  prefixb N.eqb (author_prefix cfg) (fst p) && prefixb N.eqb (committer_prefix cfg) (snd p).
Definition idents_as_model (c : case) : bool :=
  forallb (fun p => commit_as_model (k_identcfg c) p || commit_as_model (k_peercfg c) p) (k_commits c).

(* the reference store: whatever git-bug's writes and fetches and stock git's packing do in whatever order, no
   reference file is left without a value (Frame.ref_session_no_broken): git reports no broken reference *)
Definition refs_as_model (c : case) : bool := refs_valid c.

(* packed-refs: no step of git-bug adds an entry (Frame.gitbug_never_packs), whatever the number of references *)
Definition packed_as_model (c : case) : bool := nil_b (k_packed_added c) && nil_b (k_unreadable c).
(* the object store: objects are only added (Frame.objects_kept), reachable or not *)
Definition objects_as_model (c : case) : bool := nil_b (k_lost c).

Definition agrees (c : case) : bool :=
  match untargeted_refs c, untargeted_cfg c, untargeted_files c with
  | [], [], [] => rest_same c && trees_as_model c && extras_as_model c && idents_as_model c && refs_as_model c &&
                  packed_as_model c && objects_as_model c
  | _, _, _ => false
  end.
Definition mismatches (cs : list case) : list nat := index_filter agrees 0 cs.

Definition explain (c : case) :=
  (untargeted_refs c, untargeted_cfg c, untargeted_files c, (rest_same c, trees_as_model c, extras_as_model c, idents_as_model c),
   (foreign_same c, forallb git_tree_okb (k_trees c), idents_ok c, (k_fsck c, k_clone c, k_push c)),
   (List.length (segments c), k_broken c, k_maint c),
   (k_unreadable c, k_packed_added c, filter (fun p => negb (probe_same p)) (k_probes c), List.length (k_lost c), k_commit c)).
