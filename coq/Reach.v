From Coq Require Import List Arith NArith Lia Bool.
Import ListNotations.

Record pack := { p_id : N; p_author : N; p_ops : list N; p_edit : N; p_create : N }.
Record commit := { c_parents : list nat; c_pack : pack }.
Definition store := list commit.

Definition parents (s : store) (i : nat) : list nat :=
  match nth_error s i with Some c => c_parents c | None => [] end.

Definition wf_store (s : store) := forall i p, In p (parents s i) -> p < i.

Definition memb (i : nat) (m : list nat) := existsb (Nat.eqb i) m.
Lemma memb_In i m : memb i m = true <-> In i m.
Proof. unfold memb. rewrite existsb_exists. split; [intros (x & H & E); apply Nat.eqb_eq in E; now subst|intros H; exists i; split; auto; apply Nat.eqb_refl]. Qed.

(* one downward marking pass: indices n-1, n-2, ..., 0 *)
Fixpoint mark (s : store) (n : nat) (m : list nat) : list nat :=
  match n with
  | 0 => m
  | S k => mark s k (if memb k m then parents s k ++ m else m)
  end.

Definition reachl (s : store) (h : nat) : list nat :=
  let m := mark s (S h) [h] in filter (fun i => memb i m) (seq 0 (S h)).

Inductive reach (s : store) (h : nat) : nat -> Prop :=
| reach_refl : reach s h h
| reach_step i p : reach s h i -> In p (parents s i) -> reach s h p.

Lemma reach_le s h i : wf_store s -> reach s h i -> i <= h.
Proof. intros W R. induction R as [|i p R IH Hp]; [lia|]. apply W in Hp. lia. Qed.

(* soundness: everything marked is reachable *)
Lemma mark_sound s h n m : (forall i, In i m -> reach s h i) -> forall i, In i (mark s n m) -> reach s h i.
Proof. revert m. induction n as [|k IH]; intros m Hm i Hi; cbn in Hi; [auto|].
  eapply IH; [|exact Hi]. intros j Hj. destruct (memb k m) eqn:E; [|auto].
  apply in_app_or in Hj as [Hj|Hj]; [|auto]. apply memb_In in E. eapply reach_step; eauto. Qed.

Lemma mark_mono s n m i : In i m -> In i (mark s n m).
Proof. revert m. induction n as [|k IH]; intros m H; cbn; [auto|]. apply IH. destruct (memb k m); [apply in_or_app; now right|auto]. Qed.

(* marking below n never adds an index >= n, under wf *)
Lemma mark_stable s n m i : wf_store s -> n <= i -> In i (mark s n m) -> In i m.
Proof. intros W. revert m. induction n as [|k IH]; intros m Hle Hi; cbn in Hi; [auto|].
  apply IH in Hi; [|lia]. destruct (memb k m) eqn:E; [|auto].
  apply in_app_or in Hi as [Hi|Hi]; [|auto]. apply W in Hi. lia. Qed.

(* closure: a marked index below n gets its parents marked *)
Lemma mark_closed s : wf_store s -> forall n m i p,
  In i (mark s n m) -> i < n -> In p (parents s i) -> In p (mark s n m).
Proof. intros W. induction n as [|k IH]; intros m i p Hi Hlt Hp; [lia|]. cbn in *.
  destruct (Nat.eq_dec i k) as [->|Hne].
  - apply mark_stable in Hi; [|exact W|lia].
    assert (In k m) as Hk.
    { destruct (memb k m) eqn:E; [now apply memb_In|exact Hi]. }
    apply memb_In in Hk. rewrite Hk. apply mark_mono. apply in_or_app. now left.
  - eapply IH; eauto. lia. Qed.

Theorem reachl_spec s h i : wf_store s -> (In i (reachl s h) <-> reach s h i).
Proof. intros W. unfold reachl. rewrite filter_In, in_seq, memb_In. split.
  - intros [_ H]. eapply mark_sound; [|exact H]. intros j [<-|[]]. constructor.
  - intros R. split; [apply reach_le in R; auto; lia|].
    induction R as [|i p R IH Hp]; [apply mark_mono; now left|].
    eapply mark_closed; eauto. apply reach_le in R; auto. lia. Qed.
Print Assumptions reachl_spec.
