(* C14 — removing an entity removes all of it, only it, and is repeatable. Property theorems only.
   The model (Remove.v) follows the code with the two repairs of this property applied; the last two theorems
   state what the code did before them. [xo] is the excerpt oracle, [post] the merge-result oracle: arbitrary. *)
From Coq Require Import List NArith Bool Sorting.Permutation.
Import ListNotations.
From GB Require Import Remove.

(* Removal through the cache API (Bugs().Remove / Identities().Remove) or `git-bug bug rm`, resolving to entity (k, i):
   on success no ref of (k, i) is left under any namespace or remote, it has no excerpt and no index document, and every
   other ref, excerpt, index document, the configuration and the local storage are unchanged; on error nothing changed. *)
Theorem C14_remove_exact xo post a s k i : wf s -> removes a s k i ->
  (snd (step xo post a s) = OOk ->
     gone k i (fst (step xo post a s)) /\ refs_others_same k i s (fst (step xo post a s)) /\
     cache_others_same k i s (fst (step xo post a s)) /\ rest_same s (fst (step xo post a s))) /\
  (snd (step xo post a s) <> OOk -> fst (step xo post a s) = s).
Proof. exact (remove_exact xo post a s k i). Qed.
Print Assumptions C14_remove_exact.

(* Removal through the entity API (bug.Remove / identity.Remove): all refs of the entity and nothing else. *)
Theorem C14_remove_exact_entity xo post k i s : wf s ->
  (snd (step xo post (AEntRemove k i) s) = OOk ->
     no_ref k i (fst (step xo post (AEntRemove k i) s)) /\ refs_others_same k i s (fst (step xo post (AEntRemove k i) s)) /\
     exc (fst (step xo post (AEntRemove k i) s)) = exc s /\ idx (fst (step xo post (AEntRemove k i) s)) = idx s /\
     rest_same s (fst (step xo post (AEntRemove k i) s))) /\
  (snd (step xo post (AEntRemove k i) s) <> OOk -> fst (step xo post (AEntRemove k i) s) = s).
Proof. exact (remove_exact_entity xo post k i s). Qed.
Print Assumptions C14_remove_exact_entity.

(* Doing any removal (one entity, all entities, wipe; any API level) a second time changes nothing. *)
Theorem C14_idempotent xo post post' a s : repeatable a s ->
  fst (step xo post' a (fst (step xo post a s))) = fst (step xo post a s).
Proof. exact (idempotent xo post post' a s). Qed.
Print Assumptions C14_idempotent.

(* Once gone, an entity stays gone across any sequence of cache rebuilds, reopens, merges without fetch (and further
   removals): whatever the merge oracle answers, only entities that still have a remote-tracking ref can come back. *)
Theorem C14_stays_gone xo l k i s : gone k i s -> gone k i (run xo l s).
Proof. exact (gone_run xo l k i s). Qed.
Print Assumptions C14_stays_gone.

Theorem C14_removed_stays_gone xo post a s k i l : wf s -> removes a s k i -> snd (step xo post a s) = OOk ->
  gone k i (run xo l (fst (step xo post a s))).
Proof. exact (removed_stays_gone xo post a s k i l). Qed.
Print Assumptions C14_removed_stays_gone.

(* `git-bug wipe` succeeds and leaves no git-bug ref, no git-bug.* key and an empty local storage; foreign refs and keys stay. *)
Theorem C14_wipe_clean xo post s : wf s ->
  snd (step xo post ACliWipe s) = OOk /\ clean s (fst (step xo post ACliWipe s)) /\
  conf (fst (step xo post ACliWipe s)) = mkcfg None [] [] (c_other (conf s)) /\ files (fst (step xo post ACliWipe s)) = [].
Proof. exact (wipe_clean xo post s). Qed.
Print Assumptions C14_wipe_clean.

(* RepoCache.RemoveAll leaves no git-bug ref (local or remote-tracking), excerpt or document. *)
Theorem C14_removeall_clean xo post s : wf s ->
  clean s (fst (step xo post ACacheRemoveAll s)) /\ conf (fst (step xo post ACacheRemoveAll s)) = conf s /\
  files (fst (step xo post ACacheRemoveAll s)) = files s.
Proof. exact (removeall_clean xo post s). Qed.
Print Assumptions C14_removeall_clean.

(* the hypothesis wf (tracking refs only under configured remotes) is an invariant of every action *)
Theorem C14_wf_invariant xo post a s : wf s -> wf (fst (step xo post a s)).
Proof. exact (wf_step xo post a s). Qed.
Print Assumptions C14_wf_invariant.

(* before the repairs: with nothing but the identity in the [git-bug] section, wipe always aborted and kept the storage *)
Theorem C14_wipe_pinned_refuted xo s : c_opts (conf s) = [] -> c_subs (conf s) = [] ->
  snd (cli_wipe_v0 xo s) = EOther /\ files (fst (cli_wipe_v0 xo s)) = files (load xo s).
Proof. exact (wipe_v0_aborts xo s). Qed.
Print Assumptions C14_wipe_pinned_refuted.

(* before the repairs: RemoveAll kept the tracking ref of a bug that was fetched but is not local *)
Theorem C14_removeall_pinned_refuted :
  exists s, wf s /\ exists n h, In (n, h) (refs (cache_remove_all_v0 s)) /\ rk n = KBug /\ In (rl n) (map Track (remotes s)).
Proof. exact removeall_v0_refuted. Qed.
Print Assumptions C14_removeall_pinned_refuted.

(* the hypotheses are satisfiable together *)
Example C14_hyps_wf : wf s_demo.
Proof. exact s_demo_wf. Qed.
Example C14_hyps_removes : removes (ACliRm [97%N; 98%N]) s_demo KBug [97%N; 98%N] /\ repeatable (ACliRm [97%N; 98%N]) s_demo.
Proof. exact (conj s_demo_removes s_demo_settled). Qed.
Example C14_ambiguous_prefix_refused : snd (cache_remove KBug [97%N] s_demo) = EMultiple.
Proof. exact s_demo_ambiguous. Qed.
