(* C14 — removing an entity removes all of it, only it, and is repeatable. Property theorems only.
   The model (Remove.v) follows the code with the repairs of this property applied; the theorems named *_pinned_refuted
   state what the code did before them. [xo] is the excerpt oracle, [post] the merge-result oracle: arbitrary. *)
From Coq Require Import List NArith Bool Sorting.Permutation.
Import ListNotations.
From GB Require Import Remove.

(* Removal through the cache API (Bugs().Remove / Identities().Remove) or `git-bug bug rm`, resolving to entity (k, i):
   on success no ref of (k, i) is left under any namespace or remote, it has no excerpt and no index document, and every
   other ref, excerpt, index document, the configuration and the local storage are unchanged; on error nothing changed. *)
Theorem C14_remove_exact xo post a s k i : wf s -> removes a s k i ->
  (snd (step xo post a s) = OOk ->
     gone k i (fst (step xo post a s)) /\ refs_others_same k i s (fst (step xo post a s)) /\
     cache_others_same k i s (fst (step xo post a s)) /\ rest_same s (fst (step xo post a s))) /\
  (snd (step xo post a s) <> OOk -> fst (step xo post a s) = s).
Proof. exact (remove_exact xo post a s k i). Qed.
Print Assumptions C14_remove_exact.

(* Removal through the entity API (bug.Remove / identity.Remove): all refs of the entity and nothing else. *)
Theorem C14_remove_exact_entity xo post k i s : wf s ->
  (snd (step xo post (AEntRemove k i) s) = OOk ->
     no_ref k i (fst (step xo post (AEntRemove k i) s)) /\ refs_others_same k i s (fst (step xo post (AEntRemove k i) s)) /\
     exc (fst (step xo post (AEntRemove k i) s)) = exc s /\ idx (fst (step xo post (AEntRemove k i) s)) = idx s /\
     rest_same s (fst (step xo post (AEntRemove k i) s))) /\
  (snd (step xo post (AEntRemove k i) s) <> OOk -> fst (step xo post (AEntRemove k i) s) = s).
Proof. exact (remove_exact_entity xo post k i s). Qed.
Print Assumptions C14_remove_exact_entity.

(* What is not a complete entity id (a prefix, the empty text, anything that is not 64 characters of a-z0-9) is refused
   by bug.Remove and identity.Remove, and nothing is touched. *)
Theorem C14_remove_refuses_non_id xo post k i s : valid_id i = false -> step xo post (AEntRemove k i) s = (s, EOther).
Proof. exact (ent_remove_invalid k i s). Qed.
Print Assumptions C14_remove_refuses_non_id.

(* Doing any removal (one entity, all entities, wipe; any API level) a second time changes nothing. *)
Theorem C14_idempotent xo post post' a s : repeatable a s ->
  fst (step xo post' a (fst (step xo post a s))) = fst (step xo post a s).
Proof. exact (idempotent xo post post' a s). Qed.
Print Assumptions C14_idempotent.

(* Once gone, an entity stays gone across any sequence of cache rebuilds, reopens, merges without fetch (and further
   removals): whatever the merge oracle answers, only entities that still have a remote-tracking ref can come back. *)
Theorem C14_stays_gone xo l k i s : gone k i s -> gone k i (run xo l s).
Proof. exact (gone_run xo l k i s). Qed.
Print Assumptions C14_stays_gone.

Theorem C14_removed_stays_gone xo post a s k i l : wf s -> removes a s k i -> snd (step xo post a s) = OOk ->
  gone k i (run xo l (fst (step xo post a s))).
Proof. exact (removed_stays_gone xo post a s k i l). Qed.
Print Assumptions C14_removed_stays_gone.

(* `git-bug wipe` succeeds and leaves no git-bug ref, no git-bug.* key and an empty local storage; foreign refs and keys stay. *)
Theorem C14_wipe_clean xo post s : wf s ->
  snd (step xo post ACliWipe s) = OOk /\ clean s (fst (step xo post ACliWipe s)) /\
  conf (fst (step xo post ACliWipe s)) = mkcfg None [] [] (c_other (conf s)) /\ files (fst (step xo post ACliWipe s)) = [].
Proof. exact (wipe_clean xo post s). Qed.
Print Assumptions C14_wipe_clean.

(* RepoCache.RemoveAll leaves no git-bug ref (local or remote-tracking), excerpt or document. *)
Theorem C14_removeall_clean xo post s : wf s ->
  clean s (fst (step xo post ACacheRemoveAll s)) /\ conf (fst (step xo post ACacheRemoveAll s)) = conf s /\
  files (fst (step xo post ACacheRemoveAll s)) = files s.
Proof. exact (removeall_clean xo post s). Qed.
Print Assumptions C14_removeall_clean.

(* RemoveAll (entity API, cache API) and wipe leave every ref alone that is not git-bug's: foreign refs and, under
   refs/remotes/<remote>/{bugs,identities}/, the names that are not ids (the remote-tracking branches of the user's
   branches bugs/<something>, identities/<something>). With C14_wipe_clean / C14_removeall_clean (which hold for every
   state, whatever names lie under refs/bugs/ and refs/identities/): exactly git-bug's refs go, and they always go. *)
Theorem C14_removeall_spares_foreign xo post a s n h : removes_everything a ->
  In (n, h) (refs s) -> is_gbref n = false -> In (n, h) (refs (fst (step xo post a s))).
Proof. exact (removeall_spares_foreign xo post a s n h). Qed.
Print Assumptions C14_removeall_spares_foreign.

Theorem C14_user_branch_is_foreign n r : rl n = Track r -> valid_id (rid n) = false -> is_gbref n = false.
Proof. exact (user_branch_foreign n r). Qed.
Print Assumptions C14_user_branch_is_foreign.

(* the hypothesis wf (tracking refs only under configured remotes) is an invariant of every action *)
Theorem C14_wf_invariant xo post a s : wf s -> wf (fst (step xo post a s)).
Proof. exact (wf_step xo post a s). Qed.
Print Assumptions C14_wf_invariant.

(* before the repairs: with nothing but the identity in the [git-bug] section, wipe always aborted and kept the storage *)
Theorem C14_wipe_pinned_refuted xo s : c_opts (conf s) = [] -> c_subs (conf s) = [] ->
  snd (cli_wipe_v0 xo s) = EOther /\ files (fst (cli_wipe_v0 xo s)) = files (load xo s).
Proof. exact (wipe_v0_aborts xo s). Qed.
Print Assumptions C14_wipe_pinned_refuted.

(* before the repairs: RemoveAll kept the tracking ref of a bug that was fetched but is not local *)
Theorem C14_removeall_pinned_refuted :
  exists s, wf s /\ exists n h, In (n, h) (refs (cache_remove_all_v0 s)) /\ rk n = KBug /\ In (rl n) (map Track (remotes s)).
Proof. exact removeall_v0_refuted. Qed.
Print Assumptions C14_removeall_pinned_refuted.

(* before the repairs that followed the audit of the tree: *)
(* identity.Remove took its argument as a prefix of ref names: asked for 'u' it removed the identity 'uuu...u' *)
Theorem C14_identity_remove_prefix_pinned_refuted : exists s p n, wf s /\ valid_id p = false /\ rid n <> p /\
  has_ref n (refs s) = true /\ snd (ident_remove_v1 p s) = OOk /\ has_ref n (refs (fst (ident_remove_v1 p s))) = false.
Proof. exact ident_remove_v1_refuted. Qed.
Print Assumptions C14_identity_remove_prefix_pinned_refuted.

(* in every repository: one name under refs/<ns>/ that is not a valid id made RemoveAll (hence wipe) fail and stay where
   it is, so that every repetition failed the same way *)
Theorem C14_removeall_stray_name_pinned_refuted rs k l i : In i (local_ids k l) -> valid_id i = false ->
  snd (ent_remove_all_v1 rs k l) = EOther /\ In i (local_ids k (fst (ent_remove_all_v1 rs k l))).
Proof. exact (removeall_v1_stuck rs k l i). Qed.
Print Assumptions C14_removeall_stray_name_pinned_refuted.

(* RemoveAll deleted the remote-tracking branch of a branch of the user called bugs/fix *)
Theorem C14_removeall_user_branch_pinned_refuted : exists s n, wf s /\ is_gbref n = false /\ has_ref n (refs s) = true /\
  snd (ent_remove_all_v1 (remotes s) KBug (refs s)) = OOk /\ has_ref n (fst (ent_remove_all_v1 (remotes s) KBug (refs s))) = false.
Proof. exact removeall_v1_refuted. Qed.
Print Assumptions C14_removeall_user_branch_pinned_refuted.

(* a handle resolved before the removal wrote the entity back: it reappeared with the next cache rebuild *)
Theorem C14_stale_handle_pinned_refuted : exists s k i h, wf s /\ snd (cache_remove k i s) = OOk /\
  mem_ent (k, i) (map fst (exc (rebuild (fun _ _ c => c) (stale_commit_v1 k i h (fst (cache_remove k i s)))))) = true.
Proof. exact stale_commit_v1_refuted. Qed.
Print Assumptions C14_stale_handle_pinned_refuted.

(* a removal racing with commits through a handle resolved before it (any number of commits, anywhere in the schedule):
   the flag is set before the refs go, so the ref is gone at the end and nothing is acknowledged after the flag *)
Theorem C14_remove_vs_inflight_commits before between after s :
  (forall e, In e (before ++ between ++ after) -> e = RCommit) ->
  let l := before ++ RSetRemoved :: between ++ RDelRef :: after in
  r_ref (rrun l s) = false /\ r_removed (rrun l s) = true /\ r_acks (rrun l s) = r_acks (rrun before s).
Proof. exact (remove_vs_commits before between after s). Qed.
Print Assumptions C14_remove_vs_inflight_commits.

(* with the two statements in the other order a commit in flight writes the removed entity back *)
Theorem C14_remove_order_matters_refuted :
  exists between, (forall e, In e between -> e = RCommit) /\
    r_ref (rrun (RDelRef :: between ++ [RSetRemoved]) {| r_ref := true; r_removed := false; r_acks := 0 |}) = true.
Proof. exact remove_vs_commits_other_order_refuted. Qed.
Print Assumptions C14_remove_order_matters_refuted.

(* the hypotheses are satisfiable together *)
Example C14_hyps_wf : wf s_demo.
Proof. exact s_demo_wf. Qed.
Example C14_hyps_removes : removes (ACliRm id_ab) s_demo KBug id_ab /\ repeatable (ACliRm id_ab) s_demo /\
  snd (step (fun _ _ c => c) s_demo (ACliRm id_ab) s_demo) = OOk.
Proof. exact (conj s_demo_removes (conj s_demo_settled s_demo_removed)). Qed.
Example C14_ids : valid_id id_ab = true /\ valid_id id_u = true /\ valid_id name_fix = false /\ valid_id [] = false.
Proof. exact s_demo_ids. Qed.
Example C14_hyps_wf2 : wf s_demo2.
Proof. exact s_demo2_wf. Qed.
(* both kinds of foreign names at once: the repaired RemoveAll removes refs/bugs/old, keeps origin/bugs/fix; the old one fails *)
Example C14_foreign_names :
  has_ref (mkrn KBug Local name_old) (ent_remove_all (remotes s_demo2) KBug (refs s_demo2)) = false /\
  has_ref (mkrn KBug (Track 1%N) name_fix) (ent_remove_all (remotes s_demo2) KBug (refs s_demo2)) = true /\
  snd (ent_remove_all_v1 (remotes s_demo2) KBug (refs s_demo2)) = EOther.
Proof. exact s_demo2_removeall. Qed.
Example C14_ambiguous_prefix_refused : snd (cache_remove KBug [97%N] s_demo) = EMultiple.
Proof. exact s_demo_ambiguous. Qed.
