(* C10 — the documented interpretation of a bug's operations, written independently of [Snap.apply].
   (Moved verbatim out of K_C10.v, which re-exports this file, so that the specification can be the subject of
   theorems: SnapSpecProofs.v proves that [Snap.compile] computes it for every valid operation sequence.) *)
From Coq Require Import List Arith NArith Bool.
Import ListNotations.
From GB Require Export Snap.
Local Open Scope N_scope.

(* views used by the comparison with the implementation: metadata sorted by key, timeline items as (is comment, 14-char head) *)
Fixpoint kv_insert (p : N * N) (l : list (N * N)) : list (N * N) :=
  match l with [] => [p] | q :: t => if N.leb (fst p) (fst q) then p :: l else q :: kv_insert p t end.
Definition kv_sort (l : list (N * N)) := fold_right kv_insert [] l.

Definition titem_view (t : titem) : bool * N := match t with TComment i => (true, fst i) | TOther i => (false, fst i) end.

(* ---- the documented interpretation, written independently of [apply] ---- *)

Definition is_first_create (first : opid) (o : op) : bool :=
  match o with OCreate i _ _ _ _ => id_eqb i first | _ => false end.

(* title / status: the last change, or creation *)
Definition spec_title (first : opid) (ops : list op) : N :=
  fold_left (fun t o => match o with
                        | OCreate i _ title _ _ => if id_eqb i first then title else t
                        | OSetTitle _ _ title => title | _ => t end) ops 0.
Definition spec_status (ops : list op) : N :=
  fold_left (fun s o => match o with OSetStatus _ _ st => st | _ => s end) ops 1.

(* labels: (S ∪ added) ∖ removed per change, in order; result sorted and duplicate free *)
Definition set_add (a : N) (l : list N) := if existsb (N.eqb a) l then l else a :: l.
Definition spec_labels (ops : list op) : list N :=
  sortN (fold_left (fun S o => match o with
                    | OLabelChange _ _ added removed =>
                        filter (fun x => negb (existsb (N.eqb x) removed)) (fold_left (fun S a => set_add a S) added S)
                    | _ => S end) ops []).

(* comments: one per (first) create / add-comment; text and files of the latest edit whose target IS that
   operation's id (full id); an edit whose target is the id of no comment-creating operation changes nothing *)
Definition spec_comments (first : opid) (ops : list op) : list comment :=
  fold_left (fun cs o => match o with
    | OCreate i au _ msg files => if id_eqb i first then [{| c_id := i; c_author := au; c_msg := msg; c_files := files; c_edits := 0 |}] else cs
    | OAddComment i au msg files => cs ++ [{| c_id := i; c_author := au; c_msg := msg; c_files := files; c_edits := 0 |}]
    | OEditComment _ _ t msg files =>
        map (fun c => if id_eqb (c_id c) t
                      then {| c_id := c_id c; c_author := c_author c; c_msg := msg; c_files := files; c_edits := S (c_edits c) |} else c) cs
    | _ => cs end) ops [].

(* actors: authors of the operations that took effect, each once, in order of first appearance; participants: of
   create / add-comment.  An edit whose target is not a comment takes no effect. *)
Definition add_once' (a : N) (l : list N) : list N := if existsb (N.eqb a) l then l else l ++ [a].
Definition spec_actors_parts (first : opid) (ops : list op) : list N * list N :=
  let '(_, acts, parts) :=
    fold_left (fun st o =>
      let '(cids, acts, parts) := st in
      match o with
      | OCreate i au _ _ _ => if id_eqb i first then ([i], add_once' au acts, add_once' au parts) else st
      | OAddComment i au _ _ => (cids ++ [i], add_once' au acts, add_once' au parts)
      | OEditComment _ au t _ _ => if existsb (fun c => id_eqb c t) cids then (cids, add_once' au acts, parts) else st
      | OSetTitle _ au _ | OSetStatus _ au _ | OLabelChange _ au _ _ => (cids, add_once' au acts, parts)
      | _ => st
      end) ops ([], [], []) in (acts, parts).

(* timeline: one entry per state-changing operation *)
Definition spec_timeline (first : opid) (ops : list op) : list (bool * N) :=
  flat_map (fun o => match o with
    | OCreate i _ _ _ _ => if id_eqb i first then [(true, fst i)] else []
    | OAddComment i _ _ _ => [(true, fst i)]
    | OSetTitle i _ _ | OSetStatus i _ _ | OLabelChange i _ _ _ => [(false, fst i)]
    | _ => [] end) ops.

(* metadata attached later never overrides an existing key: the first value set for a key stays *)
Definition spec_meta_of (target : opid) (later : list op) : list (N * N) :=
  kv_sort (fold_left (fun m o => match o with
     | OSetMetadata _ _ t kv => if id_eqb t target
          then fold_left (fun m p => if existsb (fun q => N.eqb (fst q) (fst p)) m then m else m ++ [p]) kv m else m
     | _ => m end) later []).
(* only the first operation carrying that id is targeted: ids are unique in a valid bug *)
Fixpoint spec_meta (ops : list op) : list (list (N * N)) :=
  match ops with [] => [] | o :: t => spec_meta_of (op_id o) t :: spec_meta t end.

Fixpoint nodupb (l : list N) : bool := match l with [] => true | x :: t => negb (existsb (N.eqb x) t) && nodupb t end.

(* ---- what a valid bug guarantees about the ids of its operations ----
   ids are (rank of the first 14 characters, rank of the full id).  In a valid bug the full ids of the operations are
   pairwise distinct (an id is the hash of the operation's content, nonce included).  NOTHING is assumed about their
   first 14 characters: two operations of a bug may share them (a 2^28 birthday search produces such a pair), and an
   edit names its target by the full id.  "No later create operation re-uses the first id" is a consequence
   (valid_ids_no_recreate in SnapSpecProofs.v). *)
Definition op_ids (ops : list op) : list opid := map op_id ops.
Definition edit_targets (ops : list op) : list opid :=
  flat_map (fun o => match o with OEditComment _ _ t _ _ => [t] | _ => [] end) ops.
Definition valid_ids (ops : list op) : bool := nodupb (map snd (op_ids ops)).
(* what the interpretation needed while edits were resolved through combined ids (SnapTrunc.v): distinct heads, and
   targets whose head agrees with their full id *)
Definition coherent_targets (ops : list op) : bool :=
  forallb (fun t => forallb (fun a => implb (id_eqb a t) (tgt_match a t)) (op_ids ops)) (edit_targets ops).
Definition heads_distinct (ops : list op) : bool := nodupb (map fst (op_ids ops)).
Definition is_create (o : op) : bool := match o with OCreate _ _ _ _ _ => true | _ => false end.
