From Coq Require Import List Arith Lia Bool ZArith.
Import ListNotations.

(* cursors: a cursor designates an offset, or is foreign (matches nothing) *)
Inductive cursor := Off (n : nat) | Foreign.
Definition cur_eqb (c : cursor) (n : nat) : bool := match c with Off m => Nat.eqb m n | Foreign => false end.

Record input := { i_after : option cursor; i_before : option cursor; i_first : option Z; i_last : option Z }.
Record page := { p_items : list nat (* offsets of returned edges *); p_hasnext : bool; p_hasprev : bool; p_total : nat }.
Inductive result := Ok (p : page) | ErrFirst | ErrLast.

(* model of NameCon over a source of length n: elements are identified with their offsets 0..n-1 *)
Fixpoint find_after (c : cursor) (offs : list nat) : option nat :=
  match offs with [] => None | o :: t => if cur_eqb c o then Some o else find_after c t end.
Fixpoint take_until (c : cursor) (offs : list nat) : list nat * bool :=
  match offs with [] => ([], false)
  | o :: t => if cur_eqb c o then ([], true) else let '(l, b) := take_until c t in (o :: l, b) end.

Definition lastn {A} (k : nat) (l : list A) := skipn (length l - k) l.

(* "before" designates the "after" element or one ahead of it: nothing lies between the two (repaired NameCon; the
   pinned one ignored "before" in that case and returned what follows "after") *)
Definition empty_window (n : nat) (i : input) : bool :=
  match i_after i, i_before i with
  | Some ca, Some cb => match find_after ca (seq 0 n) with Some o => existsb (cur_eqb cb) (seq 0 (S o)) | None => false end
  | _, _ => false
  end.

Definition paginate (n : nat) (i : input) : result :=
  let src := seq 0 n in
  let '(src0, hp) := match i_after i with
                     | Some c => match find_after c src with Some o => (skipn (S o) src, true) | None => (src, false) end
                     | None => (src, false) end in
  let src1 := if empty_window n i then [] else src0 in
  let '(e1, hn0) := match i_before i with Some c => take_until c src1 | None => (src1, false) end in
  let hn := hn0 || empty_window n i in
  match (match i_first i with
         | Some f => if (f <? 0)%Z then None else
                     if Nat.ltb (Z.to_nat f) (length e1) then Some (firstn (Z.to_nat f) e1, true) else Some (e1, hn)
         | None => Some (e1, hn) end) with
  | None => ErrFirst
  | Some (e2, hn2) =>
    match (match i_last i with
           | Some l => if (l <? 0)%Z then None else
                       if Nat.ltb (Z.to_nat l) (length e2) then Some (lastn (Z.to_nat l) e2, true) else Some (e2, hp)
           | None => Some (e2, hp) end) with
    | None => ErrLast
    | Some (e3, hp3) => Ok {| p_items := e3; p_hasnext := hn2; p_hasprev := hp3; p_total := n |}
    end
  end.

Lemma ew_no_before n a f l : empty_window n {| i_after := a; i_before := None; i_first := f; i_last := l |} = false.
Proof. unfold empty_window; cbn. destruct a; reflexivity. Qed.
Lemma ew_no_after n b f l : empty_window n {| i_after := None; i_before := b; i_first := f; i_last := l |} = false.
Proof. reflexivity. Qed.

(* forward walk with page size k>0 *)
Definition fwd (n k : nat) (after : option nat) : result :=
  paginate n {| i_after := option_map Off after; i_before := None; i_first := Some (Z.of_nat k); i_last := None |}.

Lemma find_after_seq o a len : a <= o < a + len -> find_after (Off o) (seq a len) = Some o.
Proof. revert a. induction len as [|len IH]; intros a H; [lia|]. cbn. destruct (Nat.eqb_spec o a); [now subst|]. apply IH. lia. Qed.
Lemma find_after_seq_none o a len : a + len <= o -> find_after (Off o) (seq a len) = None.
Proof. revert a. induction len as [|len IH]; intros a H; cbn; [reflexivity|]. destruct (Nat.eqb_spec o a); [lia|]. apply IH. lia. Qed.
Lemma skipn_seq k a len : skipn k (seq a len) = seq (a + k) (len - k).
Proof. revert a len. induction k as [|k IH]; intros a len; cbn. { now rewrite Nat.add_0_r, Nat.sub_0_r. }
  destruct len; cbn; [reflexivity|]. rewrite IH. f_equal. lia. Qed.
Lemma firstn_seq k a len : firstn k (seq a len) = seq a (Nat.min k len).
Proof. revert a len. induction k as [|k IH]; intros a len; cbn; [reflexivity|]. destruct len; cbn; [reflexivity|]. now rewrite IH. Qed.

(* one forward page from "everything before offset o has been seen" *)
Theorem fwd_page n k o : 0 < k -> o <= n ->
  fwd n k (match o with 0 => None | S o' => Some o' end) =
  Ok {| p_items := seq o (Nat.min k (n - o)); p_hasnext := Nat.ltb k (n - o); p_hasprev := negb (Nat.eqb o 0); p_total := n |}.
Proof.
  intros Hk Ho. unfold fwd, paginate. rewrite !ew_no_before. cbn [i_after i_before i_first i_last option_map orb].
  assert (Hz : (Z.of_nat k <? 0)%Z = false) by (apply Z.ltb_ge; lia). 
  destruct o as [|o']; cbn [option_map].
  - rewrite Hz, Nat2Z.id, seq_length, Nat.sub_0_r. destruct (Nat.ltb_spec k n).
    + rewrite firstn_seq. now replace (Nat.min k n) with k by lia.
    + now replace (Nat.min k n) with n by lia.
  - rewrite find_after_seq by lia. rewrite skipn_seq, Hz, Nat2Z.id, seq_length. cbn [Nat.add Nat.eqb negb].
    destruct (Nat.ltb_spec k (n - S o')).
    + rewrite firstn_seq. now replace (Nat.min k (n - S o')) with k by lia.
    + now replace (Nat.min k (n - S o')) with (n - S o') by lia.
Qed.
Print Assumptions fwd_page.

Eval vm_compute in paginate 5 {| i_after := Some (Off 1); i_before := Some (Off 4); i_first := Some 1%Z; i_last := None |}.
