(* What a push and a fetch do to the refs, in every state satisfying the session invariant (C02):
   a push is all-or-nothing and fast-forward only; a fetch copies the remote's refs into the tracking refs. *)
From Coq Require Import List Arith NArith Lia Bool.
Import ListNotations.
From GB Require Import Reach Sort Read Good Snoc World Sync SyncProps Locals KMap SyncFrame SyncInv SyncMerge.
Local Open Scope N_scope.

Definition orelse (a b : option nat) : option nat := match a with Some x => Some x | None => b end.

Lemma alookup_aoverride' base upd e : NoDup (map fst upd) -> alookup e (aoverride base upd) = orelse (alookup e upd) (alookup e base).
Proof. apply alookup_aoverride. Qed.

(* the push test, as a statement about refs: every local head descends from (or equals) the remote head of its entity *)
Definition ff_only (sw : sworld) (r : nat) : Prop :=
  forall e h rh, alookup e (locals (ww sw) r) = Some h -> alookup e (remote sw) = Some rh -> reach (st (ww sw)) h rh.

Lemma push_ok_iff sw r : sinv sw -> (push_ok (st (ww sw)) (locals (ww sw) r) (remote sw) = true <-> ff_only sw r).
Proof. intros I. pose proof (sinv_wf sw I) as Wf. unfold push_ok, ff_only. rewrite forallb_forall. split.
  - intros H e h rh El Er. specialize (H (e, h) (alookup_In _ _ _ El)). cbn [fst snd] in H. rewrite Er in H. now apply is_anc_iff in H.
  - intros H [e h] Hin. cbn [fst snd]. destruct (alookup e (remote sw)) as [rh|] eqn:Er; [|reflexivity].
    apply is_anc_iff; [exact Wf|]. apply (H e h rh); [|exact Er]. apply In_alookup; [apply NoDup_keys_locals|exact Hin]. Qed.

Lemma track_of_set_same sw r m rem w : (r < length (tracks sw))%nat ->
  track_of {| ww := w; tracks := set_nth r m (tracks sw); remote := rem |} r = m.
Proof. intros L. unfold track_of. cbn [tracks]. now apply nth_set_nth_same. Qed.

Lemma track_of_set_other sw r r' m rem w : r' <> r -> (r < length (tracks sw))%nat ->
  track_of {| ww := w; tracks := set_nth r m (tracks sw); remote := rem |} r' = track_of sw r'.
Proof. intros Hne L. unfold track_of. cbn [tracks]. now apply nth_set_nth_other. Qed.

Theorem push_spec sw r sw' o : sinv sw -> (r < length (reps (ww sw)))%nat -> sstep sw (EPush r) = Some (sw', o) ->
  ww sw' = ww sw /\
  ((o = ODone /\ ff_only sw r /\
    (forall e, alookup e (remote sw') = orelse (alookup e (locals (ww sw) r)) (alookup e (remote sw))) /\
    (forall e, alookup e (track_of sw' r) = orelse (alookup e (locals (ww sw) r)) (alookup e (track_of sw r))) /\
    (forall r', r' <> r -> track_of sw' r' = track_of sw r'))
   \/ (o = OFail /\ ~ ff_only sw r /\ sw' = sw)).
Proof. intros I Lr H. assert (L : (r < length (tracks sw))%nat) by (pose proof (si_len sw I); lia).
  cbn [sstep] in H. destruct (push_ok (st (ww sw)) (locals (ww sw) r) (remote sw)) eqn:P; inversion H; subst sw' o; clear H.
  - cbn [ww]. split; [reflexivity|]. left. split; [reflexivity|]. split; [now apply push_ok_iff|]. split; [|split].
    + intros e. cbn [remote]. apply alookup_aoverride', NoDup_keys_locals.
    + intros e. rewrite track_of_set_same by exact L. apply alookup_aoverride', NoDup_keys_locals.
    + intros r' Hne. now apply track_of_set_other.
  - split; [reflexivity|]. right. split; [reflexivity|]. split; [|reflexivity]. intros F. apply (push_ok_iff sw r I) in F. congruence. Qed.
Print Assumptions push_spec.

(* in particular: the push succeeds exactly when it is a fast-forward for every entity, and a refused push changes nothing *)
Corollary push_succeeds_iff sw r sw' o : sinv sw -> (r < length (reps (ww sw)))%nat -> sstep sw (EPush r) = Some (sw', o) ->
  (o = ODone <-> ff_only sw r) /\ (o <> ODone -> sw' = sw).
Proof. intros I L H. destruct (push_spec sw r sw' o I L H) as (_ & [(-> & F & _)|(-> & F & E)]).
  - split; [tauto|congruence].
  - split; [split; [discriminate|contradiction]|auto]. Qed.

Theorem fetch_spec sw r sw' o : sinv sw -> (r < length (reps (ww sw)))%nat -> sstep sw (EFetch r) = Some (sw', o) ->
  o = ODone /\ ww sw' = ww sw /\ remote sw' = remote sw /\
  (forall e, alookup e (track_of sw' r) = orelse (alookup e (remote sw)) (alookup e (track_of sw r))) /\
  (forall r', r' <> r -> track_of sw' r' = track_of sw r').
Proof. intros I Lr H. assert (L : (r < length (tracks sw))%nat) by (pose proof (si_len sw I); lia).
  cbn [sstep] in H. inversion H; subst sw' o; clear H. cbn [ww remote]. repeat split.
  - intros e. rewrite track_of_set_same by exact L. apply alookup_aoverride', ksorted_NoDup_keys, (si_rem sw I).
  - intros r' Hne. now apply track_of_set_other. Qed.
Print Assumptions fetch_spec.
