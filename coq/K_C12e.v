(* C12, evaluation part — correspondence (QueryEval.eval over Query.parse = RepoCacheBug.Query over query.Parse)
   and the property on the implementation's answer. *)
From Coq Require Import List Arith NArith Bool.
Import ListNotations.
From GB Require Export Query QueryRender QueryEval.
Local Open Scope N_scope.

(* a bug as the harness read it from the resolved snapshot; identities by index into the case's list *)
Record rbug := mkrbug {
  r_id : N; r_cl : N; r_cu : N; r_el : N; r_eu : N; r_author : nat; r_status : N;
  r_labels : list str; r_title : str; r_actors : list nat; r_parts : list nat;
  r_meta : list (str * str); r_texts : list (list str) }.

Inductive eobs := EParseErr | EQueryErr | EIds (l : list N).
(* e_obs2: a second evaluation of the same parsed query (the answer must not depend on the call) *)
Record equery := mkeq { e_items : list item; e_str : str; e_obs : eobs; e_obs2 : eobs }.
(* e_stab: excerpt values are immutable. For a few label changes on live bugs: the labels of the excerpt obtained
   BEFORE the change (the value a concurrent Query is matching against), read before and read again after it *)
Record case := mkecase { e_idents : list ident; e_bugs : list rbug; e_queries : list equery;
                         e_stab : list (list str * list str) }.

Definition no_ident := mkident [] [] [].
Definition resolve (ids : list ident) (r : rbug) : bug :=
  mkbug (r_id r) (r_cl r) (r_cu r) (r_el r) (r_eu r) (nth (r_author r) ids no_ident) (r_status r) (r_labels r) (r_title r)
        (map (fun i => nth i ids no_ident) (r_actors r)) (map (fun i => nth i ids no_ident) (r_parts r)) (r_meta r) (r_texts r).

Definition population (c : case) : list bug := map (resolve (e_idents c)) (e_bugs c).

Definition find_bug (bugs : list bug) (id : N) : option bug := find (fun b => N.eqb (b_id b) id) bugs.

Fixpoint list_eqb {A} (e : A -> A -> bool) (a b : list A) : bool :=
  match a, b with [], [] => true | x :: a', y :: b' => e x y && list_eqb e a' b' | _, _ => false end.
Definition key_eqb (a b : N * N) := N.eqb (fst a) (fst b) && N.eqb (snd a) (snd b).
Definition memN (x : N) (l : list N) := existsb (N.eqb x) l.
Fixpoint nodupb (l : list N) : bool := match l with [] => true | x :: t => negb (memN x t) && nodupb t end.

(* keys of a list of ids; None if an id is not in the population *)
Fixpoint keys_of (ob : N) (bugs : list bug) (l : list N) : option (list (N * N)) :=
  match l with
  | [] => Some []
  | id :: t => match find_bug bugs id, keys_of ob bugs t with
               | Some b, Some ks => Some (skey ob b :: ks) | _, _ => None end
  end.

Definition same_set (a b : list N) : bool := forallb (fun x => memN x b) a && forallb (fun x => memN x a) b.

(* model answer in the shape of an observation *)
Definition predict (bugs : list bug) (s : str) : eobs :=
  match parse s with
  | None => EParseErr
  | Some q => match eval lower_rune q bugs with None => EQueryErr | Some r => EIds (map b_id r) end
  end.

(* equal up to the order of ties: same ids, same sequence of sort keys *)
Definition obs_agree (bugs : list bug) (s : str) (o : eobs) : bool :=
  match predict bugs s, o with
  | EParseErr, EParseErr | EQueryErr, EQueryErr => true
  | EIds m, EIds l =>
      let ob := match parse s with Some q => q_orderby q | None => 0 end in
      same_set m l && Nat.eqb (length m) (length l) &&
      match keys_of ob bugs m, keys_of ob bugs l with
      | Some km, Some kl => list_eqb key_eqb km kl | _, _ => false end
  | _, _ => false
  end.

Definition agrees_q (bugs : list bug) (e : equery) : bool :=
  str_eqb (render (e_items e)) (e_str e) && obs_agree bugs (e_str e) (e_obs e) && obs_agree bugs (e_str e) (e_obs2 e).

Definition agrees (c : case) : bool := let bugs := population c in forallb (agrees_q bugs) (e_queries c).

(* ---- the property on what RepoCacheBug.Query returned ---- *)
Fixpoint sorted_by (le : bug -> bug -> bool) (l : list bug) : bool :=
  match l with
  | a :: ((b :: _) as t) => le a b && sorted_by le t
  | _ => true
  end.

Fixpoint bugs_of (bugs : list bug) (l : list N) : option (list bug) :=
  match l with
  | [] => Some []
  | id :: t => match find_bug bugs id, bugs_of bugs t with Some b, Some r => Some (b :: r) | _, _ => None end
  end.

(* exactly the selected bugs, each once, in an order compatible with the requested key and direction *)
Definition result_ok (bugs : list bug) (q : query) (o : eobs) : bool :=
  match o with
  | EIds l =>
      nodupb l &&
      forallb (fun b => Bool.eqb (selected lower_rune q b) (memN (b_id b) l)) bugs &&
      match bugs_of bugs l with
      | Some r => sorted_by (ord (q_orderby q) (q_dir q)) r
      | None => false
      end
  | _ => false
  end.

Definition ok_q (bugs : list bug) (e : equery) : bool :=
  if wf_items (e_items e) then
    let q := denote (e_items e) in result_ok bugs q (e_obs e) && result_ok bugs q (e_obs2 e)
  else true.

Definition stable (p : list str * list str) : bool := list_eqb str_eqb (fst p) (snd p).

Definition C12_ok (c : case) : bool :=
  let bugs := population c in forallb (ok_q bugs) (e_queries c) && forallb stable (e_stab c).

Fixpoint index_filter {A} (f : A -> bool) (i : nat) (l : list A) : list nat :=
  match l with [] => [] | x :: t => if f x then index_filter f (S i) t else i :: index_filter f (S i) t end.

Definition mismatches (cs : list case) : list nat := index_filter agrees 0 cs.
Definition failing (cs : list case) : list nat := index_filter C12_ok 0 cs.
(* per query: (agrees, ok, model answer) for the queries that are not both fine *)
Definition explain (c : case) :=
  let bugs := population c in
  filter (fun x => negb (fst (fst (snd x)) && snd (fst (snd x))))
    (combine (seq 0 (length (e_queries c)))
             (map (fun e => (agrees_q bugs e, ok_q bugs e, predict bugs (e_str e))) (e_queries c))).
