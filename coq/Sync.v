(* Session-level executable model: replicas with local and remote-tracking refs, a shared remote,
   and the user-visible actions (commit, read, push, fetch, merge, remove).  Every action is
   expressed as a sequence of World.step transitions (so everything proved about states reachable
   by World.run holds of every session), plus bookkeeping of tracking/remote refs, which World
   over-approximates ("any commit of the store may be fetched"). *)
From Coq Require Import List Arith NArith Lia Bool.
Import ListNotations.
From GB Require Import Reach Sort Read Good Snoc World.
Local Open Scope N_scope.

Definition amap := list (nat * nat).   (* entity (= index of its root commit) -> head commit *)

Definition alookup (e : nat) (m : amap) : option nat :=
  option_map snd (find (fun p => Nat.eqb (fst p) e) m).
Definition aremove (e : nat) (m : amap) : amap := filter (fun p => negb (Nat.eqb (fst p) e)) m.
Fixpoint ainsert (e h : nat) (m : amap) : amap :=
  match m with
  | [] => [(e, h)]
  | (e', h') :: t => if Nat.ltb e e' then (e, h) :: m else if Nat.eqb e e' then (e, h) :: t else (e', h') :: ainsert e h t
  end.
Definition asort (m : amap) : amap := fold_right (fun p acc => ainsert (fst p) (snd p) acc) [] m.
Definition aoverride (base upd : amap) : amap := fold_left (fun acc p => ainsert (fst p) (snd p) acc) upd (asort base).

Record sworld := { ww : world; tracks : list amap; remote : amap }.

Definition sw0 (n : nat) : sworld := {| ww := w0 n; tracks := repeat [] n; remote := [] |}.

Definition rep_of (w : world) (r : nat) : replica :=
  match nth_error (reps w) r with Some rp => rp | None => {| heads := []; clk := 0; cclk := 0 |} end.
Definition locals (w : world) (r : nat) : amap := asort (map (fun h => (eidf w h, h)) (heads (rep_of w r))).
Definition track_of (sw : sworld) (r : nat) : amap := nth r (tracks sw) [].

Inductive pk := Pk (id au : N) (ops : list N).

Inductive event :=
| ECommit (r : nat) (tgt : option nat) (packs : list pk)  (* tgt = None: new entity; Some e: read e, append, commit *)
| ERead (r : nat) (e : nat)
| EPush (r : nat)
| EFetch (r : nat)
| EMerge (r : nat) (e : nat) (mid mau : N)                (* merge of the tracking ref of e; ids used if a merge commit is written *)
| ERemove (r : nat) (e : nat)
| EReopen (r : nat) (lost_clocks : bool).                 (* process restart; with lost_clocks the clock files were deleted *)

Inductive mstatus := MNew | MNothing | MUpdated | MInvalid.
Inductive outcome :=
| ODone                                   (* commit / fetch / remove succeeded *)
| OFail                                   (* the action reported an error and changed nothing *)
| ORead (ops : option (list N))
| OMerge (s : mstatus) (ent : option (list N)).

(* a is an ancestor of (or equal to) h *)
Definition is_anc (s : store) (a h : nat) : bool := memb a (reachl s h).

Fixpoint commit_packs (w : world) (r : nat) (h : option nat) (ps : list pk) : option world :=
  match ps with
  | [] => Some w
  | Pk id au ops :: t =>
      let n := length (st w) in
      match (match h with None => step w (ACreate r id au ops) | Some h' => step w (AEdit r h' id au ops) end) with
      | Some w' => commit_packs w' r (Some n) t
      | None => None
      end
  end.

Definition with_ww (sw : sworld) (w : world) : sworld := {| ww := w; tracks := tracks sw; remote := remote sw |}.

Definition push_ok (s : store) (loc rem : amap) : bool :=
  forallb (fun p => match alookup (fst p) rem with None => true | Some rh => is_anc s rh (snd p) end) loc.

Definition sstep (sw : sworld) (ev : event) : option (sworld * outcome) :=
  let w := ww sw in let s := st w in
  match ev with
  | ECommit r None ps =>
      match ps with [] => Some (sw, OFail) | _ =>
        match commit_packs w r None ps with Some w' => Some (with_ww sw w', ODone) | None => None end end
  | ECommit r (Some e) ps =>
      match alookup e (locals w r) with
      | None => Some (sw, OFail)
      | Some h =>
          if negb (valid s h) then Some (sw, OFail) else
          match ps with [] => Some (sw, OFail) | _ =>
            match step w (AWitness r h) with
            | Some w1 => match commit_packs w1 r (Some h) ps with Some w' => Some (with_ww sw w', ODone) | None => None end
            | None => None
            end end
      end
  | ERead r e =>
      match alookup e (locals w r) with
      | None => Some (sw, OFail)
      | Some h =>
          if negb (valid s h) then Some (sw, ORead None) else
          match step w (AWitness r h) with
          | Some w1 => Some (with_ww sw w1, ORead (read s h))
          | None => None
          end
      end
  | EPush r =>
      let loc := locals w r in
      if push_ok s loc (remote sw) then
        Some ({| ww := w; tracks := set_nth r (aoverride (track_of sw r) loc) (tracks sw);
                 remote := aoverride (remote sw) loc |}, ODone)
      else Some (sw, OFail)
  | EFetch r =>
      Some ({| ww := w; tracks := set_nth r (aoverride (track_of sw r) (remote sw)) (tracks sw); remote := remote sw |}, ODone)
  | EMerge r e mid mau =>
      match alookup e (track_of sw r) with
      | None => Some (sw, OFail)
      | Some t =>
          if negb (valid s t) then Some (sw, OMerge MInvalid None) else
          match step w (AWitness r t) with
          | None => None
          | Some w1 =>
              match alookup e (locals w r) with
              | None => match step w1 (AAdopt r t) with
                        | Some w' => Some (with_ww sw w', OMerge MNew (read s t)) | None => None end
              | Some h =>
                  if Nat.eqb h t then Some (with_ww sw w1, OMerge MNothing None)
                  else if is_anc s t h then Some (with_ww sw w1, OMerge MNothing None)
                  else if is_anc s h t then
                         match step w1 (AFF r h t) with
                         | Some w' => Some (with_ww sw w', OMerge MUpdated (read s t)) | None => None end
                  else match step w1 (AWitness r h) with
                       | None => None
                       | Some w2 =>
                           match step w2 (AMerge r h t mid mau) with
                           | Some w' => Some (with_ww sw w', OMerge MUpdated (read (st w') (length s)))
                           | None => None
                           end
                       end
              end
          end
      end
  | ERemove r e =>
      match alookup e (locals w r) with
      | None => Some ({| ww := w; tracks := set_nth r (aremove e (track_of sw r)) (tracks sw); remote := remote sw |}, ODone)
      | Some h =>
          match step w (ARemove r h) with
          | Some w' => Some ({| ww := w'; tracks := set_nth r (aremove e (track_of sw r)) (tracks sw); remote := remote sw |}, ODone)
          | None => None
          end
      end
  | EReopen r lost =>
      if lost then match step w (AResetClock r) with Some w' => Some (with_ww sw w', ODone) | None => None end
      else Some (sw, ODone)
  end.

Fixpoint srun (sw : sworld) (evs : list event) : option sworld :=
  match evs with [] => Some sw | e :: t => match sstep sw e with Some (sw', _) => srun sw' t | None => None end end.

(* number of World transitions an event can take *)
Definition cost (ev : event) : nat :=
  match ev with
  | ECommit _ _ ps => S (length ps)
  | EMerge _ _ _ _ => 3
  | _ => 1
  end.

(* a merge that reports Invalid changed nothing *)
Lemma merge_invalid_noop sw r e mid mau sw' ent :
  sstep sw (EMerge r e mid mau) = Some (sw', OMerge MInvalid ent) -> sw' = sw.
Proof. unfold sstep. destruct (alookup e (track_of sw r)) as [t|]; [|discriminate].
  destruct (negb (valid (st (ww sw)) t)); [intros H; inversion H; reflexivity|].
  destruct (step (ww sw) (AWitness r t)) as [w1|]; [|discriminate].
  destruct (alookup e (locals (ww sw) r)) as [h|].
  - destruct (Nat.eqb h t); [discriminate|]. destruct (is_anc (st (ww sw)) t h); [discriminate|].
    destruct (is_anc (st (ww sw)) h t).
    + destruct (step w1 (AFF r h t)); discriminate.
    + destruct (step w1 (AWitness r h)) as [w2|]; [|discriminate]. destruct (step w2 (AMerge r h t mid mau)); discriminate.
  - destruct (step w1 (AAdopt r t)); discriminate. Qed.
