(* C06 — crash points: the recorded mutation trace of a write path, and what was found on disk after the
   storage died at mutation k, against the "prefix of the mutation list" model. *)
From Coq Require Import List Arith Bool.
Import ListNotations.

Inductive mut := MObj | MClock | MRef (e : nat).
Inductive verdict := VOld | VNew | VOther.

Record crash := mkcrash { c_k : nat; c_opened : bool; c_verdicts : list (nat * verdict); c_clock_ok : bool; c_redo_ok : bool }.
Record case := mkcase6 {
  k_nents : nat;                (* entities 0..n-1 exist in the reference states; index n = the entity the action creates *)
  k_fresh : bool;               (* the action creates a new entity *)
  k_trace : list mut;
  k_changed : list nat;         (* entities the complete action changes *)
  k_crashes : list crash;
  k_torn : list bool            (* for each torn clock-file content: repository opens and clock >= stored times *)
}.

Definition verdict_eqb (a b : verdict) := match a, b with VOld, VOld | VNew, VNew | VOther, VOther => true | _, _ => false end.
Definition vlookup (e : nat) (l : list (nat * verdict)) : option verdict := option_map snd (find (fun p => Nat.eqb (fst p) e) l).
Definition ref_set (e : nat) (tr : list mut) : bool := existsb (fun m => match m with MRef x => Nat.eqb x e | _ => false end) tr.

(* model: the state after a crash at k is the state after the first k mutations; an entity is in its new
   state iff its (single) ref update is among them *)
Definition predicted (c : case) (k e : nat) : verdict := if ref_set e (firstn k (k_trace c)) then VNew else VOld.

Definition crash_agrees (c : case) (x : crash) : bool :=
  c_opened x &&
  forallb (fun e => match vlookup e (c_verdicts x) with
                    | Some v => if existsb (Nat.eqb e) (k_changed c) then verdict_eqb v (predicted c (c_k x) e) else verdict_eqb v VOld
                    | None => false end) (seq 0 (k_nents c)) &&
  (if k_fresh c then Bool.eqb (match vlookup (k_nents c) (c_verdicts x) with Some _ => true | None => false end)
                              (ref_set (k_nents c) (firstn (c_k x) (k_trace c))) else true).
Definition agrees (c : case) : bool := forallb (crash_agrees c) (k_crashes c).

(* the write path has the shape the atomicity theorem needs: at most one ref update per entity *)
Fixpoint refs_of (tr : list mut) : list nat := match tr with [] => [] | MRef e :: t => e :: refs_of t | _ :: t => refs_of t end.
Fixpoint nodupb (l : list nat) : bool := match l with [] => true | x :: t => negb (existsb (Nat.eqb x) t) && nodupb t end.

Definition C06_ok (c : case) : bool :=
  nodupb (refs_of (k_trace c)) &&
  Nat.eqb (length (k_crashes c)) (length (k_trace c)) &&
  forallb (fun x => c_opened x && c_clock_ok x && c_redo_ok x &&
                    forallb (fun p => negb (verdict_eqb (snd p) VOther)) (c_verdicts x) &&
                    forallb (fun e => match vlookup e (c_verdicts x) with Some _ => true | None => false end) (seq 0 (k_nents c)))
          (k_crashes c) &&
  forallb (fun b => b) (k_torn c).

Fixpoint index_filter {A} (f : A -> bool) (i : nat) (l : list A) : list nat :=
  match l with [] => [] | x :: t => if f x then index_filter f (S i) t else i :: index_filter f (S i) t end.
Definition mismatches (cs : list case) : list nat := index_filter agrees 0 cs.
Definition failing (cs : list case) : list nat := index_filter C06_ok 0 cs.
Definition explain (c : case) := map (fun x => (c_k x, map (predicted c (c_k x)) (seq 0 (k_nents c)))) (k_crashes c).
