From Coq Require Import List Arith NArith Lia Bool.
Import ListNotations.
From GB Require Import Reach Sort Read Good Snoc.

(* reading an old head is unaffected by objects appended to the store (unreachable garbage, other entities, later commits) *)
Lemma parents_app_old' s ext i : i < length s -> parents (s ++ ext) i = parents s i.
Proof. intros H. unfold parents. now rewrite nth_error_app1. Qed.

Lemma mark_app_old s ext : forall n m, n <= length s -> mark (s ++ ext) n m = mark s n m.
Proof. induction n as [|k IH]; intros m H; cbn; [reflexivity|]. rewrite parents_app_old' by lia. apply IH. lia. Qed.

Lemma reachl_app_old s ext h : h < length s -> reachl (s ++ ext) h = reachl s h.
Proof. intros H. unfold reachl. rewrite mark_app_old by lia. reflexivity. Qed.

Lemma check_commit_app_old' s ext i : wf_store s -> i < length s -> check_commit (s ++ ext) i = check_commit s i.
Proof. intros W H. unfold check_commit. rewrite nth_error_app1 by exact H.
  destruct (nth_error s i) as [ci|] eqn:E; [|reflexivity]. f_equal.
  apply forallb_ext_in'. intros q Hq.
  assert (q < i) by (apply W; unfold parents; now rewrite E).
  now rewrite nth_error_app1 by lia. Qed.

Lemma In_reachl_lt s h i : In i (reachl s h) -> i <= h.
Proof. unfold reachl. intros H. apply filter_In in H as [H _]. apply in_seq in H. lia. Qed.

Lemma packs_of_app_old s ext l : (forall i, In i l -> i < length s) -> packs_of (s ++ ext) l = packs_of s l.
Proof. induction l as [|x t IH]; intros H; cbn; [reflexivity|]. rewrite nth_error_app1 by (apply H; now left). f_equal. apply IH. intros i Hi. apply H. now right. Qed.

Theorem read_app_old s ext h : wf_store s -> h < length s -> read (s ++ ext) h = read s h.
Proof. intros W H. unfold read, valid. rewrite reachl_app_old by exact H.
  assert (L : forall i, In i (reachl s h) -> i < length s) by (intros i Hi; apply In_reachl_lt in Hi; lia).
  assert (E1 : forallb (check_commit (s ++ ext)) (reachl s h) = forallb (check_commit s) (reachl s h)).
  { apply forallb_ext_in'. intros i Hi. apply check_commit_app_old'; auto. }
  assert (E2 : filter (is_root (s ++ ext)) (reachl s h) = filter (is_root s) (reachl s h)).
  { apply filter_ext_in. intros i Hi. unfold is_root. now rewrite parents_app_old' by auto. }
  rewrite E1, E2, packs_of_app_old by exact L. reflexivity. Qed.
Print Assumptions read_app_old.

(* ---- crash points of a write path ---- *)
Inductive mutation := AddObj (c : commit) | SetRef (e : nat) (h : nat).
Record storage := { objs : store; refs : list (nat * nat) }.
Definition apply_mut (st : storage) (m : mutation) : storage :=
  match m with
  | AddObj c => {| objs := objs st ++ [c]; refs := refs st |}
  | SetRef e h => {| objs := objs st; refs := (e, h) :: refs st |}
  end.
Definition lookup (e : nat) (r : list (nat * nat)) : option nat := option_map snd (find (fun p => Nat.eqb (fst p) e) r).
Definition read_entity (st : storage) (e : nat) : option (option (list N)) :=
  option_map (read (objs st)) (lookup e (refs st)).

(* a write path: any number of object writes, then exactly one ref update *)
Definition write_path (cs : list commit) (e h : nat) : list mutation := map AddObj cs ++ [SetRef e h].

Lemma run_addobjs cs : forall st, fold_left apply_mut (map AddObj cs) st = {| objs := objs st ++ cs; refs := refs st |}.
Proof. induction cs as [|c t IH]; intros st; cbn; [now rewrite app_nil_r; destruct st|]. rewrite IH. cbn. now rewrite <- app_assoc. Qed.

Definition refs_ok (st : storage) := forall e h, lookup e (refs st) = Some h -> h < length (objs st).

Lemma read_entity_objs_ext st ext e' : wf_store (objs st) -> refs_ok st ->
  read_entity {| objs := objs st ++ ext; refs := refs st |} e' = read_entity st e'.
Proof. intros W R. unfold read_entity. cbn [objs refs]. destruct (lookup e' (refs st)) as [h0|] eqn:L; cbn; [|reflexivity].
  f_equal. apply read_app_old; [exact W|eapply R; exact L]. Qed.

Theorem C06_atomic st cs e h k : wf_store (objs st) -> refs_ok st ->
  let crashed := fold_left apply_mut (firstn k (write_path cs e h)) st in
  let final := fold_left apply_mut (write_path cs e h) st in
  forall e', read_entity crashed e' = read_entity st e' \/
             (e' = e /\ read_entity crashed e' = read_entity final e').
Proof. intros W R crashed final e'. unfold crashed, final, write_path.
  destruct (Nat.le_gt_cases k (length cs)) as [Hk|Hk].
  - (* crash before the ref update: only objects were added *)
    left. rewrite firstn_app, map_length. replace (k - length cs) with 0 by lia. cbn [firstn]. rewrite app_nil_r.
    rewrite firstn_map, run_addobjs. now apply read_entity_objs_ext.
  - (* the ref update happened: the whole path ran *)
    rewrite firstn_all2 by (rewrite app_length, map_length; cbn; lia).
    destruct (Nat.eq_dec e' e) as [->|Hne]; [right; auto|]. left.
    rewrite fold_left_app, run_addobjs. cbn [fold_left apply_mut objs refs].
    unfold read_entity at 1. cbn [objs refs]. unfold lookup at 1. cbn [find fst].
    destruct (Nat.eqb_spec e e'); [congruence|].
    change (option_map snd (find (fun p => Nat.eqb (fst p) e') (refs st))) with (lookup e' (refs st)).
    fold (read_entity {| objs := objs st ++ cs; refs := refs st |} e') || idtac.
    rewrite <- (read_entity_objs_ext st cs e' W R). reflexivity. Qed.
Print Assumptions C06_atomic.
