(* C08 — commits by authors with signing keys must carry a valid signature. Property theorems only;
   model and proofs live in Sig.v (valid_keys_at = Identity.ValidKeysAtTime, accept = the signature rule of
   dag.readOperationPack, write = the signing rule of operationPack.Write). OpenPGP is an oracle
   (sig_ok, sign) constrained only by the hypotheses written in each statement. *)
From Coq Require Import List Arith NArith Bool Lia Sorting.Sorted.
Import ListNotations.
From GB Require Import Sig.
Local Open Scope N_scope.

(* Under non-decreasing version times (Identity.Validate enforces them; a version which does not record the clock
   inherits the previous time, 0 at the start) the early-exit loop computes "the keys of the last version whose
   time is <= t": spec folds over ALL versions and keeps the key set of the last one that is old enough. *)
Theorem C08_keys_interval (key : Type) (vs : list (version key)) t :
  Sorted N.le (0 :: map fst (eff vs 0)) -> valid_keys_at vs t = spec (eff vs 0) t [].
Proof. exact (Sig.C08_keys_interval key vs t). Qed.
Print Assumptions C08_keys_interval.

(* the hypothesis is what Identity.Validate checks: every history it lets through has non-decreasing times *)
Theorem C08_keys_interval_validated (key : Type) (vs : list (version key)) t :
  id_valid vs None = true -> valid_keys_at vs t = spec (eff vs 0) t [].
Proof. exact (Sig.C08_keys_interval_validated key vs t). Qed.
Print Assumptions C08_keys_interval_validated.

(* the same, spelled out: a key set counts from its version's time (r <= t) until the next version's time *)
Theorem C08_keys_last (key : Type) (vs : list (version key)) t l1 r ks l2 :
  Sorted N.le (0 :: map fst (eff vs 0)) -> eff vs 0 = l1 ++ (r, ks) :: l2 -> r <= t ->
  Forall (fun p => t < fst p) l2 -> valid_keys_at vs t = ks.
Proof. exact (Sig.C08_keys_last key vs t l1 r ks l2). Qed.
Print Assumptions C08_keys_last.

(* no key counts before the time of the first version *)
Theorem C08_keys_none_before_first (key : Type) (vs : list (version key)) t r ks l :
  eff vs 0 = (r, ks) :: l -> t < r -> valid_keys_at vs t = [].
Proof. exact (Sig.C08_keys_none_before_first key vs t r ks l). Qed.
Print Assumptions C08_keys_none_before_first.

(* keys in force: an unsigned commit, a commit signed with a key that is not in force (removed, not yet valid,
   a stranger's) and a commit whose content is not what was signed are all rejected *)
Theorem C08_reject (key sig payload : Type) (sig_ok : key -> payload -> sig -> bool) (sign : key -> payload -> sig)
  (unforgeable : forall k p k' p', sig_ok k p (sign k' p') = true -> k = k' /\ p = p')
  (vs : list (version key)) t p s :
  valid_keys_at vs t <> [] ->
  (s = None \/ exists k' p', s = Some (sign k' p') /\ (~ In k' (valid_keys_at vs t) \/ p' <> p)) ->
  accept sig_ok vs t p s = false.
Proof. exact (Sig.C08_reject key sig payload sig_ok sign unforgeable vs t p s). Qed.
Print Assumptions C08_reject.

(* no key in force: accepted, signed or not *)
Theorem C08_accept_unsigned (key sig payload : Type) (sig_ok : key -> payload -> sig -> bool) (vs : list (version key)) t p s :
  valid_keys_at vs t = [] -> accept sig_ok vs t p s = true.
Proof. exact (Sig.C08_accept_unsigned key sig payload sig_ok vs t p s). Qed.
Print Assumptions C08_accept_unsigned.

(* signed with a key in force over the exact content: accepted *)
Theorem C08_accept_signed (key sig payload : Type) (sig_ok : key -> payload -> sig -> bool) (sign : key -> payload -> sig)
  (correct : forall k p, sig_ok k p (sign k p) = true) (vs : list (version key)) t p k :
  In k (valid_keys_at vs t) -> accept sig_ok vs t p (Some (sign k p)) = true.
Proof. exact (Sig.C08_accept_signed key sig payload sig_ok sign correct vs t p k). Qed.
Print Assumptions C08_accept_signed.

(* exact characterisation for a signature made with k' over p' *)
Theorem C08_accept_iff (key sig payload : Type) (sig_ok : key -> payload -> sig -> bool) (sign : key -> payload -> sig)
  (correct : forall k p, sig_ok k p (sign k p) = true)
  (unforgeable : forall k p k' p', sig_ok k p (sign k' p') = true -> k = k' /\ p = p')
  (vs : list (version key)) t p k' p' :
  accept sig_ok vs t p (Some (sign k' p')) = true <-> valid_keys_at vs t = [] \/ (In k' (valid_keys_at vs t) /\ p' = p).
Proof. exact (Sig.C08_accept_iff key sig payload sig_ok sign correct unforgeable vs t p k' p'). Qed.
Print Assumptions C08_accept_iff.

(* the (repaired) writer never stores a commit its own reader rejects, at any time not earlier than a version *)
Theorem C08_written_accepted (key sig payload : Type) (sig_ok : key -> payload -> sig -> bool) (sign : key -> payload -> sig)
  (correct : forall k p, sig_ok k p (sign k p) = true) (vs : list (version key)) t have p s :
  Forall (fun q => fst q <= t) (eff vs 0) -> write sign vs t have p = Some s -> accept sig_ok vs t p s = true.
Proof. exact (Sig.C08_written_accepted key sig payload sig_ok sign correct vs t have p s). Qed.
Print Assumptions C08_written_accepted.

(* the snapshot's writer did: keys in force, no private key at hand -> an unsigned commit that is rejected *)
Theorem C08_pinned_writer_unreadable (key sig payload : Type) (sig_ok : key -> payload -> sig -> bool) (sign : key -> payload -> sig)
  (vs : list (version key)) t have p :
  valid_keys_at vs t <> [] -> signing_key have vs = None ->
  exists s, write_pinned sign vs have p = Some s /\ accept sig_ok vs t p s = false.
Proof. exact (Sig.C08_pinned_writer_unreadable key sig payload sig_ok sign vs t have p). Qed.
Print Assumptions C08_pinned_writer_unreadable.

(* versions added later do not change which keys were in force at an earlier time, provided their time is
   strictly later (Identity.Mutate gives a new version the NEXT value of the clock) ... *)
Theorem C08_later_versions_do_not_reach_back (key : Type) (vs more : list (version key)) t :
  (forall q, In q (eff more (lastref vs 0)) -> t < fst q) -> valid_keys_at (vs ++ more) t = valid_keys_at vs t.
Proof. exact (Sig.later_versions_do_not_reach_back key vs more t). Qed.
Print Assumptions C08_later_versions_do_not_reach_back.

(* ... hence what the writer stored stays readable whatever its author does to his keys afterwards *)
Theorem C08_written_stays_accepted (key sig payload : Type) (sig_ok : key -> payload -> sig -> bool) (sign : key -> payload -> sig)
  (correct : forall k p, sig_ok k p (sign k p) = true) (vs more : list (version key)) t have p s :
  Forall (fun q => fst q <= t) (eff vs 0) -> (forall q, In q (eff more (lastref vs 0)) -> t < fst q) ->
  write sign vs t have p = Some s -> accept sig_ok (vs ++ more) t p s = true.
Proof. exact (Sig.C08_written_stays_accepted key sig payload sig_ok sign correct vs more t have p s). Qed.
Print Assumptions C08_written_stays_accepted.

(* the pinned Identity.Mutate gave the new version the clock's CURRENT value, which is the time of the last commit
   written: such a version reaches back, and the author's own last commit, rightly unsigned, needs a signature *)
Theorem C08_same_time_version_refuted : exists (vs : list (version N)) v t,
  fst v = Some t /\ valid_keys_at vs t = [] /\ valid_keys_at (vs ++ [v]) t <> [].
Proof. exact same_time_version_reaches_back. Qed.
Print Assumptions C08_same_time_version_refuted.

(* ---- the hypotheses are satisfiable: an ideal signature scheme (a signature names its key and its payload) ---- *)
Example C08_oracle_correct : forall k p, ideal_ok k p (ideal_sign k p) = true.
Proof. intros k p. unfold ideal_ok, ideal_sign. cbn. now rewrite !N.eqb_refl. Qed.
Example C08_oracle_unforgeable : forall k p k' p', ideal_ok k p (ideal_sign k' p') = true -> k = k' /\ p = p'.
Proof. intros k p k' p' H. unfold ideal_ok, ideal_sign in H. cbn in H. apply andb_true_iff in H as [H1 H2].
  apply N.eqb_eq in H1, H2. now split. Qed.

(* a history: key 1 from time 3 (the first version does not record the clock: time 0, no key), rotated to key 2 at 5,
   all keys dropped at 7 *)
Example C08_history_sorted : Sorted N.le (0 :: map fst (eff ex_history 0)) /\ id_valid ex_history None = true.
Proof. split; [cbn; repeat constructor; cbn; lia|reflexivity]. Qed.
Example C08_history_keys : map (valid_keys_at ex_history) [1; 2; 3; 4; 5; 6; 7; 8] = [[]; []; [1]; [1]; [2]; [2]; []; []].
Proof. vm_compute. reflexivity. Qed.
(* at time 5: signed with key 2 accepted; unsigned, removed key 1, stranger 9, altered payload rejected; at 7 anything goes *)
Example C08_history_verdicts :
  map (fun s => accept ideal_ok ex_history 5 0 s) [Some (ideal_sign 2 0); None; Some (ideal_sign 1 0); Some (ideal_sign 9 0); Some (ideal_sign 2 1)]
  = [true; false; false; false; false] /\ accept ideal_ok ex_history 7 0 None = true.
Proof. vm_compute. split; reflexivity. Qed.
(* the writer: with the private part of key 2 it signs; without any it refuses while keys are in force and writes
   unsigned once they are dropped *)
Example C08_history_writer :
  write ideal_sign [(None, []); (Some 3, [1]); (Some 5, [2])] 6 (N.eqb 2) 0 = Some (Some (2, 0)) /\
  write ideal_sign [(None, []); (Some 3, [1]); (Some 5, [2])] 6 (fun _ => false) 0 = None /\
  write ideal_sign ex_history 8 (fun _ => false) 0 = Some None.
Proof. vm_compute. repeat split; reflexivity. Qed.
