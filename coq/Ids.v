From Coq Require Import List Arith Bool Lia Sorting.Permutation.
Import ListNotations.

Section Ids.
Variable sym : Type.

(* pattern: true = take from secondary *)
Definition is_secondary (i : nat) : bool :=
  Nat.eqb i 1 || Nat.eqb i 3 || Nat.eqb i 5 || Nat.eqb i 9 || (Nat.leb 10 i && Nat.eqb (i mod 5) 4).
Definition pattern : list bool := map is_secondary (seq 0 64).

Fixpoint combine_pat (pat : list bool) (p s : list sym) : list sym :=
  match pat with
  | [] => []
  | true :: pat' => match s with x :: s' => x :: combine_pat pat' p s' | [] => [] end
  | false :: pat' => match p with x :: p' => x :: combine_pat pat' p' s | [] => [] end
  end.
Fixpoint separate_pat (pat : list bool) (x : list sym) : list sym * list sym :=
  match pat, x with
  | b :: pat', c :: x' => let '(p, s) := separate_pat pat' x' in if b then (p, c :: s) else (c :: p, s)
  | _, _ => ([], [])
  end.

Definition count_true (l : list bool) := length (filter (fun b => b) l).
Definition count_false (l : list bool) := length (filter negb l).

(* any prefix of a combined id splits into a prefix of each part *)
Theorem separate_prefix pat : forall p s k,
  count_false pat <= length p -> count_true pat <= length s -> k <= length pat ->
  separate_pat pat (firstn k (combine_pat pat p s)) =
  (firstn (count_false (firstn k pat)) p, firstn (count_true (firstn k pat)) s).
Proof. unfold count_true, count_false. induction pat as [|b pat IH]; intros p s k Hp Hs Hk.
  - destruct k; reflexivity.
  - destruct k as [|k]; [reflexivity|]. cbn [length] in Hk. destruct b; cbn [filter negb length] in Hp, Hs.
    + destruct s as [|x s']; [cbn [length] in Hs; lia|]. cbn [combine_pat firstn separate_pat length] in *.
      rewrite IH by lia. cbn [filter negb length firstn]. reflexivity.
    + destruct p as [|x p']; [cbn [length] in Hp; lia|]. cbn [combine_pat firstn separate_pat length] in *.
      rewrite IH by lia. cbn [filter negb length firstn]. reflexivity. Qed.

Lemma pattern_counts : count_false pattern = 50 /\ count_true pattern = 14 /\ length pattern = 64.
Proof. vm_compute. auto. Qed.

Definition combine_ids := combine_pat pattern.
Definition separate_ids := separate_pat pattern.
(* keep the 64-position pattern folded during conversion checks (it is evaluated only by vm_compute) *)
Strategy 1000 [combine_ids separate_ids pattern].

Corollary C13_separate_prefix p s k : length p = 64 -> length s = 64 -> k <= 64 ->
  separate_ids (firstn k (combine_ids p s)) =
  (firstn (count_false (firstn k pattern)) p, firstn (count_true (firstn k pattern)) s).
Proof. intros Hp Hs Hk. destruct pattern_counts as (A & B & C). apply separate_prefix; lia. Qed.

Lemma count_split l : count_false l + count_true l = length l.
Proof. unfold count_false, count_true. induction l as [|[|] l IH]; cbn; lia. Qed.

(* the number of primary / secondary symbols among the first k positions *)
Definition np (k : nat) := count_false (firstn k pattern).
Definition ns (k : nat) := count_true (firstn k pattern).
Lemma np_ns k : k <= 64 -> np k + ns k = k.
Proof. intros H. unfold np, ns. rewrite count_split, firstn_length. destruct pattern_counts as (_ & _ & L). lia. Qed.

Lemma combine_pat_length pat : forall p s, count_false pat <= length p -> count_true pat <= length s ->
  length (combine_pat pat p s) = length pat.
Proof. unfold count_false, count_true. induction pat as [|[|] pat IH]; intros p s Hp Hs; cbn [filter negb length] in *; [reflexivity| |].
  - destruct s as [|x s']; [cbn in Hs; lia|]. cbn [combine_pat length] in *. rewrite IH; lia.
  - destruct p as [|x p']; [cbn in Hp; lia|]. cbn [combine_pat length] in *. rewrite IH; lia. Qed.

(* 64 = 50 + 14: a complete combined id holds the first 50 symbols of the primary and the first 14 of the secondary *)
Lemma combine_lengths p s : length p = 64 -> length s = 64 ->
  length (combine_ids p s) = 64 /\ separate_ids (combine_ids p s) = (firstn 50 p, firstn 14 s).
Proof. intros Hp Hs. destruct pattern_counts as (A & B & C). split.
  - unfold combine_ids. rewrite combine_pat_length; lia.
  - assert (E : combine_ids p s = firstn 64 (combine_ids p s)).
    { symmetry. apply firstn_all2. unfold combine_ids. rewrite combine_pat_length; lia. }
    rewrite E, C13_separate_prefix by lia. rewrite <- C at 1 2. rewrite firstn_all, A, B. reflexivity. Qed.

(* ---- SeparateIds as written in Go: the position alone decides, whatever the length of the input ---- *)
Fixpoint separate_at (i : nat) (x : list sym) : list sym * list sym :=
  match x with
  | [] => ([], [])
  | c :: x' => let '(p, s) := separate_at (S i) x' in if is_secondary i then (p, c :: s) else (c :: p, s)
  end.
Definition separate_go := separate_at 0.

Lemma separate_at_pat n : forall i x, length x <= n -> separate_at i x = separate_pat (map is_secondary (seq i n)) x.
Proof. induction n as [|n IH]; intros i x H.
  - destruct x; [reflexivity|cbn in H; lia].
  - destruct x as [|c x']; [reflexivity|]. cbn [length] in H. cbn [seq map separate_at separate_pat].
    rewrite IH by lia. reflexivity. Qed.
Lemma separate_go_ids x : length x <= 64 -> separate_go x = separate_ids x.
Proof. intros H. apply (separate_at_pat 64 0 x H). Qed.

(* ---- prefixes ---- *)
Definition is_prefix (x y : list sym) := exists t, y = x ++ t.
Lemma is_prefix_nil y : is_prefix [] y.
Proof. exists y. reflexivity. Qed.
Lemma is_prefix_cons a b x y : is_prefix (a :: x) (b :: y) <-> a = b /\ is_prefix x y.
Proof. split.
  - intros [t H]. cbn in H. inversion H; subst. split; [reflexivity|exists t; reflexivity].
  - intros [-> [t ->]]. exists t. reflexivity. Qed.
Lemma is_prefix_of_nil a x : ~ is_prefix (a :: x) [].
Proof. intros [t H]. discriminate. Qed.
Lemma is_prefix_firstn k y : is_prefix (firstn k y) y.
Proof. exists (skipn k y). symmetry. apply firstn_skipn. Qed.
Lemma is_prefix_length x y : is_prefix x y -> length x <= length y.
Proof. intros [t ->]. rewrite app_length. lia. Qed.
Lemma is_prefix_is_firstn x y : is_prefix x y -> x = firstn (length x) y.
Proof. intros [t ->]. rewrite firstn_app, firstn_all, Nat.sub_diag. cbn. now rewrite app_nil_r. Qed.

(* x is a prefix of the combined id exactly when its two parts are prefixes of the two ids *)
Lemma prefix_iff_pat pat : forall p s x,
  count_false pat <= length p -> count_true pat <= length s -> length x <= length pat ->
  (is_prefix x (combine_pat pat p s) <->
   is_prefix (fst (separate_pat pat x)) p /\ is_prefix (snd (separate_pat pat x)) s).
Proof. unfold count_false, count_true. induction pat as [|b pat IH]; intros p s x Hp Hs Hx.
  - destruct x; [|cbn in Hx; lia]. cbn. split; [intros _; split; apply is_prefix_nil|intros _; apply is_prefix_nil].
  - destruct x as [|c x'].
    { cbn [separate_pat fst snd]. split; [intros _; split; apply is_prefix_nil|intros _; apply is_prefix_nil]. }
    cbn [length] in Hx. destruct b; cbn [filter negb length] in Hp, Hs.
    + destruct s as [|y s']; [cbn in Hs; lia|]. cbn [combine_pat separate_pat length] in *.
      specialize (IH p s' x'). destruct (separate_pat pat x') as [p0 s0]. cbn [fst snd] in *.
      rewrite !is_prefix_cons, IH by lia. tauto.
    + destruct p as [|y p']; [cbn in Hp; lia|]. cbn [combine_pat separate_pat length] in *.
      specialize (IH p' s x'). destruct (separate_pat pat x') as [p0 s0]. cbn [fst snd] in *.
      rewrite !is_prefix_cons, IH by lia. tauto. Qed.

Lemma prefix_iff p s x : length p = 64 -> length s = 64 -> length x <= 64 ->
  (is_prefix x (combine_ids p s) <->
   is_prefix (fst (separate_ids x)) p /\ is_prefix (snd (separate_ids x)) s).
Proof. intros Hp Hs Hx. destruct pattern_counts as (A & B & C). apply prefix_iff_pat; lia. Qed.

Lemma prefix_iff_go p s x : length p = 64 -> length s = 64 -> length x <= 64 ->
  (is_prefix x (combine_ids p s) <->
   is_prefix (fst (separate_go x)) p /\ is_prefix (snd (separate_go x)) s).
Proof. intros Hp Hs Hx. rewrite separate_go_ids by exact Hx. now apply prefix_iff. Qed.

Lemma separate_prefix_np p s k : length p = 64 -> length s = 64 -> k <= 64 ->
  separate_ids (firstn k (combine_ids p s)) = (firstn (np k) p, firstn (ns k) s) /\ np k + ns k = k.
Proof. intros Hp Hs Hk. split; [now apply C13_separate_prefix|now apply np_ns]. Qed.

(* ---- decidable symbols: prefix test, id equality ---- *)
Variable sym_eqb : sym -> sym -> bool.
Hypothesis sym_eqb_spec : forall a b, sym_eqb a b = true <-> a = b.

Definition id := list sym.

(* strings.HasPrefix(y, x) *)
Fixpoint prefixb (x y : id) : bool :=
  match x, y with
  | [], _ => true
  | a :: x', b :: y' => sym_eqb a b && prefixb x' y'
  | _ :: _, [] => false
  end.
Lemma prefixb_spec x : forall y, prefixb x y = true <-> is_prefix x y.
Proof. induction x as [|a x IH]; intros y; cbn.
  - split; [intros _; apply is_prefix_nil|reflexivity].
  - destruct y as [|b y].
    + split; [discriminate|intros H; now apply is_prefix_of_nil in H].
    + rewrite andb_true_iff, is_prefix_cons, sym_eqb_spec, IH. tauto. Qed.

Fixpoint id_eqb (x y : id) : bool :=
  match x, y with
  | [], [] => true
  | a :: x', b :: y' => sym_eqb a b && id_eqb x' y'
  | _, _ => false
  end.
Lemma id_eqb_spec x : forall y, id_eqb x y = true <-> x = y.
Proof. induction x as [|a x IH]; intros [|b y]; cbn; try (split; [discriminate|congruence]); [tauto|].
  rewrite andb_true_iff, sym_eqb_spec, IH. split; [intros [-> ->]; reflexivity|intros H; inversion H; auto]. Qed.

(* ---- cache/subcache.go: ResolvePrefix / ResolveExcerptPrefix over resolveMatcher ----
   pop enumerates the excerpt map (keys are unique; the enumeration order is Go's map order, i.e. arbitrary) *)
Inductive rres := RFound (i : id) | RMultiple (l : list id) | RNotFound.

Definition matching (pop : list id) (pfx : id) : list id := filter (prefixb pfx) pop.

Definition resolve_prefix (pop : list id) (pfx : id) : rres :=
  let m := matching pop pfx in
  if Nat.ltb 1 (length m) then RMultiple m              (* len(matching) > 1  *)
  else if Nat.eqb (length m) 0 then RNotFound           (* len(matching) == 0 *)
  else match m with a :: _ => RFound a | [] => RNotFound end.   (* matching[0] *)

Definition matches (pop : list id) (pfx i : id) := In i pop /\ is_prefix pfx i.

Lemma matching_spec pop pfx i : In i (matching pop pfx) <-> matches pop pfx i.
Proof. unfold matching, matches. rewrite filter_In, prefixb_spec. tauto. Qed.

Theorem resolve_spec pop pfx : NoDup pop ->
  ((forall i, ~ matches pop pfx i) <-> resolve_prefix pop pfx = RNotFound) /\
  (forall a, (matches pop pfx a /\ forall b, matches pop pfx b -> b = a) <-> resolve_prefix pop pfx = RFound a) /\
  (forall l, resolve_prefix pop pfx = RMultiple l ->
     NoDup l /\ 2 <= length l /\ forall i, In i l <-> matches pop pfx i) /\
  ((exists a b, a <> b /\ matches pop pfx a /\ matches pop pfx b) -> exists l, resolve_prefix pop pfx = RMultiple l).
Proof. intros ND. pose proof (matching_spec pop pfx) as Hm.
  assert (NDm : NoDup (matching pop pfx)) by (apply NoDup_filter; exact ND).
  unfold resolve_prefix. destruct (matching pop pfx) as [|a0 [|b0 t]] eqn:E; cbn [length Nat.ltb Nat.leb Nat.eqb].
  - split; [|split; [|split]].
    + split; [reflexivity|]. intros _ i H. apply Hm in H. destruct H.
    + intros a. split; [|discriminate]. intros [H _]. apply Hm in H. destruct H.
    + discriminate.
    + intros (a & b & _ & H & _). apply Hm in H. destruct H.
  - split; [|split; [|split]].
    + split; [|discriminate]. intros H. exfalso. apply (H a0), Hm. now left.
    + intros a. split.
      * intros [H _]. apply Hm in H. destruct H as [->|[]]. reflexivity.
      * intros H. inversion H; subst. split; [apply Hm; now left|]. intros b Hb. apply Hm in Hb. destruct Hb as [->|[]]. reflexivity.
    + discriminate.
    + intros (a & b & Hab & Ha & Hb). apply Hm in Ha, Hb. destruct Ha as [->|[]], Hb as [->|[]]. congruence.
  - split; [|split; [|split]].
    + split; [|discriminate]. intros H. exfalso. apply (H a0), Hm. now left.
    + intros a. split; [|discriminate]. intros [_ U]. exfalso. inversion NDm as [|? ? Hn _]; subst. apply Hn.
      rewrite (U a0) by (apply Hm; now left). left. apply U, Hm. right; now left.
    + intros l H. inversion H; subst. split; [exact NDm|]. split; [cbn; lia|]. exact Hm.
    + intros _. eexists. reflexivity. Qed.

Lemma Permutation_filter {A} (f : A -> bool) l l' : Permutation l l' -> Permutation (filter f l) (filter f l').
Proof. induction 1 as [|x l l' _ IH|x y l|l l' l'' _ IH1 _ IH2]; cbn.
  - constructor.
  - destruct (f x); [now constructor|exact IH].
  - destruct (f x), (f y); try reflexivity. apply perm_swap.
  - now transitivity (filter f l'). Qed.

(* the answer does not depend on the order in which the map is enumerated *)
Theorem resolve_perm pop pop' pfx : Permutation pop pop' ->
  match resolve_prefix pop pfx, resolve_prefix pop' pfx with
  | RFound a, RFound b => a = b
  | RNotFound, RNotFound => True
  | RMultiple l, RMultiple l' => Permutation l l'
  | _, _ => False
  end.
Proof. intros P. apply (Permutation_filter (prefixb pfx)) in P. unfold resolve_prefix. fold (matching pop pfx) (matching pop' pfx) in *.
  destruct (matching pop pfx) as [|a0 [|b0 t]] eqn:E.
  - apply Permutation_nil in P. rewrite P. exact I.
  - apply Permutation_length_1_inv in P. rewrite P. reflexivity.
  - pose proof (Permutation_length P) as L. destruct (matching pop' pfx) as [|a1 [|b1 t1]]; cbn in L; try discriminate.
    cbn [length Nat.ltb Nat.leb]. exact P. Qed.

(* ---- commands/select/select.go: Resolve. The first argument is tried as a prefix; only "not found"
   falls back to the previously selected entity ---- *)
Inductive sres := SFound (i : id) (rest : list id) | SMultiple (l : list id) | SNoValidId.

Definition select_fallback (pop : list id) (sel : option id) (args : list id) : sres :=
  match sel with
  | Some i => if existsb (id_eqb i) pop then SFound i args else SNoValidId   (* a dangling selection is cleared *)
  | None => SNoValidId
  end.
Definition select_resolve (pop : list id) (sel : option id) (args : list id) : sres :=
  match args with
  | a :: rest =>
      match resolve_prefix pop a with
      | RFound i => SFound i rest
      | RMultiple l => SMultiple l
      | RNotFound => select_fallback pop sel args
      end
  | [] => select_fallback pop sel args
  end.

Theorem select_spec pop sel a rest : NoDup pop ->
  (forall i, matches pop a i -> (forall j, matches pop a j -> j = i) -> select_resolve pop sel (a :: rest) = SFound i rest) /\
  ((exists i j, i <> j /\ matches pop a i /\ matches pop a j) ->
     exists l, select_resolve pop sel (a :: rest) = SMultiple l /\ forall i, In i l <-> matches pop a i) /\
  ((forall i, ~ matches pop a i) -> select_resolve pop sel (a :: rest) = select_fallback pop sel (a :: rest)).
Proof. intros ND. destruct (resolve_spec pop a ND) as (S0 & S1 & SM & SM'). unfold select_resolve. repeat split.
  - intros i Hi U. assert (E : resolve_prefix pop a = RFound i) by (apply S1; auto). now rewrite E.
  - intros H. destruct (SM' H) as [l E]. rewrite E. exists l. split; [reflexivity|]. apply (SM l E).
  - intros H. apply S0 in H. now rewrite H. Qed.

(* ---- cache/bug_subcache.go: ResolveComment ----
   a bug is its id and the ids of the operations that created its comments, in snapshot order *)
Definition bugrec := (id * list id)%type.
Definition comment_cids (b : bugrec) : list id := map (combine_ids (fst b)) (snd b).

(* bugs whose id starts with the primary part of the split prefix *)
Definition ccands (pop : list bugrec) (pfx : id) : list bugrec :=
  filter (fun b => prefixb (fst (separate_go pfx)) (fst b)) pop.
(* (bug id, combined id) of every comment of the given bugs whose combined id starts with the whole prefix *)
Definition cmatches_in (pfx : id) (bs : list bugrec) : list (id * id) :=
  flat_map (fun b => map (fun c => (fst b, c)) (filter (prefixb pfx) (comment_cids b))) bs.

Inductive cres := CFound (bug cid : id) | CMultiple (bugs : list id) | CNone.

Definition resolve_comment (pop : list bugrec) (pfx : id) : cres :=
  let m := cmatches_in pfx (ccands pop pfx) in
  if Nat.ltb 1 (length m) then CMultiple (map fst m)      (* one bug id per matching comment *)
  else if Nat.eqb (length m) 0 then CNone                  (* errors.New("comment doesn't exist") *)
  else match m with (b, c) :: _ => CFound b c | [] => CNone end.

Definition wf_pop (pop : list bugrec) :=
  forall b, In b pop -> length (fst b) = 64 /\ forall s, In s (snd b) -> length s = 64.

Lemma filter_none {A} (f : A -> bool) l : (forall x, In x l -> f x = false) -> filter f l = [].
Proof. induction l as [|x l IH]; intros H; cbn; [reflexivity|]. rewrite (H x) by now left. apply IH. intros y Hy. apply H. now right. Qed.

(* the candidate filter by primary prefix loses nothing *)
Lemma cands_lose_nothing pop pfx : wf_pop pop -> cmatches_in pfx (ccands pop pfx) = cmatches_in pfx pop.
Proof. unfold ccands. induction pop as [|b pop IH]; intros W; [reflexivity|].
  assert (W' : wf_pop pop) by (intros x Hx; apply W; now right).
  cbn [filter]. destruct (prefixb (fst (separate_go pfx)) (fst b)) eqn:E.
  - cbn [cmatches_in flat_map]. f_equal. apply IH, W'.
  - cbn [cmatches_in flat_map]. rewrite (filter_none (prefixb pfx) (comment_cids b)); [cbn [map app]; apply IH, W'|].
    intros c Hc. unfold comment_cids in Hc. apply in_map_iff in Hc as (s & <- & Hs).
    destruct (W b (or_introl eq_refl)) as [Lb Ls]. specialize (Ls s Hs).
    destruct (prefixb pfx (combine_ids (fst b) s)) eqn:F; [|reflexivity]. exfalso.
    apply prefixb_spec in F. pose proof (is_prefix_length _ _ F) as L.
    destruct (combine_lengths (fst b) s Lb Ls) as [Lc _]. rewrite Lc in L.
    apply (prefix_iff (fst b) s pfx Lb Ls L) in F. destruct F as [F _].
    rewrite <- separate_go_ids in F by exact L. apply prefixb_spec in F. congruence. Qed.

(* every comment of the population, as (bug id, operation id) *)
Definition all_comments (pop : list bugrec) : list (id * id) :=
  flat_map (fun b => map (fun s => (fst b, s)) (snd b)) pop.
Definition cid_of (bs : id * id) : id := combine_ids (fst bs) (snd bs).
Definition cmatch (pfx : id) (bs : id * id) := is_prefix pfx (cid_of bs).

Lemma cid_of_pair (b s : id) : cid_of (b, s) = combine_ids b s.
Proof. reflexivity. Qed.

Lemma cmatches_map pfx pop :
  cmatches_in pfx pop = map (fun bs => (fst bs, cid_of bs)) (filter (fun bs => prefixb pfx (cid_of bs)) (all_comments pop)).
Proof. unfold cmatches_in, all_comments. induction pop as [|b pop IH]; [reflexivity|].
  cbn [flat_map]. rewrite filter_app, map_app, <- IH. f_equal.
  unfold comment_cids. induction (snd b) as [|s l IHl]; [reflexivity|].
  cbn [map filter]. rewrite cid_of_pair.
  destruct (prefixb pfx (combine_ids (fst b) s)); cbn [map]; rewrite IHl; reflexivity. Qed.

Theorem comment_sound_complete pop pfx : wf_pop pop -> NoDup (all_comments pop) ->
  (* a prefix that identifies a single comment resolves to it and to its bug *)
  (forall bs, In bs (all_comments pop) -> cmatch pfx bs ->
     (forall bs', In bs' (all_comments pop) -> cmatch pfx bs' -> bs' = bs) ->
     resolve_comment pop pfx = CFound (fst bs) (cid_of bs)) /\
  (* and whatever it resolves to is the single comment the prefix identifies *)
  (forall b c, resolve_comment pop pfx = CFound b c ->
     exists s, c = combine_ids b s /\ In (b, s) (all_comments pop) /\ is_prefix pfx c /\
               forall bs', In bs' (all_comments pop) -> cmatch pfx bs' -> bs' = (b, s)) /\
  (resolve_comment pop pfx = CNone <-> forall bs, In bs (all_comments pop) -> ~ cmatch pfx bs) /\
  (forall l, resolve_comment pop pfx = CMultiple l ->
     forall b, In b l <-> exists s, In (b, s) (all_comments pop) /\ cmatch pfx (b, s)).
Proof. intros W ND. unfold resolve_comment. rewrite (cands_lose_nothing pop pfx W), cmatches_map.
  set (g := fun bs : id * id => prefixb pfx (cid_of bs)).
  assert (Hm : forall bs, In bs (filter g (all_comments pop)) <-> In bs (all_comments pop) /\ cmatch pfx bs).
  { intros bs. unfold g, cmatch. rewrite filter_In, prefixb_spec. tauto. }
  assert (NDm : NoDup (filter g (all_comments pop))) by (apply NoDup_filter; exact ND).
  destruct (filter g (all_comments pop)) as [|x [|y t]] eqn:E; cbn [map length Nat.ltb Nat.leb Nat.eqb].
  - split; [|split; [|split]].
    + intros bs Hi Hc _. exfalso. apply (proj2 (Hm bs)); auto.
    + discriminate.
    + split; [|reflexivity]. intros _ bs Hi Hc. apply (proj2 (Hm bs)); auto.
    + discriminate.
  - split; [|split; [|split]].
    + intros bs Hi Hc _. destruct (proj2 (Hm bs) (conj Hi Hc)) as [->|[]]. reflexivity.
    + intros b c H. inversion H; subst. exists (snd x). destruct (proj1 (Hm x) (or_introl eq_refl)) as [Hi Hc].
      split; [reflexivity|]. split; [rewrite <- surjective_pairing; exact Hi|]. split; [exact Hc|].
      intros bs' Hi' Hc'. destruct (proj2 (Hm bs') (conj Hi' Hc')) as [<-|[]]. apply surjective_pairing.
    + split; [discriminate|]. intros H. exfalso. destruct (proj1 (Hm x) (or_introl eq_refl)) as [Hi Hc]. exact (H x Hi Hc).
    + discriminate.
  - split; [|split; [|split]].
    + intros bs Hi Hc U. exfalso. inversion NDm as [|? ? Hn _]; subst. apply Hn.
      destruct (proj1 (Hm x) (or_introl eq_refl)) as [Hix Hcx].
      destruct (proj1 (Hm y) (or_intror (or_introl eq_refl))) as [Hiy Hcy].
      rewrite (U x Hix Hcx), <- (U y Hiy Hcy). now left.
    + discriminate.
    + split; [discriminate|]. intros H. exfalso. destruct (proj1 (Hm x) (or_introl eq_refl)) as [Hi Hc]. exact (H x Hi Hc).
    + intros l H. inversion H as [H']. clear H H'. intros b.
      change (fst x :: fst y :: map fst (map (fun bs : id * id => (fst bs, cid_of bs)) t))
        with (map fst (map (fun bs : id * id => (fst bs, cid_of bs)) (x :: y :: t))).
      rewrite map_map. cbn [fst]. rewrite in_map_iff. split.
      * intros (bs & <- & Hi). apply Hm in Hi. exists (snd bs). rewrite <- surjective_pairing. exact Hi.
      * intros (s0 & Hi & Hc). exists (b, s0). split; [reflexivity|]. apply Hm. auto. Qed.

End Ids.
Print Assumptions C13_separate_prefix.
Print Assumptions comment_sound_complete.
