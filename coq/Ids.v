From Coq Require Import List Arith Bool Lia.
Import ListNotations.

Section Ids.
Variable sym : Type.

(* pattern: true = take from secondary *)
Definition is_secondary (i : nat) : bool :=
  Nat.eqb i 1 || Nat.eqb i 3 || Nat.eqb i 5 || Nat.eqb i 9 || (Nat.leb 10 i && Nat.eqb (i mod 5) 4).
Definition pattern : list bool := map is_secondary (seq 0 64).

Fixpoint combine_pat (pat : list bool) (p s : list sym) : list sym :=
  match pat with
  | [] => []
  | true :: pat' => match s with x :: s' => x :: combine_pat pat' p s' | [] => [] end
  | false :: pat' => match p with x :: p' => x :: combine_pat pat' p' s | [] => [] end
  end.
Fixpoint separate_pat (pat : list bool) (x : list sym) : list sym * list sym :=
  match pat, x with
  | b :: pat', c :: x' => let '(p, s) := separate_pat pat' x' in if b then (p, c :: s) else (c :: p, s)
  | _, _ => ([], [])
  end.

Definition count_true (l : list bool) := length (filter (fun b => b) l).
Definition count_false (l : list bool) := length (filter negb l).

(* any prefix of a combined id splits into a prefix of each part *)
Theorem separate_prefix pat : forall p s k,
  count_false pat <= length p -> count_true pat <= length s -> k <= length pat ->
  separate_pat pat (firstn k (combine_pat pat p s)) =
  (firstn (count_false (firstn k pat)) p, firstn (count_true (firstn k pat)) s).
Proof. unfold count_true, count_false. induction pat as [|b pat IH]; intros p s k Hp Hs Hk.
  - destruct k; reflexivity.
  - destruct k as [|k]; [reflexivity|]. cbn [length] in Hk. destruct b; cbn [filter negb length] in Hp, Hs.
    + destruct s as [|x s']; [cbn [length] in Hs; lia|]. cbn [combine_pat firstn separate_pat length] in *.
      rewrite IH by lia. cbn [filter negb length firstn]. reflexivity.
    + destruct p as [|x p']; [cbn [length] in Hp; lia|]. cbn [combine_pat firstn separate_pat length] in *.
      rewrite IH by lia. cbn [filter negb length firstn]. reflexivity. Qed.

Lemma pattern_counts : count_false pattern = 50 /\ count_true pattern = 14 /\ length pattern = 64.
Proof. vm_compute. auto. Qed.

Definition combine_ids := combine_pat pattern.
Definition separate_ids := separate_pat pattern.

Corollary C13_separate_prefix p s k : length p = 64 -> length s = 64 -> k <= 64 ->
  separate_ids (firstn k (combine_ids p s)) =
  (firstn (count_false (firstn k pattern)) p, firstn (count_true (firstn k pattern)) s).
Proof. intros Hp Hs Hk. destruct pattern_counts as (A & B & C). apply separate_prefix; lia. Qed.
End Ids.
Print Assumptions C13_separate_prefix.
